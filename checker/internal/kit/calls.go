package kit

import (
	"go/types"
	"strings"

	"golang.org/x/tools/go/ssa"
)

// CallName names the callee of a call instruction by resolved identity:
// static callee  -> "(*frac.FileWriter).Write", "os.Rename"
// interface call -> "(io.Writer).Write" (the method's full name)
// builtin        -> "builtin.append"
// closure value  -> the closure's name when the value is a MakeClosure/Function, else "dynamic"
func CallName(c ssa.CallInstruction) string {
	cc := c.Common()
	if cc.IsInvoke() {
		return CleanName(cc.Method.FullName())
	}
	switch v := cc.Value.(type) {
	case *ssa.Function:
		return FuncName(v)
	case *ssa.MakeClosure:
		if f, ok := v.Fn.(*ssa.Function); ok {
			return FuncName(f)
		}
	case *ssa.Builtin:
		return "builtin." + v.Name()
	case *ssa.Parameter:
		return "dynamic:" + v.Name()
	case *ssa.FreeVar:
		return "dynamic:" + v.Name()
	case *ssa.UnOp:
		// call through a captured / address-taken function variable
		switch a := v.X.(type) {
		case *ssa.FreeVar:
			return "dynamic:" + a.Name()
		case *ssa.Alloc:
			if a.Comment != "" {
				return "dynamic:" + a.Comment
			}
		}
	}
	return "dynamic"
}

// StaticCallee returns the function called (static call or call of a closure literal), origin of generics.
func StaticCallee(c ssa.CallInstruction) *ssa.Function {
	cc := c.Common()
	if cc.IsInvoke() {
		return nil
	}
	var f *ssa.Function
	switch v := cc.Value.(type) {
	case *ssa.Function:
		f = v
	case *ssa.MakeClosure:
		f, _ = v.Fn.(*ssa.Function)
	}
	if f != nil && f.Origin() != nil {
		f = f.Origin()
	}
	return f
}

// Matcher selects call sites.
type Matcher func(c ssa.CallInstruction) bool

// Callee matches calls whose CallName is one of names.
func Callee(names ...string) Matcher {
	set := map[string]bool{}
	for _, n := range names {
		set[n] = true
	}
	return func(c ssa.CallInstruction) bool { return set[CallName(c)] }
}

// MethodNamed matches any call (static or interface) of a method with this
// bare name whose receiver's named type prints as recv ("" = any).
func MethodNamed(recv, name string) Matcher {
	return func(c ssa.CallInstruction) bool {
		n := CallName(c)
		if !strings.HasSuffix(n, ")."+name) {
			return false
		}
		if recv == "" {
			return true
		}
		return strings.HasPrefix(n, "("+recv+")") || strings.HasPrefix(n, "(*"+recv+")")
	}
}

// Or combines matchers.
func Or(ms ...Matcher) Matcher {
	return func(c ssa.CallInstruction) bool {
		for _, m := range ms {
			if m(c) {
				return true
			}
		}
		return false
	}
}

// CallsIn lists call instructions (call, go, defer) of fn in block/instruction order.
func CallsIn(fn *ssa.Function, m Matcher) []ssa.CallInstruction {
	var out []ssa.CallInstruction
	if fn == nil {
		return nil
	}
	for _, b := range fn.Blocks {
		for _, in := range b.Instrs {
			if c, ok := in.(ssa.CallInstruction); ok && (m == nil || m(c)) {
				out = append(out, c)
			}
		}
	}
	return out
}

// CallsInAll is CallsIn over fn and its nested closures.
func CallsInAll(fn *ssa.Function, m Matcher) []ssa.CallInstruction {
	var out []ssa.CallInstruction
	if fn == nil {
		return nil
	}
	for _, f := range WithClosures(fn) {
		out = append(out, CallsIn(f, m)...)
	}
	return out
}

// Reaches matches calls whose static callee (a repo function), followed
// through static calls and closures up to depth, contains a call matching m.
// The call itself matching m also counts.
func (p *Prog) Reaches(m Matcher, depth int) Matcher {
	memo := map[*ssa.Function]map[int]bool{}
	var has func(fn *ssa.Function, d int) bool
	has = func(fn *ssa.Function, d int) bool {
		if fn == nil || fn.Blocks == nil || !p.InRepo(fn) {
			return false
		}
		if mm, ok := memo[fn]; ok {
			if v, ok := mm[d]; ok {
				return v
			}
		} else {
			memo[fn] = map[int]bool{}
		}
		memo[fn][d] = false
		res := false
		for _, f := range WithClosures(fn) {
			for _, c := range CallsIn(f, nil) {
				if m(c) {
					res = true
					break
				}
				if d > 0 {
					if cal := StaticCallee(c); cal != nil && has(cal, d-1) {
						res = true
						break
					}
				}
			}
			if res {
				break
			}
		}
		memo[fn][d] = res
		return res
	}
	return func(c ssa.CallInstruction) bool {
		if m(c) {
			return true
		}
		return has(StaticCallee(c), depth)
	}
}

// ErrorResult returns the SSA value carrying the error result of call c
// (the call itself for a single error result, the Extract for tuples), or nil.
func ErrorResult(c ssa.CallInstruction) ssa.Value {
	v := c.Value()
	if v == nil {
		return nil
	}
	sig := c.Common().Signature()
	res := sig.Results()
	if res.Len() == 0 {
		return nil
	}
	last := res.Len() - 1
	if !IsErrorType(res.At(last).Type()) {
		return nil
	}
	if res.Len() == 1 {
		return v
	}
	for _, r := range *v.Referrers() {
		if e, ok := r.(*ssa.Extract); ok && e.Index == last {
			return e
		}
	}
	return nil
}

// ResultN returns the Extract of result i of a tuple-returning call (or the call for single results).
func ResultN(c ssa.CallInstruction, i int) ssa.Value {
	v := c.Value()
	if v == nil {
		return nil
	}
	if c.Common().Signature().Results().Len() == 1 {
		if i == 0 {
			return v
		}
		return nil
	}
	for _, r := range *v.Referrers() {
		if e, ok := r.(*ssa.Extract); ok && e.Index == i {
			return e
		}
	}
	return nil
}

var errorType = types.Universe.Lookup("error").Type()

// IsErrorType reports whether t is the predeclared error interface.
func IsErrorType(t types.Type) bool { return types.Identical(t, errorType) }

// ---------------------------------------------------------------------------
// fatal sinks

var fatalNames = map[string]bool{
	"builtin.panic":                   true,
	"logger.Panic":                    true,
	"logger.Fatal":                    true,
	"os.Exit":                         true,
	"log.Fatal":                       true,
	"log.Fatalf":                      true,
	"log.Panic":                       true,
	"log.Panicf":                      true,
	"(*go.uber.org/zap.Logger).Fatal": true,
	"(*go.uber.org/zap.Logger).Panic": true,
	"(*go.uber.org/zap.SugaredLogger).Fatalf": true,
	"(*go.uber.org/zap.SugaredLogger).Panicf": true,
	"(*go.uber.org/zap.SugaredLogger).Fatal":  true,
	"(*go.uber.org/zap.SugaredLogger).Panic":  true,
}

// IsFatalCall: explicit panic/fatal sinks known to the engines.
func IsFatalCall(c ssa.CallInstruction) bool {
	if _, ok := c.(*ssa.Call); !ok {
		return false
	}
	return fatalNames[CallName(c)]
}

// IsFatalInstr covers the ssa.Panic instruction (builtin panic) and fatal calls.
func IsFatalInstr(in ssa.Instruction) bool {
	if _, ok := in.(*ssa.Panic); ok {
		return true
	}
	if c, ok := in.(ssa.CallInstruction); ok {
		return IsFatalCall(c)
	}
	return false
}

// FatalSites lists explicit fatal sinks in fn (not descending into callees).
func FatalSites(fn *ssa.Function) []ssa.Instruction {
	var out []ssa.Instruction
	for _, b := range fn.Blocks {
		for _, in := range b.Instrs {
			if IsFatalInstr(in) {
				out = append(out, in)
			}
		}
	}
	return out
}

// Callers returns the call instructions in repo functions whose static callee is fn.
func (p *Prog) Callers(fn *ssa.Function) []ssa.CallInstruction {
	var out []ssa.CallInstruction
	for _, f := range p.Funcs {
		for _, c := range CallsIn(f, nil) {
			if StaticCallee(c) == fn {
				out = append(out, c)
			}
		}
	}
	return out
}

// FuncValueUses returns places where fn is used as a value other than being called
// directly (method values, passing as callback).
func (p *Prog) FuncValueUses(fn *ssa.Function) []ssa.Instruction {
	var out []ssa.Instruction
	for _, f := range p.Funcs {
		for _, b := range f.Blocks {
			for _, in := range b.Instrs {
				for _, op := range in.Operands(nil) {
					if *op == ssa.Value(fn) {
						if c, ok := in.(ssa.CallInstruction); ok && c.Common().Value == ssa.Value(fn) {
							// direct call; but fn may also be an argument
							isArg := false
							for _, a := range c.Common().Args {
								if a == ssa.Value(fn) {
									isArg = true
								}
							}
							if !isArg {
								continue
							}
						}
						out = append(out, in)
					}
				}
			}
		}
	}
	return out
}

// Receiver returns the receiver value of a method call (static or interface), or nil.
func Receiver(c ssa.CallInstruction) ssa.Value {
	cc := c.Common()
	if cc.IsInvoke() {
		return cc.Value
	}
	if f := StaticCallee(c); f != nil && f.Signature.Recv() != nil && len(cc.Args) > 0 {
		return cc.Args[0]
	}
	return nil
}

// Arg returns the i-th argument not counting the receiver.
func Arg(c ssa.CallInstruction, i int) ssa.Value {
	cc := c.Common()
	args := cc.Args
	if !cc.IsInvoke() {
		if f := StaticCallee(c); f != nil && f.Signature.Recv() != nil && len(args) > 0 {
			args = args[1:]
		}
	}
	if i < len(args) {
		return args[i]
	}
	return nil
}

// OnField restricts a matcher to calls whose receiver is (a load of, or the
// address of) field typ.field, possibly through conversions.
func OnField(m Matcher, typ, field string) Matcher {
	return func(c ssa.CallInstruction) bool {
		if !m(c) {
			return false
		}
		return ValueIsField(Receiver(c), typ, field)
	}
}

// ValueIsField: v is a load of typ.field, its address, or a conversion of those.
func ValueIsField(v ssa.Value, typ, field string) bool {
	for i := 0; v != nil && i < 8; i++ {
		switch x := v.(type) {
		case *ssa.UnOp:
			if IsFieldAddr(x.X, typ, field) {
				return true
			}
			v = x.X
			continue
		case *ssa.FieldAddr:
			if IsFieldAddr(x, typ, field) {
				return true
			}
			return false
		case *ssa.Field:
			return IsFieldAddr(x, typ, field)
		case *ssa.MakeInterface:
			v = x.X
			continue
		case *ssa.ChangeType:
			v = x.X
			continue
		case *ssa.ChangeInterface:
			v = x.X
			continue
		case *ssa.Convert:
			v = x.X
			continue
		}
		return false
	}
	return false
}
