package props

import (
	"go/token"
	"sort"
	"strings"

	"golang.org/x/tools/go/ssa"

	. "seqverif/internal/kit"
)

func init() {
	register(&PropInfo{
		ID:          "C11",
		Title:       "Whatever the indexer tokenizes, the query language can find",
		Explanation: "The index-side tokenization (bytes, package tokenizer) and the query-side one (runes, package parser) are written independently. Decided: (1) word characters — the set of unicode predicates used to continue a word is the same in TextTokenizer.Tokenize, parser.parseSeqQLText and the legacy parser's isIndexed closure, and the ASCII table of the tokenizer is built from exactly a-z, A-Z, 0-9, '_' and '*' while both query sides add exactly '_' and '*'; (2) case mapping — every case-mapping call on either side belongs to the lower-casing class and is applied only when case-insensitive; (3) '_exists_' is forced case-sensitive in both parsers; (4) the tokenizer types registered for indexing that emit value tokens (keyword, text, path) are exactly the types both parsers accept; (5) both sides take their case-sensitivity from the same command-line flag; (6) tokenizer helpers never append to a view of their input. NOT decided: size limits, path prefixes, case pairs whose length changes, quoting styles.",
		Assumptions: []string{"the unicode package's predicates are compared by identity, not by their tables"},
		Obs:         c11,
	})
}

func unicodePreds(fns []*ssa.Function) []string {
	set := map[string]bool{}
	for _, fn := range fns {
		for _, c := range CallsIn(fn, nil) {
			n := CallName(c)
			if strings.HasPrefix(n, "unicode.Is") || n == "unicode.In" {
				set[n] = true
			}
		}
	}
	var out []string
	for k := range set {
		out = append(out, k)
	}
	sort.Strings(out)
	return out
}

// runeConstsCompared: integer constants compared (==) with a rune/byte-typed value in fns.
func runeConstsCompared(fns []*ssa.Function, ops ...token.Token) map[int64]bool {
	out := map[int64]bool{}
	for _, fn := range fns {
		for _, b := range fn.Blocks {
			for _, in := range b.Instrs {
				bo, ok := in.(*ssa.BinOp)
				if !ok {
					continue
				}
				match := false
				for _, o := range ops {
					if bo.Op == o {
						match = true
					}
				}
				if !match {
					continue
				}
				if k, isK := ConstInt(bo.Y); isK {
					out[k] = true
				}
				if k, isK := ConstInt(bo.X); isK {
					out[k] = true
				}
			}
		}
	}
	return out
}

func c11() []*Ob {
	return []*Ob{
		{Prop: "C11", ID: "C11.10", Engine: "ALIAS(pooled buffer view)", Floor: 1,
			Desc:  "a parsed query owns its text: no ByteToStringUnsafe view of the bytes of a bytes.Buffer taken from a sync.Pool is returned, stored or sent — parseCompositeToken's buffer goes back to the pool on return, and a query parsed in parallel rewrites the bytes: the terms of a query built from a document's own value become another request's text",
			Check: func(c *Ctx) { noViewOfPooledBuffer(c) }},
		{Prop: "C11", ID: "C11.11", Engine: "PROV(key)", Floor: 2,
			Desc:  "index side and query side name a field alike: every key the YAML conversion stores into a seq.Mapping is built from the string parameter that carries the field's path from the root (convertMapping's path, convertMappingWithMultipleTypes' fn), not from the item's own name — for a multi-type field inside an object the secondary title would lose the parent ('pod.text' instead of 'k8s.pod.text'): tokens are written under one name and the query is checked against the other",
			Check: func(c *Ctx) { mappingKeysAreFullPaths(c) }},
		{Prop: "C11", ID: "C11.8", Engine: "TABLE(loop range)", Floor: 1,
			Desc: "the table that says which ASCII bytes need lower-casing covers the whole alphabet: the constant-bound loop of initIsUpperASCII marks exactly 'A'..'Z' inclusive (the text tokenizer skips lower-casing an all-ASCII word with no marked byte; the query side lower-cases everything) — with the last letter left out, a word whose only capital is Z is indexed as written and can no longer be found. The rule applies while the table is filled by one counting loop with constant bounds",
			Check: func(c *Ctx) {
				fn := c.Fn("tokenizer.initIsUpperASCII")
				if fn == nil {
					return
				}
				// constant folding of the initialiser gives the table itself, whatever the loop looks like
				if cells, folded := c.P.EvalTables(fn); folded {
					var marked []int64
					var table *ssa.Global
					for g, m := range cells {
						if g.Name() != "isUpperASCII" && len(cells) > 1 {
							continue
						}
						table = g
						for i, v := range m {
							if v != 0 {
								marked = append(marked, i)
							}
						}
					}
					if table != nil {
						want := map[int64]bool{}
						for ch := int64('A'); ch <= 'Z'; ch++ {
							want[ch] = true
						}
						missing, extra := 0, 0
						for _, i := range marked {
							if !want[i] {
								extra++
							}
							delete(want, i)
						}
						missing = len(want)
						if missing == 0 && extra == 0 {
							c.Site(fn.Pos(), "isUpperASCII is set for exactly 'A'..'Z' (table folded from its initialiser)")
						} else {
							c.Violation("table:isUpperASCII:range", fn.Pos(), "initIsUpperASCII does not mark exactly 'A'(65)..'Z'(90) (%d letters missing, %d other bytes marked): an ASCII capital outside the marked set is not lower-cased on the index side", missing, extra)
						}
						return
					}
				}
				lo, hi, ok := constLoopRange(fn)
				if !ok {
					c.Site(fn.Pos(), "initIsUpperASCII is not a single counting loop with constant bounds: this rule does not apply")
					return
				}
				if lo == 'A' && hi == 'Z' {
					c.Site(fn.Pos(), "isUpperASCII is set for 'A'..'Z'")
				} else {
					c.Violation("table:isUpperASCII:range", fn.Pos(), "initIsUpperASCII marks the bytes %d..%d, not 'A'(65)..'Z'(90): an ASCII capital outside the marked range is not lower-cased on the index side", lo, hi)
				}
			}},
		{Prop: "C11", ID: "C11.9", Engine: "PROV", Floor: 1,
			Desc: "a quoted literal is unquoted by the rules of its own quote: every strconv.UnquoteChar call in package parser receives as its quote argument the byte the literal was opened with (it derives, through parameters, from the first byte of the input), not a constant — with '\"' hard-wired, a single-quoted value with an escaped apostrophe no longer parses and one with a double quote is silently changed, so the keyword value that was indexed cannot be asked for in that quoting style",
			Check: func(c *Ctx) {
				n := 0
				for _, fn := range c.P.FuncsInPkg("parser") {
					for _, call := range CallsIn(fn, Callee("strconv.UnquoteChar")) {
						n++
						q := Arg(call, 1)
						if _, isK := ConstInt(q); isK {
							c.Violation("prov:UnquoteChar:quote:"+FuncName(fn), call.Pos(), "%s calls strconv.UnquoteChar with a constant quote byte: literals opened with another quote are unquoted by the wrong rules", FuncName(fn))
							continue
						}
						own := c.P.DerivesFromIP(q, func(v ssa.Value) bool {
							switch x := v.(type) {
							case *ssa.Index:
								k, isK := ConstInt(x.Index)
								return isK && k == 0
							case *ssa.UnOp:
								if ia, ok := x.X.(*ssa.IndexAddr); ok {
									k, isK := ConstInt(ia.Index)
									return isK && k == 0
								}
							}
							return false
						})
						if own {
							c.Site(call.Pos(), "%s: the quote byte is the literal's first byte", FuncName(fn))
						} else {
							c.Violation("prov:UnquoteChar:quote:"+FuncName(fn), call.Pos(), "%s calls strconv.UnquoteChar with a quote byte that is not the first byte of the literal being unquoted", FuncName(fn))
						}
					}
				}
				if n == 0 {
					c.Site(token.NoPos, "package parser does not call strconv.UnquoteChar (nothing to check)")
				}
			}},
		{Prop: "C11", ID: "C11.1", Engine: "PAIR(char classes)", Floor: 2,
			Desc: "word characters agree: the unicode predicates that continue a word are identical on the index side (TextTokenizer.Tokenize) and both query sides (parseSeqQLText, legacy isIndexed closure); the tokenizer's ASCII table is a-z A-Z 0-9 _ *; both query sides add exactly '_' and '*'",
			Check: func(c *Ctx) {
				idx := c.Fn("(*tokenizer.TextTokenizer).Tokenize")
				q1 := c.Fn("parser.parseSeqQLText")
				q2 := c.Fn("(*parser.tokenParser).parseLiteral")
				if idx == nil || q1 == nil || q2 == nil {
					return
				}
				pi := unicodePreds(c.P.WithRunePredicates(idx))
				for _, q := range []*ssa.Function{q1, q2} {
					pq := unicodePreds(c.P.WithRunePredicates(q))
					if strings.Join(pi, ",") == strings.Join(pq, ",") && len(pi) > 0 {
						c.Site(q.Pos(), "%s continues a word on %v, like the indexer", FuncName(q), pq)
					} else {
						c.Violation("pair:wordchars:"+FuncName(q), q.Pos(), "index side continues a word on %v but %s on %v: runes in the difference are token characters on one side and separators on the other, so a document's own word does not find it", pi, FuncName(q), pq)
					}
				}
				foldedTable := false
				if init := c.P.Func("tokenizer.initIsTextToken"); init != nil {
					if cells, folded := c.P.EvalTables(init); folded && len(cells) == 1 {
						foldedTable = true
						want := map[int64]bool{'_': true, '*': true}
						for ch := int64('a'); ch <= 'z'; ch++ {
							want[ch] = true
							want[ch-'a'+'A'] = true
						}
						for ch := int64('0'); ch <= '9'; ch++ {
							want[ch] = true
						}
						missing, extra := 0, 0
						for _, m := range cells {
							for i, v := range m {
								if v == 0 {
									continue
								}
								if !want[i] {
									extra++
								}
								delete(want, i)
							}
						}
						missing = len(want)
						if missing == 0 && extra == 0 {
							c.Site(init.Pos(), "ASCII token table is a-z A-Z 0-9 _ * (table folded from its initialiser)")
						} else {
							c.Violation("pair:wordchars:ascii-table", init.Pos(), "the tokenizer's ASCII table is no longer exactly a-z, A-Z, 0-9, '_' and '*' (%d missing, %d extra bytes): it disagrees with the rune classes of the query parsers", missing, extra)
						}
					}
				}
				if init := c.Fn("tokenizer.initIsTextToken"); init != nil && !foldedTable {
					got := runeConstsCompared([]*ssa.Function{init}, token.EQL, token.LEQ, token.GEQ, token.LSS, token.GTR)
					want := []int64{'a', 'z', 'A', 'Z', '0', '9', '_', '*'}
					ok := true
					for _, w := range want {
						if !got[w] {
							ok = false
						}
					}
					extra := 0
					for k := range got {
						if k != 256 && k != 0 {
							found := false
							for _, w := range want {
								if w == k {
									found = true
								}
							}
							if !found {
								extra++
							}
						}
					}
					if ok && extra == 0 {
						c.Site(init.Pos(), "ASCII token table is built from a-z A-Z 0-9 _ *")
					} else {
						c.Violation("pair:wordchars:ascii-table", init.Pos(), "the tokenizer's ASCII table is no longer built from exactly a-z, A-Z, 0-9, '_' and '*' (missing=%v, extra bounds=%d): it disagrees with the rune classes of the query parsers", !ok, extra)
					}
				}
				for _, q := range []*ssa.Function{q1, q2} {
					got := runeConstsCompared(c.P.WithRunePredicates(q), token.EQL)
					if got['_'] && got['*'] {
						c.Site(q.Pos(), "%s treats '_' and '*' as word characters", FuncName(q))
					} else {
						c.Violation("pair:wordchars:punct:"+FuncName(q), q.Pos(), "%s no longer treats both '_' and '*' as word characters although the indexer does", FuncName(q))
					}
				}
			}},
		{Prop: "C11", ID: "C11.2", Engine: "PAIR(case mapping)", Floor: 2,
			Desc: "case mapping: tokenizer and parser only ever lower-case (no upper/title/fold mapping) and only when case-insensitive: Literal.appendTerm lower-cases under !sensitive, the tokenizers call their lower-casing helper under !caseSensitive",
			Check: func(c *Ctx) {
				bad := Callee("strings.ToUpper", "strings.ToTitle", "strings.Title", "bytes.ToUpper", "bytes.ToTitle", "unicode.ToUpper", "unicode.ToTitle", "unicode.SimpleFold")
				n := 0
				for _, pk := range []string{"tokenizer", "parser"} {
					for _, fn := range c.P.FuncsInPkg(pk) {
						for _, call := range CallsIn(fn, bad) {
							n++
							c.Violation("pair:case:"+FuncName(fn)+":"+CallName(call), call.Pos(), "%s uses %s: the other side only lower-cases", FuncName(fn), CallName(call))
						}
					}
				}
				if n == 0 {
					c.Site(token.NoPos, "tokenizer and parser use lower-casing only")
				}
				if fn := c.Fn("(*parser.Literal).appendTerm"); fn != nil {
					for _, l := range CallsIn(fn, Callee("strings.ToLower")) {
						v, found := BoolFact(FactsAtInstr(l.(ssa.Instruction)), func(x ssa.Value) bool {
							p, ok := x.(*ssa.Parameter)
							return ok && ParamName(p) == "sensitive"
						})
						if found && !v {
							c.Site(l.Pos(), "query terms are lower-cased only when not case-sensitive")
						} else {
							c.Violation("dom:appendTerm:lower-when-insensitive", l.Pos(), "query terms are lower-cased regardless of the case-sensitivity flag")
						}
					}
					if !Current.HasCall(fn, Callee("strings.ToLower")) {
						c.Violation("dom:appendTerm:no-lower", fn.Pos(), "query terms are no longer lower-cased: case-insensitive indexing stores lower-case tokens")
					}
				}
				// the query side lower-cases a term under the sensitivity flag alone: the index side lower-cases
				// every rune, so any further condition ("only if it has an ASCII capital") leaves terms un-lowered
				for _, name := range []string{"(*parser.Literal).appendTerm", "parser.newTextTermCaseSensitive"} {
					fn := c.Fn(name)
					if fn == nil {
						continue
					}
					for _, l := range c.P.FindLifted(fn, CallSel(Callee("strings.ToLower"))) {
						extra := 0
						for _, f := range l.Facts() {
							isFlag := false
							switch x := f.Cond.(type) {
							case *ssa.Parameter:
								isFlag = strings.Contains(strings.ToLower(ParamName(x)), "sensitive")
							case *ssa.UnOp:
								if _, fname, _, ok := FieldOf(x.X); ok {
									isFlag = strings.Contains(strings.ToLower(fname), "sensitive")
								}
								if g, ok := x.X.(*ssa.Global); ok {
									isFlag = strings.Contains(strings.ToLower(g.Name()), "sensitive")
								}
							}
							if !isFlag {
								extra++
							}
						}
						if extra == 0 {
							c.Site(l.In.Pos(), "%s lower-cases under the sensitivity flag alone", name)
						} else {
							c.Violation("dom:"+name+":lower-extra-condition", l.In.Pos(), "%s lower-cases a query term only under %d condition(s) besides the case-sensitivity flag: terms for which the extra test fails (for example capitals outside ASCII) are searched as written while the index holds them lower-cased", name, extra)
						}
					}
				}
				// index side: a case *predicate* never decides whether the case *mapping* runs — unicode.IsUpper covers
				// category Lu only, while ToLower also changes title-case letters and letter-like numerals
				for _, fn := range c.P.FuncsInPkg("tokenizer") {
					maps := c.P.HasCall(fn, Callee("unicode.ToLower", "unicode.To", "bytes.ToLower", "bytes.Map", "strings.ToLower"))
					if !maps {
						continue
					}
					for _, call := range CallsIn(fn, Callee("unicode.IsUpper", "unicode.IsLower", "unicode.IsTitle")) {
						c.Violation("pair:case:predicate-gates-mapping:"+FuncName(fn), call.Pos(), "%s asks %s before lower-casing: runes that ToLower changes but the predicate does not cover (title-case digraphs, roman numerals, circled capitals) stay as they are in the index while the query side lower-cases them", FuncName(fn), CallName(call))
					}
					// the predicate handed over as a function value (bytes.ContainsFunc(x, unicode.IsUpper), IndexFunc, ...) gates just the same
					for _, ff := range WithClosures(fn) {
						for _, b := range ff.Blocks {
							for _, in := range b.Instrs {
								if _, isCall := in.(ssa.CallInstruction); !isCall {
									continue
								}
								for _, op := range in.Operands(nil) {
									if op == nil || *op == nil {
										continue
									}
									if f, isFn := (*op).(*ssa.Function); isFn && f.Pkg != nil && f.Pkg.Pkg.Path() == "unicode" && (f.Name() == "IsUpper" || f.Name() == "IsLower" || f.Name() == "IsTitle") {
										if cl := in.(ssa.CallInstruction); cl.Common().Value == *op {
											continue // a direct call: reported above
										}
										c.Violation("pair:case:predicate-gates-mapping:"+FuncName(fn), in.Pos(), "%s hands unicode.%s to a scanning function before lower-casing: runes that ToLower changes but the predicate does not cover (title-case digraphs, roman numerals, circled capitals) stay as they are in the index while the query side lower-cases them", FuncName(fn), f.Name())
									}
								}
							}
						}
					}
				}
				// index side: every value token of the keyword and path tokenizers goes through the lower-casing helper
				for _, name := range []string{"(*tokenizer.KeywordTokenizer).Tokenize", "(*tokenizer.PathTokenizer).Tokenize"} {
					fn := c.Fn(name)
					if fn == nil {
						continue
					}
					lower := Callee("tokenizer.toLowerIfCaseInsensitive", "tokenizer.toLowerTryInplace")
					n := 0
					for _, in := range InstrsIn(fn, FieldStore("frac.MetaToken", "Value")) {
						n++
						st := in.(*ssa.Store)
						if DerivesFrom(st.Val, func(v ssa.Value) bool {
							cl, ok := v.(ssa.CallInstruction)
							return ok && lower(cl)
						}) {
							c.Site(st.Pos(), "%s emits a value that went through the lower-casing helper", name)
						} else {
							c.Violation("prov:"+name+":token-not-lowered", st.Pos(), "%s emits a token value that did not go through the lower-casing helper: in case-insensitive mode the query side asks for the lower-cased form (an in-place lower-casing of a longer slice does not cover it when a rune changes its width)", name)
						}
					}
					if n == 0 {
						c.Undecided("prov:"+name+":no-tokens", fn.Pos(), "%s no longer stores MetaToken.Value", name)
					}
				}
				for _, name := range []string{"(*tokenizer.TextTokenizer).Tokenize", "tokenizer.toLowerIfCaseInsensitive"} {
					fn := c.Fn(name)
					if fn == nil {
						continue
					}
					for _, l := range CallsIn(fn, Callee("tokenizer.toLowerTryInplace")) {
						facts := FactsAtInstr(l.(ssa.Instruction))
						ok := false
						for _, f := range facts {
							if u, isU := f.Cond.(*ssa.UnOp); isU && IsFieldAddr(u.X, "tokenizer.TextTokenizer", "caseSensitive") && !f.Val {
								ok = true
							}
							if p, isP := f.Cond.(*ssa.Parameter); isP && ParamName(p) == "isCaseSensitive" && !f.Val {
								ok = true
							}
						}
						if ok {
							c.Site(l.Pos(), "%s lower-cases only when not case-sensitive", name)
						} else {
							c.Violation("dom:"+name+":lower-when-insensitive", l.Pos(), "%s lower-cases a token regardless of the case-sensitivity setting", name)
						}
					}
				}
			}},
		{Prop: "C11", ID: "C11.7", Engine: "PROV(verbatim)", Floor: 1,
			Desc: "a raw (back-quoted) query string is the bytes between the quotes: on the path of lexer.Next that marks the token as a raw string, the token text is a sub-slice of the input or of what strconv.QuotedPrefix cut off it — no unquoting function in between (strconv.Unquote follows Go's raw-string rule and deletes every carriage return, so a keyword value with a CR that was indexed verbatim can no longer be asked for)",
			Check: func(c *Ctx) {
				fn := c.Fn("(*parser.lexer).Next")
				if fn == nil {
					return
				}
				n := 0
				for _, rs := range c.P.FindLifted(fn, func(in ssa.Instruction) bool {
					st, ok := in.(*ssa.Store)
					if !ok || !IsFieldAddr(st.Addr, "parser.lexer", "rawString") {
						return false
					}
					v, isK := ConstBool(st.Val)
					return isK && v
				}) {
					host := rs.In.Parent()
					for _, ts := range InstrsIn(host, FieldStore("parser.lexer", "Token")) {
						if !Dominates(ts, rs.In) && !Dominates(rs.In, ts) {
							continue
						}
						v := ts.(*ssa.Store).Val
						if _, isConst := v.(*ssa.Const); isConst {
							continue // the reset of the token at the top of Next
						}
						n++
						for {
							sl, ok := v.(*ssa.Slice)
							if !ok {
								break
							}
							v = sl.X
						}
						ok := false
						switch x := v.(type) {
						case *ssa.Extract:
							if cl, isCall := x.Tuple.(*ssa.Call); isCall && CallName(cl) == "strconv.QuotedPrefix" {
								ok = true
							}
						case *ssa.UnOp:
							ok = IsFieldAddr(x.X, "parser.lexer", "q")
						case *ssa.Parameter:
							ok = true
						}
						if ok {
							c.Site(ts.Pos(), "the raw string token is a sub-slice of the input")
						} else {
							c.Violation("prov:lexer.Next:raw-verbatim", ts.Pos(), "the text of a back-quoted token is not a plain sub-slice of the input (it goes through %s): bytes of the value are changed on the way to the query term", Short(v.String()))
						}
					}
				}
				if n == 0 {
					c.Undecided("prov:lexer.Next:raw-none", fn.Pos(), "lexer.Next no longer marks a token as a raw string next to storing its text")
				}
			}},
		{Prop: "C11", ID: "C11.3", Engine: "SIBLING+PROV", Floor: 1,
			Desc: "'_exists_' is case-sensitive on the query side of both parsers (the indexer emits the field title un-lowered)",
			Check: func(c *Ctx) {
				for _, name := range []string{"parser.parseSeqQLFieldFilter", "(*parser.tokenParser).parseLiteral"} {
					fn := c.Fn(name)
					if fn == nil {
						continue
					}
					// every value that is handed on as "caseSensitive" (argument of a parameter of that
					// name, store into a field of that name) is true whenever fieldName == "_exists_"
					isExistsTest := func(v ssa.Value) bool {
						bo, isBo := v.(*ssa.BinOp)
						if !isBo || bo.Op != token.EQL {
							return false
						}
						sx, okx := ConstString(bo.X)
						sy, oky := ConstString(bo.Y)
						return (okx && sx == "_exists_") || (oky && sy == "_exists_")
					}
					var trueUnder func(v ssa.Value, d int) bool
					trueUnder = func(v ssa.Value, d int) bool {
						if d > 8 {
							return false
						}
						if b, isB := ConstBool(v); isB {
							return b
						}
						if isExistsTest(v) {
							return true
						}
						switch x := v.(type) {
						case *ssa.Phi:
							for i, e := range x.Edges {
								infeasible := false
								for _, f := range FactsOnEdge(x.Block().Preds[i], x.Block()) {
									if isExistsTest(f.Cond) && !f.Val {
										infeasible = true
									}
								}
								if !infeasible && !trueUnder(e, d+1) {
									return false
								}
							}
							return len(x.Edges) > 0
						case *ssa.BinOp:
							if x.Op == token.OR {
								return trueUnder(x.X, d+1) || trueUnder(x.Y, d+1)
							}
							if x.Op == token.AND {
								return trueUnder(x.X, d+1) && trueUnder(x.Y, d+1)
							}
						case *ssa.UnOp:
							if x.Op == token.MUL {
								if al, isAl := x.X.(*ssa.Alloc); isAl {
									n := 0
									for _, r := range *al.Referrers() {
										if st, isSt := r.(*ssa.Store); isSt && st.Addr == ssa.Value(al) {
											n++
											if !trueUnder(st.Val, d+1) {
												return false
											}
										}
									}
									return n > 0
								}
							}
						}
						return false
					}
					consumers, bad := 0, 0
					for _, f := range WithClosures(fn) {
						for _, call := range CallsIn(f, nil) {
							callee := StaticCallee(call)
							if callee == nil || !c.P.InRepo(callee) {
								continue
							}
							args := call.Common().Args
							for i, p := range callee.Params {
								if ParamName(p) == "caseSensitive" && i < len(args) {
									consumers++
									if !trueUnder(args[i], 0) {
										bad++
										c.Violation("sibling:"+name+":exists-case", call.Pos(), "%s passes a case-sensitivity flag to %s that is not forced to true for the _exists_ field: field names are indexed un-lowered, so _exists_:CamelCase would not match when the store is case-insensitive", name, FuncName(callee))
									}
								}
							}
						}
						for _, in := range InstrsIn(f, func(in ssa.Instruction) bool {
							st, isSt := in.(*ssa.Store)
							if !isSt {
								return false
							}
							fa, isFa := st.Addr.(*ssa.FieldAddr)
							if !isFa {
								return false
							}
							_, fname, _, okf := FieldOf(fa)
							return okf && fname == "caseSensitive"
						}) {
							consumers++
							if !trueUnder(in.(*ssa.Store).Val, 0) {
								bad++
								c.Violation("sibling:"+name+":exists-case", in.Pos(), "%s stores a case-sensitivity flag that is not forced to true for the _exists_ field: field names are indexed un-lowered, so _exists_:CamelCase would not match when the store is case-insensitive", name)
							}
						}
					}
					ok := consumers > 0 && bad == 0
					if consumers == 0 {
						c.Undecided("sibling:"+name+":exists-case:none", fn.Pos(), "%s hands no case-sensitivity flag on any more", name)
						continue
					}
					if bad > 0 {
						continue
					}
					if ok {
						c.Site(fn.Pos(), "%s forces case-sensitive matching for _exists_", name)
					} else {
						c.Violation("sibling:"+name+":exists-case", fn.Pos(), "%s no longer forces case-sensitive matching for the _exists_ field: field names are indexed un-lowered, so _exists_:CamelCase would not match when the store is case-insensitive", name)
					}
				}
			}},
		{Prop: "C11", ID: "C11.4", Engine: "ENUM", Floor: 1,
			Desc: "same types on both sides: the tokenizer types bulk.NewIngestor registers that emit value tokens (keyword, text, path) are the types both parsers' switches accept",
			Check: func(c *Ctx) {
				uni := c.P.EnumConsts("seq", "TokenizerType")
				reg := map[int64]bool{}
				if fn := c.Fn("proxy/bulk.NewIngestor"); fn != nil {
					for _, b := range fn.Blocks {
						for _, in := range b.Instrs {
							if mu, ok := in.(*ssa.MapUpdate); ok {
								if k, isK := ConstInt(mu.Key); isK && strings.Contains(TypeStr(mu.Map.Type()), "TokenizerType") {
									reg[k] = true
								}
							}
						}
					}
				}
				valueTypes := map[int64]bool{}
				for n, k := range uni {
					if reg[k] && n != "TokenizerTypeExists" {
						valueTypes[k] = true
					}
				}
				if len(valueTypes) < 3 {
					c.Undecided("enum:registered-tokenizers", token.NoPos, "cannot read the tokenizer registration in bulk.NewIngestor (found %d value types)", len(valueTypes))
					return
				}
				for _, name := range []string{"parser.parseFulltextSearchFilter", "(*parser.tokenParser).parseLiteral"} {
					fn := c.Fn(name)
					if fn == nil {
						continue
					}
					cov := c.P.SwitchCoverageLifted(fn, func(v ssa.Value) bool { return strings.HasSuffix(TypeStr(v.Type()), "seq.TokenizerType") })
					var missing []string
					for k := range valueTypes {
						if !cov[k] {
							missing = append(missing, EnumNames(uni, map[int64]bool{k: true})...)
						}
					}
					if len(missing) == 0 {
						c.Site(fn.Pos(), "%s handles every value-token type the indexer registers %v", name, EnumNames(uni, valueTypes))
					} else {
						c.Violation("enum:"+name+":types", fn.Pos(), "%s does not handle index type(s) %v, for which the indexer emits value tokens: documents indexed that way cannot be found by value", name, missing)
					}
				}
			}},
		{Prop: "C11", ID: "C11.6", Engine: "ALIAS", Floor: 1,
			Desc: "tokenizer and indexer code never appends to a byte slice it was given (unless it returns the grown slice, append-style): field names and values are views into the shared decoder buffer or into a name built for the parent object, an in-place edit must keep its length (shared rule with C10.1)",
			Check: func(c *Ctx) {
				n, total := 0, 0
				for _, pkg := range []string{"tokenizer", "proxy/bulk"} {
					funcs := c.P.FuncsInPkg(pkg)
					total += len(funcs)
					for _, fn := range funcs {
						for _, ap := range CallsIn(fn, Callee("builtin.append")) {
							dst := ap.Common().Args[0]
							if !isByteSlice(dst) {
								continue
							}
							if !DerivesFromNoCall(dst, func(v ssa.Value) bool { p, ok := v.(*ssa.Parameter); return ok && isByteSlice(p) }) {
								continue
							}
							if sl, ok := dst.(*ssa.Slice); ok && sl.Max != nil {
								continue
							}
							// the append-style API (dst in, grown dst out) hands the result back to the owner of the buffer
							returned := false
							for _, b := range fn.Blocks {
								if ret, ok := b.Instrs[len(b.Instrs)-1].(*ssa.Return); ok {
									for i := range ret.Results {
										if DerivesFrom(RetOperand(ret, i), func(v ssa.Value) bool { return v == ap.Value() }) {
											returned = true
										}
									}
								}
							}
							// ... and grows the destination from its end: appending to a re-slice (s[:i]) overwrites live bytes
							if _, resliced := dst.(*ssa.Slice); resliced {
								returned = false
							}
							if returned {
								c.Site(ap.Pos(), "%s grows its destination parameter and returns it (append-style API)", FuncName(fn))
								continue
							}
							n++
							c.Violation("alias:"+pkg+":append-to-view:"+FuncName(fn), ap.Pos(), "%s appends to (a sub-slice of) a byte slice it was given and keeps the result: when the slice has spare capacity (a view into the decoder buffer, or a name built by an earlier append) the bytes behind it are overwritten, and a sibling field or the following word is indexed under a corrupted token", FuncName(fn))
						}
					}
				}
				if n == 0 {
					c.Site(token.NoPos, "no function of packages tokenizer and proxy/bulk appends to a view of its input (%d functions)", total)
				}
			}},
		{Prop: "C11", ID: "C11.5", Engine: "PROV", Floor: 1,
			Desc: "one switch for both sides: conf.CaseSensitive (query side) and IngestorConfig.CaseSensitive (index side) are set from the same command-line flag",
			Check: func(c *Ctx) {
				var flagSrc []ssa.Value
				for _, fn := range c.P.FuncsInPkg("cmd/seq-db") {
					for _, b := range fn.Blocks {
						for _, in := range b.Instrs {
							st, ok := in.(*ssa.Store)
							if !ok {
								continue
							}
							if g, isG := st.Addr.(*ssa.Global); isG && g.Name() == "CaseSensitive" {
								flagSrc = append(flagSrc, st.Val)
								c.Site(st.Pos(), "conf.CaseSensitive is set in %s", FuncName(fn))
							}
							if _, f, _, isF := FieldOf(st.Addr); isF && f == "CaseSensitive" {
								flagSrc = append(flagSrc, st.Val)
								c.Site(st.Pos(), "IngestorConfig.CaseSensitive is set in %s", FuncName(fn))
							}
						}
					}
				}
				if len(flagSrc) < 2 {
					c.Undecided("prov:case-flag", token.NoPos, "found %d assignments of the case-sensitivity setting in cmd/seq-db", len(flagSrc))
					return
				}
				root := func(v ssa.Value) string {
					var g string
					DerivesFrom(v, func(x ssa.Value) bool {
						if gl, ok := x.(*ssa.Global); ok {
							g = gl.Name()
							return true
						}
						return false
					})
					return g
				}
				first := root(flagSrc[0])
				for _, s := range flagSrc[1:] {
					if root(s) != first || first == "" {
						c.Violation("prov:case-flag:different-sources", token.NoPos, "index side and query side take their case-sensitivity from different flags (%s vs %s)", first, root(s))
					}
				}
			}},
	}
}

// constLoopRange: fn consists of one counting loop `for i := lo; i <= hi (or i < hi+1); i++` with constant bounds;
// returns the inclusive range of i for which the body runs.
func constLoopRange(fn *ssa.Function) (lo, hi int64, ok bool) {
	ls := Loops(fn)
	if len(ls) != 1 {
		return 0, 0, false
	}
	iff, isIf := ls[0].Header.Instrs[len(ls[0].Header.Instrs)-1].(*ssa.If)
	if !isIf {
		return 0, 0, false
	}
	bo, isBo := iff.Cond.(*ssa.BinOp)
	if !isBo {
		return 0, 0, false
	}
	phi, isPhi := bo.X.(*ssa.Phi)
	bound, isK := ConstInt(bo.Y)
	if !isPhi || !isK || len(phi.Edges) != 2 {
		return 0, 0, false
	}
	var init int64
	haveInit, step := false, false
	for _, e := range phi.Edges {
		if k, isK := ConstInt(e); isK {
			init, haveInit = k, true
		} else if inc, isInc := e.(*ssa.BinOp); isInc && inc.Op == token.ADD && inc.X == ssa.Value(phi) {
			if k, isK := ConstInt(inc.Y); isK && k == 1 {
				step = true
			}
		}
	}
	if !haveInit || !step {
		return 0, 0, false
	}
	switch bo.Op {
	case token.LEQ:
		return init, bound, true
	case token.LSS:
		return init, bound - 1, true
	}
	return 0, 0, false
}
