package fracmanager

import (
	"context"
	"math"
	"os"
	"path/filepath"
	"testing"
	"time"

	"github.com/stretchr/testify/require"

	"github.com/ozontech/seq-db/frac"
	"github.com/ozontech/seq-db/frac/processor"
	"github.com/ozontech/seq-db/parser"
	"github.com/ozontech/seq-db/seq"
	"github.com/ozontech/seq-db/tests/common"
)

type findF8Mapping struct{}

func (findF8Mapping) GetMapping() seq.Mapping { return seq.TestMapping }

func findF8AddDoc(t *testing.T, fm *FracManager, id int, tokens ...string) {
	dp := frac.NewDocProvider()
	dp.Append([]byte(`{"doc":"x"}`), nil, seq.SimpleID(id), seq.Tokens(append(tokens, "_all_:")...))
	docs, metas := dp.Provide()
	require.NoError(t, fm.Append(context.Background(), docs, metas))
}


// F8: a document that is present in two fractions (a re-delivered bulk that landed after a rotation) is
// de-duplicated when partial results are merged, and its histogram bucket is decremented.
// AsyncSearcher.FetchSearchResult merged with the constant histogram interval 1 instead of the stored one:
// the bucket of the sync search is left over-counted and a bogus key (the raw MID) is decremented
// (uint64 underflow; with no histogram at all the decrement hits a nil map).
func TestF8AsyncHistogramEqualsSyncWithRepeats(t *testing.T) {
	dataDir := common.GetTestTmpDir(t)
	common.RecreateDir(dataDir)
	defer common.RemoveDir(dataDir)

	require.NoError(t, os.MkdirAll(filepath.Join(dataDir, "fracs"), 0o777))
	fm, err := newFracManagerWithBackgroundStart(&Config{
		FracSize:     1000,
		TotalSize:    1000000,
		ShouldReplay: false,
		DataDir:      filepath.Join(dataDir, "fracs"),
	})
	require.NoError(t, err)
	defer fm.Stop()

	findF8AddDoc(t, fm, 1001, "service:a")
	findF8AddDoc(t, fm, 1002, "service:a")
	fm.WaitIdle()
	fm.SealForcedForTests()
	fm.WaitIdle()
	findF8AddDoc(t, fm, 1002, "service:a") // the same document again, now in the next fraction
	findF8AddDoc(t, fm, 2003, "service:a")
	fm.WaitIdle()

	const query = `service:a`
	params := processor.SearchParams{
		HistInterval: 1000,
		From:         0,
		To:           seq.MID(math.MaxInt64),
		Limit:        math.MaxInt32,
		Order:        seq.DocsOrderDesc,
	}
	ast, err := parser.ParseSeqQL(query, seq.TestMapping)
	require.NoError(t, err)
	syncParams := params
	syncParams.AST = ast.Root
	syncQPR, err := NewSearcher(1, SearcherCfg{}).SearchDocs(context.Background(), fm.GetAllFracs(), syncParams)
	require.NoError(t, err)
	require.Equal(t, map[seq.MID]uint64{1000: 2, 2000: 1}, syncQPR.Histogram)

	const id = "find-f8"
	as := MustStartAsync(AsyncSearcherConfig{DataDir: filepath.Join(dataDir, "async"), Parallelism: 1}, findF8Mapping{}, fm)
	require.NoError(t, as.StartSearch(AsyncSearchRequest{ID: id, Query: query, Params: params, Retention: time.Hour}))
	var resp FetchSearchResultResponse
	deadline := time.Now().Add(30 * time.Second)
	for {
		var ok bool
		resp, ok = as.FetchSearchResult(FetchSearchResultRequest{ID: id})
		require.True(t, ok)
		if resp.Done {
			break
		}
		require.True(t, time.Now().Before(deadline), "async search is not done")
		time.Sleep(20 * time.Millisecond)
	}
	require.Equal(t, syncQPR.IDs.IDs(), resp.QPR.IDs.IDs())
	require.Equal(t, syncQPR.Histogram, resp.QPR.Histogram, "async histogram must equal the sync one")
}
