package kit

import (
	"go/token"
	"go/types"
	"strings"

	"golang.org/x/tools/go/ssa"
)

// Sel selects instructions (events) in a function body.
type Sel func(in ssa.Instruction) bool

// CallSel adapts a call matcher.
func CallSel(m Matcher) Sel {
	return func(in ssa.Instruction) bool {
		c, ok := in.(ssa.CallInstruction)
		return ok && m(c)
	}
}

// InstrsIn lists instructions of fn matching sel, in block order.
func InstrsIn(fn *ssa.Function, sel Sel) []ssa.Instruction {
	var out []ssa.Instruction
	if fn == nil {
		return nil
	}
	for _, b := range fn.Blocks {
		for _, in := range b.Instrs {
			if sel(in) {
				out = append(out, in)
			}
		}
	}
	return out
}

// InstrsInAll is InstrsIn over fn and nested closures.
func InstrsInAll(fn *ssa.Function, sel Sel) []ssa.Instruction {
	var out []ssa.Instruction
	if fn == nil {
		return nil
	}
	for _, f := range WithClosures(fn) {
		out = append(out, InstrsIn(f, sel)...)
	}
	return out
}

// NamedTypeString prints the named type behind t (pointers stripped), module prefix removed: "frac.Active".
func NamedTypeString(t types.Type) string {
	for {
		if p, ok := t.(*types.Pointer); ok {
			t = p.Elem()
			continue
		}
		break
	}
	if a, ok := t.(*types.Alias); ok {
		t = types.Unalias(a)
	}
	if n, ok := t.(*types.Named); ok {
		obj := n.Obj()
		if obj.Pkg() == nil {
			return obj.Name()
		}
		path := strings.TrimPrefix(strings.TrimPrefix(obj.Pkg().Path(), ModPath), "/")
		if path == "" {
			path = "seqdb"
		}
		name := path + "." + obj.Name()
		if old, ok := typeAlias[name]; ok {
			return old
		}
		return name
	}
	return CleanName(t.String())
}

// TypeStr is the clean, alias-aware string of a type (module prefix stripped, renamed types under their recorded names).
func TypeStr(t types.Type) string {
	s := t.String()
	s = strings.ReplaceAll(s, ModPath+"/", "")
	s = strings.ReplaceAll(s, ModPath+".", "seqdb.")
	if len(typeAlias) > 0 {
		s = applyTypeAlias(s)
	}
	return s
}

// FieldOf describes a FieldAddr/Field: owning named struct type and field name.
func FieldOf(v ssa.Value) (typ, field string, base ssa.Value, ok bool) {
	switch x := v.(type) {
	case *ssa.FieldAddr:
		st := derefStruct(x.X.Type())
		if st == nil {
			return "", "", nil, false
		}
		tn := NamedTypeString(x.X.Type())
		return tn, recordedField(tn, st.Field(x.Field).Name()), x.X, true
	case *ssa.Field:
		st, _ := x.X.Type().Underlying().(*types.Struct)
		if st == nil {
			return "", "", nil, false
		}
		tn := NamedTypeString(x.X.Type())
		return tn, recordedField(tn, st.Field(x.Field).Name()), x.X, true
	}
	return "", "", nil, false
}

// RecordedField maps a renamed struct field back to the name the rules know (ANCHORS).
func RecordedField(typ, field string) string { return recordedField(typ, field) }

func recordedField(typ, field string) string {
	if len(fieldAlias) == 0 {
		return field
	}
	if old, ok := fieldAlias[[2]string{typ, field}]; ok {
		return old
	}
	return field
}

func derefStruct(t types.Type) *types.Struct {
	if p, ok := t.Underlying().(*types.Pointer); ok {
		t = p.Elem()
	}
	st, _ := t.Underlying().(*types.Struct)
	return st
}

// IsFieldAddr reports whether v is the address of typ.field.
func IsFieldAddr(v ssa.Value, typ, field string) bool {
	t, f, _, ok := FieldOf(v)
	return ok && t == typ && f == field
}

// FieldLoad selects loads of typ.field (through a pointer or by value).
func FieldLoad(typ, field string) Sel {
	return func(in ssa.Instruction) bool {
		switch x := in.(type) {
		case *ssa.UnOp:
			return x.Op == token.MUL && IsFieldAddr(x.X, typ, field)
		case *ssa.Field:
			return IsFieldAddr(x, typ, field)
		}
		return false
	}
}

// FieldStore selects stores into typ.field.
func FieldStore(typ, field string) Sel {
	return func(in ssa.Instruction) bool {
		s, ok := in.(*ssa.Store)
		return ok && IsFieldAddr(s.Addr, typ, field)
	}
}

// IsSend selects channel sends.
func IsSend(in ssa.Instruction) bool { _, ok := in.(*ssa.Send); return ok }

// IsRecv selects channel receives (plain <-ch).
func IsRecv(in ssa.Instruction) bool {
	u, ok := in.(*ssa.UnOp)
	return ok && u.Op == token.ARROW
}

// PrecedeI: every instruction selected by b is preceded, on every path, by one
// selected by a. Both events are lifted through helper functions: a call of a
// helper that always performs a counts as a; a b that sits inside a helper is
// checked there, and if a does not precede it inside the helper, a must
// precede every call of that helper (up the static call chain to fn).
func PrecedeI(c *Ctx, fn *ssa.Function, a Sel, aName string, b Sel, bName string) int {
	p := c.P
	mustA := p.mustSel(a, liftDepth)
	// functions reachable from fn through static calls (to the lifting depth) that directly contain b
	type site struct {
		in ssa.Instruction
		fn *ssa.Function
	}
	var bs []site
	reach := map[*ssa.Function]bool{}
	var collect func(f *ssa.Function, d int)
	collect = func(f *ssa.Function, d int) {
		if f == nil || f.Blocks == nil || reach[f] || !p.InRepo(f) {
			return
		}
		reach[f] = true
		for _, in := range InstrsIn(f, b) {
			bs = append(bs, site{in, f})
		}
		if d == 0 {
			return
		}
		for _, call := range CallsIn(f, nil) {
			if _, isGo := call.(*ssa.Go); isGo {
				continue
			}
			if a(call.(ssa.Instruction)) {
				continue // the call itself is the event a: what happens inside it is part of a
			}
			collect(StaticCallee(call), d-1)
		}
	}
	// the event is looked for in fn itself first; only when it is not there any more
	// (it was moved into a helper) are the helpers searched
	for _, in := range InstrsIn(fn, b) {
		bs = append(bs, site{in, fn})
	}
	reach[fn] = true
	if len(bs) == 0 {
		reach = map[*ssa.Function]bool{}
		collect(fn, liftDepth)
	} else {
		// callers-of-helper lookups still need the reach set
		var mark func(f *ssa.Function, d int)
		mark = func(f *ssa.Function, d int) {
			if f == nil || f.Blocks == nil || !p.InRepo(f) || d < 0 {
				return
			}
			if reach[f] && f != fn {
				return
			}
			reach[f] = true
			for _, call := range CallsIn(f, nil) {
				mark(StaticCallee(call), d-1)
			}
		}
		mark(fn, liftDepth)
	}
	if len(bs) == 0 {
		c.Undecided("order-noB:"+FuncName(fn)+":"+bName, fn.Pos(), "%s (and the helpers it calls) has no %s any more", FuncName(fn), bName)
		return 0
	}
	var before func(f *ssa.Function, at ssa.Instruction, depth int) bool
	before = func(f *ssa.Function, at ssa.Instruction, depth int) bool {
		for _, ai := range InstrsIn(f, mustA) {
			if ai != at && Dominates(ai, at) {
				return true
			}
		}
		if f == fn || depth <= 0 {
			return false
		}
		// a must precede every call of f inside the reach set
		n := 0
		for g := range reach {
			for _, call := range CallsIn(g, nil) {
				if StaticCallee(call) != f {
					continue
				}
				n++
				if !before(g, call.(ssa.Instruction), depth-1) {
					return false
				}
			}
		}
		return n > 0
	}
	for _, s := range bs {
		if before(s.fn, s.in, liftDepth) {
			where := ""
			if s.fn != fn {
				where = " (in helper " + FuncName(s.fn) + ")"
			}
			c.Site(InstrPos(s.in), "%s: %s is preceded by %s on every path%s", FuncName(fn), bName, aName, where)
		} else {
			c.Violation("order:"+FuncName(fn)+":"+aName+"<"+bName, InstrPos(s.in), "in %s, %s can run without %s having run before it", FuncName(fn), bName, aName)
		}
	}
	return len(bs)
}

// DerivesFrom reports whether v is data-derived from a value satisfying src,
// following operands through conversions, arithmetic, phis, field/index
// reads, calls (result derives from any argument) and loads of allocs whose
// stores derive from it. Bounded depth.
func DerivesFrom(v ssa.Value, src func(ssa.Value) bool) bool {
	return derives(v, src, map[ssa.Value]bool{}, 0)
}

// derivesStop, when set, cuts the derivation at values it accepts (used by DerivesFromStop).
var derivesStop func(ssa.Value) bool

// DerivesFromStop is DerivesFrom that does not look behind values accepted by stop
// (for example a copying call: what it returns does not alias what it was given).
func DerivesFromStop(v ssa.Value, src, stop func(ssa.Value) bool) bool {
	old := derivesStop
	derivesStop = stop
	defer func() { derivesStop = old }()
	return derives(v, src, map[ssa.Value]bool{}, 0)
}

func derives(v ssa.Value, src func(ssa.Value) bool, seen map[ssa.Value]bool, d int) bool {
	if v == nil || seen[v] || d > 40 {
		return false
	}
	seen[v] = true
	if src(v) {
		return true
	}
	if derivesStop != nil && derivesStop(v) {
		return false
	}
	switch x := v.(type) {
	case *ssa.Phi:
		for _, e := range x.Edges {
			if derives(e, src, seen, d+1) {
				return true
			}
		}
	case *ssa.UnOp:
		if x.Op == token.MUL {
			// load: follow stores into the same alloc
			if a, ok := x.X.(*ssa.Alloc); ok {
				for _, r := range *a.Referrers() {
					if s, ok := r.(*ssa.Store); ok && s.Addr == a && derives(s.Val, src, seen, d+1) {
						return true
					}
				}
			}
		}
		return derives(x.X, src, seen, d+1)
	case *ssa.BinOp:
		return derives(x.X, src, seen, d+1) || derives(x.Y, src, seen, d+1)
	case *ssa.Convert:
		return derives(x.X, src, seen, d+1)
	case *ssa.ChangeType:
		return derives(x.X, src, seen, d+1)
	case *ssa.MakeInterface:
		return derives(x.X, src, seen, d+1)
	case *ssa.ChangeInterface:
		return derives(x.X, src, seen, d+1)
	case *ssa.TypeAssert:
		return derives(x.X, src, seen, d+1)
	case *ssa.Extract:
		return derives(x.Tuple, src, seen, d+1)
	case *ssa.Field:
		return derives(x.X, src, seen, d+1)
	case *ssa.FieldAddr:
		return derives(x.X, src, seen, d+1)
	case *ssa.IndexAddr:
		return derives(x.X, src, seen, d+1) || derives(x.Index, src, seen, d+1)
	case *ssa.Index:
		return derives(x.X, src, seen, d+1) || derives(x.Index, src, seen, d+1)
	case *ssa.Slice:
		return derives(x.X, src, seen, d+1)
	case *ssa.Lookup:
		return derives(x.X, src, seen, d+1) || derives(x.Index, src, seen, d+1)
	case *ssa.Call:
		for _, a := range x.Call.Args {
			if derives(a, src, seen, d+1) {
				return true
			}
		}
		if x.Call.IsInvoke() {
			return derives(x.Call.Value, src, seen, d+1)
		}
		// a repo helper: what it returns
		if callee := StaticCallee(x); callee != nil && callee.Blocks != nil && Current != nil && Current.InRepo(callee) && d < 12 {
			for _, b := range callee.Blocks {
				if ret, ok := b.Instrs[len(b.Instrs)-1].(*ssa.Return); ok && b != callee.Recover {
					for i := range ret.Results {
						if derives(RetOperand(ret, i), src, seen, d+8) {
							return true
						}
					}
				}
			}
		}
	case *ssa.Alloc:
		// contents stored into the allocation (directly or through element/field addresses)
		for _, r := range *x.Referrers() {
			switch y := r.(type) {
			case *ssa.Store:
				if y.Addr == ssa.Value(x) && derives(y.Val, src, seen, d+1) {
					return true
				}
			case *ssa.IndexAddr, *ssa.FieldAddr:
				for _, rr := range *y.(ssa.Value).Referrers() {
					if st, ok := rr.(*ssa.Store); ok && st.Addr == y.(ssa.Value) && derives(st.Val, src, seen, d+1) {
						return true
					}
				}
			}
		}
	case *ssa.FreeVar:
		// the value bound where the closure was made
		fn := x.Parent()
		idx := -1
		for i, fv := range fn.FreeVars {
			if fv == x {
				idx = i
			}
		}
		if par := fn.Parent(); par != nil && idx >= 0 {
			for _, b := range par.Blocks {
				for _, in := range b.Instrs {
					if mc, ok := in.(*ssa.MakeClosure); ok && mc.Fn == ssa.Value(fn) && idx < len(mc.Bindings) {
						if derives(mc.Bindings[idx], src, seen, d+1) {
							return true
						}
					}
				}
			}
		}
	case *ssa.Next:
		return derives(x.Iter, src, seen, d+1)
	case *ssa.Range:
		return derives(x.X, src, seen, d+1)
	case *ssa.MakeClosure:
		for _, b := range x.Bindings {
			if derives(b, src, seen, d+1) {
				return true
			}
		}
	}
	return false
}

// DerivesFromNoCall is DerivesFrom that does not look through call results
// (a call such as slices.Clone or maps.Clone produces a fresh value).
func DerivesFromNoCall(v ssa.Value, src func(ssa.Value) bool) bool {
	return derivesNC(v, src, map[ssa.Value]bool{}, 0)
}

func derivesNC(v ssa.Value, src func(ssa.Value) bool, seen map[ssa.Value]bool, d int) bool {
	if v == nil || seen[v] || d > 30 {
		return false
	}
	seen[v] = true
	if src(v) {
		return true
	}
	switch x := v.(type) {
	case *ssa.Phi:
		for _, e := range x.Edges {
			if derivesNC(e, src, seen, d+1) {
				return true
			}
		}
	case *ssa.UnOp:
		return derivesNC(x.X, src, seen, d+1)
	case *ssa.Slice:
		return derivesNC(x.X, src, seen, d+1)
	case *ssa.ChangeType:
		return derivesNC(x.X, src, seen, d+1)
	case *ssa.Convert:
		return derivesNC(x.X, src, seen, d+1)
	case *ssa.Extract:
		return derivesNC(x.Tuple, src, seen, d+1)
	case *ssa.FieldAddr:
		return derivesNC(x.X, src, seen, d+1)
	case *ssa.Field:
		return derivesNC(x.X, src, seen, d+1)
	case *ssa.IndexAddr:
		return derivesNC(x.X, src, seen, d+1)
	}
	return false
}
