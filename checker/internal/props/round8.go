package props

import (
	"go/token"
	"go/types"
	"strings"

	"golang.org/x/tools/go/ssa"

	. "seqverif/internal/kit"
)

// Rules added by seed round 8 (additive changes: fast paths, memos, batching, new goroutines).

// mergeAccumulates (C05.11 = C06.11): SamplesContainer.Merge adds the operand's counters to its own.
// The fields are read off the code: a numeric field F that Merge updates as h.F = h.F + (.. hist.F ..)
// is a counter. If that update is made whether or not the operand has samples (it is not under
// hist.Total != 0), the field does not follow Total, and nothing implies that the receiver's value
// is zero when the receiver has no samples: a plain copy h.F = hist.F then loses what was counted.
// For the counters that follow Total a plain copy is accepted under h.Total == 0.
func mergeAccumulates(c *Ctx) {
	fn := c.Fn("(*seq.SamplesContainer).Merge")
	if fn == nil {
		return
	}
	isContainer := func(t types.Type) bool { return strings.HasSuffix(TypeStr(t), "seq.SamplesContainer") }
	recvOf := func(f *ssa.Function) ssa.Value {
		if f == nil || len(f.Params) == 0 || !isContainer(f.Params[0].Type()) {
			return nil
		}
		return f.Params[0]
	}
	isOperand := func(v ssa.Value) bool {
		p, ok := v.(*ssa.Parameter)
		return ok && p.Parent() != nil && len(p.Parent().Params) > 0 && p != p.Parent().Params[0] && isContainer(p.Type())
	}
	loadOf := func(v ssa.Value, base func(ssa.Value) bool, field string) bool {
		l, ok := v.(*ssa.UnOp)
		if !ok || l.Op != token.MUL {
			return false
		}
		a, ok := l.X.(*ssa.FieldAddr)
		if !ok || !base(a.X) {
			return false
		}
		_, fld, _, okF := FieldOf(a)
		return okF && (field == "" || fld == field)
	}
	type upd struct {
		l        Lifted
		field    string
		additive bool
	}
	var upds []upd
	for _, l := range c.P.FindLifted(fn, func(in ssa.Instruction) bool {
		st, ok := in.(*ssa.Store)
		if !ok {
			return false
		}
		a, ok := st.Addr.(*ssa.FieldAddr)
		return ok && a.X == recvOf(in.Parent())
	}) {
		st := l.In.(*ssa.Store)
		a := st.Addr.(*ssa.FieldAddr)
		_, fld, _, okF := FieldOf(a)
		b, isNum := a.Type().(*types.Pointer).Elem().Underlying().(*types.Basic)
		if !okF || !isNum || b.Info()&types.IsNumeric == 0 {
			continue
		}
		recv := recvOf(st.Parent())
		fromOperand := DerivesFrom(st.Val, func(v ssa.Value) bool { return loadOf(v, isOperand, fld) })
		if !fromOperand {
			continue
		}
		add := false
		if bo, ok := st.Val.(*ssa.BinOp); ok && bo.Op == token.ADD {
			isOwn := func(v ssa.Value) bool { return loadOf(v, func(x ssa.Value) bool { return x == recv }, fld) }
			add = isOwn(bo.X) || isOwn(bo.Y)
		}
		upds = append(upds, upd{l, fld, add})
	}
	guardedBy := func(l Lifted, base func(ssa.Value) bool, field string, wantZero bool) bool {
		for _, f := range l.Facts() {
			bo, ok := f.Cond.(*ssa.BinOp)
			if !ok || !(loadOf(bo.X, base, field) || loadOf(bo.Y, base, field)) {
				continue
			}
			k, isK := ConstInt(bo.Y)
			if !isK {
				k, isK = ConstInt(bo.X)
			}
			if !isK || k != 0 {
				continue
			}
			zero := (bo.Op == token.EQL && f.Val) || ((bo.Op == token.NEQ || bo.Op == token.GTR) && !f.Val)
			nonZero := (bo.Op == token.EQL && !f.Val) || ((bo.Op == token.NEQ || bo.Op == token.GTR) && f.Val)
			if (wantZero && zero) || (!wantZero && nonZero) {
				return true
			}
		}
		return false
	}
	// counters and whether they follow Total
	followsTotal := map[string]bool{}
	counter := map[string]bool{}
	for _, u := range upds {
		if u.additive {
			if !counter[u.field] {
				followsTotal[u.field] = true
			}
			counter[u.field] = true
			if !guardedBy(u.l, isOperand, "Total", false) {
				followsTotal[u.field] = false
			}
		}
	}
	if len(counter) == 0 {
		c.Undecided("acc:Merge:no-counters", fn.Pos(), "SamplesContainer.Merge no longer adds any counter of the operand to its own")
		return
	}
	for _, u := range upds {
		if !counter[u.field] {
			continue
		}
		if u.additive {
			c.Site(u.l.In.Pos(), "Merge adds the operand's %s to its own", u.field)
			continue
		}
		isRecv := func(x ssa.Value) bool { return x == recvOf(u.l.In.Parent()) }
		switch {
		case guardedBy(u.l, isRecv, u.field, true):
			c.Site(u.l.In.Pos(), "Merge copies the operand's %s only when its own is zero", u.field)
		case followsTotal[u.field] && guardedBy(u.l, isRecv, "Total", true):
			c.Site(u.l.In.Pos(), "Merge copies the operand's %s only when it holds no samples (the counter follows Total)", u.field)
		default:
			c.Violation("acc:Merge:plain-copy:"+u.field, u.l.In.Pos(), "SamplesContainer.Merge overwrites its %s with the operand's although it may already hold a count (%s is counted also for parts without samples, so an empty Total says nothing about it): what the parts merged so far had counted is lost, and only for some merge orders", u.field, u.field)
		}
	}
}

// everyElementAsked: the loop of fn that makes the call selected by m makes it on every iteration and is
// left only through its header — every element of what the loop walks over is asked. Exits towards a
// panic do not count.
func everyElementAsked(c *Ctx, fn *ssa.Function, m Matcher, what, consequence string) {
	calls := CallsIn(fn, m)
	if len(calls) == 0 {
		c.Undecided("loop:"+FuncName(fn)+":"+what+":none", fn.Pos(), "%s no longer calls %s in its own body", FuncName(fn), what)
		return
	}
	for _, call := range calls {
		in := call.(ssa.Instruction)
		l := InnermostLoop(in.Block())
		if l == nil {
			c.Undecided("loop:"+FuncName(fn)+":"+what+":no-loop", in.Pos(), "%s calls %s outside a loop", FuncName(fn), what)
			continue
		}
		if _, every := EveryIteration(in); !every {
			c.Violation("loop:"+FuncName(fn)+":"+what+":skipped", in.Pos(), "%s does not call %s on every iteration of its loop: %s", FuncName(fn), what, consequence)
			continue
		}
		bad := 0
		for _, e := range l.EarlyExits() {
			if endsInPanic(e[1]) {
				continue
			}
			bad++
			c.Violation("loop:"+FuncName(fn)+":"+what+":early-exit", blockPos(e[0], in.Pos()), "%s leaves the loop over its elements before the last one: the remaining ones are never given to %s — %s", FuncName(fn), what, consequence)
		}
		if bad == 0 {
			c.Site(in.Pos(), "%s calls %s for every element (the loop has no early exit)", FuncName(fn), what)
		}
	}
}

func endsInPanic(b *ssa.BasicBlock) bool {
	seen := map[*ssa.BasicBlock]bool{}
	for b != nil && !seen[b] {
		seen[b] = true
		if len(b.Instrs) == 0 {
			return false
		}
		switch b.Instrs[len(b.Instrs)-1].(type) {
		case *ssa.Panic:
			return true
		case *ssa.Jump:
			b = b.Succs[0]
		default:
			return false
		}
	}
	return false
}

// blockPos: the position of the last instruction of b that has one (an If or Jump has none), else dflt.
func blockPos(b *ssa.BasicBlock, dflt token.Pos) token.Pos {
	for i := len(b.Instrs) - 1; i >= 0; i-- {
		if p := b.Instrs[i].Pos(); p.IsValid() {
			return p
		}
		if iff, ok := b.Instrs[i].(*ssa.If); ok && iff.Cond.Pos().IsValid() {
			return iff.Cond.Pos()
		}
	}
	return dflt
}

// sameQuestionForEveryFraction (C05.12): between the iterations of Searcher.SearchDocs only the limit of the
// request changes. Every field store into a SearchParams value of SearchDocs (the spilled parameter or a copy)
// is a store to Limit — the only field whose per-iteration value is justified by what has been found so far
// (calcEnsuredIDsCount). Narrowing From/To, the query, the order or the aggregation between iterations makes
// the answer depend on how many fractions one iteration takes.
func sameQuestionForEveryFraction(c *Ctx) {
	fn := c.Fn("(*fracmanager.Searcher).SearchDocs")
	if fn == nil {
		return
	}
	n := 0
	for _, f := range WithClosures(fn) {
		for _, b := range f.Blocks {
			for _, in := range b.Instrs {
				st, ok := in.(*ssa.Store)
				if !ok {
					continue
				}
				a, ok := st.Addr.(*ssa.FieldAddr)
				if !ok {
					continue
				}
				typ, fld, _, okF := FieldOf(a)
				if !okF || !strings.HasSuffix(typ, "processor.SearchParams") {
					continue
				}
				n++
				if fld == "Limit" {
					c.Site(st.Pos(), "SearchDocs adjusts the limit of the request between iterations")
				} else {
					c.Violation("params:SearchDocs:"+fld, st.Pos(), "SearchDocs changes %s of the request between its iterations: the fractions of a later iteration are asked a different question than those of the first, so the answer depends on FractionsPerIteration and on the order of the fractions (documents that tie with the last id found so far, or lie just outside the narrowed range, are lost)", fld)
				}
			}
		}
	}
	if n == 0 {
		c.Site(fn.Pos(), "SearchDocs does not modify the request between iterations")
	}
}

// answersFromCurrentFraction (C07.12, used by C14.3 too): what proxyFrac.Info / Contains / IsIntersecting return is,
// on every return, the answer of the fraction that is current at the time of the call (the result of the
// delegate call on f.cur(), or on f.active / f.sealed) — never a value kept from an earlier call.
func answersFromCurrentFraction(c *Ctx) {
	for _, it := range []struct{ fn, callee string }{
		{"(*fracmanager.proxyFrac).Info", "(frac.Fraction).Info"},
		{"(*fracmanager.proxyFrac).Contains", "(frac.Fraction).Contains"},
		{"(*fracmanager.proxyFrac).IsIntersecting", "(frac.Fraction).IsIntersecting"},
	} {
		fn := c.Fn(it.fn)
		if fn == nil {
			continue
		}
		short := it.callee[strings.LastIndex(it.callee, ".")+1:]
		isDelegate := func(v ssa.Value) bool {
			cl, ok := v.(ssa.CallInstruction)
			if !ok {
				return false
			}
			n := CallName(cl)
			if !strings.HasSuffix(n, ")."+short) || !(strings.Contains(n, "frac.Fraction") || strings.Contains(n, "frac.Active") || strings.Contains(n, "frac.Sealed")) {
				return false
			}
			var recv ssa.Value
			if cl.Common().IsInvoke() {
				recv = cl.Common().Value
			} else if len(cl.Common().Args) > 0 {
				recv = cl.Common().Args[0]
			}
			return recv != nil && DerivesFrom(recv, func(x ssa.Value) bool {
				if cc, ok := x.(ssa.CallInstruction); ok && CallName(cc) == "(*fracmanager.proxyFrac).cur" {
					return true
				}
				return ValueIsField(x, "fracmanager.proxyFrac", "active") || ValueIsField(x, "fracmanager.proxyFrac", "sealed")
			})
		}
		for _, b := range fn.Blocks {
			ret, ok := b.Instrs[len(b.Instrs)-1].(*ssa.Return)
			if !ok || len(ret.Results) == 0 || b == fn.Recover {
				continue
			}
			bad := false
			for _, o := range c.P.Origins(ret.Results[0], nil, 2, func(cl ssa.CallInstruction) bool { return strings.HasSuffix(CallName(cl), ")."+short) }) {
				if !DerivesFrom(o.Val, isDelegate) {
					bad = true
					c.Violation("delegate:"+it.fn+":stale", ret.Pos(), "%s can answer with %s, which is not what the current fraction says at the time of the call: while a fraction is being sealed its borders and counters still move (bulks that passed the writable check are indexed after the fraction became read-only), so a remembered Info hides the newest documents from time-ranged searches and makes the fetch reject their ids", it.fn, Short(o.Val.String()))
					break
				}
			}
			if !bad {
				c.Site(ret.Pos(), "%s returns what the current fraction's %s says", it.fn, short)
			}
		}
	}
}
