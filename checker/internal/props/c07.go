package props

import (
	"fmt"
	"go/token"
	"go/types"
	"sort"
	"strings"

	"golang.org/x/tools/go/ssa"

	. "seqverif/internal/kit"
)

func init() {
	register(&PropInfo{
		ID:          "C07",
		Title:       "Concurrent ingest, search, fetch, sealing and rotation never corrupt readers",
		Explanation: "Schedule-independent facts decided for every function: (1) guarded-by lockset discipline for the tabled fields of the active index, the fraction hand-over state, the fraction list and caches (must-lockset dataflow over SSA; helpers that run under the caller's lock are checked at their call sites; phase exemptions for sealing/start-up are backed by ordering obligations); (2) the lock-class order graph is acyclic; (3) an index update is published in the order positions < ids < tokens < postings < stats < Done; (4) readers clamp their time range to the published stats and take the id snapshots after the posting snapshot; (5) the use-lock taken by a data provider is held until the release closure runs, and Release/Suicide set their flags under the write lock before freeing; (6) the active->sealed hand-over stores both pointers under one write-lock hold, appends are accepted only in the writable state and retried by FracManager.Append. NOT decided: races on untabled memory, linearizable visibility, liveness, equality with sequential ingest.",
		Assumptions: []string{
			"lock identity is the access path of the mutex (receiver/parameter name + field chain) inside one function; aliasing between differently named paths is not modelled",
			"defer-ed unlocks hold until function exit",
			"phase exemptions (sealing after WaitWriteIdle, start-up before Start, shutdown) are sound when the ordering obligations C07.1b hold",
		},
		Obs: c07,
	})
}

var c07Rows = []GuardRow{
	{Type: "frac.UInt64s", Field: "vals", Mutex: "mu"},
	{Type: "frac.DocsPositions", Field: "positions", Mutex: "mu"},
	{Type: "frac.TokenList", Field: "tidToVal", Mutex: "tidMu"},
	{Type: "frac.TokenList", Field: "tidToLIDs", Mutex: "tidMu"},
	{Type: "frac.TokenList", Field: "FieldTIDs", Mutex: "fieldsMu"},
	{Type: "frac.TokenList", Field: "fieldSizes", Mutex: "sizesMu"},
	{Type: "frac.TokenLIDs", Field: "sorted", Mutex: "sortedMu"},
	{Type: "frac.TokenLIDs", Field: "queue", Mutex: "queueMu"},
	{Type: "frac.Active", Field: "info", Mutex: "infoMu"},
	{Type: "frac.Active", Field: "suicided", Mutex: "useMu"},
	{Type: "frac.Active", Field: "released", Mutex: "useMu"},
	{Type: "frac.Sealed", Field: "suicided", Mutex: "useMu"},
	{Type: "frac.Sealed", Field: "isLoaded", Mutex: "loadMu"},
	{Type: "fracmanager.proxyFrac", Field: "active", Mutex: "useMu"},
	{Type: "fracmanager.proxyFrac", Field: "sealed", Mutex: "useMu"},
	{Type: "fracmanager.proxyFrac", Field: "readonly", Mutex: "useMu"},
	{Type: "fracmanager.FracManager", Field: "fracs", Mutex: "fracMu"},
	{Type: "fracmanager.FracManager", Field: "active", Mutex: "fracMu"},
	{Type: "fracmanager.sealedFracCache", Field: "fracCache", Mutex: "fracCacheMu"},
	{Type: "fracmanager.sealedFracCache", Field: "version", Mutex: "fracCacheMu"},
	{Type: "fracmanager.AsyncSearcher", Field: "requests", Mutex: "requestsMu"},
	{Type: "frac.FileWriter", Field: "queue", Mutex: "mu"},
}

var c07Requires = []LockRequire{
	{Func: "(*frac.UInt64s).append", Mutex: "l.mu", Mode: 2},
	{Func: "(*frac.DocsPositions).Get", Mutex: "dp.mu", Mode: 1},
	{Func: "(*fracmanager.proxyFrac).isActiveState", Mutex: "f.useMu", Mode: 1},
	{Func: "(*fracmanager.proxyFrac).isSealingState", Mutex: "f.useMu", Mode: 1},
	{Func: "(*fracmanager.proxyFrac).isSuicidedState", Mutex: "f.useMu", Mode: 1},
}

const sealingPhase = "sealing phase: runs only from proxyFrac.Seal after readonly=true was stored under the lock and WaitWriteIdle() returned (C07.1b), so no writer touches the active index"

var c07Exempt = []LockExempt{
	{Func: "frac.Seal", Type: "frac.Active", Reason: sealingPhase},
	{Func: "frac.writeSealedFraction", Type: "frac.DocsPositions", Reason: sealingPhase},
	{Func: "frac.writeDocBlocksInOrder", Type: "frac.DocsPositions", Reason: sealingPhase},
	{Func: "(*frac.DiskBlocksProducer).fillPos", Type: "frac.DocsPositions", Reason: sealingPhase + "; operates on a private DocsPositions wrapper"},
	{Func: "(*frac.DiskBlocksProducer).getFracSortedFields", Type: "frac.TokenList", Reason: sealingPhase},
	{Func: "(*frac.DiskBlocksProducer).getTIDsSortedByToken", Type: "frac.TokenList", Reason: sealingPhase},
	{Func: "(*frac.DiskBlocksProducer).fillTokens", Type: "frac.TokenList", Reason: sealingPhase},
	{Func: "(*frac.Active).Replay", Type: "frac.Active", Reason: "start-up: replay runs from loader.load before the fraction is published to searches; index workers only touch info through UpdateStats (locked)"},
	{Func: "(*frac.Active).truncateTails", Type: "frac.Active", Reason: "start-up, takes infoMu itself for the info update"},
	{Func: "(*fracmanager.FracManager).Load", Type: "fracmanager.FracManager", Reason: "start-up: runs before Start() and before the API servers exist"},
	{Func: "(*fracmanager.FracManager).Stop", Type: "fracmanager.FracManager", Reason: "shutdown: maintenance loops were stopped and waited for; not among C07's operations"},
	{Func: "(*fracmanager.sealedFracCache).LoadFromDisk", Type: "fracmanager.sealedFracCache", Reason: "construction time (NewFracCacheFromDisk), object not shared yet"},
	{Func: "(*fracmanager.proxyFrac).WaitWriteIdle", Type: "fracmanager.proxyFrac", Reason: "reads f.active only to log its name; callers hold the sealing phase (readonly set) or run at shutdown"},
	{Func: "(*frac.sealedFetchIndex).findLIDs", Type: "frac.UInt64s", Reason: "not an access (placeholder never matched)"},
}

func c07Funcs(c *Ctx) []*ssa.Function {
	return c.P.FuncsMatching(func(_ string, fn *ssa.Function) bool {
		switch PkgOf(fn) {
		case "frac", "fracmanager", "frac/processor", "storeapi":
			return true
		}
		return false
	})
}

func c07() []*Ob {
	return []*Ob{
		{Prop: "C07", ID: "C07.16", Engine: "LOCK(one hold)", Floor: 1,
			Desc:  "two searches of one token do not hide each other's batch: the queued LIDs are taken under the merge mutex (shared rule with C05.13)",
			Check: shared("C05.13")},
		{Prop: "C07", ID: "C07.17", Engine: "ORDER+LOCK(publish)", Floor: 2,
			Desc:  "a request never works on a half-loaded sealed fraction (shared rule with C03.15)",
			Check: shared("C03.15")},
		{Prop: "C07", ID: "C07.14", Engine: "LOCK(read-modify-write)", Floor: 2,
			Desc:  "concurrent index workers do not lose each other's update of the fraction borders (shared rule with C14.14)",
			Check: shared("C14.14")},
		{Prop: "C07", ID: "C07.15", Engine: "ERRCLASS(wrapped sentinel)", Floor: 1,
			Desc:  "a bulk that races a rotation goes to the next fraction: an error variable of the repo that is returned wrapped (fmt.Errorf with %w) is never compared with == / != or switched on — the comparison cannot match the wrapped value, so 'fraction is not writable' (retry on the new writer) is taken for a final error and the bulk fails although the store is healthy",
			Check: func(c *Ctx) { wrappedSentinelsUseErrorsIs(c) }},
		{Prop: "C07", ID: "C07.13", Engine: "PROV(snapshot)", Floor: 1,
			Desc:  "a search concurrent with indexing sees its snapshot only: every element of the list frac.inverseLIDs returns has been mapped by inverser.Inverse of the ids snapshot taken at the start of the search (which rejects documents indexed later) — a fast path that returns 1..N when the token's list has the snapshot's length and ends answers with documents that do not carry the token whenever late documents with the token replaced, in number, snapshot documents without it",
			Check: func(c *Ctx) { onlySnapshotLIDs(c) }},
		{Prop: "C07", ID: "C07.12", Engine: "PROV(delegation)", Floor: 3,
			Desc:  "the proxy fraction has no memory of its own: every return of proxyFrac.Info, Contains and IsIntersecting is the result of the same call on the fraction that is current at that moment (f.cur(), f.active, f.sealed) — the borders and counters of a fraction keep moving after it became read-only, until the writers that had passed the writable check are done; an Info remembered at the first read-only call hides the documents indexed after it from ranged searches and from fetch until the sealing ends",
			Check: func(c *Ctx) { answersFromCurrentFraction(c) }},
		{Prop: "C07", ID: "C07.11", Engine: "PAIR(two sites)", Floor: 1,
			Desc:  "sealing a fraction that retention deleted meanwhile is not a fatal error: wherever package fracmanager tests errors.Is with the sentinel as first argument (which matches the bare sentinel only), every producer of that error returns the sentinel itself, not a wrapped one",
			Check: func(c *Ctx) { sentinelRecognised(c) }},
		{Prop: "C07", ID: "C07.10", Engine: "INDEX(guard strictness)", Floor: 30,
			Desc:  "a length check that guards an element read excludes the length itself: wherever a function of the store-side packages compares an index with len(s) and then reads s[index] on the branch the comparison allows, the comparison implies index < len(s) (a `>` where `>=` is meant lets index == len through) — under concurrent ingest the first LID appended after a reader took its snapshot is exactly len(inversion): the search that should skip it panics with index out of range instead",
			Check: func(c *Ctx) { guardedIndexStrict(c) }},
		{Prop: "C07", ID: "C07.1", Engine: "LOCK", Floor: 60,
			Desc: "guarded-by: every read/write/map update/element store through the tabled fields (active index structures, fraction hand-over state, fraction list, frac cache, async requests, file-writer queue) holds the owning object's mutex in the needed mode; helpers that rely on the caller's lock are called with it held",
			Check: func(c *Ctx) {
				LockCheck(c, c07Funcs(c), c07Rows, c07Requires, c07Exempt)
				// every tabled field still exists
				for _, r := range c07Rows {
					parts := strings.SplitN(CurrentTypeName(r.Type), ".", 2)
					tp := c.P.TypesPkg(parts[0])
					ok := false
					if tp != nil {
						if obj := tp.Scope().Lookup(parts[1]); obj != nil {
							for _, f := range []string{r.Field, r.Mutex} {
								ok = false
								if st := structOf(obj.Type()); st != nil {
									for i := 0; i < st.NumFields(); i++ {
										if RecordedField(r.Type, st.Field(i).Name()) == f {
											ok = true
										}
									}
								}
								if !ok {
									break
								}
							}
						}
					}
					if !ok {
						c.Undecided("lock-row:"+r.Type+"."+r.Field, token.NoPos, "guarded-by row %s.%s -> %s no longer matches the type: the table must be re-confirmed", r.Type, r.Field, r.Mutex)
					}
				}
			}},
		{Prop: "C07", ID: "C07.1b", Engine: "OWN+ORDER", Floor: 3,
			Desc: "the sealing-phase exemption is established: frac.Seal is called only from proxyFrac.Seal, after readonly=true was stored under useMu.Lock and after WaitWriteIdle(); WaitWriteIdle waits on indexWg, and proxyFrac.Append does indexWg.Add(1) under useMu.RLock in the writable state only",
			Check: func(c *Ctx) {
				seal := c.Fn("frac.Seal")
				ps := c.Fn("(*fracmanager.proxyFrac).Seal")
				if seal == nil || ps == nil {
					return
				}
				for _, call := range c.P.Callers(seal) {
					if FuncName(call.Parent()) == "(*fracmanager.proxyFrac).Seal" {
						c.Site(call.Pos(), "frac.Seal is called from proxyFrac.Seal")
					} else {
						c.Violation("own:frac.Seal:"+FuncName(call.Parent()), call.Pos(), "%s calls frac.Seal without going through proxyFrac.Seal (no read-only state, no WaitWriteIdle): the sealer would read the index while it is written", FuncName(call.Parent()))
					}
				}
				ro := FieldStore("fracmanager.proxyFrac", "readonly")
				wait := CallSel(Callee("(*fracmanager.proxyFrac).WaitWriteIdle"))
				PrecedeI(c, ps, ro, "readonly = true", wait, "WaitWriteIdle()")
				PrecedeI(c, ps, wait, "WaitWriteIdle()", CallSel(Callee("frac.Seal")), "frac.Seal")
				li := Locksets(ps, nil)
				for _, st := range InstrsIn(ps, ro) {
					if li.Held(st, "f.useMu") == 2 {
						c.Site(st.Pos(), "readonly is set under useMu.Lock")
					} else {
						c.Violation("lock:proxyFrac.Seal:readonly", st.Pos(), "readonly is set without useMu held for writing")
					}
				}
				if w := c.Fn("(*fracmanager.proxyFrac).WaitWriteIdle"); w != nil {
					if !Current.HasCall(w, OnField(Callee("(*sync.WaitGroup).Wait"), "fracmanager.proxyFrac", "indexWg")) {
						c.Violation("order:WaitWriteIdle:wait", w.Pos(), "WaitWriteIdle no longer waits on indexWg")
					} else {
						c.Site(w.Pos(), "WaitWriteIdle waits on indexWg")
					}
				}
				if a := c.Fn("(*fracmanager.proxyFrac).Append"); a != nil {
					la := Locksets(a, nil)
					adds := CallsIn(a, OnField(Callee("(*sync.WaitGroup).Add"), "fracmanager.proxyFrac", "indexWg"))
					// the lock, the state test and the registration may live in a private helper that hands the writable
					// fraction back: they are then judged there, and Append may use what the helper returned with a nil error
					var gate *ssa.Function
					var gateCall ssa.CallInstruction
					if len(adds) == 0 {
						for _, call := range CallsIn(a, nil) {
							h := StaticCallee(call)
							if h == nil || h.Blocks == nil || !c.P.InRepo(h) || ErrorResultIndex(h) < 0 {
								continue
							}
							if hs := CallsIn(h, OnField(Callee("(*sync.WaitGroup).Add"), "fracmanager.proxyFrac", "indexWg")); len(hs) > 0 {
								gate, gateCall, adds, la = h, call, hs, Locksets(h, nil)
							}
						}
					}
					if len(adds) == 0 {
						c.Violation("order:proxyFrac.Append:noAdd", a.Pos(), "proxyFrac.Append no longer registers the write in indexWg")
					}
					isActive := Callee("(*fracmanager.proxyFrac).isActiveState")
					for _, ad := range adds {
						held := la.Held(ad.(ssa.Instruction), "f.useMu")
						v, found := BoolFact(FactsAtInstr(ad.(ssa.Instruction)), func(x ssa.Value) bool {
							cl, ok := x.(ssa.CallInstruction)
							return ok && isActive(cl)
						})
						if held >= 1 && found && v {
							c.Site(ad.Pos(), "indexWg.Add(1) under useMu.RLock in the writable state")
						} else {
							c.Violation("lock:proxyFrac.Append:Add-under-lock", ad.Pos(), "indexWg.Add(1) must happen under useMu (held: %s) and only when isActiveState() (known: %v/%v): otherwise WaitWriteIdle can return while a write is in flight", modeStr(held), found, v)
						}
					}
					for _, ap := range CallsIn(a, Callee("(*frac.Active).Append")) {
						v, found := BoolFact(FactsAtInstr(ap.(ssa.Instruction)), func(x ssa.Value) bool {
							cl, ok := x.(ssa.CallInstruction)
							return ok && isActive(cl)
						})
						if gate != nil && !found {
							// through the gate: nil error at the use, and the gate answers nil only in the writable state
							okGate := true
							for _, rp := range ReturnPaths(gate, ErrorResultIndex(gate)) {
								if DefinitelyNonNil(rp.Val, rp.Facts) {
									continue
								}
								if gv, gf := BoolFact(rp.Facts, func(x ssa.Value) bool {
									cl, ok := x.(ssa.CallInstruction)
									return ok && isActive(cl)
								}); !(gf && gv) {
									okGate = false
								}
							}
							if ev := ErrorResult(gateCall); okGate && ev != nil && KnownNil(FactsAtInstr(ap.(ssa.Instruction)), ev) {
								found, v = true, true
							}
						}
						if found && v {
							c.Site(ap.Pos(), "Active.Append is reached only in the writable state")
						} else {
							c.Violation("dom:proxyFrac.Append:writable-state", ap.Pos(), "a bulk can be appended to a fraction that is not in the Active&Writable state (e.g. while it is being sealed)")
						}
					}
				}
			}},
		{Prop: "C07", ID: "C07.7", Engine: "OWN(who-may-read)", Floor: 10,
			Desc: "phase-ordered pointer fields: frac.Active.{MIDs,RIDs,TokenList,DocsPositions} are not lock-protected; they are written by NewActive and set to nil by releaseMem, so every other reader must be ordered before releaseMem: data providers (created under useMu.RLock, Release/Suicide take useMu.Lock first), the append worker and what it calls (ordered by indexWg, which proxyFrac.Seal waits for before Release), and the sealing functions (same goroutine, before Release). A reader in none of these classes races with releaseMem",
			Check: func(c *Ctx) {
				classes := map[string]string{
					"frac.NewActive":                                 "constructor",
					"(*frac.Active).releaseMem":                      "the writer itself",
					"(*frac.Active).createDataProvider":              "data provider: runs under useMu.RLock (checked below)",
					"(*frac.Active).AppendIDs":                       "append worker path (before task.Wg.Done)",
					"(*frac.ActiveIndexer).appendWorker":             "append worker (before task.Wg.Done)",
					"(*frac.ActiveIndexer).sendTokensToMergeWorkers": "append worker path (before task.Wg.Done)",
					"frac.Seal":                      "sealing, same goroutine, before Release",
					"frac.writeSealedFraction":       "sealing, same goroutine, before Release",
					"frac.writeSortedDocs":           "sealing, same goroutine, before Release",
					"(*frac.Active).GetAllDocuments": "test helper (no production caller)",
				}
				fields := map[string]bool{"MIDs": true, "RIDs": true, "TokenList": true, "DocsPositions": true}
				for _, fn := range c.P.Funcs {
					accs := FieldAccesses(fn, func(t, f string) bool { return t == "frac.Active" && fields[f] })
					top := fn
					for top.Parent() != nil {
						top = top.Parent()
					}
					for _, a := range accs {
						if FreshBase(a.Base) {
							continue
						}
						if a.How != "load" && a.How != "store" {
							continue
						}
						ownerName := FuncName(top)
						if _, direct := classes[ownerName]; !direct {
							// a private helper of a tabled reader/writer inherits its class
							if o, ok := c.P.OwnedBy(fn, func(n string) bool { _, is := classes[n]; return is }); ok {
								ownerName = o
							}
						}
						if why, ok := classes[ownerName]; ok {
							if a.Write && ownerName != "(*frac.Active).releaseMem" && ownerName != "frac.NewActive" {
								c.Violation("own:Active."+a.Field+":write:"+FuncName(fn), InstrPos(a.Instr), "%s writes frac.Active.%s; only NewActive and releaseMem may", FuncName(fn), a.Field)
								continue
							}
							c.Site(InstrPos(a.Instr), "%s reads/writes Active.%s (%s)", FuncName(fn), a.Field, why)
							continue
						}
						c.Violation("own:Active."+a.Field+":"+FuncName(fn), InstrPos(a.Instr), "%s reads frac.Active.%s without being ordered before Active.releaseMem (which sets it to nil with no common lock or wait-group edge): data race, and a nil dereference if the fraction is released while this reader is pending", FuncName(fn), a.Field)
					}
				}
				// createDataProvider only under useMu.RLock
				if cd := c.Fn("(*frac.Active).createDataProvider"); cd != nil {
					for _, call := range c.P.Callers(cd) {
						li := Locksets(call.Parent(), nil)
						if li.Held(call.(ssa.Instruction), AccessPath(call.Common().Args[0])+".useMu") >= 1 {
							c.Site(call.Pos(), "createDataProvider is called with useMu read-held")
						} else {
							c.Violation("lock:createDataProvider:"+FuncName(call.Parent()), call.Pos(), "%s creates an active data provider without holding useMu: Release can free the index underneath it", FuncName(call.Parent()))
						}
					}
				}
				// GetAllDocuments is unsynchronised: sealing only
				if g := c.P.Func("(*frac.Active).GetAllDocuments"); g != nil {
					for _, call := range c.P.Callers(g) {
						if FuncName(call.Parent()) == "frac.sortSeqIDs" {
							c.Site(call.Pos(), "GetAllDocuments is called from the sealing function sortSeqIDs")
						} else {
							c.Violation("own:GetAllDocuments:"+FuncName(call.Parent()), call.Pos(), "%s calls the unsynchronised Active.GetAllDocuments outside sealing", FuncName(call.Parent()))
						}
					}
				}
				if g := c.P.Func("frac.sortSeqIDs"); g != nil {
					for _, call := range c.P.Callers(g) {
						if FuncName(call.Parent()) != "frac.writeSealedFraction" {
							c.Violation("own:sortSeqIDs:"+FuncName(call.Parent()), call.Pos(), "%s calls frac.sortSeqIDs outside sealing", FuncName(call.Parent()))
						}
					}
				}
			}},
		{Prop: "C07", ID: "C07.2", Engine: "LOCKORDER", Floor: 3,
			Desc:  "the lock-class order graph (class A held while class B is acquired, through static callees up to depth 3) is acyclic; same-class nesting is allowed only at Active.AppendIDs (MIDs.mu then RIDs.mu, one fixed order)",
			Check: func(c *Ctx) { lockOrderCheck(c, c07Funcs(c)) }},
		{Prop: "C07", ID: "C07.3", Engine: "ORDER", Floor: 2,
			Desc:  "publication order of an index update in ActiveIndexer.appendWorker: DocsPositions.SetMultiple < Active.AppendIDs < TokenList.Append < addLIDsToTokens (postings queued) < Active.UpdateStats < task.Wg.Done",
			Check: func(c *Ctx) { indexPublicationOrder(c) }},
		{Prop: "C07", ID: "C07.8", Engine: "ALIAS", Floor: 1,
			Desc:  "sealing does not leave the next sealing a pointer into a fraction that is being read: nothing stored into the PreloadedData of a freshly sealed fraction aliases a table of the pooled docBlocksWriter (shared rule with C03.4; the next Seal rewrites that memory while fetches of the earlier fraction read it)",
			Check: func(c *Ctx) { pooledTablesNotKept(c) }},
		{Prop: "C07", ID: "C07.9", Engine: "ORDER(publish/snapshot)", Floor: 2,
			Desc: "a token is looked up only in a dictionary that already has it: TokenList.Append publishes a new token's value (tidToVal, in createTIDs) before it lists the token under its field (FieldTIDs, in fillFieldTIDs), and getTokenProvider reads in the opposite order — the field's tids first, the tidToVal snapshot afterwards — so every tid it iterates is inside the snapshot; with the two reads swapped a token published in between is beyond the snapshot and the pattern scan panics with an index out of range (every access is under its lock: the race detector sees nothing)",
			Check: func(c *Ctx) {
				if w := c.Fn("(*frac.TokenList).Append"); w != nil {
					// the publication runs in a loop over the new tokens (possibly none): the event is "the step that publishes", i.e. the
					// store itself or the call of the helper that contains it
					st := FieldStore("frac.TokenList", "tidToVal")
					publishes := func(in ssa.Instruction) bool {
						if st(in) {
							return true
						}
						cl, ok := in.(ssa.CallInstruction)
						if !ok {
							return false
						}
						h := StaticCallee(cl)
						return h != nil && c.P.InRepo(h) && c.P.Has(h, st)
					}
					PrecedeI(c, w, publishes, "the token values are published (tidToVal)", FieldLoad("frac.TokenList", "FieldTIDs"), "the tokens are listed under their fields (FieldTIDs)")
				}
				if r := c.Fn("(*frac.TokenList).getTokenProvider"); r != nil {
					PrecedeI(c, r, FieldLoad("frac.TokenList", "FieldTIDs"), "the field's tids are read (FieldTIDs)", FieldLoad("frac.TokenList", "tidToVal"), "the tidToVal snapshot")
				}
			}},
		{Prop: "C07", ID: "C07.4", Engine: "ORDER+PROV", Floor: 3,
			Desc: "readers: activeDataProvider.Search clamps params.From/To with the fraction's published From/To before the index search; getIDsIndex materialises the _all_ postings before it takes the mids/rids snapshots and sizes the inverser from the mids snapshot; TokenLIDs.GetLIDs takes the queued LIDs before the mids/rids snapshots it sorts and merges them with (the indexer appends ids first and queues LIDs afterwards, so only this order guarantees every queued LID is inside the snapshot); inverseLIDs keeps only LIDs the inverser knows",
			Check: func(c *Ctx) {
				// posting lists: the queued LIDs are taken before the ids snapshots they are sorted with
				if gl := c.Fn("(*frac.TokenLIDs).GetLIDs"); gl != nil {
					PrecedeI(c, gl, CallSel(Callee("(*frac.TokenLIDs).getQueuedLIDs")), "queued LIDs taken (getQueuedLIDs)", CallSel(Callee("(*frac.UInt64s).GetVals")), "mids/rids snapshot (GetVals)")
				}
				if fn := c.Fn("(*frac.activeDataProvider).getIDsIndex"); fn != nil {
					getL := Callee("(*frac.TokenLIDs).GetLIDs")
					getV := Callee("(*frac.UInt64s).GetVals")
					// the snapshot: the getter, or the guarded slice read directly (both under the lock, "at once")
					snap := func(in ssa.Instruction) bool {
						if cl, ok := in.(ssa.CallInstruction); ok && getV(cl) {
							return true
						}
						return FieldLoad("frac.UInt64s", "vals")(in)
					}
					PrecedeI(c, fn, CallSel(getL), "_all_ postings (GetLIDs)", snap, "mids/rids snapshot (GetVals)")
					for _, inv := range CallsIn(fn, Callee("frac.newInverser")) {
						fromSnap := DerivesFrom(Arg(inv, 1), func(v ssa.Value) bool {
							if in, ok := v.(ssa.Instruction); ok && snap(in) {
								return true
							}
							cl, ok := v.(ssa.CallInstruction)
							return ok && getV(cl)
						})
						if fromSnap {
							c.Site(inv.Pos(), "inverser is sized from the ids snapshot taken after the postings")
						} else {
							c.Violation("prov:getIDsIndex:inverser-size", inv.Pos(), "the inverser is not sized from the mids snapshot")
						}
					}
				}
				if fn := c.Fn("(*frac.activeDataProvider).Search"); fn != nil {
					is := Callee("frac/processor.IndexSearch")
					for _, call := range CallsIn(fn, is) {
						// params argument: From derives from max(_, dp.info.From), To from min(_, dp.info.To)
						okFrom, okTo := false, false
						for _, a := range call.Common().Args {
							DerivesFrom(a, func(v ssa.Value) bool {
								cl, ok := v.(*ssa.Call)
								if !ok {
									return false
								}
								b, ok := cl.Call.Value.(*ssa.Builtin)
								if !ok {
									return false
								}
								hasInfo := func(field string) bool {
									for _, x := range cl.Call.Args {
										if DerivesFrom(x, func(w ssa.Value) bool { return ValueIsField(w, "frac.Info", field) }) {
											return true
										}
									}
									return false
								}
								if b.Name() == "max" && hasInfo("From") {
									okFrom = true
								}
								if b.Name() == "min" && hasInfo("To") {
									okTo = true
								}
								return false
							})
						}
						if okFrom && okTo {
							c.Site(call.Pos(), "search range is clamped to the published [From, To] of the active fraction")
						} else {
							c.Violation("prov:activeDataProvider.Search:clamp", call.Pos(), "the search range handed to IndexSearch is not clamped by max(From, info.From) / min(To, info.To): ids outside the published range could be returned and then not fetched")
						}
					}
					if !Current.HasCall(fn, is) {
						c.Undecided("activeDataProvider.Search:noIndexSearch", fn.Pos(), "activeDataProvider.Search no longer calls processor.IndexSearch")
					}
				}
				if fn := c.P.Func("(*frac.activeTokenIndex).inverseLIDs"); fn != nil {
					for _, ap := range CallsIn(fn, Callee("builtin.append")) {
						v, found := BoolFact(FactsAtInstr(ap.(ssa.Instruction)), func(x ssa.Value) bool {
							e, ok := x.(*ssa.Extract)
							if !ok {
								return false
							}
							cl, ok := e.Tuple.(ssa.CallInstruction)
							return ok && strings.HasSuffix(CallName(cl), ".Inverse")
						})
						if found && v {
							c.Site(ap.Pos(), "inverseLIDs keeps a LID only when the inverser knows it")
						} else if InLoop(ap.(ssa.Instruction).Block()) {
							c.Violation("dom:inverseLIDs:only-known", ap.Pos(), "inverseLIDs appends a LID without the inverser's ok (a LID newer than the reader's snapshot would be used)")
						}
					}
				}
			}},
		{Prop: "C07", ID: "C07.5", Engine: "LOCK(typestate)", Floor: 6,
			Desc: "use-lock held for the whole request: Active.DataProvider and Sealed.DataProvider either unlock before returning the empty provider or return a release closure that unlocks; Release/Suicide set their flags under useMu.Lock before memory/files are freed; fracSearch and fracFetch defer the release",
			Check: func(c *Ctx) {
				for _, name := range []string{"(*frac.Active).DataProvider", "(*frac.Sealed).DataProvider"} {
					fn := c.Fn(name)
					if fn == nil {
						continue
					}
					li := Locksets(fn, nil)
					rlocks := CallsIn(fn, OnFieldAny(Callee("(*sync.RWMutex).RLock"), "useMu"))
					if len(rlocks) == 0 {
						c.Violation("lock:"+name+":no-rlock", fn.Pos(), "%s no longer takes useMu.RLock", name)
						continue
					}
					for _, b := range fn.Blocks {
						ret, ok := b.Instrs[len(b.Instrs)-1].(*ssa.Return)
						if !ok || b == fn.Recover {
							continue
						}
						held := li.Held(ret, "f.useMu")
						rel := RetOperand(ret, 1)
						unlocks := false
						if mc, ok := rel.(*ssa.MakeClosure); ok {
							if cf, ok := mc.Fn.(*ssa.Function); ok {
								unlocks = Current.HasCall(cf, OnFieldAny(Callee("(*sync.RWMutex).RUnlock"), "useMu"))
							}
						}
						switch {
						case held >= 1 && unlocks:
							c.Site(ret.Pos(), "%s: returns with useMu read-held and a release closure that unlocks it", name)
						case held == 0 && !unlocks:
							c.Site(ret.Pos(), "%s: unlocked before returning a no-op release", name)
						case held >= 1 && !unlocks:
							c.Violation("lock:"+name+":leak", ret.Pos(), "%s returns with useMu read-held but the release function does not unlock it (Release/Suicide would block forever)", name)
						default:
							c.Violation("lock:"+name+":double-unlock", ret.Pos(), "%s unlocks useMu and also returns a release closure that unlocks it: the fraction can be released while the request is running", name)
						}
					}
				}
				for _, it := range []struct{ fn, flag, free string }{
					{"(*frac.Active).Release", "released", "(*frac.Active).releaseMem"},
					{"(*frac.Active).Suicide", "suicided", "(*frac.Active).releaseMem"},
					{"(*frac.Sealed).Suicide", "suicided", "(*frac.Sealed).close"},
				} {
					fn := c.Fn(it.fn)
					if fn == nil {
						continue
					}
					typ := "frac.Active"
					if strings.Contains(it.fn, "Sealed") {
						typ = "frac.Sealed"
					}
					PrecedeI(c, fn, FieldStore(typ, it.flag), it.flag+" = true", CallSel(Callee(it.free)), it.free)
					// an Unlock (the writers' barrier) lies between the flag store and the free
					for _, fr := range CallsIn(fn, Callee(it.free)) {
						ok := false
						for _, u := range CallsIn(fn, OnFieldAny(Callee("(*sync.RWMutex).Unlock"), "useMu")) {
							if Dominates(u.(ssa.Instruction), fr.(ssa.Instruction)) {
								ok = true
							}
						}
						if ok {
							c.Site(fr.Pos(), "%s frees only after a useMu.Lock/Unlock cycle (all readers drained)", it.fn)
						} else {
							c.Violation("order:"+it.fn+":free-after-barrier", fr.Pos(), "%s frees memory/files without first passing useMu.Lock/Unlock: running requests still use them", it.fn)
						}
					}
				}
				for _, name := range []string{"(*fracmanager.Searcher).fracSearch", "fracmanager.fracFetch"} {
					fn := c.Fn(name)
					if fn == nil {
						continue
					}
					dp := Callee("(frac.Fraction).DataProvider")
					okRel := false
					for _, d := range InstrsIn(fn, func(in ssa.Instruction) bool { _, ok := in.(*ssa.Defer); return ok }) {
						df := d.(*ssa.Defer)
						if DerivesFrom(df.Call.Value, func(v ssa.Value) bool {
							e, ok := v.(*ssa.Extract)
							if !ok || e.Index != 1 {
								return false
							}
							cl, ok := e.Tuple.(ssa.CallInstruction)
							return ok && dp(cl)
						}) {
							okRel = true
							c.Site(df.Pos(), "%s defers the provider's release", name)
						}
					}
					if !okRel {
						c.Violation("order:"+name+":defer-release", fn.Pos(), "%s does not defer the release returned by DataProvider: a panic or early return leaks the fraction's read lock", name)
					}
				}
			}},
		{Prop: "C07", ID: "C07.6", Engine: "LOCK+ACK", Floor: 1,
			Desc: "hand-over: proxyFrac.Seal stores f.sealed and clears f.active under one useMu.Lock hold and releases the active fraction only afterwards; FracManager.Append returns nil only after a successful proxyFrac.Append and otherwise retries or returns ctx.Err()",
			Check: func(c *Ctx) {
				if fn := c.Fn("(*fracmanager.proxyFrac).Seal"); fn != nil {
					// the two stores may live in Seal itself or in a helper it calls
					home := c.P.Locate(fn, FieldStore("fracmanager.proxyFrac", "sealed"))
					var stS, stA ssa.Instruction
					if home != nil {
						for _, in := range InstrsIn(home, FieldStore("fracmanager.proxyFrac", "sealed")) {
							stS = in
						}
						for _, in := range InstrsIn(home, FieldStore("fracmanager.proxyFrac", "active")) {
							stA = in
						}
					}
					if stS == nil || stA == nil {
						c.Undecided("proxyFrac.Seal:handover-stores", fn.Pos(), "proxyFrac.Seal (and its helpers) no longer stores both f.sealed and f.active in one function")
					} else {
						li := Locksets(home, nil)
						// one hold: same block region without an intervening Unlock
						same := li.Held(stS, "f.useMu") == 2 && li.Held(stA, "f.useMu") == 2
						between := false
						for _, u := range CallsIn(home, OnFieldAny(Callee("(*sync.RWMutex).Unlock"), "useMu")) {
							ui := u.(ssa.Instruction)
							if (Dominates(stS, ui) && Dominates(ui, stA)) || (Dominates(stA, ui) && Dominates(ui, stS)) {
								between = true
							}
						}
						if same && !between {
							c.Site(stS.Pos(), "f.sealed and f.active change under one useMu.Lock hold")
						} else {
							c.Violation("lock:proxyFrac.Seal:atomic-handover", stS.Pos(), "f.sealed and f.active are not updated under a single write-lock hold: a reader can see neither or both")
						}
						PrecedeI(c, fn, FieldStore("fracmanager.proxyFrac", "active"), "f.active = nil", CallSel(Callee("(*frac.Active).Release")), "active.Release()")
					}
				}
				if fn := c.Fn("(*fracmanager.FracManager).Append"); fn != nil {
					// the attempt itself, or a private helper that succeeds only when the attempt did
					viol, oks, res := SimAck(fn, c.P.AckCall(Callee("(*fracmanager.proxyFrac).Append", "(frac.Fraction).Append", "(fracmanager.activeWriter).Append")), nil)
					c.Count("paths_simulated", res.Paths)
					for _, v := range viol {
						c.Violation("simack:FracManager.Append", v.Ret.Pos(), "FracManager.Append can return success although %s", v.Why)
					}
					if len(viol) == 0 {
						for r := range oks {
							c.Site(r.Pos(), "FracManager.Append returns nil only after a successful proxyFrac.Append")
						}
					}
				}
			}},
	}
}

func modeStr(m int) string {
	return map[int]string{0: "none", 1: "read", 2: "write"}[m]
}

// OnFieldAny restricts a matcher to receivers that are (the address of) a field with this name, on any type.
func OnFieldAny(m Matcher, field string) Matcher {
	return func(c ssa.CallInstruction) bool {
		if !m(c) {
			return false
		}
		r := Receiver(c)
		for i := 0; r != nil && i < 4; i++ {
			switch x := r.(type) {
			case *ssa.FieldAddr:
				_, f, _, ok := FieldOf(x)
				return ok && f == field
			case *ssa.UnOp:
				r = x.X
			default:
				return false
			}
		}
		return false
	}
}

// lockOrderCheck builds the lock-class order graph and reports cycles.
func lockOrderCheck(c *Ctx, funcs []*ssa.Function) {
	classOf := func(call ssa.CallInstruction) string {
		r := Receiver(call)
		for i := 0; r != nil && i < 4; i++ {
			switch x := r.(type) {
			case *ssa.FieldAddr:
				t, f, _, ok := FieldOf(x)
				if ok {
					return t + "." + f
				}
				return ""
			case *ssa.UnOp:
				r = x.X
			default:
				return ""
			}
		}
		return ""
	}
	isAcquire := func(call ssa.CallInstruction) bool {
		if _, ok := call.(*ssa.Call); !ok {
			return false
		}
		switch CallName(call) {
		case "(*sync.Mutex).Lock", "(*sync.RWMutex).Lock", "(*sync.RWMutex).RLock":
			return true
		}
		return false
	}
	// acquires summary per function (transitive through static callees, depth 3)
	memo := map[*ssa.Function]map[string]bool{}
	var acquires func(fn *ssa.Function, d int) map[string]bool
	acquires = func(fn *ssa.Function, d int) map[string]bool {
		if fn == nil || fn.Blocks == nil || !c.P.InRepo(fn) {
			return nil
		}
		if m, ok := memo[fn]; ok {
			return m
		}
		m := map[string]bool{}
		memo[fn] = m
		for _, call := range CallsIn(fn, nil) {
			if isAcquire(call) {
				if cl := classOf(call); cl != "" {
					m[cl] = true
				}
			}
			if _, isGo := call.(*ssa.Go); isGo {
				continue
			}
			if d > 0 {
				for k := range acquires(StaticCallee(call), d-1) {
					m[k] = true
				}
			}
		}
		return m
	}
	// which object of a class a lock belongs to: the struct field the mutex's owner is reached through ("frac.Active.MIDs"),
	// followed back through plain copies of that pointer into other structs (activeDataProvider.mids = active.MIDs)
	fieldAlias := map[string]string{}
	for _, fn := range c.P.Funcs {
		if !c.P.InRepo(fn) || fn.Blocks == nil {
			continue
		}
		for _, b := range fn.Blocks {
			for _, in := range b.Instrs {
				st, ok := in.(*ssa.Store)
				if !ok {
					continue
				}
				dt, df, _, okD := FieldOf(st.Addr)
				ld, isLoad := st.Val.(*ssa.UnOp)
				if !okD || !isLoad || ld.Op != token.MUL {
					continue
				}
				stp, sf, _, okS := FieldOf(ld.X)
				if !okS {
					continue
				}
				if _, isPtr := st.Val.Type().Underlying().(*types.Pointer); !isPtr {
					continue
				}
				fieldAlias[dt+"."+df] = stp + "." + sf
			}
		}
	}
	canon := func(k string) string {
		for i := 0; i < 4; i++ {
			n, ok := fieldAlias[k]
			if !ok || n == k {
				break
			}
			k = n
		}
		return k
	}
	instanceOf := func(call ssa.CallInstruction) string {
		fa, ok := Receiver(call).(*ssa.FieldAddr) // &owner.mu
		if !ok {
			return ""
		}
		owner := fa.X
		if ld, isLoad := owner.(*ssa.UnOp); isLoad && ld.Op == token.MUL {
			if t, f, _, okF := FieldOf(ld.X); okF {
				return canon(t + "." + f)
			}
		}
		if t, f, _, okF := FieldOf(owner); okF {
			return canon(t + "." + f)
		}
		return ""
	}
	type edge struct{ a, b string }
	edges := map[edge]string{}
	selfSites := map[string][]string{}        // class -> sites where a lock of the class is taken under another of the same class
	instEdges := map[string]map[edge]string{} // class -> (held instance -> acquired instance) -> where
	pathClass := map[string]string{}
	pathInst := map[string]string{}
	for _, fn := range funcs {
		calls := CallsIn(fn, nil)
		hasLock := false
		for _, call := range calls {
			if isAcquire(call) {
				hasLock = true
				pathClass[FuncName(fn)+"|"+AccessPath(Receiver(call))] = classOf(call)
				pathInst[FuncName(fn)+"|"+AccessPath(Receiver(call))] = instanceOf(call)
			}
		}
		if !hasLock {
			continue
		}
		li := Locksets(fn, nil)
		for _, call := range calls {
			if _, isGo := call.(*ssa.Go); isGo {
				continue
			}
			if _, isDefer := call.(*ssa.Defer); isDefer {
				continue
			}
			var acquired []string
			if isAcquire(call) {
				if cl := classOf(call); cl != "" {
					acquired = append(acquired, cl)
				}
			} else {
				for k := range acquires(StaticCallee(call), 3) {
					acquired = append(acquired, k)
				}
			}
			if len(acquired) == 0 {
				continue
			}
			heldPaths := li.HeldSet(call.(ssa.Instruction))
			_ = heldPaths
			for path := range li.HeldPaths(call.(ssa.Instruction)) {
				hc := pathClass[FuncName(fn)+"|"+path]
				if hc == "" {
					continue
				}
				for _, ac := range acquired {
					e := edge{hc, ac}
					where := fmt.Sprintf("%s at %s", FuncName(fn), c.P.Pos(call.Pos()))
					if _, ok := edges[e]; !ok {
						edges[e] = where
					}
					if hc == ac && isAcquire(call) {
						selfSites[hc] = append(selfSites[hc], where)
						hi, ai := pathInst[FuncName(fn)+"|"+path], instanceOf(call)
						if instEdges[hc] == nil {
							instEdges[hc] = map[edge]string{}
						}
						if _, ok := instEdges[hc][edge{hi, ai}]; !ok {
							instEdges[hc][edge{hi, ai}] = where
						}
					}
				}
			}
		}
	}
	// same-class nesting
	// two locks of one class may be nested when every site that does it names the two objects (the struct fields they hang
	// off, e.g. Active.MIDs then Active.RIDs) and all sites take them in the same object order
	for e := range edges {
		if e.a != e.b {
			continue
		}
		bad := ""
		for ie, where := range instEdges[e.a] {
			switch {
			case ie.a == "" || ie.b == "" || ie.a == ie.b:
				bad = fmt.Sprintf("%s nests two locks of the class without a fixed pair of objects", where)
			default:
				if w2, rev := instEdges[e.a][edge{ie.b, ie.a}]; rev {
					bad = fmt.Sprintf("%s takes %s then %s, %s takes them the other way round", where, ie.a, ie.b, w2)
				}
			}
		}
		if bad == "" && len(instEdges[e.a]) > 0 {
			c.Site(token.NoPos, "same-class nesting of %s at %d site(s), always in one object order", e.a, len(selfSites[e.a]))
			continue
		}
		if bad == "" {
			bad = edges[e]
		}
		c.Violation("lockorder:self:"+e.a, token.NoPos, "lock class %s is acquired while another lock of the same class is held, and not in one fixed object order (%s): two goroutines doing this in opposite order deadlock", e.a, bad)
	}
	// cycle detection (ignoring self loops)
	adj := map[string][]string{}
	for e := range edges {
		if e.a != e.b {
			adj[e.a] = append(adj[e.a], e.b)
		}
	}
	var nodes []string
	for n := range adj {
		nodes = append(nodes, n)
		sort.Strings(adj[n])
	}
	sort.Strings(nodes)
	color := map[string]int{}
	var stack []string
	var dfs func(n string) bool
	reported := map[string]bool{}
	dfs = func(n string) bool {
		color[n] = 1
		stack = append(stack, n)
		for _, m := range adj[n] {
			if color[m] == 1 {
				// cycle
				i := len(stack) - 1
				for i >= 0 && stack[i] != m {
					i--
				}
				cyc := append(append([]string{}, stack[i:]...), m)
				key := strings.Join(cyc, "->")
				if !reported[key] {
					reported[key] = true
					var wh []string
					for j := 0; j+1 < len(cyc); j++ {
						wh = append(wh, fmt.Sprintf("%s->%s in %s", cyc[j], cyc[j+1], edges[edge{cyc[j], cyc[j+1]}]))
					}
					c.Violation("lockorder:cycle:"+key, token.NoPos, "lock-order cycle %s (%s)", key, strings.Join(wh, "; "))
				}
			} else if color[m] == 0 {
				dfs(m)
			}
		}
		stack = stack[:len(stack)-1]
		color[n] = 2
		return false
	}
	for _, n := range nodes {
		if color[n] == 0 {
			dfs(n)
		}
	}
	var es []string
	for e, w := range edges {
		es = append(es, e.a+" -> "+e.b+"  ["+w+"]")
	}
	sort.Strings(es)
	for _, e := range es {
		c.Site(token.NoPos, "order edge %s", e)
	}
	c.Count("lock_order_edges", len(edges))
}

func structOf(t types.Type) *types.Struct {
	st, _ := t.Underlying().(*types.Struct)
	return st
}

// indexPublicationOrder: rule body of C07.3, shared with other properties.
func indexPublicationOrder(c *Ctx) {
	fn := c.Fn("(*frac.ActiveIndexer).appendWorker")
	if fn == nil {
		return
	}
	chain := []struct {
		name string
		m    Matcher
	}{
		{"DocsPositions.SetMultiple", Callee("(*frac.DocsPositions).SetMultiple")},
		{"Active.AppendIDs", Callee("(*frac.Active).AppendIDs")},
		{"TokenList.Append", Callee("(*frac.TokenList).Append")},
		{"addLIDsToTokens", c.P.Reaches(Callee("(*frac.TokenLIDs).PutLIDsInQueue"), 2)},
		{"Active.UpdateStats", Callee("(*frac.Active).UpdateStats")},
		{"task.Wg.Done", Callee("(*sync.WaitGroup).Done")},
	}
	for i := 0; i+1 < len(chain); i++ {
		MustPrecede(c, fn, chain[i].m, chain[i].name, chain[i+1].m, chain[i+1].name)
	}
}

// guardedIndexStrict: rule body of C07.10.
func guardedIndexStrict(c *Ctx) {
	strip := func(v ssa.Value) ssa.Value {
		for {
			switch x := v.(type) {
			case *ssa.Convert:
				v = x.X
			case *ssa.ChangeType:
				v = x.X
			default:
				return v
			}
		}
	}
	lenOf := func(v ssa.Value) ssa.Value {
		cl, ok := strip(v).(*ssa.Call)
		if !ok || CallName(cl) != "builtin.len" {
			return nil
		}
		return cl.Call.Args[0]
	}
	n := 0
	for _, pk := range []string{"frac", "frac/lids", "frac/token", "frac/processor", "fracmanager", "seq", "cache", "disk", "node", "util"} {
		for _, fn := range c.P.FuncsInPkg(pk) {
			for _, b := range fn.Blocks {
				for _, in := range b.Instrs {
					var x, idx ssa.Value
					switch ia := in.(type) {
					case *ssa.IndexAddr:
						x, idx = ia.X, ia.Index
					case *ssa.Index:
						x, idx = ia.X, ia.Index
					default:
						continue
					}
					if _, isSlice := x.Type().Underlying().(*types.Slice); !isSlice {
						if _, isStr := x.Type().Underlying().(*types.Basic); !isStr {
							continue
						}
					}
					// the length the index is compared with is the length of what is indexed: a guard on the length of
					// a sibling field of the same struct (and none on the slice itself) protects a different table
					ownGuard, siblingGuard := false, ""
					fieldOfBase := func(v ssa.Value) (ssa.Value, string) {
						u, ok := v.(*ssa.UnOp)
						if !ok {
							return nil, ""
						}
						fa, ok := u.X.(*ssa.FieldAddr)
						if !ok {
							return nil, ""
						}
						_, fld, base, okF := FieldOf(fa)
						if !okF {
							return nil, ""
						}
						return base, fld
					}
					for _, f := range FactsAtInstr(in) {
						bo, ok := f.Cond.(*ssa.BinOp)
						if !ok {
							continue
						}
						var l ssa.Value
						switch {
						case SameValue(strip(bo.X), strip(idx)) && lenOf(bo.Y) != nil:
							l = lenOf(bo.Y)
						case SameValue(strip(bo.Y), strip(idx)) && lenOf(bo.X) != nil:
							l = lenOf(bo.X)
						default:
							continue
						}
						if SameValue(l, x) {
							ownGuard = true
							continue
						}
						// a loop running over one of two parallel tables is not a guard: only an explicit test counts
						if f.If != nil {
							isHeader := false
							for _, lp := range Loops(fn) {
								if lp.Header == f.If.Block() {
									isHeader = true
								}
							}
							if isHeader {
								continue
							}
						}
						bx, fx := fieldOfBase(x)
						bl, fl := fieldOfBase(l)
						if bx != nil && bl != nil && bx == bl && fx != fl {
							siblingGuard = fl
						}
					}
					if siblingGuard != "" && !ownGuard {
						_, fx := fieldOfBase(x)
						c.Violation("index:guard-on-sibling:"+FuncName(fn)+":"+fx, in.Pos(), "%s reads %s[i] under a comparison of i with len(%s), another field of the same struct, and none with len(%s): the two tables are not indexed by the same thing (positions vs. values) — while a bulk is half indexed the larger keys are refused although the table has them, and acknowledged documents drop out of every posting list of the search", FuncName(fn), fx, siblingGuard, fx)
					}
					for _, f := range FactsAtInstr(in) {
						bo, ok := f.Cond.(*ssa.BinOp)
						if !ok {
							continue
						}
						op := bo.Op
						var l ssa.Value
						switch {
						case SameValue(strip(bo.X), strip(idx)) && lenOf(bo.Y) != nil:
							l = lenOf(bo.Y)
						case SameValue(strip(bo.Y), strip(idx)) && lenOf(bo.X) != nil:
							l = lenOf(bo.X)
							switch op { // len OP idx  ==>  idx OP' len
							case token.LSS:
								op = token.GTR
							case token.LEQ:
								op = token.GEQ
							case token.GTR:
								op = token.LSS
							case token.GEQ:
								op = token.LEQ
							}
						default:
							continue
						}
						if !SameValue(l, x) {
							continue
						}
						if !f.Val {
							switch op {
							case token.LSS:
								op = token.GEQ
							case token.LEQ:
								op = token.GTR
							case token.GTR:
								op = token.LEQ
							case token.GEQ:
								op = token.LSS
							case token.EQL:
								op = token.NEQ
							case token.NEQ:
								op = token.EQL
							}
						}
						n++
						switch op {
						case token.LSS:
							c.Site(in.Pos(), "%s: element read under index < len", FuncName(fn))
						case token.LEQ:
							c.Violation("index:guard-not-strict:"+FuncName(fn), in.Pos(), "%s reads an element under a length check that still allows index == len(...) (the comparison is off by one): the read panics exactly for the first position past the end", FuncName(fn))
						}
					}
				}
			}
		}
	}
	if n == 0 {
		c.Undecided("index:guard-not-strict:none", 0, "no length-guarded element read found")
	}
}
