package props

import (
	"go/constant"
	"go/token"
	"go/types"
	"sort"
	"strings"

	"golang.org/x/tools/go/ssa"

	. "seqverif/internal/kit"
)

// Rules added by seed round 9 (synchronisation changed with the logic untouched; representation of a value changed).

// everyShardAnswers (C16.12 = C06.12): a shard goroutine of searchStores that has called searchShard reaches its
// return only through a send on the response channel — whatever the state of the context. A shard that is
// dropped silently leaves neither a result nor an error behind, and the answer is presented as complete.
func everyShardAnswers(c *Ctx) {
	fn := c.Fn("(*proxy/search.Ingestor).searchStores")
	if fn == nil {
		return
	}
	n := 0
	// the goroutine body: a closure of searchStores, or a method it starts with `go` (directly or from a closure)
	cands := map[*ssa.Function]bool{}
	for _, cl := range WithClosures(fn) {
		if cl != fn {
			cands[cl] = true
		}
		for _, call := range CallsIn(cl, nil) {
			if h := StaticCallee(call); h != nil && h.Blocks != nil && c.P.InRepo(h) && h != fn && FuncName(h) != "(*proxy/search.Ingestor).searchShard" {
				for _, hc := range WithClosures(h) {
					cands[hc] = true
				}
			}
		}
	}
	var ordered []*ssa.Function
	for f := range cands {
		ordered = append(ordered, f)
	}
	sort.Slice(ordered, func(i, j int) bool { return FuncName(ordered[i]) < FuncName(ordered[j]) })
	for _, cl := range ordered {
		calls := CallsIn(cl, Callee("(*proxy/search.Ingestor).searchShard"))
		if len(calls) == 0 {
			continue
		}
		var sends []ssa.Instruction
		for _, b := range cl.Blocks {
			for _, in := range b.Instrs {
				if s, ok := in.(*ssa.Send); ok {
					sends = append(sends, s)
				}
			}
		}
		for _, call := range calls {
			for _, b := range cl.Blocks {
				ret, ok := b.Instrs[len(b.Instrs)-1].(*ssa.Return)
				if !ok || b == cl.Recover || !Dominates(call.(ssa.Instruction), ret) {
					continue
				}
				n++
				// paths from the call: block everything before the call by treating the call's block prefix as passed
				okAll := true
				if len(sends) == 0 {
					okAll = false
				} else {
					okAll = allPathsFromPass(call.(ssa.Instruction), sends, ret)
				}
				if okAll {
					c.Site(ret.Pos(), "a shard goroutine returns only after it has sent its response (or error) to the collector")
				} else {
					c.Violation("send:searchStores:shard-dropped", blockPos(b, call.Pos()), "a shard goroutine of searchStores can return after searchShard without sending anything to the response channel: the shard is missing from the results and from the errors, so the merged histogram, aggregations and totals are those of the other shards and the answer is not flagged partial — when the request's context ends (timeout, client cancel) while the collector is still reading")
				}
			}
		}
	}
	if n == 0 {
		c.Undecided("send:searchStores:no-goroutine", fn.Pos(), "searchStores no longer calls searchShard in a goroutine of its own")
	}
}

// allPathsFromPass: every CFG path from instruction from to target passes one of sites.
func allPathsFromPass(from ssa.Instruction, sites []ssa.Instruction, target ssa.Instruction) bool {
	blocked := map[*ssa.BasicBlock]bool{}
	for _, s := range sites {
		if s.Block() == from.Block() {
			if InstrIndex(s) > InstrIndex(from) {
				return true // straight-line after the call
			}
			continue
		}
		if s.Block() == target.Block() {
			if InstrIndex(s) < InstrIndex(target) {
				return true
			}
			continue
		}
		blocked[s.Block()] = true
	}
	if from.Block() == target.Block() {
		return false
	}
	seen := map[*ssa.BasicBlock]bool{}
	stack := append([]*ssa.BasicBlock{}, from.Block().Succs...)
	for len(stack) > 0 {
		b := stack[len(stack)-1]
		stack = stack[:len(stack)-1]
		if seen[b] || blocked[b] {
			continue
		}
		seen[b] = true
		if b == target.Block() {
			return false
		}
		stack = append(stack, b.Succs...)
	}
	return true
}

// sharedErrorFirstWins (C04.14): a goroutine started by the fetcher writes a variable it shares with its siblings
// (a captured error) only inside sync.Once.Do or with a mutex held: the first failure decides, a later success
// does not erase it.
func sharedErrorFirstWins(c *Ctx) {
	n := 0
	for _, root := range []string{"(*fracmanager.Fetcher).fetchDocsAsync", "(*fracmanager.Searcher).searchDocsAsync"} {
		fn := c.P.Func(root)
		if fn == nil {
			continue
		}
		// closures that are go targets, and closures passed to Once.Do
		goTargets := map[*ssa.Function]bool{}
		onceBodies := map[*ssa.Function]bool{}
		for _, f := range WithClosures(fn) {
			for _, b := range f.Blocks {
				for _, in := range b.Instrs {
					switch x := in.(type) {
					case *ssa.Go:
						if mc, ok := x.Call.Value.(*ssa.MakeClosure); ok {
							if t, ok := mc.Fn.(*ssa.Function); ok {
								goTargets[t] = true
							}
						}
					case *ssa.Call:
						if CallName(x) == "(*sync.Once).Do" {
							for _, a := range x.Call.Args {
								if mc, ok := a.(*ssa.MakeClosure); ok {
									if t, ok := mc.Fn.(*ssa.Function); ok {
										onceBodies[t] = true
									}
								}
							}
						}
					}
				}
			}
		}
		for g := range goTargets {
			li := Locksets(g, nil)
			for _, b := range g.Blocks {
				for _, in := range b.Instrs {
					st, ok := in.(*ssa.Store)
					if !ok {
						continue
					}
					fv, ok := st.Addr.(*ssa.FreeVar)
					if !ok || !IsErrorType(st.Val.Type()) {
						continue
					}
					n++
					if len(li.HeldPaths(st)) > 0 {
						c.Site(st.Pos(), "%s: the shared error %s is written with a lock held", FuncName(g), fv.Name())
						continue
					}
					c.Violation("share:"+root+":"+fv.Name(), st.Pos(), "a goroutine of %s assigns the error variable %s it shares with the other goroutines outside sync.Once.Do and without a lock: a fraction that finishes successfully after a failed one overwrites the failure with nil — the batch is answered as a success with the failed fraction's documents left out (reported 'not found')", root, fv.Name())
				}
			}
		}
		for o := range onceBodies {
			for _, b := range o.Blocks {
				for _, in := range b.Instrs {
					if st, ok := in.(*ssa.Store); ok {
						if _, isFV := st.Addr.(*ssa.FreeVar); isFV && IsErrorType(st.Val.Type()) {
							n++
							c.Site(st.Pos(), "%s: the shared error is set once, by the first failure", FuncName(o))
						}
					}
				}
			}
		}
	}
	if n == 0 {
		c.Undecided("share:none", token.NoPos, "the asynchronous fetch / search no longer records a shared error")
	}
}

// limitHasOneMeaning (C10.13): the drift limits are limits: proxy/bulk.documentDelayed compares them with the delay
// only, never with a constant — a limit of zero means 'no drift allowed', not 'check disabled'.
func limitHasOneMeaning(c *Ctx) {
	fn := c.Fn("proxy/bulk.documentDelayed")
	if fn == nil {
		return
	}
	isLimit := func(v ssa.Value) bool {
		return DerivesFromNoCall(v, func(x ssa.Value) bool {
			p, ok := x.(*ssa.Parameter)
			return ok && p.Parent() == fn && p != fn.Params[0]
		})
	}
	n := 0
	for _, b := range fn.Blocks {
		for _, in := range b.Instrs {
			bo, ok := in.(*ssa.BinOp)
			if !ok {
				continue
			}
			switch bo.Op {
			case token.EQL, token.NEQ, token.LSS, token.LEQ, token.GTR, token.GEQ:
			default:
				continue
			}
			_, kx := bo.X.(*ssa.Const)
			_, ky := bo.Y.(*ssa.Const)
			if (kx && isLimit(bo.Y)) || (ky && isLimit(bo.X)) {
				n++
				c.Violation("sentinel:documentDelayed:limit-vs-constant", bo.Pos(), "documentDelayed compares a drift limit with a constant: a particular value of the limit (zero) gets a second meaning, 'check disabled' — with --future-allowed-time-drift=0 a document dated in the future keeps its own time in the id instead of the receive time")
			}
		}
	}
	if n == 0 {
		c.Site(fn.Pos(), "documentDelayed compares the drift limits with the delay only")
	}
}

// noViewOfPooledBuffer (C11.10 = C12.12): no string that is an unsafe view of the bytes of a pooled bytes.Buffer
// leaves the function that holds the buffer.
func noViewOfPooledBuffer(c *Ctx) {
	n, bad := 0, 0
	for _, fn := range c.P.Funcs {
		if !c.P.InRepo(fn) {
			continue
		}
		for _, call := range CallsIn(fn, Callee("util.ByteToStringUnsafe")) {
			arg := Arg(call, 0)
			fromPooledBuf := DerivesFrom(arg, func(v ssa.Value) bool {
				cl, ok := v.(ssa.CallInstruction)
				if !ok || CallName(cl) != "(*bytes.Buffer).Bytes" || len(cl.Common().Args) == 0 {
					return false
				}
				return DerivesFrom(cl.Common().Args[0], func(x ssa.Value) bool {
					g, ok := x.(ssa.CallInstruction)
					return ok && CallName(g) == "(*sync.Pool).Get"
				})
			})
			if !fromPooledBuf {
				continue
			}
			n++
			v := call.Value()
			escapes := false
			if v != nil && v.Referrers() != nil {
				seen := map[ssa.Value]bool{}
				var walk func(x ssa.Value)
				walk = func(x ssa.Value) {
					if seen[x] || x.Referrers() == nil {
						return
					}
					seen[x] = true
					for _, r := range *x.Referrers() {
						switch y := r.(type) {
						case *ssa.Return, *ssa.Store, *ssa.MapUpdate, *ssa.Send:
							escapes = true
						case *ssa.Phi:
							walk(y)
						case *ssa.MakeInterface:
							walk(y)
						}
					}
				}
				walk(v)
			}
			if escapes {
				bad++
				c.Violation("view:"+FuncName(fn)+":pooled-buffer", call.Pos(), "%s returns or stores a string that is an unsafe view of a pooled bytes.Buffer: the buffer goes back to the pool and the next user (a query parsed in parallel) rewrites the bytes the string points at — a query built from a document's own value then searches for another request's text", FuncName(fn))
			} else {
				c.Site(call.Pos(), "%s uses an unsafe view of a pooled buffer only locally", FuncName(fn))
			}
		}
	}
	if n == 0 {
		c.Site(token.NoPos, "no unsafe string view of a pooled bytes.Buffer exists")
	}
}

// mappingKeysAreFullPaths (C11.11): every key stored into a seq.Mapping by the YAML conversion derives from the string
// parameter that carries the path of the field (the dotted name from the root) — not from the item's own name.
func mappingKeysAreFullPaths(c *Ctx) {
	n := 0
	for _, fn := range c.P.FuncsInPkg("seq") {
		if !strings.HasPrefix(FuncName(fn), "seq.convertMapping") {
			continue
		}
		var strParams []ssa.Value
		for _, p := range fn.Params {
			if b, ok := p.Type().Underlying().(*types.Basic); ok && b.Kind() == types.String {
				strParams = append(strParams, p)
			}
		}
		for _, b := range fn.Blocks {
			for _, in := range b.Instrs {
				mu, ok := in.(*ssa.MapUpdate)
				if !ok || !strings.HasSuffix(TypeStr(mu.Map.Type()), "seq.Mapping") {
					continue
				}
				n++
				fromPath := DerivesFromStop(mu.Key, func(v ssa.Value) bool {
					for _, p := range strParams {
						if v == p {
							return true
						}
					}
					return false
				}, func(v ssa.Value) bool {
					// a path joined by a helper of the package is still the path; what an outside function returns is not followed
					cl, isCall := v.(ssa.CallInstruction)
					if !isCall {
						return false
					}
					h := StaticCallee(cl)
					return h == nil || !c.P.InRepo(h)
				})
				if fromPath {
					c.Site(mu.Pos(), "%s keys the mapping by the field's path", FuncName(fn))
				} else {
					c.Violation("key:"+FuncName(fn)+":not-the-path", mu.Pos(), "%s stores a mapping entry under a key that is not built from the path parameter: for a field declared inside an object, tags or nested mapping the key (and the title the tokens are written under) loses the parent's name — the query side, which uses the full dotted name, answers 'field is not indexed', and equally named children of different objects collide", FuncName(fn))
				}
			}
		}
	}
	if n == 0 {
		c.Undecided("key:convertMapping:none", token.NoPos, "the YAML conversion no longer stores into a seq.Mapping")
	}
}

// cutLengthIsBytes (C13.15): frac/token.cut slices by bytes, so the length it is given is a byte length: it does not
// derive from a rune count.
func cutLengthIsBytes(c *Ctx) {
	n := 0
	for _, fn := range c.P.FuncsInPkg("frac/token") {
		for _, call := range CallsIn(fn, Callee("frac/token.cut")) {
			args := call.Common().Args
			if len(args) < 2 {
				continue
			}
			n++
			runes := DerivesFrom(args[1], func(v ssa.Value) bool {
				cl, ok := v.(ssa.CallInstruction)
				return ok && strings.HasPrefix(CallName(cl), "unicode/utf8.RuneCount")
			})
			if runes {
				c.Violation("unit:"+FuncName(fn)+":cut-length-in-runes", call.Pos(), "%s hands cut() a length counted in runes; cut slices bytes: for a hint with multi-byte characters the block bounds are cut shorter than the hint, compare below it, and the blocks that hold the matches are dropped from the candidates — a sealed fraction finds fewer tokens than the active one for non-ASCII terms", FuncName(fn))
			} else {
				c.Site(call.Pos(), "%s cuts by a byte length", FuncName(fn))
			}
		}
	}
	if n == 0 {
		c.Site(token.NoPos, "frac/token.cut is not called")
	}
}

// bordersWidenAtomically (C14.14 = C07.14): Active.UpdateStats widens the time borders in one hold of infoMu: whatever a
// new border value is computed from that is the fraction's own info was read with the lock write-held.
func bordersWidenAtomically(c *Ctx) {
	fn := c.Fn("(*frac.Active).UpdateStats")
	if fn == nil {
		return
	}
	n := 0
	for _, l := range c.P.FindLiftedAll(fn, func(in ssa.Instruction) bool {
		st, ok := in.(*ssa.Store)
		if !ok {
			return false
		}
		fa, ok := st.Addr.(*ssa.FieldAddr)
		if !ok {
			return false
		}
		typ, fld, _, okF := FieldOf(fa)
		return okF && strings.HasSuffix(typ, "frac.Info") && (fld == "From" || fld == "To")
	}) {
		st := l.In.(*ssa.Store)
		_, fld, _, _ := FieldOf(st.Addr.(*ssa.FieldAddr))
		host := st.Parent()
		li := Locksets(host, nil)
		// in a helper that takes no lock itself, the lock state is the one at its call in UpdateStats
		var outerLi *LockInfo
		var outerAt ssa.Instruction
		if len(l.Via) > 0 {
			outerAt = l.Via[0].(ssa.Instruction)
			outerLi = Locksets(outerAt.Parent(), nil)
		}
		held := func(in ssa.Instruction) bool {
			if lockHeldW(li, in) {
				return true
			}
			return outerLi != nil && lockHeldW(outerLi, outerAt)
		}
		n++
		var stale ssa.Instruction
		DerivesFrom(st.Val, func(v ssa.Value) bool {
			switch x := v.(type) {
			case ssa.CallInstruction:
				if CallName(x) == "(*frac.Active).Info" && !held(x.(ssa.Instruction)) {
					stale = x.(ssa.Instruction)
				}
			case *ssa.UnOp:
				if x.Op == token.MUL {
					if t, _, _, ok := FieldOf(x.X); ok && strings.HasSuffix(t, "frac.Info") && !held(x) {
						stale = x
					}
				}
			}
			return false
		})
		// a value handed to the helper as an argument was computed by the caller: it must not come from the info either
		if stale == nil && len(l.Via) > 0 {
			for _, a := range l.Via[len(l.Via)-1].Common().Args {
				DerivesFrom(a, func(v ssa.Value) bool {
					if x, ok := v.(ssa.CallInstruction); ok && CallName(x) == "(*frac.Active).Info" {
						if oi := x.(ssa.Instruction); !lockHeldW(Locksets(oi.Parent(), nil), oi) {
							stale = oi
						}
					}
					return false
				})
			}
		}
		switch {
		case stale != nil:
			c.Violation("rmw:UpdateStats:"+fld, st.Pos(), "Active.UpdateStats computes the new %s from a border it read before taking infoMu for writing: two index workers that both read before either writes overwrite each other's widening — the fraction then holds documents outside [From, To], IsIntersecting / Contains prune it for their timestamps and sealing persists the stale borders", fld)
		case held(st):
			c.Site(st.Pos(), "info.%s is widened within one write hold of infoMu", fld)
		default:
			c.Violation("rmw:UpdateStats:"+fld+":unlocked", st.Pos(), "Active.UpdateStats stores info.%s without holding infoMu for writing", fld)
		}
	}
	if n == 0 {
		c.Undecided("rmw:UpdateStats:none", fn.Pos(), "Active.UpdateStats no longer stores the time borders")
	}
}

func lockHeldW(li *LockInfo, in ssa.Instruction) bool {
	for _, mode := range li.HeldPaths(in) {
		if mode == 2 {
			return true
		}
	}
	return false
}

// statusBelongsToTheList (C19.14): the status FetchSearchResult reports (Done, Expiration) is the one it read before it
// listed the partial-result files: every read of the requests table in FetchSearchResult precedes the listing.
func statusBelongsToTheList(c *Ctx) {
	fn := c.Fn("(*fracmanager.AsyncSearcher).FetchSearchResult")
	if fn == nil {
		return
	}
	lists := c.P.FindLifted(fn, CallSel(Callee("(*fracmanager.AsyncSearcher).loadQPRPaths")))
	if len(lists) == 0 {
		c.Note("FetchSearchResult no longer lists the partial results through loadQPRPaths; the snapshot rule is not applied")
		c.Site(fn.Pos(), "no listing call to order the status read against")
		return
	}
	list := lists[0].Top()
	n := 0
	for _, l := range c.P.FindLiftedAll(fn, func(in ssa.Instruction) bool {
		lk, ok := in.(*ssa.Lookup)
		return ok && ValueIsField(lk.X, "fracmanager.AsyncSearcher", "requests")
	}) {
		n++
		top := l.Top()
		if Dominates(list, top) {
			c.Violation("snapshot:FetchSearchResult:status-after-list", top.Pos(), "FetchSearchResult reads the request's status again after it has listed the partial-result files: the Done flag it reports is newer than the list it merged — a fetch that overlaps the worker's last step answers Done with the results of the earlier fractions only")
		} else {
			c.Site(top.Pos(), "the request's status is read before the partial results are listed")
		}
	}
	if n == 0 {
		c.Undecided("snapshot:FetchSearchResult:no-read", fn.Pos(), "FetchSearchResult no longer reads the requests table")
	}
}

// acquireHandsOutOwnedObjects (C20.12): what storeapi.acquireDocFieldsFilter returns is taken from the pool or newly
// allocated — never a package-level object: the release function puts whatever it is given into the pool.
func acquireHandsOutOwnedObjects(c *Ctx) {
	fn := c.Fn("storeapi.acquireDocFieldsFilter")
	if fn == nil {
		return
	}
	for _, b := range fn.Blocks {
		ret, ok := b.Instrs[len(b.Instrs)-1].(*ssa.Return)
		if !ok || len(ret.Results) == 0 {
			continue
		}
		for _, o := range c.P.Origins(ret.Results[0], nil, 2, nil) {
			shared := DerivesFromNoCall(o.Val, func(v ssa.Value) bool { _, isG := v.(*ssa.Global); return isG })
			fromPool := DerivesFrom(o.Val, func(v ssa.Value) bool {
				cl, ok := v.(ssa.CallInstruction)
				return ok && CallName(cl) == "(*sync.Pool).Get"
			})
			if shared && !fromPool {
				c.Violation("own:acquireDocFieldsFilter:shared-object", ret.Pos(), "acquireDocFieldsFilter can hand out a package-level filter object: releaseDocFieldsFilter puts whatever it receives into the pool, so the same object is then handed to several requests at once — one request's acquire / release rewrites the field list another request is still filtering its stream with")
			} else {
				c.Site(ret.Pos(), "acquireDocFieldsFilter returns an object of its own (pooled or new)")
			}
		}
	}
}

// fieldNamesAreCaseSensitive (C20.13): the names of a fields pipe are JSON keys: the parser of the field list compares
// them as they are (no case folding).
func fieldNamesAreCaseSensitive(c *Ctx) {
	fn := c.Fn("parser.parseFieldList")
	if fn == nil {
		return
	}
	n := 0
	for _, f := range WithClosures(fn) {
		for _, call := range CallsIn(f, Callee("strings.EqualFold", "strings.ToLower", "strings.ToUpper", "bytes.EqualFold", "strings.ToTitle")) {
			n++
			c.Violation("case:parseFieldList:"+CallName(call), call.Pos(), "parseFieldList folds the case of field names (%s): JSON keys are case-sensitive, so two names that differ only in case collapse into the first spelling — the document's field with the other spelling is silently dropped by 'fields' and silently kept by 'fields except'", CallName(call))
		}
	}
	if n == 0 {
		c.Site(fn.Pos(), "parseFieldList compares field names as written")
	}
}

// wrappedSentinelsUseErrorsIs (C07.15): an error variable of the repo that is wrapped somewhere (fmt.Errorf with %w) is
// never compared with == or != (nor switched on): the comparison would never match the wrapped value.
func wrappedSentinelsUseErrorsIs(c *Ctx) {
	isGlobalErr := func(v ssa.Value) *ssa.Global {
		u, ok := v.(*ssa.UnOp)
		if !ok || u.Op != token.MUL {
			return nil
		}
		g, ok := u.X.(*ssa.Global)
		if !ok || !IsErrorType(u.Type()) || g.Pkg == nil || !strings.Contains(g.Pkg.Pkg.Path(), "seq-db") {
			return nil
		}
		return g
	}
	wrapped := map[*ssa.Global]ssa.Instruction{}
	for _, fn := range c.P.Funcs {
		if !c.P.InRepo(fn) {
			continue
		}
		for _, call := range CallsIn(fn, Callee("fmt.Errorf")) {
			args := call.Common().Args
			if len(args) < 2 {
				continue
			}
			k, ok := args[0].(*ssa.Const)
			if !ok || k.Value == nil || k.Value.Kind() != constant.String || !strings.Contains(constant.StringVal(k.Value), "%w") {
				continue
			}
			elems, spread := variadicElems(args[1])
			if spread {
				continue
			}
			for _, e := range elems {
				for i := 0; i < 4; i++ {
					switch x := e.(type) {
					case *ssa.MakeInterface:
						e = x.X
					case *ssa.ChangeInterface:
						e = x.X
					}
				}
				if g := isGlobalErr(e); g != nil {
					wrapped[g] = call.(ssa.Instruction)
				}
			}
		}
	}
	n := 0
	for _, fn := range c.P.Funcs {
		if !c.P.InRepo(fn) {
			continue
		}
		for _, b := range fn.Blocks {
			for _, in := range b.Instrs {
				bo, ok := in.(*ssa.BinOp)
				if !ok || (bo.Op != token.EQL && bo.Op != token.NEQ) {
					continue
				}
				for _, side := range []ssa.Value{bo.X, bo.Y} {
					g := isGlobalErr(side)
					if g == nil {
						continue
					}
					if w, isWrapped := wrapped[g]; isWrapped {
						n++
						c.Violation("errors:"+FuncName(fn)+":"+g.Name()+":compared-with-==", bo.Pos(), "%s compares an error with the sentinel %s using ==, but the sentinel is returned wrapped (%%w in %s): the comparison never matches, so the error falls into the other class — a retryable 'fraction is not writable' becomes final and a bulk that raced a rotation fails instead of going to the next fraction", FuncName(fn), g.Name(), FuncName(w.Parent()))
					}
				}
			}
		}
	}
	c.Count("wrapped_sentinels", len(wrapped))
	if n == 0 {
		c.Site(token.NoPos, "no sentinel that is returned wrapped is compared with == (%d wrapped sentinels)", len(wrapped))
	}
}

// dataBlocksAreNotEmpty (C08.9): a zero-length block in the index registry is the end-of-section mark. BlockFormer never
// writes a data block from an empty packer: its WriteBlock call is under len(packer.Data) != 0 (in FlushForced, or
// through every caller of it).
func dataBlocksAreNotEmpty(c *Ctx) {
	fn := c.Fn("(*disk.BlockFormer).FlushForced")
	if fn == nil {
		return
	}
	nonEmptyAt := func(in ssa.Instruction) bool {
		for _, f := range FactsAtInstr(in) {
			bo, ok := f.Cond.(*ssa.BinOp)
			if !ok {
				continue
			}
			isLen := func(v ssa.Value) bool {
				cl, ok := v.(*ssa.Call)
				return ok && CallName(cl) == "builtin.len"
			}
			k, isK := ConstInt(bo.Y)
			if !isK || !isLen(bo.X) {
				continue
			}
			switch {
			case bo.Op == token.EQL && k == 0 && !f.Val, bo.Op == token.NEQ && k == 0 && f.Val, bo.Op == token.GTR && k >= 0 && f.Val, bo.Op == token.LEQ && k >= 0 && !f.Val:
				return true
			}
		}
		return false
	}
	n := 0
	for _, call := range CallsIn(fn, MethodNamed("", "WriteBlock")) {
		n++
		if nonEmptyAt(call.(ssa.Instruction)) {
			c.Site(call.Pos(), "FlushForced writes a block only from a non-empty packer")
			continue
		}
		// or every caller guards
		okCallers, callers := true, 0
		for _, f := range c.P.Funcs {
			if !c.P.InRepo(f) {
				continue
			}
			for _, cc := range CallsIn(f, Callee("(*disk.BlockFormer).FlushForced")) {
				callers++
				if !nonEmptyAt(cc.(ssa.Instruction)) {
					okCallers = false
				}
			}
		}
		if okCallers && callers > 0 {
			c.Site(call.Pos(), "every caller of FlushForced has established a non-empty packer")
		} else {
			c.Violation("sentinel:FlushForced:empty-block", call.Pos(), "BlockFormer.FlushForced can write a block from an empty packer: a zero-length entry in the block registry is what ends a section (token table, ids, lids), so every section behind it is misread — the fraction works from the in-memory tables until the restart, then the published index is unreadable and the originals are gone")
		}
	}
	if n == 0 {
		c.Undecided("sentinel:FlushForced:no-write", fn.Pos(), "FlushForced no longer writes through WriteBlock")
	}
}

// drainAndMergeInOneHold (C05.13 = C02.17 = C07.16): TokenLIDs.GetLIDs takes the queued batch while it holds the merge
// mutex: taking the batch and merging it are one critical section, so a second reader never finds the queue
// empty while the batch it is missing has not been merged yet.
func drainAndMergeInOneHold(c *Ctx) {
	fn := c.Fn("(*frac.TokenLIDs).GetLIDs")
	if fn == nil {
		return
	}
	li := Locksets(fn, nil)
	calls := CallsIn(fn, Callee("(*frac.TokenLIDs).getQueuedLIDs"))
	if len(calls) == 0 {
		c.Undecided("hold:GetLIDs:no-drain", fn.Pos(), "TokenLIDs.GetLIDs no longer takes the queue through getQueuedLIDs")
		return
	}
	for _, call := range calls {
		held := false
		for path, mode := range li.HeldPaths(call.(ssa.Instruction)) {
			if strings.HasSuffix(path, "sortedMu") && mode == 2 {
				held = true
			}
		}
		if held {
			c.Site(call.Pos(), "the queued batch is taken with the merge mutex held")
		} else {
			c.Violation("hold:GetLIDs:drain-outside-merge-lock", call.Pos(), "TokenLIDs.GetLIDs takes the queued LIDs before it holds sortedMu: a second reader of the same token that arrives in between finds the queue empty, wins the merge mutex first and answers from a list that lacks the batch — acknowledged documents are invisible to that search (and, if the reader is the sealer, lost from the sealed fraction)")
		}
	}
}

// loadedMeansLoaded (C03.15 = C07.17): a lazily loaded sealed fraction says 'loaded' only after its tables are there: in
// Sealed.load the flag is set after Loader.Load has returned, and both happen with loadMu held.
func loadedMeansLoaded(c *Ctx) {
	fn := c.Fn("(*frac.Sealed).load")
	if fn == nil {
		return
	}
	loads := c.P.FindLifted(fn, CallSel(Callee("(*frac.Loader).Load")))
	if len(loads) == 0 {
		c.Undecided("load:Sealed.load:no-loader", fn.Pos(), "Sealed.load no longer loads through Loader.Load")
		return
	}
	// lock state of an instruction: in its own function, or — in a helper that takes no lock — at the helper's call in load
	heldW := func(l Lifted) bool {
		check := func(in ssa.Instruction) bool {
			for path, mode := range Locksets(in.Parent(), nil).HeldPaths(in) {
				if strings.HasSuffix(path, "loadMu") && mode == 2 {
					return true
				}
			}
			return false
		}
		if check(l.In) {
			return true
		}
		for _, v := range l.Via {
			if check(v.(ssa.Instruction)) {
				return true
			}
		}
		return false
	}
	load := loads[0]
	if heldW(load) {
		c.Site(load.In.Pos(), "the index is loaded with loadMu held")
	} else {
		c.Violation("load:Sealed.load:unlocked-load", load.In.Pos(), "Sealed.load reads the index without holding loadMu: a second request does not wait for the first one's load")
	}
	n := 0
	for _, l := range c.P.FindLiftedAll(fn, FieldStore("frac.Sealed", "isLoaded")) {
		st := l.In.(*ssa.Store)
		if b, ok := ConstBool(st.Val); !ok || !b {
			continue
		}
		n++
		after := false
		if st.Parent() == load.In.Parent() {
			after = Dominates(load.In, st)
		} else {
			after = LiftedDominates(load, l)
		}
		if after && heldW(l) {
			c.Site(st.Pos(), "isLoaded is set after the tables were loaded, in the same hold")
		} else {
			c.Violation("load:Sealed.load:flag-before-tables", st.Pos(), "Sealed.load sets isLoaded before Loader.Load has filled the tables (or outside the lock): a request that arrives while the first one is still reading the .index file does not wait and works on empty tables — fetch answers 'not found' for stored documents, a search panics on the nil LID table")
		}
	}
	if n == 0 {
		c.Undecided("load:Sealed.load:no-flag", fn.Pos(), "Sealed.load no longer sets isLoaded")
	}
}
