package kit

import (
	"go/constant"
	"go/token"
	"go/types"

	"golang.org/x/tools/go/ssa"
)

// InstrIndex returns the index of in inside its block.
func InstrIndex(in ssa.Instruction) int {
	for i, x := range in.Block().Instrs {
		if x == in {
			return i
		}
	}
	return -1
}

// Dominates: a is executed on every path from function entry to b (a != b).
func Dominates(a, b ssa.Instruction) bool {
	if a.Parent() != b.Parent() {
		return false
	}
	if a.Block() == b.Block() {
		return InstrIndex(a) < InstrIndex(b)
	}
	return a.Block().Dominates(b.Block())
}

// ---------------------------------------------------------------------------
// post-dominators (normal exits only: Return blocks; panics/fatal exits are not
// exits, so "B post-dominates A" means "every path from A that returns passes B")

type postDom struct {
	pd map[*ssa.BasicBlock]map[*ssa.BasicBlock]bool
}

func (p *Prog) postDom(fn *ssa.Function) *postDom {
	if r, ok := p.postdoms[fn]; ok {
		return r
	}
	all := map[*ssa.BasicBlock]bool{}
	for _, b := range fn.Blocks {
		all[b] = true
	}
	pd := map[*ssa.BasicBlock]map[*ssa.BasicBlock]bool{}
	isExit := func(b *ssa.BasicBlock) bool {
		if len(b.Instrs) == 0 {
			return false
		}
		_, ok := b.Instrs[len(b.Instrs)-1].(*ssa.Return)
		return ok
	}
	for _, b := range fn.Blocks {
		if isExit(b) {
			pd[b] = map[*ssa.BasicBlock]bool{b: true}
		} else {
			m := map[*ssa.BasicBlock]bool{}
			for x := range all {
				m[x] = true
			}
			pd[b] = m
		}
	}
	changed := true
	for changed {
		changed = false
		for i := len(fn.Blocks) - 1; i >= 0; i-- {
			b := fn.Blocks[i]
			if isExit(b) {
				continue
			}
			var inter map[*ssa.BasicBlock]bool
			for _, s := range b.Succs {
				if inter == nil {
					inter = map[*ssa.BasicBlock]bool{}
					for x := range pd[s] {
						inter[x] = true
					}
				} else {
					for x := range inter {
						if !pd[s][x] {
							delete(inter, x)
						}
					}
				}
			}
			if inter == nil {
				// no successors and not a return: panic/unreachable end. Post-dominated by everything (vacuous).
				continue
			}
			inter[b] = true
			if len(inter) != len(pd[b]) {
				pd[b] = inter
				changed = true
			}
		}
	}
	r := &postDom{pd: pd}
	p.postdoms[fn] = r
	return r
}

// PostDominates: every path from a to a normal return passes b afterwards.
func (p *Prog) PostDominates(b, a ssa.Instruction) bool {
	if a.Parent() != b.Parent() {
		return false
	}
	if a.Block() == b.Block() {
		return InstrIndex(b) > InstrIndex(a)
	}
	return p.postDom(a.Parent()).pd[a.Block()][b.Block()]
}

// ---------------------------------------------------------------------------
// Branch facts

// Fact is a branch condition known to hold (Val==true) or fail at a point.
type Fact struct {
	Cond ssa.Value
	Val  bool
	If   *ssa.If
}

// FactsAt returns the branch outcomes that hold on every path to block b:
// for every block x on b's dominator chain that has a single predecessor ending
// in an If, the outcome of that If. Short-circuit && / || are already separate
// blocks in SSA.
func FactsAt(b *ssa.BasicBlock) []Fact { return expandFacts(factsAtRaw(b), 0) }

func factsAtRaw(b *ssa.BasicBlock) []Fact {
	var out []Fact
	for x := b; x != nil; x = x.Idom() {
		if len(x.Preds) != 1 {
			// join below an If one of whose branches always dies (fatal sink):
			// the surviving branch's outcome holds at the join.
			if d := x.Idom(); d != nil && len(d.Instrs) > 0 && len(x.Preds) > 1 {
				if ifi, ok := d.Instrs[len(d.Instrs)-1].(*ssa.If); ok && d.Succs[0] != d.Succs[1] {
					t, f := d.Succs[0], d.Succs[1]
					switch {
					case t != x && f == x && !ReachesWithoutFatal(t, x):
						out = append(out, normFact(Fact{Cond: ifi.Cond, Val: false, If: ifi}))
					case f != x && t == x && !ReachesWithoutFatal(f, x):
						out = append(out, normFact(Fact{Cond: ifi.Cond, Val: true, If: ifi}))
					case t != x && f != x:
						tr, fr := ReachesWithoutFatal(t, x), ReachesWithoutFatal(f, x)
						if tr && !fr {
							out = append(out, normFact(Fact{Cond: ifi.Cond, Val: true, If: ifi}))
						} else if fr && !tr {
							out = append(out, normFact(Fact{Cond: ifi.Cond, Val: false, If: ifi}))
						}
					}
				}
			}
			continue
		}
		p := x.Preds[0]
		if len(p.Instrs) == 0 {
			continue
		}
		ifi, ok := p.Instrs[len(p.Instrs)-1].(*ssa.If)
		if !ok || p.Succs[0] == p.Succs[1] {
			continue
		}
		out = append(out, normFact(Fact{Cond: ifi.Cond, Val: x == p.Succs[0], If: ifi}))
	}
	return out
}

// FactsAtInstr is FactsAt for the block of in.
func FactsAtInstr(in ssa.Instruction) []Fact { return FactsAt(in.Block()) }

// FactsOnEdge returns facts holding when control flows along pred->succ
// (used for phi edges): facts at pred plus the branch outcome if pred ends in If.
func FactsOnEdge(pred, succ *ssa.BasicBlock) []Fact {
	out := factsAtRaw(pred)
	if len(pred.Instrs) > 0 {
		if ifi, ok := pred.Instrs[len(pred.Instrs)-1].(*ssa.If); ok && pred.Succs[0] != pred.Succs[1] {
			out = append(out, normFact(Fact{Cond: ifi.Cond, Val: succ == pred.Succs[0], If: ifi}))
		}
	}
	return expandFacts(out, 0)
}

// expandFacts adds what a fact about a short-circuit value implies. `x := a && b`
// is a phi [false, b] placed after the test of a: when the phi is known to be
// true, the only edge that can have produced it is the one carrying b, so b is
// true and so is everything that holds on that edge (a). Dually for `a || b`
// known to be false. Without this a condition stored in a variable before it
// is tested would hide the facts an inline condition gives.
func expandFacts(facts []Fact, depth int) []Fact {
	if depth > 3 {
		return facts
	}
	out := facts
	for _, f := range facts {
		ph, ok := f.Cond.(*ssa.Phi)
		if !ok {
			continue
		}
		if b, isB := ph.Type().Underlying().(*types.Basic); !isB || b.Kind() != types.Bool {
			continue
		}
		var live []int
		for i, e := range ph.Edges {
			if k, isK := ConstBool(e); isK && k != f.Val {
				continue // this edge would have produced the other value
			}
			live = append(live, i)
		}
		if len(live) != 1 {
			continue
		}
		i := live[0]
		var more []Fact
		if _, isK := ConstBool(ph.Edges[i]); !isK {
			more = append(more, normFact(Fact{Cond: ph.Edges[i], Val: f.Val, If: f.If}))
		}
		pred := ph.Block().Preds[i]
		edge := factsAtRaw(pred)
		if len(pred.Instrs) > 0 {
			if ifi, ok := pred.Instrs[len(pred.Instrs)-1].(*ssa.If); ok && pred.Succs[0] != pred.Succs[1] {
				edge = append(edge, normFact(Fact{Cond: ifi.Cond, Val: ph.Block() == pred.Succs[0], If: ifi}))
			}
		}
		more = append(more, edge...)
		out = append(out, expandFacts(more, depth+1)...)
	}
	return out
}

func normFact(f Fact) Fact {
	for {
		u, ok := f.Cond.(*ssa.UnOp)
		if !ok || u.Op != token.NOT {
			return f
		}
		f.Cond = u.X
		f.Val = !f.Val
	}
}

// IsNilConst reports whether v is the nil constant.
func IsNilConst(v ssa.Value) bool {
	c, ok := v.(*ssa.Const)
	return ok && c.Value == nil && !isBasicNonNilable(c.Type())
}

func isBasicNonNilable(t types.Type) bool {
	if b, ok := t.Underlying().(*types.Basic); ok {
		return b.Kind() != types.UntypedNil && b.Kind() != types.UnsafePointer
	}
	return false
}

// SameValue: identical SSA values, or two loads of the same address
// (alloc / free variable / global / same field address expression).
func SameValue(a, b ssa.Value) bool {
	if a == b {
		return true
	}
	a, b = stripConv(a), stripConv(b)
	if a == b {
		return true
	}
	la, ok1 := a.(*ssa.UnOp)
	lb, ok2 := b.(*ssa.UnOp)
	if ok1 && ok2 && la.Op == token.MUL && lb.Op == token.MUL {
		return sameAddr(la.X, lb.X)
	}
	return false
}

func stripConv(v ssa.Value) ssa.Value {
	for {
		switch x := v.(type) {
		case *ssa.ChangeType:
			v = x.X
		case *ssa.MakeInterface:
			v = x.X
		case *ssa.ChangeInterface:
			v = x.X
		default:
			return v
		}
	}
}

func sameAddr(a, b ssa.Value) bool {
	if a == b {
		return true
	}
	fa, ok1 := a.(*ssa.FieldAddr)
	fb, ok2 := b.(*ssa.FieldAddr)
	if ok1 && ok2 && fa.Field == fb.Field {
		return SameValue(fa.X, fb.X) || sameAddr(fa.X, fb.X)
	}
	ia, ok1 := a.(*ssa.IndexAddr)
	ib, ok2 := b.(*ssa.IndexAddr)
	if ok1 && ok2 {
		return SameValue(ia.X, ib.X) && SameValue(ia.Index, ib.Index)
	}
	return false
}

// NilFact classifies a fact about v: +1 "v == nil holds", -1 "v != nil holds", 0 unrelated.
func NilFact(f Fact, v ssa.Value) int {
	bo, ok := f.Cond.(*ssa.BinOp)
	if !ok || (bo.Op != token.EQL && bo.Op != token.NEQ) {
		return 0
	}
	var other ssa.Value
	switch {
	case IsNilConst(bo.Y):
		other = bo.X
	case IsNilConst(bo.X):
		other = bo.Y
	default:
		return 0
	}
	if !SameValue(other, v) {
		return 0
	}
	eq := bo.Op == token.EQL
	if eq == f.Val {
		return 1
	}
	return -1
}

// KnownNil: on every path to b, v == nil was established by a branch.
func KnownNil(facts []Fact, v ssa.Value) bool {
	for _, f := range facts {
		if NilFact(f, v) == 1 {
			return true
		}
	}
	return nilBySiblingResult(facts, v)
}

// nilBySiblingResult: v is result k of a call to a repo function, the path knows the value of a boolean sibling
// result j of the same call, and every return of the callee that hands back that boolean value hands back a nil
// result k (`flushed, err := f()`: when the callee answers flushed == false it never has an error to report).
func nilBySiblingResult(facts []Fact, v ssa.Value) bool {
	ev, ok := v.(*ssa.Extract)
	if !ok {
		return false
	}
	call, ok := ev.Tuple.(*ssa.Call)
	if !ok {
		return false
	}
	callee := StaticCallee(call)
	if callee == nil || callee.Blocks == nil || Current == nil || !Current.InRepo(callee) {
		return false
	}
	for _, f := range facts {
		sib, ok := f.Cond.(*ssa.Extract)
		neg := false
		if !ok {
			if u, isNot := f.Cond.(*ssa.UnOp); isNot && u.Op == token.NOT {
				sib, ok = u.X.(*ssa.Extract)
				neg = true
			}
		}
		if !ok || sib.Tuple != ev.Tuple || sib.Index == ev.Index {
			continue
		}
		want := f.Val != neg
		all, some := true, false
		for _, b := range callee.Blocks {
			ret, isRet := b.Instrs[len(b.Instrs)-1].(*ssa.Return)
			if !isRet || b == callee.Recover || sib.Index >= len(ret.Results) || ev.Index >= len(ret.Results) {
				continue
			}
			for _, rp := range ReturnPaths(callee, sib.Index) {
				if rp.Ret != ret {
					continue
				}
				bv, isK := ConstBool(rp.Val)
				if !isK {
					all = false // the boolean is computed: no summary
					continue
				}
				if bv != want {
					continue
				}
				some = true
				if !IsNilConst(RetOperand(ret, ev.Index)) {
					all = false
				}
			}
		}
		if some && all {
			return true
		}
	}
	return false
}

// KnownNonNil: on every path to b, v != nil was established by a branch.
func KnownNonNil(facts []Fact, v ssa.Value) bool {
	for _, f := range facts {
		if NilFact(f, v) == -1 {
			return true
		}
	}
	return false
}

// BoolFact looks for a fact whose condition satisfies pred; returns its truth value.
func BoolFact(facts []Fact, pred func(ssa.Value) bool) (val, found bool) {
	for _, f := range facts {
		if pred(f.Cond) {
			return f.Val, true
		}
	}
	return false, false
}

// ConstInt returns the integer value of a constant.
func ConstInt(v ssa.Value) (int64, bool) {
	c, ok := v.(*ssa.Const)
	if !ok || c.Value == nil || c.Value.Kind() != constant.Int {
		return 0, false
	}
	return c.Int64(), true
}

// ConstBool returns the boolean value of a constant.
func ConstBool(v ssa.Value) (bool, bool) {
	c, ok := v.(*ssa.Const)
	if !ok || c.Value == nil || c.Value.Kind() != constant.Bool {
		return false, false
	}
	return constant.BoolVal(c.Value), true
}

// ConstString returns the string value of a constant.
func ConstString(v ssa.Value) (string, bool) {
	c, ok := v.(*ssa.Const)
	if !ok || c.Value == nil || c.Value.Kind() != constant.String {
		return "", false
	}
	return constant.StringVal(c.Value), true
}

// InLoop reports whether block b lies on a CFG cycle.
func InLoop(b *ssa.BasicBlock) bool {
	seen := map[*ssa.BasicBlock]bool{}
	var stack []*ssa.BasicBlock
	stack = append(stack, b.Succs...)
	for len(stack) > 0 {
		x := stack[len(stack)-1]
		stack = stack[:len(stack)-1]
		if x == b {
			return true
		}
		if seen[x] {
			continue
		}
		seen[x] = true
		stack = append(stack, x.Succs...)
	}
	return false
}

// Reachable reports whether there is a CFG path from the end of a to the start of b.
func Reachable(a, b *ssa.BasicBlock) bool {
	seen := map[*ssa.BasicBlock]bool{}
	stack := append([]*ssa.BasicBlock{}, a.Succs...)
	for len(stack) > 0 {
		x := stack[len(stack)-1]
		stack = stack[:len(stack)-1]
		if x == b {
			return true
		}
		if seen[x] {
			continue
		}
		seen[x] = true
		stack = append(stack, x.Succs...)
	}
	return false
}

// CanFollow: there is an execution in which instruction b runs after a
// (same function).
func CanFollow(a, b ssa.Instruction) bool {
	if a.Block() == b.Block() {
		if InstrIndex(a) < InstrIndex(b) {
			return true
		}
		return InLoop(a.Block())
	}
	return Reachable(a.Block(), b.Block())
}

// ReachesWithoutFatal: there is a path from the start of `from` to `target`
// that does not execute an explicit fatal sink.
func ReachesWithoutFatal(from, target *ssa.BasicBlock) bool {
	seen := map[*ssa.BasicBlock]bool{}
	var walk func(b *ssa.BasicBlock) bool
	walk = func(b *ssa.BasicBlock) bool {
		if b == target {
			return true
		}
		if seen[b] {
			return false
		}
		seen[b] = true
		for _, in := range b.Instrs {
			if IsFatalInstr(in) {
				return false
			}
		}
		for _, s := range b.Succs {
			if walk(s) {
				return true
			}
		}
		return false
	}
	return walk(from)
}

// InLoopBody: block b lies on a cycle (alias of InLoop, kept for readability at call sites).
func InLoopBody(b *ssa.BasicBlock) bool {
	// a block that returns is never on a cycle; test whether it is reachable from a block that is
	if InLoop(b) {
		return true
	}
	for _, p := range b.Preds {
		if InLoop(p) {
			return true
		}
	}
	return false
}

// AllPathsPass: every path from the function entry to target executes one of sites first.
func AllPathsPass(sites []ssa.Instruction, target ssa.Instruction) bool {
	fn := target.Parent()
	if len(fn.Blocks) == 0 {
		return false
	}
	blocked := map[*ssa.BasicBlock]bool{}
	for _, s := range sites {
		if s.Block() == target.Block() {
			if InstrIndex(s) < InstrIndex(target) {
				return true
			}
			continue
		}
		blocked[s.Block()] = true
	}
	seen := map[*ssa.BasicBlock]bool{}
	stack := []*ssa.BasicBlock{fn.Blocks[0]}
	for len(stack) > 0 {
		b := stack[len(stack)-1]
		stack = stack[:len(stack)-1]
		if seen[b] || blocked[b] {
			continue
		}
		seen[b] = true
		if b == target.Block() {
			return false
		}
		stack = append(stack, b.Succs...)
	}
	return true
}
