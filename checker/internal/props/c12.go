package props

import (
	"fmt"
	"go/token"
	"go/types"
	"sort"
	"strings"

	"golang.org/x/tools/go/ssa"

	. "seqverif/internal/kit"
)

func init() {
	register(&PropInfo{
		ID:          "C12",
		Title:       "Query parsing is total and preserves the boolean meaning of the query",
		Explanation: "Totality, and one meaning clause. (1) Every explicit panic reachable (static calls inside package parser) from ParseSeqQL, ParseQuery and ParseAggregationFilter is discharged: enum-guarded sinks by a finite-domain reachability over the declared seq.TokenizerType / logicalKind constants that follows the switched value through parameters to every call site and to its producer (indexType); type-switch defaults by coverage of every concrete type stored into the interface; the remaining caller-checked sinks by a frozen per-site guard that is re-checked at every call site. (2) Every input-driven recursion cycle (SCC of the static call graph reachable from the entry points and the AST walkers used by search) needs a depth parameter that grows along the cycle and is compared with a constant before an error return. (3) Every call of the parse entry points in the repository propagates the returned error. (4) FINITE: the negation push-down (propagateNot) is recovered as a decision table by conditional constant propagation over its finite input partition (operator x left-negated x right-negated, operands symbolic) and every cell is compared with the truth table of the input; buildEvalTree reads NAnd in the child order propagateNot writes; both parsers wrap the root in NOT exactly under the returned flag. (5) INDEX(const): constant-index reads of the input text are dominated by a length test. (6) CURSOR: the legacy parser reads and advances its cursor only after eof() answered false since the position changed. (7) unquotePrefix succeeds after its loop only with input left. NOT decided: that the tree built by the recursive-descent parsers denotes the written expression (precedence, grouping), lexer loop termination, other implicit runtime panics from variable indices and slice bounds.",
		Assumptions: []string{"values of the enum types are declared constants (no out-of-range conversions)", "recursion through interface or function values is not followed"},
		Obs:         c12,
	})
}

func parserScope(c *Ctx) []*ssa.Function {
	roots, ok := c.Fns("parser.ParseSeqQL", "parser.ParseQuery", "parser.ParseAggregationFilter")
	if !ok {
		return nil
	}
	return c.P.Scope(roots, func(rel string) bool { return rel == "parser" })
}

func c12() []*Ob {
	return []*Ob{
		{Prop: "C12", ID: "C12.12", Engine: "TYPESTATE(use after put)", Floor: 5,
			Desc:  "a parsed query is made of its own text: a pooled object is not used after a hand-back that is not deferred (shared rule with C09.9) — parseCompositeToken that puts its bytes.Buffer back one statement before b.String() lets a query parsed in parallel overwrite the field name, value or pipe field of this one: the tree that is searched means something else than the text",
			Check: shared("C09.9")},
		{Prop: "C12", ID: "C12.13", Engine: "ALIAS(pooled buffer view)", Floor: 1,
			Desc:  "... and no unsafe string view of a pooled buffer leaves the function that holds it (shared rule with C11.10)",
			Check: shared("C11.10")},
		{Prop: "C12", ID: "C12.11", Engine: "PROV(parse inputs)", Floor: 2,
			Desc:  "a query means what the current mapping makes of it: every AST GrpcV1.parseQuery returns derives from parser.ParseSeqQL / parser.ParseQuery called in the same request with the provider's GetMapping(); an AST taken from a memo is accepted only when the lookup key derives from GetMapping() as well — a cache keyed by the query text alone outlives a mapping reload (keyword to text, field removed) and the store keeps searching with a tree that a fresh parse would not produce. The rule does not judge a cache that is invalidated by other means: it reports it",
			Check: func(c *Ctx) { parsedAgainstCurrentMapping(c) }},
		{Prop: "C12", ID: "C12.10", Engine: "PAIR(two sites)", Floor: 1,
			Desc:  "the SeqQL parser never reaches its own `lexer is not end` panic: parsePipes succeeds only at the end of the input, or parseFieldList ends only in front of a pipe or at the end (its loop is the lexer's keyword test that includes the empty token)",
			Check: func(c *Ctx) { pipesEndAtEndOfInput(c) }},
		{Prop: "C12", ID: "C12.8", Engine: "PAIR", Floor: 2,
			Desc:  "the words of a text term are the indexer's words: both parsers split the value of a text field with the same character classes as the text tokenizer (shared rule with C11.1) — 'several words on a text field are a conjunction' of exactly the words the documents were indexed under; a class that is narrower on the query side turns one indexed word into a conjunction of fragments no document has",
			Check: shared("C11.1")},
		{Prop: "C12", ID: "C12.1", Engine: "ENUM(panic)+DOM", Floor: 1,
			Desc: "no explicit panic/fatal sink is reachable from ParseSeqQL / ParseQuery / ParseAggregationFilter for any input string and any mapping (every mapping type: keyword, text, path, exists, object, tags, nested, noop)",
			Check: func(c *Ctx) {
				scope := parserScope(c)
				if scope == nil {
					return
				}
				tokTypes := c.P.EnumConsts("seq", "TokenizerType")
				if len(tokTypes) < 3 {
					c.Undecided("enum:TokenizerType", token.NoPos, "cannot enumerate the constants of seq.TokenizerType")
					return
				}
				producer := Callee("parser.indexType")
				guards := map[string]struct {
					char   []int64
					reason string
				}{
					"(*parser.tokenParser).parseQuotedTerms": {[]int64{'"'}, "callers test tp.cur() == '\"' first"},
					"(*parser.tokenParser).parseRange":       {[]int64{'[', '{'}, "callers test tp.cur() == '[' || '{' first"},
				}
				frozen := map[string]string{
					"parser.ParseSeqQL": "\"lexer is not end\": parseSeqQLFilter at depth 0 returns only at end of input or at '|', and parsePipes consumes pipes until end of input or returns an error",
				}
				c.Count("functions_in_parse_scope", len(scope))
				for _, fn := range scope {
					occ := 0
					for _, p := range FatalSites(fn) {
						if !p.Pos().IsValid() {
							continue
						}
						occ++
						key := fmt.Sprintf("panic:%s#%d", FuncName(fn), occ)
						// (a) enum-guarded
						if subj, enum := enumSubject(p, tokTypes); subj != nil {
							reach, unknown := c.P.EnumReaching(subj, p, enum, producer, 4)
							names := EnumNames(enum, reach)
							if len(names) == 0 && !unknown {
								c.Site(p.Pos(), "%s: panic unreachable — no declared constant reaches the default branch", FuncName(fn))
							} else if len(names) == 0 {
								c.Site(p.Pos(), "%s: every declared constant is handled before the panicking default", FuncName(fn))
							} else {
								c.Violation(key, p.Pos(), "%s panics for index type(s) %s: a query on a field mapped that way reaches this default branch (the store's gRPC server has no recovery interceptor)", FuncName(fn), strings.Join(names, ", "))
							}
							continue
						}
						// (b) type-switch default
						if covered, missing, ok := typeSwitchCoverage(c.P, p); ok {
							if covered {
								c.Site(p.Pos(), "%s: type switch covers every concrete type stored into the interface", FuncName(fn))
							} else {
								c.Violation(key, p.Pos(), "%s panics for value(s) of type %s, which the repository stores into this interface", FuncName(fn), strings.Join(missing, ", "))
							}
							continue
						}
						// (c) caller-checked guards
						if g, ok := guards[FuncName(fn)]; ok {
							bad := false
							for _, call := range c.P.Callers(fn) {
								if !callerChecksRune(call, g.char) {
									bad = true
									c.Violation(key+":caller:"+FuncName(call.Parent()), call.Pos(), "%s calls %s without having tested the current rune (%s): the callee panics", FuncName(call.Parent()), FuncName(fn), g.reason)
								}
							}
							if !bad {
								c.Site(p.Pos(), "%s: panic guarded at all %d call sites (%s)", FuncName(fn), len(c.P.Callers(fn)), g.reason)
							}
							continue
						}
						if why, ok := frozen[FuncName(fn)]; ok {
							c.Site(p.Pos(), "%s: frozen exemption — %s", FuncName(fn), why)
							continue
						}
						c.Violation(key, p.Pos(), "explicit panic in %s is reachable from a parse entry point and is not discharged by an enum, type-switch or caller-guard argument", FuncName(fn))
					}
				}
			}},
		{Prop: "C12", ID: "C12.2", Engine: "RECUR", Floor: 2,
			Desc: "no unbounded input-driven recursion: every cycle of the static call graph reachable from the parse entry points, and the AST walkers applied to parsed queries (propagateNot, processor.buildEvalTree), carries a depth counter that is compared with a constant before an error return",
			Check: func(c *Ctx) {
				scope := parserScope(c)
				if scope == nil {
					return
				}
				extra := []string{"frac/processor.buildEvalTree"}
				for _, n := range extra {
					if f := c.Fn(n); f != nil {
						scope = append(scope, f)
					}
				}
				for _, comp := range SCCs(scope) {
					var names []string
					for _, f := range comp {
						names = append(names, FuncName(f))
					}
					sort.Strings(names)
					// the cycle is identified by its first member that the recorded tree already had:
					// a helper extracted from (or inlined into) the cycle leaves the finding what it was
					rep := names[0]
					for _, n := range names {
						if c.P.RecordedFunc(n) {
							rep = n
							break
						}
					}
					key := "recur:" + rep
					if ok, how := DepthBounded(comp); ok {
						c.Site(comp[0].Pos(), "recursion cycle {%s} is depth-bounded: %s", strings.Join(names, ", "), how)
					} else {
						c.Violation(key, comp[0].Pos(), "recursion cycle {%s} has no depth bound: nesting in the query text (parentheses, NOT chains, long AND/OR chains for the tree walkers) drives the goroutine stack until the runtime aborts the process (fatal error: stack overflow is not recoverable)", strings.Join(names, ", "))
					}
				}
			}},
		{Prop: "C12", ID: "C12.4", Engine: "FINITE(SCCP)", Floor: 7,
			Desc:  "negation push-down keeps the meaning: for every cell of (operator in {AND, OR}) x (left negated) x (right negated), the operator, child order and returned negation flag that propagateNot leaves behind denote the same boolean function of the two operands as the input (LogicalNAnd(c0, c1) = NOT c0 AND c1, as buildEvalTree and node.NewNAnd read it); the NOT case flips the flag of its operand; both parsers wrap the root in a NOT node exactly when the flag is set",
			Check: func(c *Ctx) { checkPropagateNot(c) }},
		{Prop: "C12", ID: "C12.5", Engine: "INDEX(const)", Floor: 1,
			Desc: "no unguarded look at the input text: every element read text[k] with a constant k of a string, []byte or []rune in the functions reachable from the parse entry points is dominated by a test that the text is long enough (len(text) compared with a constant, text != \"\", or the loop condition that carries it) — an unterminated or truncated query must end in an error, not in an index-out-of-range panic that takes the store down",
			Check: func(c *Ctx) {
				scope := parserScope(c)
				if scope == nil {
					return
				}
				isText := func(t types.Type) bool {
					switch u := t.Underlying().(type) {
					case *types.Basic:
						return u.Info()&types.IsString != 0
					case *types.Slice:
						if b, ok := u.Elem().Underlying().(*types.Basic); ok {
							return b.Kind() == types.Uint8 || b.Kind() == types.Int32
						}
					}
					return false
				}
				for _, fn := range scope {
					occ := 0
					for _, site := range ConstIndexSites(fn) {
						if !isText(site.X.Type()) {
							continue
						}
						occ++
						if site.Proof != "" {
							c.Site(site.Instr.Pos(), "%s reads text[%d] under a %s", FuncName(fn), site.K, site.Proof)
						} else {
							c.Violation(fmt.Sprintf("index:const:%s#%d", FuncName(fn), occ), site.Instr.Pos(), "%s reads element %d of the input text without a dominating test that the text is that long: a query that ends early (for example an unterminated quoted token whose closing quote is escaped) panics with index out of range inside the parser", FuncName(fn), site.K)
						}
					}
				}
			}},
		{Prop: "C12", ID: "C12.6", Engine: "CURSOR(typestate)", Floor: 10,
			Desc: "the legacy parser never looks at or steps over the end of the query: in every method of tokenParser / queryParser the current rune is read (cur() and the class tests built on it) and the position is advanced (pos++) only after eof() answered false since the position last changed; methods that read before testing (parseQuotedTerms, parseRange, the class tests) rely on their callers, and every call site is checked in turn — a query that ends in the middle of an escape or a bracket must end in an error, not in an index-out-of-range panic",
			Check: func(c *Ctx) {
				res := c.P.CursorCheck(CursorSpec{
					Type:     "parser.tokenParser",
					Field:    "pos",
					EOF:      "(*parser.tokenParser).eof",
					Reads:    []string{"(*parser.tokenParser).cur"},
					Receiver: []string{"parser.tokenParser", "parser.queryParser"},
					// frozen: parseSimpleTerm returns "" only when its scanning loop consumed nothing; its callers
					// have skipped spaces before, so the cursor still stands on the non-space rune that was tested
					EmptyScan: []string{"(*parser.tokenParser).parseSimpleTerm"},
				})
				if res.Methods == 0 {
					c.Undecided("cursor:no-methods", token.NoPos, "no methods of parser.tokenParser found")
					return
				}
				c.Count("cursor_methods", res.Methods)
				c.Count("cursor_methods_relying_on_callers", len(res.Requires))
				for _, in := range res.Sites {
					c.Site(in.Pos(), "%s: cursor use after eof() == false", FuncName(in.Parent()))
				}
				occ := map[string]int{}
				for _, f := range res.Findings {
					occ[FuncName(f.Fn)]++
					c.Violation(fmt.Sprintf("cursor:%s#%d", FuncName(f.Fn), occ[FuncName(f.Fn)]), f.Instr.Pos(), "%s %s although the position has changed since eof() was last tested (or eof() answered true): for a query that ends here the parser indexes past the end of the input and the process panics", FuncName(f.Fn), f.What)
				}
				for _, f := range res.Entry {
					c.Violation("cursor:entry:"+FuncName(f.Fn), f.Instr.Pos(), "%s %s", FuncName(f.Fn), f.What)
				}
			}},
		{Prop: "C12", ID: "C12.7", Engine: "DOM", Floor: 1,
			Desc: "the SeqQL lexer reports an unterminated quoted token instead of slicing past the end: in unquotePrefix the remaining input that is consumed character by character (the string handed to unquoteChar) is known to be non-empty at every success return that follows the unquoting loop — the loop also ends when the input runs out (a closing quote found beforehand may be an escaped one), and the counted position is then one past the end",
			Check: func(c *Ctx) {
				fn := c.Fn("parser.unquotePrefix")
				if fn == nil {
					return
				}
				calls := CallsIn(fn, Callee("parser.unquoteChar"))
				if len(calls) == 0 {
					c.Site(fn.Pos(), "unquotePrefix no longer unquotes character by character")
					return
				}
				rest := calls[0].Common().Args[0] // the unconsumed input, a loop-carried value
				l := InnermostLoop(calls[0].Block())
				if l == nil {
					c.Undecided("dom:unquotePrefix:loop", calls[0].Pos(), "the call of unquoteChar is not inside a loop")
					return
				}
				idx := ErrorResultIndex(fn)
				for _, b := range fn.Blocks {
					ret, ok := b.Instrs[len(b.Instrs)-1].(*ssa.Return)
					if !ok || idx < 0 || !IsNilConst(RetOperand(ret, idx)) {
						continue
					}
					if !l.Header.Dominates(b) || l.Blocks[b] {
						continue // success returns that do not come out of the loop (the no-escape fast path)
					}
					nonEmpty := false
					for _, f := range FactsAt(b) {
						bo, isBo := f.Cond.(*ssa.BinOp)
						if !isBo {
							continue
						}
						// rest != "" / rest == "" (false)
						if s, isS := ConstString(bo.Y); isS && s == "" && SameValue(bo.X, rest) {
							if (bo.Op == token.NEQ && f.Val) || (bo.Op == token.EQL && !f.Val) {
								nonEmpty = true
							}
						}
						// len(rest) > 0 and the like
						if cl, isC := bo.X.(*ssa.Call); isC && CallName(cl) == "builtin.len" && len(cl.Call.Args) == 1 && SameValue(cl.Call.Args[0], rest) {
							if k, isK := ConstInt(bo.Y); isK {
								switch {
								case bo.Op == token.GTR && k >= 0 && f.Val, bo.Op == token.NEQ && k == 0 && f.Val, bo.Op == token.EQL && k == 0 && !f.Val, bo.Op == token.GEQ && k >= 1 && f.Val, bo.Op == token.LSS && k >= 1 && !f.Val, bo.Op == token.LEQ && k >= 0 && !f.Val:
									nonEmpty = true
								}
							}
						}
					}
					if nonEmpty {
						c.Site(ret.Pos(), "success after the unquoting loop only with unconsumed input left (the closing quote)")
					} else {
						c.Violation("dom:unquotePrefix:success-at-end-of-input", ret.Pos(), "unquotePrefix returns success after its unquoting loop without knowing that input is left: when every later quote is escaped the loop consumes the whole query, and the remainder is sliced one position past the end (panic: slice bounds out of range) instead of a syntax error")
					}
				}
			}},
		{Prop: "C12", ID: "C12.3", Engine: "ERRFLOW", Floor: 2,
			Desc: "every call of parser.ParseSeqQL / ParseQuery / ParseAggregationFilter in non-test repository code propagates the returned error (returned, wrapped, stored or fatal) — a parse error is never dropped or turned into a query",
			Check: func(c *Ctx) {
				m := Callee("parser.ParseSeqQL", "parser.ParseQuery", "parser.ParseAggregationFilter")
				for _, fn := range c.P.Funcs {
					pk := PkgOf(fn)
					if strings.HasPrefix(pk, "tests") || strings.HasPrefix(pk, "tools") || strings.HasPrefix(pk, "benchmarks") || strings.HasPrefix(pk, "cmd/") && pk != "cmd/seq-db" {
						continue
					}
					for _, u := range ErrorUses(fn) {
						if !m(u.Call) {
							continue
						}
						if u.Propagates {
							c.Site(u.Call.Pos(), "%s: error of %s %s", FuncName(fn), CallName(u.Call), u.Why)
						} else if FuncName(fn) == "proxy/search.tryParseFieldsFilter" {
							c.Site(u.Call.Pos(), "%s: best-effort second parse of a query the stores parse themselves (and reject); an empty filter is returned", FuncName(fn))
						} else {
							c.Violation("errflow:"+FuncName(fn)+":"+CallName(u.Call), u.Call.Pos(), "%s drops the error of %s: %s", FuncName(fn), CallName(u.Call), u.Why)
						}
					}
				}
			}},
	}
}

// enumSubject: the panic at p is the default of comparisons `v == const` on an
// enum-typed value; returns v and the universe of its type.
func enumSubject(p ssa.Instruction, tokTypes map[string]int64) (ssa.Value, map[string]int64) {
	for _, f := range FactsAtInstr(p) {
		bo, ok := f.Cond.(*ssa.BinOp)
		if !ok || bo.Op != token.EQL && bo.Op != token.NEQ {
			continue
		}
		var v ssa.Value
		if _, isK := ConstInt(bo.Y); isK {
			v = bo.X
		} else if _, isK := ConstInt(bo.X); isK {
			v = bo.Y
		}
		if v == nil {
			continue
		}
		named, ok := v.Type().(*types.Named)
		if !ok {
			continue
		}
		if named.Obj().Name() == "TokenizerType" {
			return v, tokTypes
		}
		// other enum types: collect their declared constants from the defining package
		if b, ok := named.Underlying().(*types.Basic); ok && b.Info()&types.IsInteger != 0 && named.Obj().Pkg() != nil {
			uni := map[string]int64{}
			sc := named.Obj().Pkg().Scope()
			for _, n := range sc.Names() {
				if k, ok := sc.Lookup(n).(*types.Const); ok && types.Identical(k.Type(), named) {
					if val, ok := constInt64(k); ok {
						uni[n] = val
					}
				}
			}
			if len(uni) > 0 {
				return v, uni
			}
		}
	}
	return nil, nil
}

func constInt64(k *types.Const) (int64, bool) {
	s := k.Val().ExactString()
	var v int64
	_, err := fmt.Sscan(s, &v)
	return v, err == nil
}

// typeSwitchCoverage: p is reached only when every comma-ok type assertion on
// an interface value failed; the universe is every concrete type boxed into
// that interface type anywhere in the repo.
func typeSwitchCoverage(prog *Prog, p ssa.Instruction) (covered bool, missing []string, ok bool) {
	var subject ssa.Value
	asserted := map[string]bool{}
	for _, f := range FactsAtInstr(p) {
		e, isE := f.Cond.(*ssa.Extract)
		if !isE || e.Index != 1 || f.Val {
			continue
		}
		ta, isTA := e.Tuple.(*ssa.TypeAssert)
		if !isTA || !ta.CommaOk {
			continue
		}
		subject = ta.X
		asserted[TypeStr(ta.AssertedType)] = true
	}
	if subject == nil {
		return false, nil, false
	}
	iface := subject.Type()
	universe := map[string]bool{}
	for _, fn := range prog.Funcs {
		if strings.HasPrefix(PkgOf(fn), "tests") {
			continue
		}
		for _, b := range fn.Blocks {
			for _, in := range b.Instrs {
				if mi, isMI := in.(*ssa.MakeInterface); isMI && types.Identical(mi.Type(), iface) {
					universe[TypeStr(mi.X.Type())] = true
				}
			}
		}
	}
	for t := range universe {
		if !asserted[t] {
			missing = append(missing, CleanName(t))
		}
	}
	sort.Strings(missing)
	return len(missing) == 0, missing, true
}

// callerChecksRune: the call is dominated by `tp.cur() == r` (true) for one of the runes.
func callerChecksRune(call ssa.CallInstruction, runes []int64) bool {
	for _, f := range FactsAtInstr(call.(ssa.Instruction)) {
		bo, ok := f.Cond.(*ssa.BinOp)
		if !ok {
			continue
		}
		k, isK := ConstInt(bo.Y)
		cl, isC := bo.X.(ssa.CallInstruction)
		if !isK || !isC || !strings.HasSuffix(CallName(cl), ").cur") {
			continue
		}
		for _, r := range runes {
			if k == r && (bo.Op == token.EQL) == f.Val {
				return true
			}
		}
	}
	// `a || b` guard: the call block is the join of two tests; accept when every predecessor edge established one of the runes
	b := call.(ssa.Instruction).Block()
	if len(b.Preds) > 1 {
		all := true
		for _, p := range b.Preds {
			okEdge := false
			for _, f := range FactsOnEdge(p, b) {
				bo, ok := f.Cond.(*ssa.BinOp)
				if !ok {
					continue
				}
				k, isK := ConstInt(bo.Y)
				cl, isC := bo.X.(ssa.CallInstruction)
				if !isK || !isC || !strings.HasSuffix(CallName(cl), ").cur") {
					continue
				}
				for _, r := range runes {
					if k == r && (bo.Op == token.EQL) == f.Val {
						okEdge = true
					}
				}
			}
			if !okEdge {
				all = false
			}
		}
		return all
	}
	return false
}

// checkPropagateNot recovers propagateNot's rewrite table by conditional constant
// propagation over the finite input partition and compares it, cell by cell,
// with the truth table of the input.
func checkPropagateNot(c *Ctx) {
	fn := c.Fn("parser.propagateNot")
	if fn == nil {
		return
	}
	kinds := c.P.EnumConsts("parser", "logicalKind")
	and, okA := kinds["LogicalAnd"]
	or, okO := kinds["LogicalOr"]
	not, okN := kinds["LogicalNot"]
	nand, okD := kinds["LogicalNAnd"]
	if !(okA && okO && okN && okD) {
		c.Undecided("finite:propagateNot:kinds", fn.Pos(), "cannot enumerate parser.logicalKind")
		return
	}
	// how the evaluator reads NAnd: first child is the negated one
	if bt := c.Fn("frac/processor.buildEvalTree"); bt != nil {
		for _, call := range CallsIn(bt, Callee("node.NewNAnd")) {
			i0, ok0 := childIndex(Arg(call, 0))
			i1, ok1 := childIndex(Arg(call, 1))
			if ok0 && ok1 && i0 == 0 && i1 == 1 {
				c.Site(call.Pos(), "buildEvalTree builds NAnd(negative=children[0], regular=children[1])")
			} else {
				c.Violation("finite:buildEvalTree:nand-order", call.Pos(), "buildEvalTree no longer passes children[0] as the negated and children[1] as the regular operand of NAnd, which is how propagateNot orders them")
			}
		}
	}
	typeAssert := func(x AbsVal, t types.Type) (AbsVal, AbsVal, bool) {
		if x.Kind == ARef && x.Name == "node.Value" {
			return Ref("logical"), Bool(true), true
		}
		return AbsVal{}, AbsVal{}, false
	}
	evalOp := func(op int64, a, b bool) (bool, bool) {
		switch op {
		case and:
			return a && b, true
		case or:
			return a || b, true
		case nand:
			return !a && b, true
		}
		return false, false
	}
	opName := func(op int64) string {
		for n, v := range kinds {
			if v == op {
				return n
			}
		}
		return fmt.Sprint(op)
	}
	// binary cells. The parsers build AND/OR/NOT trees only, and propagateNot is applied once, from the root. If it is also
	// called from inside the recursive descent (to collapse a NOT chain early), it is later applied again to a tree that
	// already contains fused NAND nodes: then the NAND input has to keep its meaning too.
	ops := []int64{and, or}
	inCycle := map[*ssa.Function]bool{}
	if scope := parserScope(c); scope != nil {
		for _, comp := range SCCs(scope) {
			for _, f := range comp {
				inCycle[f] = true
			}
		}
	}
	for _, call := range c.P.Callers(fn) {
		caller := call.Parent()
		for caller.Parent() != nil {
			caller = caller.Parent()
		}
		if caller != fn && inCycle[caller] {
			ops = append(ops, nand)
			c.Note("propagateNot is also called from %s, inside the recursive descent: NAND inputs are checked as well", FuncName(caller))
			break
		}
	}
	for _, op := range ops {
		for _, lN := range []bool{false, true} {
			for _, rN := range []bool{false, true} {
				if op == nand && (lN || rN) {
					continue // a fused NAND sits in a tree that was normalised before: its operands come back un-negated
				}
				cell := fmt.Sprintf("%s:left-negated=%v:right-negated=%v", opName(op), lN, rN)
				outs, err := FiniteEval(FEConfig{
					Fn:         fn,
					Mem:        map[string]AbsVal{"logical.Operator": Int(op)},
					TypeAssert: typeAssert,
					Call: func(name string, nth int, args []AbsVal, st *FEState) (AbsVal, bool) {
						if name != "parser.propagateNot" {
							return AbsVal{}, false
						}
						switch nth {
						case 0:
							return Tuple(Sym("L"), Bool(lN)), true
						case 1:
							return Tuple(Sym("R"), Bool(rN)), true
						}
						return AbsVal{}, false
					},
				})
				if err != nil || len(outs) == 0 {
					c.Undecided("finite:propagateNot:"+cell, fn.Pos(), "cannot evaluate propagateNot for %s: %v", cell, err)
					continue
				}
				for _, o := range outs {
					why := ""
					var flag bool
					var op2 int64
					var c0, c1 string
					switch {
					case o.Panics:
						why = "reaches a panic"
					case o.Mem["<havoc>"].Kind == ABool:
						why = "memory is written through something the analysis does not model (" + strings.Join(o.Notes, "; ") + ")"
					case len(o.Results) != 2 || o.Results[1].Kind != ABool:
						why = "the returned negation flag is not a constant of the cell"
					case o.Results[0].Kind != ARef || o.Results[0].Name != "node":
						why = "the returned node is not the rewritten node itself (" + o.Results[0].String() + ")"
					default:
						flag = o.Results[1].B
						opv := o.Mem["logical.Operator"]
						a0, has0 := o.Mem["node.Children[0]"]
						a1, has1 := o.Mem["node.Children[1]"]
						if opv.Kind != AInt || !has0 || !has1 || a0.Kind != ASym || a1.Kind != ASym {
							why = fmt.Sprintf("operator or children are not determined (op=%s c0=%s c1=%s)", opv, a0, a1)
						} else {
							op2, c0, c1 = opv.I, a0.Name, a1.Name
						}
					}
					if why != "" {
						c.Undecided("finite:propagateNot:"+cell, o.Pos, "propagateNot, cell %s: %s", cell, why)
						continue
					}
					bad := ""
					for _, L := range []bool{false, true} {
						for _, R := range []bool{false, true} {
							in, _ := evalOp(op, L != lN, R != rN)
							pick := func(n string) bool {
								if n == "L" {
									return L
								}
								return R
							}
							if !((c0 == "L" && c1 == "R") || (c0 == "R" && c1 == "L")) {
								bad = "children are " + c0 + "," + c1
								continue
							}
							outv, ok := evalOp(op2, pick(c0), pick(c1))
							if !ok {
								bad = "operator " + opName(op2) + " is not a binary operator"
								continue
							}
							if flag {
								outv = !outv
							}
							if outv != in {
								bad = fmt.Sprintf("for L=%v R=%v the input is %v but the rewritten node denotes %v", L, R, in, outv)
							}
						}
					}
					if bad == "" {
						c.Site(o.Pos, "cell %s -> (%s, children %s %s, negated=%v) is equivalent", cell, opName(op2), c0, c1, flag)
					} else {
						c.Violation("finite:propagateNot:"+cell, o.Pos, "propagateNot rewrites %s into (%s of %s,%s; negated=%v), which is a different boolean function: %s — the query returns documents that do not match, or hides documents that do", cell, opName(op2), c0, c1, flag, bad)
					}
				}
			}
		}
	}
	// NOT cell
	for _, n := range []bool{false, true} {
		cell := fmt.Sprintf("LogicalNot:operand-negated=%v", n)
		outs, err := FiniteEval(FEConfig{
			Fn:         fn,
			Mem:        map[string]AbsVal{"logical.Operator": Int(not)},
			TypeAssert: typeAssert,
			Call: func(name string, nth int, args []AbsVal, st *FEState) (AbsVal, bool) {
				if name == "parser.propagateNot" && nth == 0 {
					return Tuple(Sym("X"), Bool(n)), true
				}
				return AbsVal{}, false
			},
		})
		if err != nil || len(outs) == 0 {
			c.Undecided("finite:propagateNot:"+cell, fn.Pos(), "cannot evaluate propagateNot for %s: %v", cell, err)
			continue
		}
		for _, o := range outs {
			if o.Panics || len(o.Results) != 2 || o.Results[1].Kind != ABool || o.Results[0].Kind != ASym {
				c.Undecided("finite:propagateNot:"+cell, o.Pos, "propagateNot, cell %s: result not determined", cell)
				continue
			}
			if o.Results[0].Name == "X" && o.Results[1].B == !n {
				c.Site(o.Pos, "cell %s -> operand with the flag flipped", cell)
			} else {
				c.Violation("finite:propagateNot:"+cell, o.Pos, "propagateNot of NOT x returns (%s, negated=%v) for an operand with negated=%v: the negation is lost or doubled", o.Results[0], o.Results[1].B, n)
			}
		}
	}
	// the root flag is honoured by both parsers
	for _, name := range []string{"parser.ParseQuery", "parser.ParseSeqQL"} {
		pf := c.Fn(name)
		if pf == nil {
			continue
		}
		home := c.P.Locate(pf, CallSel(Callee("parser.propagateNot")))
		if home == nil {
			c.Violation("finite:root-flag:"+name, pf.Pos(), "%s no longer pushes negations down with propagateNot", name)
			continue
		}
		for _, call := range CallsIn(home, Callee("parser.propagateNot")) {
			flagOf := func(v ssa.Value) bool {
				e, ok := v.(*ssa.Extract)
				return ok && e.Index == 1 && e.Tuple == call.(ssa.Value)
			}
			wraps := CallsIn(home, Callee("parser.newNotNode"))
			okWrap := false
			for _, w := range wraps {
				if v, found := BoolFact(FactsAtInstr(w.(ssa.Instruction)), flagOf); found && v {
					okWrap = true
					c.Site(w.Pos(), "%s wraps the root in NOT exactly under the returned flag", name)
				} else {
					c.Violation("finite:root-flag:"+name, w.Pos(), "%s wraps the root in a NOT node without the flag returned by propagateNot being true", name)
				}
			}
			if !okWrap && len(wraps) == 0 {
				c.Violation("finite:root-flag:"+name, call.Pos(), "%s ignores the negation flag returned by propagateNot: a query whose negation reaches the root matches the complement", name)
			}
			// a return of the un-negated root must be under flag == false
			for _, rp := range ReturnPaths(home, 0) {
				root := rp.Val
				if root == nil {
					continue
				}
				isRoot := false
				if e, ok := root.(*ssa.Extract); ok && e.Index == 0 && e.Tuple == call.(ssa.Value) {
					isRoot = true
				}
				if !isRoot {
					continue
				}
				if v, found := BoolFact(rp.Facts, flagOf); found && !v {
					c.Site(rp.Ret.Pos(), "%s returns the bare root only when the flag is false", name)
				}
			}
		}
	}
}

// childIndex: v is children[k] for a constant k.
func childIndex(v ssa.Value) (int64, bool) {
	u, ok := v.(*ssa.UnOp)
	if !ok {
		return 0, false
	}
	ia, ok := u.X.(*ssa.IndexAddr)
	if !ok {
		return 0, false
	}
	return ConstInt(ia.Index)
}
