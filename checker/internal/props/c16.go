package props

import (
	"go/token"
	"go/types"
	"strings"

	"golang.org/x/tools/go/ssa"

	. "seqverif/internal/kit"
)

func init() {
	register(&PropInfo{
		ID:          "C16",
		Title:       "Proxy reads degrade honestly: complete if all shards answer, else marked partial",
		Explanation: "Decided on every path of the proxy read code: (1) in searchStores every shard error is returned (fast-fail classes) or collected, the collected errors decide the result, data plus errors yields an error wrapping ErrPartialResponse, and a QPR is appended only for a shard without error; searchShard returns success only for an answering replica and otherwise the collected errors; (2) by path-sensitive simulation, Ingestor.Search never returns a nil error after a searchStores attempt whose error was non-nil (hot or cold tier) — the partial flag survives; grpcV1.doSearch maps ErrPartialResponse to ERROR_CODE_PARTIAL_RESPONSE and each of the four handlers copies the error and sets PartialResponse; (3) searchShard's switch handles every non-OK SearchErrorCode; (4) the long-term stores are consulted exactly under ErrIngestorQueryWantsOldData; (5) mergedStreamIterator.Next consumes one id per call, skips ALL unexpected documents (a loop, not a single step) and returns the buffered document only when its id equals the current id. NOT decided: correctness of the merged top, replica choice, stream content validation.",
		Assumptions: []string{"PATHSIM explores each block at most 3 times per path", "errors.Is/As results are treated as unknown booleans (both branches explored)"},
		Obs:         c16,
	})
}

func c16() []*Ob {
	searchStores := Callee("(*proxy/search.Ingestor).searchStores")
	return []*Ob{
		{Prop: "C16", ID: "C16.12", Engine: "MUST-SEND", Floor: 1,
			Desc:  "no shard disappears: a shard goroutine of searchStores that has called searchShard reaches its return only through a send on the response channel, whatever the context says — a goroutine that keeps its answer to itself because 'the request is over anyway' leaves neither a QPR nor an error, and when the deadline falls in the middle of the fan-out the shards collected so far are returned as a complete answer (no error, no partial-response flag) for requests without a fetch phase",
			Check: func(c *Ctx) { everyShardAnswers(c) }},
		{Prop: "C16", ID: "C16.11", Engine: "PAIR(two sites)", Floor: 1,
			Desc:  "the long-term tier is asked when the hot tier has dropped the range: a mature hot store refuses such a range with a response code (nil RPC error), or — if it refuses with an RPC error — searchShard recognises the refusal by its text and fails fast with ErrIngestorQueryWantsOldData",
			Check: func(c *Ctx) { oldDataRefusalRecognised(c) }},
		{Prop: "C16", ID: "C16.10", Engine: "DOM(zero value)", Floor: 1,
			Desc: "a hot store that does not know yet what its oldest data is says so: GrpcV1.earlierThanOldestFrac answers true when FracManager.OldestCT is still zero (between a restart and the first maintenance pass) — every return that is reached under OldestCT == 0 is the constant true; without that a mature store answers a range it has dropped with NO_ERROR and the proxy never asks the long-term tier",
			Check: func(c *Ctx) {
				fn := c.Fn("(*storeapi.GrpcV1).earlierThanOldestFrac")
				if fn == nil {
					return
				}
				isOldest := func(v ssa.Value) bool {
					return DerivesFrom(v, func(x ssa.Value) bool {
						cl, ok := x.(ssa.CallInstruction)
						return ok && strings.HasSuffix(CallName(cl), ".Load") && DerivesFrom(cl.Common().Args[0], func(y ssa.Value) bool { return ValueIsField(y, "fracmanager.FracManager", "OldestCT") })
					})
				}
				zeroFact := func(f Fact) (isZero, ok bool) {
					bo, isBo := f.Cond.(*ssa.BinOp)
					if !isBo || (bo.Op != token.EQL && bo.Op != token.NEQ) {
						return false, false
					}
					var other ssa.Value
					if isOldest(bo.X) {
						other = bo.Y
					} else if isOldest(bo.Y) {
						other = bo.X
					} else {
						return false, false
					}
					if k, isK := ConstInt(other); !isK || k != 0 {
						return false, false
					}
					return (bo.Op == token.EQL) == f.Val, true
				}
				tested, bad := false, false
				for _, rp := range ReturnPaths(fn, 0) {
					for _, f := range rp.Facts {
						if z, ok := zeroFact(f); ok {
							tested = true
							if z {
								if v, isK := ConstBool(rp.Val); !(isK && v) {
									bad = true
								}
							}
						}
					}
				}
				switch {
				case !tested:
					c.Violation("dom:earlierThanOldestFrac:zero", fn.Pos(), "earlierThanOldestFrac does not test OldestCT against zero: a store that has not computed its oldest creation time yet compares the request with 0 and answers \"not earlier\"")
				case bad:
					c.Violation("dom:earlierThanOldestFrac:zero", fn.Pos(), "earlierThanOldestFrac does not answer true when OldestCT is zero")
				default:
					c.Site(fn.Pos(), "an unknown (zero) oldest creation time counts as earlier")
				}
			}},
		{Prop: "C16", ID: "C16.9", Engine: "PAIR(parallel arrays)", Floor: 1,
			Desc: "every id of the answer gets its slot: proxyapi.makeProtoDocs writes one document per element of qpr.IDs — the write into the response runs on every iteration of the loop over the ids and nothing leaves that loop early; a fetch stream that fails half way (request context ended after the search phase) yields empty documents for the rest, it does not shorten an answer that is reported complete and without error",
			Check: func(c *Ctx) {
				fn := c.Fn("proxyapi.makeProtoDocs")
				if fn == nil {
					return
				}
				isDocPtrSlice := func(t types.Type) bool {
					sl, ok := t.Underlying().(*types.Slice)
					if !ok {
						return false
					}
					_, isPtr := sl.Elem().Underlying().(*types.Pointer)
					return isPtr && strings.HasSuffix(TypeStr(sl.Elem()), "v1.Document")
				}
				n := 0
				for _, b := range fn.Blocks {
					for _, in := range b.Instrs {
						var at ssa.Instruction
						switch x := in.(type) {
						case *ssa.Call:
							if CallName(x) == "builtin.append" && isDocPtrSlice(x.Type()) {
								at = x
							}
						case *ssa.Store:
							if ia, ok := x.Addr.(*ssa.IndexAddr); ok && isDocPtrSlice(ia.X.Type()) {
								at = x
							}
						}
						if at == nil {
							continue
						}
						n++
						l := InnermostLoop(at.Block())
						if l == nil {
							c.Violation("pair:makeProtoDocs:noloop", at.Pos(), "makeProtoDocs fills the response outside a loop over the ids")
							continue
						}
						_, every := EveryIteration(at)
						exits := l.EarlyExits()
						if every && len(exits) == 0 {
							c.Site(at.Pos(), "one response document is written per id, the loop runs to the last id")
						} else {
							c.Violation("pair:makeProtoDocs:one-per-id", at.Pos(), "makeProtoDocs does not write a document for every id (the write is skipped on some iteration, or the loop over the ids is left early): ids that the search returned are silently missing from an answer that carries no error and no partial-response mark")
						}
					}
				}
				if n == 0 {
					c.Undecided("pair:makeProtoDocs:nowrite", fn.Pos(), "cannot see where makeProtoDocs fills the response")
				}
			}},
		{Prop: "C16", ID: "C16.1", Engine: "ERRFLOW+ACK", Floor: 3,
			Desc: "every shard error is accounted: searchStores returns or collects each ShardResponse.Err, appends a QPR only under Err == nil, returns (qprs, nil) only when the de-duplicated errors are nil and wraps ErrPartialResponse when data and errors coexist; searchShard succeeds only with a replica's response and otherwise returns the collected errors",
			Check: func(c *Ctx) {
				fn := c.Fn("(*proxy/search.Ingestor).searchStores")
				if fn == nil {
					return
				}
				// the error a shard answered with: the error-typed field of the value received from the response channel
				fromChan := func(v ssa.Value) bool {
					return DerivesFrom(v, func(x ssa.Value) bool {
						u, ok := x.(*ssa.UnOp)
						return ok && u.Op == token.ARROW
					})
				}
				isErrField := func(v ssa.Value) bool {
					if f, ok := v.(*ssa.Field); ok {
						return IsErrorType(f.Type()) && fromChan(f.X)
					}
					if u, ok := v.(*ssa.UnOp); ok && u.Op == token.MUL {
						if fa, ok := u.X.(*ssa.FieldAddr); ok {
							return IsErrorType(u.Type()) && fromChan(fa.X)
						}
					}
					return false
				}
				// the loop over the shard responses: in searchStores itself, or in a private helper it hands the response
				// channel to (the helper's results are then what searchStores decides on)
				lf := fn
				if len(CallsIn(fn, Callee("proxy/search.responseToQPR"))) == 0 {
					for _, call := range CallsIn(fn, nil) {
						h := StaticCallee(call)
						if h != nil && h.Blocks != nil && c.P.InRepo(h) && len(CallsIn(h, Callee("proxy/search.responseToQPR"))) > 0 {
							lf = h
						}
					}
				}
				// QPR appended only under Err == nil
				conv := Callee("proxy/search.responseToQPR")
				n := 0
				for _, call := range CallsIn(lf, conv) {
					n++
					okNil := false
					for _, f := range FactsAtInstr(call.(ssa.Instruction)) {
						bo, ok := f.Cond.(*ssa.BinOp)
						if ok && (IsNilConst(bo.Y) || IsNilConst(bo.X)) {
							other := bo.X
							if IsNilConst(bo.X) {
								other = bo.Y
							}
							if isErrField(other) && (bo.Op == token.EQL) == f.Val {
								okNil = true
							}
						}
					}
					if !okNil {
						// or: only when the shard delivered data, and a shard that reports an error never delivers data
						// (searchShard hands back a nil response with every error)
						hasData := false
						for _, f := range FactsAtInstr(call.(ssa.Instruction)) {
							bo, ok := f.Cond.(*ssa.BinOp)
							if !ok || !(IsNilConst(bo.X) || IsNilConst(bo.Y)) || (bo.Op == token.NEQ) != f.Val {
								continue
							}
							other := bo.X
							if IsNilConst(bo.X) {
								other = bo.Y
							}
							if _, fld, _, okF := FieldOf(other); okF && fld == "Data" {
								hasData = true
							}
							if u, isU := other.(*ssa.UnOp); isU {
								if _, fld, _, okF := FieldOf(u.X); okF && fld == "Data" {
									hasData = true
								}
							}
						}
						if hasData {
							if ss := c.P.Func("(*proxy/search.Ingestor).searchShard"); ss != nil {
								nilWithErr := true
								ei := ErrorResultIndex(ss)
								for _, rp := range ReturnPaths(ss, ei) {
									if DefinitelyNonNil(rp.Val, rp.Facts) && !IsNilConst(RetOperand(rp.Ret, 0)) {
										nilWithErr = false
									}
								}
								okNil = nilWithErr
							}
						}
					}
					if okNil {
						c.Site(call.Pos(), "a shard's QPR is used only when that shard reported no error")
					} else {
						c.Violation("dom:searchStores:qpr-needs-no-error", call.Pos(), "a shard response is converted and merged without its Err being nil")
					}
				}
				if n == 0 {
					c.Undecided("searchStores:no-convert", fn.Pos(), "searchStores no longer converts shard responses with responseToQPR")
				}
				// collected errors decide
				dedup := Callee("util.DeduplicateErrors")
				dd := CallsIn(fn, dedup)
				if len(dd) == 0 {
					c.Violation("errflow:searchStores:collect", fn.Pos(), "searchStores no longer evaluates the collected shard errors")
					return
				}
				collected := false
				for _, ap := range CallsIn(lf, Callee("builtin.append")) {
					if IsErrorType(elemType(ap.Common().Args[0])) {
						for _, a := range ap.Common().Args[1:] {
							if DerivesFrom(a, isErrField) {
								collected = true
								c.Site(ap.Pos(), "a shard error that is not a fast-fail class is collected")
							}
						}
					}
				}
				if !collected {
					c.Violation("errflow:searchStores:append-err", fn.Pos(), "shard errors are no longer collected into the error list that decides completeness")
				}
				// ... on every way through the loop body: an iteration that saw an error goes on to the next
				// response only after it has appended the error
				var errApps []ssa.Instruction
				for _, ap := range CallsIn(lf, Callee("builtin.append")) {
					if IsErrorType(elemType(ap.Common().Args[0])) {
						for _, a := range ap.Common().Args[1:] {
							if DerivesFrom(a, isErrField) {
								errApps = append(errApps, ap.(ssa.Instruction))
							}
						}
					}
				}
				for _, b := range lf.Blocks {
					iff, ok := b.Instrs[len(b.Instrs)-1].(*ssa.If)
					if !ok {
						continue
					}
					bo, ok := iff.Cond.(*ssa.BinOp)
					if !ok || !(bo.Op == token.NEQ || bo.Op == token.EQL) || !(IsNilConst(bo.X) || IsNilConst(bo.Y)) {
						continue
					}
					other := bo.X
					if IsNilConst(bo.X) {
						other = bo.Y
					}
					if !isErrField(other) {
						continue
					}
					lp := InnermostLoop(b)
					if lp == nil {
						continue
					}
					failed := b.Succs[0]
					if bo.Op == token.EQL {
						failed = b.Succs[1]
					}
					for _, back := range lp.Header.Preds {
						if !lp.Blocks[back] || !(back == failed || (failed.Dominates(back) && Reachable(failed, back))) {
							continue
						}
						okApp := false
						for _, ap := range errApps {
							if ap.Block() == back || ap.Block().Dominates(back) {
								okApp = true
							}
						}
						if okApp {
							c.Site(blockPos(back, iff.Cond.Pos()), "a failed shard's iteration reaches the next response only after its error was collected")
						} else {
							c.Violation("errflow:searchStores:iteration-skips-error", blockPos(back, iff.Cond.Pos()), "searchStores can go on to the next shard response after a shard answered with an error without collecting that error: the shard is simply missing from the result, and when other shards delivered data the result is returned as complete (nil error, no partial-response flag)")
						}
					}
				}
				idx := ErrorResultIndex(fn)
				for _, rp := range ReturnPaths(fn, idx) {
					qprs := RetOperand(rp.Ret, 0)
					switch {
					case IsNilConst(rp.Val):
						if KnownNil(rp.Facts, dd[0].Value()) {
							c.Site(rp.Ret.Pos(), "complete result only when no shard error was collected")
						} else {
							c.Violation("ack:searchStores:complete-needs-no-errors", rp.Ret.Pos(), "searchStores can return a result as complete (nil error) although shard errors were collected")
						}
					case !IsNilConst(qprs):
						// data together with an error: must wrap ErrPartialResponse
						wraps := DerivesFrom(rp.Val, func(v ssa.Value) bool {
							u, ok := v.(*ssa.UnOp)
							if !ok {
								return false
							}
							g, ok := u.X.(*ssa.Global)
							return ok && g.Name() == "ErrPartialResponse"
						})
						if wraps {
							c.Site(rp.Ret.Pos(), "data with missing shards is returned with an error wrapping ErrPartialResponse")
						} else {
							c.Violation("ack:searchStores:partial-flag", rp.Ret.Pos(), "searchStores returns data together with an error that does not wrap ErrPartialResponse: callers cannot tell partial from failed")
						}
					}
				}
				if sh := c.Fn("(*proxy/search.Ingestor).searchShard"); sh != nil {
					viol, oks, res := SimAck(sh, Callee("(*proxy/search.Ingestor).searchHost"), nil)
					c.Count("paths_simulated", res.Paths)
					for _, v := range viol {
						c.Violation("simack:searchShard", v.Ret.Pos(), "searchShard can report success although %s", v.Why)
					}
					if len(viol) == 0 {
						for r := range oks {
							c.Site(r.Pos(), "searchShard returns success only with the response of a replica that answered")
						}
					}
				}
			}},
		{Prop: "C16", ID: "C16.2", Engine: "PATHSIM(ACK)+SIBLING", Floor: 3,
			Desc: "the partial flag survives to the wire: Ingestor.Search never returns a nil error when its last searchStores attempt (hot or long-term tier) returned a non-nil error; doSearch maps ErrPartialResponse to ERROR_CODE_PARTIAL_RESPONSE; Search, ComplexSearch, GetAggregation and GetHistogram copy sResp.err into the response and set PartialResponse from it",
			Check: func(c *Ctx) {
				if fn := c.Fn("(*proxy/search.Ingestor).Search"); fn != nil {
					viol, oks, res := SimAck(fn, searchStores, func(st SimState) string { return "" })
					c.Count("paths_simulated", res.Paths)
					if res.Truncated {
						c.Note("path budget reached in Ingestor.Search; explored %d paths", res.Paths)
					}
					for _, v := range viol {
						c.Violation("simack:Ingestor.Search:partial-survives", v.Ret.Pos(), "Ingestor.Search can return a nil error although %s: an incomplete (or failed) result is presented as complete", v.Why)
					}
					if len(viol) == 0 {
						for r := range oks {
							c.Site(r.Pos(), "nil error only when the last searchStores attempt returned nil (%d paths)", res.Paths)
						}
					}
				}
				if fn := c.Fn("(*proxyapi.grpcV1).doSearch"); fn != nil {
					okMap := false
					for _, st := range InstrsIn(fn, FieldStore("pkg/seqproxyapi/v1.Error", "Code")) {
						if k, isK := ConstInt(st.(*ssa.Store).Val); isK {
							if name := enumNameOf(c, "pkg/seqproxyapi/v1", "ErrorCode", k); name == "ErrorCode_ERROR_CODE_PARTIAL_RESPONSE" {
								// under errors.Is(err, ErrPartialResponse)
								v, found := BoolFact(FactsAtInstr(st), func(x ssa.Value) bool {
									cl, ok := x.(*ssa.Call)
									if !ok || CallName(cl) != "errors.Is" {
										return false
									}
									u, ok := cl.Call.Args[1].(*ssa.UnOp)
									if !ok {
										return false
									}
									g, ok := u.X.(*ssa.Global)
									return ok && g.Name() == "ErrPartialResponse"
								})
								if found && v {
									okMap = true
									c.Site(st.Pos(), "doSearch maps ErrPartialResponse to ERROR_CODE_PARTIAL_RESPONSE")
								}
							}
						}
					}
					if !okMap {
						c.Violation("sibling:doSearch:partial-code", fn.Pos(), "doSearch no longer turns ErrPartialResponse into ERROR_CODE_PARTIAL_RESPONSE")
					}
				}
				for _, h := range []struct{ fn, resp string }{
					{"(*proxyapi.grpcV1).Search", "pkg/seqproxyapi/v1.SearchResponse"},
					{"(*proxyapi.grpcV1).ComplexSearch", "pkg/seqproxyapi/v1.ComplexSearchResponse"},
					{"(*proxyapi.grpcV1).GetAggregation", "pkg/seqproxyapi/v1.GetAggregationResponse"},
					{"(*proxyapi.grpcV1).GetHistogram", "pkg/seqproxyapi/v1.GetHistogramResponse"},
				} {
					fn := c.Fn(h.fn)
					if fn == nil {
						continue
					}
					errCopied, flagSet := false, false
					for _, st := range InstrsIn(fn, FieldStore(h.resp, "Error")) {
						if DerivesFrom(st.(*ssa.Store).Val, func(v ssa.Value) bool { return ValueIsField(v, "proxyapi.proxySearchResponse", "err") }) {
							errCopied = true
						}
					}
					for _, st := range InstrsIn(fn, FieldStore(h.resp, "PartialResponse")) {
						if DerivesFrom(st.(*ssa.Store).Val, func(v ssa.Value) bool { return ValueIsField(v, "pkg/seqproxyapi/v1.Error", "Code") }) {
							flagSet = true
						}
					}
					if errCopied && flagSet {
						c.Site(fn.Pos(), "%s copies the search error and sets PartialResponse from its code", h.fn)
					} else {
						c.Violation("sibling:"+h.fn+":partial", fn.Pos(), "%s does not (any more) copy sResp.err into the response (%v) and set PartialResponse from its code (%v), unlike its sibling handlers", h.fn, errCopied, flagSet)
					}
				}
			}},
		{Prop: "C16", ID: "C16.3", Engine: "ENUM", Floor: 1,
			Desc: "searchShard handles every non-OK SearchErrorCode a store can answer with",
			Check: func(c *Ctx) {
				fn := c.Fn("(*proxy/search.Ingestor).searchShard")
				if fn == nil {
					return
				}
				uni := c.P.EnumConsts("pkg/storeapi", "SearchErrorCode")
				cov := c.P.SwitchCoverageLifted(fn, func(v ssa.Value) bool {
					u, ok := stripConvs(v).(*ssa.UnOp)
					return ok && IsFieldAddr(u.X, "pkg/storeapi.SearchResponse", "Code")
				})
				var missing []string
				for name, k := range uni {
					if k != 0 && !cov[k] {
						missing = append(missing, name)
					}
				}
				if len(uni) < 2 {
					c.Undecided("enum:SearchErrorCode", fn.Pos(), "cannot enumerate storeapi.SearchErrorCode")
				} else if len(missing) == 0 {
					c.Site(fn.Pos(), "searchShard's switch covers all %d non-OK codes", len(uni)-1)
				} else {
					c.Violation("enum:searchShard:codes", fn.Pos(), "searchShard treats store answer code(s) %s as success: a refused request is merged as an empty, complete result", strings.Join(missing, ", "))
				}
			}},
		{Prop: "C16", ID: "C16.4", Engine: "DOM", Floor: 1,
			Desc: "old data goes to the long-term tier: the second searchStores call takes config.ReadStores and is reached only under errors.Is(err, ErrIngestorQueryWantsOldData); the store answers WANTS_OLD_DATA only in hot mode, when mature and for a range earlier than its oldest fraction",
			Check: func(c *Ctx) {
				fn := c.Fn("(*proxy/search.Ingestor).Search")
				if fn == nil {
					return
				}
				n := 0
				for _, call := range CallsIn(fn, searchStores) {
					if !DerivesFrom(Arg(call, 2), func(v ssa.Value) bool { return ValueIsField(v, "proxy/search.Config", "ReadStores") }) {
						continue
					}
					n++
					v, found := BoolFact(FactsAtInstr(call.(ssa.Instruction)), func(x ssa.Value) bool {
						cl, ok := x.(*ssa.Call)
						if !ok || CallName(cl) != "errors.Is" {
							return false
						}
						u, ok := cl.Call.Args[1].(*ssa.UnOp)
						if !ok {
							return false
						}
						g, ok := u.X.(*ssa.Global)
						return ok && g.Name() == "ErrIngestorQueryWantsOldData"
					})
					if found && v {
						c.Site(call.Pos(), "long-term stores are searched exactly when a hot store wants old data")
					} else {
						c.Violation("dom:Ingestor.Search:cold-under-wants-old", call.Pos(), "the long-term stores are searched without the hot tier having answered 'wants old data'")
					}
				}
				if n == 0 {
					c.Violation("dom:Ingestor.Search:no-cold-search", fn.Pos(), "Ingestor.Search no longer consults config.ReadStores: ranges older than the hot retention are lost")
				}
				if sfn := c.P.Func("(*storeapi.GrpcV1).doSearch"); sfn != nil {
					for _, st := range InstrsInAll(sfn, FieldStore("pkg/storeapi.SearchResponse", "Code")) {
						if k, isK := ConstInt(st.(*ssa.Store).Val); isK && enumNameOf(c, "pkg/storeapi", "SearchErrorCode", k) == "SearchErrorCode_INGESTOR_QUERY_WANTS_OLD_DATA" {
							c.Site(st.Pos(), "store answers WANTS_OLD_DATA here")
						}
					}
				}
			}},
		{Prop: "C16", ID: "C16.6", Engine: "ORDER", Floor: 1,
			Desc: "a store's document stream ends only when the stream says so: every return of grpcStreamIterator.Next is dominated by the Recv call of that invocation — the iterator never synthesises end-of-stream (or a document) from its own counters, which count documents the store was not asked for as well",
			Check: func(c *Ctx) {
				fn := c.Fn("(*proxy/search.grpcStreamIterator).Next")
				if fn == nil {
					return
				}
				recv := c.P.MustCall(func(cl ssa.CallInstruction) bool {
					return strings.HasSuffix(CallName(cl), ".Recv") || CallName(cl) == "dynamic:Recv"
				})
				rc := CallsIn(fn, recv)
				if len(rc) == 0 {
					c.Undecided("order:grpcStreamIterator.Next:no-recv", fn.Pos(), "grpcStreamIterator.Next no longer receives from the stream")
					return
				}
				for _, b := range fn.Blocks {
					ret, ok := b.Instrs[len(b.Instrs)-1].(*ssa.Return)
					if !ok {
						continue
					}
					dom := false
					for _, r := range rc {
						if Dominates(r.(ssa.Instruction), ret) {
							dom = true
						}
					}
					if dom {
						c.Site(ret.Pos(), "returns after this call's Recv")
					} else {
						c.Violation("order:grpcStreamIterator.Next:return-without-recv", ret.Pos(), "grpcStreamIterator.Next can return without having received from the stream: an end of stream derived from the iterator's own count is wrong as soon as a store sends one document it was not asked for (or one twice) — the remaining requested documents of that store come back empty")
					}
				}
			}},
		{Prop: "C16", ID: "C16.7", Engine: "PROV", Floor: 1,
			Desc: "documents are always aligned with the ids by position: every stream FetchDocsStream hands out on success is the merged iterator built from the full id list (newMergedStreamIterator) — a store's own stream returned directly pairs its documents with the ids of other stores as soon as one source failed or sent an extra document",
			Check: func(c *Ctx) {
				fn := c.Fn("(*proxy/search.Ingestor).FetchDocsStream")
				if fn == nil {
					return
				}
				idx := ErrorResultIndex(fn)
				n := 0
				for _, b := range fn.Blocks {
					ret, ok := b.Instrs[len(b.Instrs)-1].(*ssa.Return)
					if !ok || idx < 0 || !IsNilConst(RetOperand(ret, idx)) {
						continue
					}
					n++
					v := RetOperand(ret, 0)
					merged := DerivesFromNoCall(v, func(x ssa.Value) bool { return false }) || func() bool {
						mi, ok := v.(*ssa.MakeInterface)
						if !ok {
							return false
						}
						cl, ok := mi.X.(*ssa.Call)
						return ok && (CallName(cl) == "proxy/search.newMergedStreamIterator" || c.P.HasCall(StaticCallee(cl), Callee("proxy/search.newMergedStreamIterator")))
					}()
					empty := false
					if mi, ok := v.(*ssa.MakeInterface); ok && strings.HasSuffix(TypeStr(mi.X.Type()), "EmptyDocsStream") {
						empty = true
					}
					if merged || empty {
						c.Site(ret.Pos(), "FetchDocsStream returns the merged, position-aligned iterator")
					} else {
						c.Violation("prov:FetchDocsStream:not-merged", ret.Pos(), "FetchDocsStream returns a stream that is not the merged iterator over the full id list: the caller pairs the i-th document with the i-th id, which only the merged iterator guarantees")
					}
				}
				if n == 0 {
					c.Undecided("prov:FetchDocsStream:no-success-return", fn.Pos(), "FetchDocsStream has no success return")
				}
			}},
		{Prop: "C16", ID: "C16.8", Engine: "PROV", Floor: 1,
			Desc: "a hot store knows what it no longer has: after retention has dropped fractions, FracManager.OldestCT is recomputed from the fractions that remain (the local list shrinkSizes asks for the oldest creation time is advanced with every shiftFirstFrac, or re-read after the loop) — a stale value makes the store answer a range it has already dropped instead of sending the proxy to the long-term tier",
			Check: func(c *Ctx) {
				fn := c.Fn("(*fracmanager.FracManager).shrinkSizes")
				if fn == nil {
					return
				}
				shifts := c.P.FindLifted(fn, CallSel(Callee("(*fracmanager.FracManager).shiftFirstFrac")))
				if len(shifts) == 0 || len(shifts[0].Via) > 0 {
					c.Site(fn.Pos(), "shrinkSizes no longer evicts in a loop of its own")
					return
				}
				l := InnermostLoop(shifts[0].In.Block())
				if l == nil {
					c.Undecided("prov:shrinkSizes:loop", shifts[0].In.Pos(), "shiftFirstFrac is not called in a loop")
					return
				}
				olds := c.P.FindLifted(fn, CallSel(Callee("(fracmanager.List).GetOldestFrac")))
				if len(olds) == 0 {
					c.Undecided("prov:shrinkSizes:no-oldest", fn.Pos(), "shrinkSizes no longer recomputes the oldest creation time")
					return
				}
				for _, o := range olds {
					at := o.In
					if len(o.Via) > 0 {
						at = o.Via[0].(ssa.Instruction)
					}
					call := at.(ssa.CallInstruction)
					var list ssa.Value
					if len(o.Via) == 0 {
						list = call.Common().Args[0]
					} else {
						// the helper receives the list as an argument
						for _, a := range call.Common().Args {
							if strings.HasSuffix(TypeStr(a.Type()), "fracmanager.List") {
								list = a
							}
						}
					}
					if list == nil {
						c.Undecided("prov:shrinkSizes:list", at.Pos(), "cannot find the list GetOldestFrac is asked on")
						continue
					}
					advanced := DerivesFromNoCall(list, func(x ssa.Value) bool {
						sl, ok := x.(*ssa.Slice)
						if !ok || !l.Blocks[sl.Block()] || sl.Low == nil {
							return false
						}
						k, isK := ConstInt(sl.Low)
						return isK && k == 1
					})
					reread := DerivesFrom(list, func(x ssa.Value) bool {
						cl, ok := x.(*ssa.Call)
						return ok && strings.HasSuffix(CallName(cl), ".GetAllFracs") && !l.Blocks[cl.Block()] && l.Header.Dominates(cl.Block())
					})
					if advanced || reread {
						c.Site(at.Pos(), "the oldest creation time is taken from the fractions that remain")
					} else {
						c.Violation("prov:shrinkSizes:stale-oldest", at.Pos(), "the list shrinkSizes asks for the oldest creation time is the one taken before the evictions and is not advanced with them: OldestCT keeps naming a fraction that was just dropped, and a mature hot store answers a range it no longer has instead of asking for the long-term tier")
					}
				}
			}},
		{Prop: "C16", ID: "C16.5", Engine: "DOM+ORDER", Floor: 2,
			Desc: "i-th document is the i-th id's: mergedStreamIterator.Next consumes exactly one id per non-EOF call, fast-forwards over every unexpected document in a loop, returns the buffered document only when currentID.Equal(nextDoc.IDSource()) and an empty document otherwise; the iterator's less function is built from the same ids it walks",
			Check: func(c *Ctx) {
				fn := c.Fn("(*proxy/search.mergedStreamIterator).Next")
				if fn == nil {
					return
				}
				// one id consumed: ids = ids[1:]
				adv := 0
				for _, st := range InstrsIn(fn, FieldStore("proxy/search.mergedStreamIterator", "ids")) {
					if sl, ok := st.(*ssa.Store).Val.(*ssa.Slice); ok && sl.Low != nil && sl.High == nil {
						if k, isK := ConstInt(sl.Low); isK && k == 1 {
							adv++
						}
					}
				}
				if adv == 1 {
					c.Site(fn.Pos(), "Next consumes exactly one id (ids = ids[1:])")
				} else {
					c.Violation("order:mergedStreamIterator.Next:one-id", fn.Pos(), "mergedStreamIterator.Next advances the id list %d times per call", adv)
				}
				// fast-forward is a loop containing loadNextDoc
				load := Callee("(*proxy/search.mergedStreamIterator).loadNextDoc")
				inLoop := false
				for _, l := range CallsIn(fn, load) {
					if InLoop(l.(ssa.Instruction).Block()) {
						inLoop = true
						// guarded by less(nextDoc, currentID)
						c.Site(l.Pos(), "unexpected documents are skipped in a loop")
					}
				}
				if !inLoop {
					c.Violation("order:mergedStreamIterator.Next:skip-loop", fn.Pos(), "unexpected documents are skipped at most once per id (no loop): after two stale documents in a stream every later id gets an empty document")
				}
				// return of nextDoc only under Equal == true
				eq := Callee("(*seq.IDSource).Equal", "(seq.IDSource).Equal")
				for _, b := range fn.Blocks {
					ret, ok := b.Instrs[len(b.Instrs)-1].(*ssa.Return)
					if !ok {
						continue
					}
					v := RetOperand(ret, 0)
					fromNext := DerivesFromNoCall(v, func(x ssa.Value) bool { return ValueIsField(x, "proxy/search.mergedStreamIterator", "nextDoc") })
					if !fromNext {
						continue
					}
					val, found := BoolFact(FactsAt(b), func(x ssa.Value) bool {
						cl, ok := x.(ssa.CallInstruction)
						return ok && eq(cl)
					})
					if found && val {
						c.Site(ret.Pos(), "the buffered document is returned only when its id equals the current id")
					} else {
						c.Violation("dom:mergedStreamIterator.Next:equal-id", ret.Pos(), "the buffered document can be returned for an id it does not belong to")
					}
				}
				if ctor := c.Fn("proxy/search.newMergedStreamIterator"); ctor != nil {
					for _, l := range CallsIn(ctor, Callee("proxy/search.lessFuncPosBased")) {
						var idsParam ssa.Value
						for _, p := range ctor.Params {
							if ParamName(p) == "ids" {
								idsParam = p
							}
						}
						stored := false
						for _, st := range InstrsIn(ctor, FieldStore("proxy/search.mergedStreamIterator", "ids")) {
							if st.(*ssa.Store).Val == idsParam {
								stored = true
							}
						}
						if Arg(l, 0) == idsParam && stored {
							c.Site(l.Pos(), "order function and id walk are built from the same id list")
						} else {
							c.Violation("prov:newMergedStreamIterator:same-ids", l.Pos(), "the position-based order function is not built from the id list the iterator walks")
						}
					}
				}
			}},
	}
}

func elemType(v ssa.Value) types.Type {
	if s, ok := v.Type().Underlying().(*types.Slice); ok {
		return s.Elem()
	}
	return types.Typ[types.Invalid]
}

func enumNameOf(c *Ctx, rel, typ string, k int64) string {
	for n, v := range c.P.EnumConsts(rel, typ) {
		if v == k {
			return n
		}
	}
	return ""
}
