#!/bin/bash
# usage: refcheck.sh <dir with rK.diff>  — applies each behaviour-preserving refactoring to /repo, runs every check, reverts.
D=$(realpath "$1")
cd /verif
for patch in "$D"/r*.diff "$D"/patch.diff "$D"/*/patch.diff; do
  [ -f "$patch" ] || continue
  cd /repo
  if [ -n "$(git status --porcelain --untracked-files=no)" ]; then echo "/repo not clean"; exit 2; fi
  if ! git apply "$patch" 2>/dev/null; then echo "== $patch: does not apply"; continue; fi
  cd /verif
  out=$(VERIF_NOWRITE=1 bin/seqverif -n -property all -repo /repo -verif /verif 2>&1)
  git -C /repo checkout -- . ; git -C /repo clean -fdq -- . 2>/dev/null
  n=$(echo "$out" | grep -cE "^\s+(VIOLATED|UNDECIDED)")
  if ! echo "$out" | grep -q "^C20: obligations="; then echo "== $patch: ANALYSIS DID NOT RUN (does the patched tree type-check?)"; echo "$out" | tail -3; continue; fi
  echo "== $patch: $n report(s)"
  echo "$out" | grep -E "^\s+(VIOLATED|UNDECIDED)" -A2 | grep -v "rule:" | cut -c1-330
done
