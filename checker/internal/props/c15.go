package props

import (
	"fmt"
	"go/constant"
	"go/token"
	"go/types"
	"sort"
	"strings"

	"golang.org/x/tools/go/ssa"

	. "seqverif/internal/kit"
)

func init() {
	register(&PropInfo{
		ID:          "C15",
		Title:       "Start-up, retention and deletion are crash-safe and only drop the oldest data",
		Explanation: "FILESTATE: the file-operation sequences of fraction creation, sealing, release, active/sealed suicide and the loader's own clean-up are extracted from the SSA of frac and fracmanager in program order (per configuration), every crash prefix is turned into an abstract file set and classified by the loader's decision table (also extracted from SSA, for all flag assignments reached). Decided: the loader never reaches a fatal sink on a crash-reachable set; a live fraction is served as ACTIVE or SEALED with the files that outcome needs; once a deletion changed the file set every later prefix is finished off (DELETE/GONE), never served again; the loader's clean-ups are re-entrant; every suffix ever created is known to makeInfos. Plus: retention removes only via shiftFirstFrac, suicide waits for a running seal, .frac-cache is written temp->rename with the version stored only after a successful rename. NOT decided: size accounting, semantic staleness of cache contents, torn file contents.",
		Assumptions: []string{
			"a crash preserves the order of completed rename/remove/create operations on one directory (directory operations are not reordered across the fsyncs the code issues)",
			"file sets are abstracted to the set of suffixes present; contents are not modelled",
		},
		Obs: c15,
	})
}

type lifeState struct {
	fs    FileSet
	phase string // creating | live | deleting
	trail string
	pos   token.Pos
}

func cfgKey(m map[string]string) string {
	var ks []string
	for k, v := range m {
		ks = append(ks, k+"="+v)
	}
	sort.Strings(ks)
	return strings.Join(ks, ",")
}

// fileStateObligations is shared by C15.1/2, C08.5 and C01.7; which selects
// the subset of obligations reported.
func fileStateObligations(c *Ctx, which string) {
	m := getFileModel(c)
	for _, p := range m.problems {
		c.Undecided("filestate-extract:"+p, token.NoPos, "file-operation extraction problem: %s", p)
	}
	if len(m.problems) > 0 {
		return
	}
	okDeleted := func(o loaderOutcome, fs FileSet) bool {
		if o.Kind == "DELETE" || o.Kind == "GONE" {
			return true
		}
		// SKIP leaves the files where they are: the deletion is not finished off, whatever the leftover holds
		return false
	}
	report := func(kind, rule string, st lifeState, o loaderOutcome, msg string) {
		key := fmt.Sprintf("filestate:%s:%s:%s", rule, st.fs.String(), o.Kind)
		pos := o.Pos
		if !pos.IsValid() {
			pos = st.pos
		}
		c.Violation(key, pos, "%s — file set %s (reached by: %s) is classified %s by the loader%s", msg, st.fs, st.trail, o.Kind, ifs(o.Why != "", " ("+o.Why+")", ""))
	}
	// which document file a sealed fraction opens when both exist: the Open that dominates the other
	sealedPrefersDocs := false
	if od := c.P.Func("(*frac.Sealed).openDocs"); od != nil {
		var openDocs, openSdocs ssa.Instruction
		for _, call := range CallsIn(od, Callee("os.Open")) {
			isSuffix := func(sfx string) bool {
				return DerivesFrom(Arg(call, 0), func(v ssa.Value) bool {
					s, ok := ConstString(v)
					return ok && s == sfx
				})
			}
			if isSuffix(".docs") {
				openDocs = call.(ssa.Instruction)
			}
			if isSuffix(".sdocs") {
				openSdocs = call.(ssa.Instruction)
			}
		}
		if openDocs != nil && (openSdocs == nil || Dominates(openDocs, openSdocs)) {
			sealedPrefersDocs = true
		}
	}
	servedOK := func(st lifeState, o loaderOutcome) string {
		after := st.fs.Clone()
		for _, r := range o.Removes {
			delete(after, r)
		}
		switch o.Kind {
		case "SEALED":
			if !after[".index"] {
				return "served as SEALED without an .index file"
			}
			if !after[".docs"] && !after[".sdocs"] {
				return "served as SEALED without a .docs/.sdocs file"
			}
			if after[".docs"] && after[".sdocs"] && sealedPrefersDocs {
				return "served as SEALED with both .docs and .sdocs left on disk: Sealed.openDocs opens .docs first, but the positions of an index written together with .sdocs refer to the sorted file"
			}
		case "ACTIVE":
			if !after[".meta"] || !after[".docs"] {
				return "served as ACTIVE without both .docs and .meta"
			}
		}
		return ""
	}
	var liveStates []lifeState
	seenLive := map[string]bool{}

	// L1: create ++ seal ++ release, per configuration
	for _, skip := range []string{"true", "false"} {
		for _, keep := range []string{"true", "false"} {
			cfg := map[string]string{"SkipSortDocs": skip, "KeepMetaFile": keep}
			for _, cr := range m.create {
				for _, se := range pick(m.seal, cfg) {
					for _, re := range pick(m.release, cfg) {
						var ops []FileOp
						ops = append(ops, cr.Ops...)
						nCreate := len(cr.Ops)
						ops = append(ops, se.Ops...)
						ops = append(ops, re.Ops...)
						fs := FileSet{}
						trail := "<nothing>"
						for i := 0; i <= len(ops); i++ {
							if i > 0 {
								fs = fs.Apply(ops[i-1])
								trail = fmt.Sprintf("[%s] %s", cfgKey(cfg), opsString(ops[:i]))
							}
							phase := "live"
							if i < nCreate {
								phase = "creating"
							}
							var pos token.Pos
							if i > 0 {
								pos = ops[i-1].Pos
							}
							st := lifeState{fs: fs, phase: phase, trail: trail, pos: pos}
							o := m.classify(fs)
							c.Count("crash_states", 1)
							if o.Kind == "AMBIG" {
								c.Undecided("filestate-ambig:"+fs.String(), o.Pos, "loader decision for %s could not be extracted: %s", fs, o.Why)
								continue
							}
							if which == "C15" || which == "C01" {
								if o.Kind == "FATAL" {
									report("violated", "never-fatal", st, o, "the store cannot start after a crash here")
								} else if phase == "creating" || which == "C01" {
									c.Site(pos, "%s: %s -> %s", phase, fs, o.Kind)
								}
							}
							if phase == "live" && (which == "C15" || which == "C08") {
								switch {
								case o.Kind == "FATAL":
								case o.Kind != "ACTIVE" && o.Kind != "SEALED":
									report("violated", "live-served", st, o, "a fraction holding acknowledged documents is not served after a crash during sealing/release")
								default:
									if bad := servedOK(st, o); bad != "" {
										report("violated", "served-complete", st, o, bad)
									} else {
										c.Site(pos, "live [%s]: %s -> %s%s", cfgKey(cfg), fs, o.Kind, ifs(len(o.Removes) > 0, " (loader removes "+strings.Join(o.Removes, ",")+")", ""))
									}
								}
							}
							if phase == "live" && (o.Kind == "ACTIVE" || o.Kind == "SEALED") && !seenLive[fs.String()+o.Kind] {
								seenLive[fs.String()+o.Kind] = true
								liveStates = append(liveStates, lifeState{fs: fs, phase: o.Kind, trail: trail, pos: pos})
							}
						}
					}
				}
			}
		}
	}
	if which == "C08" || which == "C01" {
		return
	}
	// loader's own removes keep a SEALED fraction SEALED at every prefix
	for _, st := range liveStates {
		o := m.classify(st.fs)
		fs := st.fs
		for _, r := range o.Removes {
			fs = fs.Apply(FileOp{Kind: "remove", A: r})
			o2 := m.classify(fs)
			c.Count("crash_states", 1)
			if o2.Kind != o.Kind {
				report("violated", "loader-cleanup-reentrant", lifeState{fs: fs, trail: st.trail + " ; loader remove(" + r + ")", pos: o.Pos}, o2, "a crash inside the loader's own clean-up changes how the fraction is served (was "+o.Kind+")")
			} else {
				c.Site(o.Pos, "loader clean-up prefix: %s -> %s", fs, o2.Kind)
			}
		}
	}
	// deletions: from every live state, the matching suicide; monotone afterwards
	deletion := func(st lifeState, ops []FileOp, label string) {
		fs := st.fs
		changed := false
		for i, op := range ops {
			fs = fs.Apply(op)
			if fs.String() != st.fs.String() {
				changed = true
			}
			if !changed {
				continue
			}
			o := m.classify(fs)
			c.Count("crash_states", 1)
			ns := lifeState{fs: fs, trail: st.trail + " ; " + label + ": " + opsString(ops[:i+1]), pos: op.Pos}
			switch {
			case o.Kind == "AMBIG":
				c.Undecided("filestate-ambig:"+fs.String(), o.Pos, "loader decision for %s could not be extracted: %s", fs, o.Why)
			case o.Kind == "FATAL":
				report("violated", "never-fatal", ns, o, "the store cannot start after a crash in the middle of a deletion")
			case !okDeleted(o, fs):
				short := label
				if i := strings.Index(short, "["); i > 0 {
					short = short[:i]
				}
				msg := "a fraction whose deletion has begun is served again after a crash (documents reappear)"
				if o.Kind == "SKIP" {
					msg = "a fraction whose deletion has begun is neither finished off nor served after a crash: the loader skips the leftover and it stays on disk for ever"
				}
				report("violated", "deletion-monotone:"+short, ns, o, msg)
			default:
				c.Site(op.Pos, "deleting (%s): %s -> %s", label, fs, o.Kind)
				// the loader finishing the deletion is itself re-entrant
				if o.Kind == "DELETE" {
					fs2 := fs
					for j, dop := range m.loaderDelete {
						fs2 = fs2.Apply(dop)
						o2 := m.classify(fs2)
						c.Count("crash_states", 1)
						if !okDeleted(o2, fs2) {
							report("violated", "loader-delete-reentrant", lifeState{fs: fs2, trail: ns.trail + " ; loader: " + opsString(m.loaderDelete[:j+1]), pos: dop.Pos}, o2, "a crash inside the loader's removeFractionFiles leaves a set that is not finished off")
						}
					}
				}
			}
		}
	}
	for _, st := range liveStates {
		switch st.phase {
		case "ACTIVE":
			for _, su := range pick(m.activeSuicide, map[string]string{"released": "false"}) {
				deletion(st, su.Ops, "Active.Suicide["+cfgKey(su.Assume)+"]")
			}
		case "SEALED":
			fs := st.fs.Clone()
			o := m.classify(fs)
			for _, r := range o.Removes {
				delete(fs, r)
			}
			for _, su := range m.sealedSuicide {
				deletion(lifeState{fs: fs, trail: st.trail, pos: st.pos}, su.Ops, "Sealed.Suicide["+cfgKey(su.Assume)+"]")
			}
		}
	}
	// a suicide that waited for a running seal starts when proxyFrac.Seal signals sealWg.Done(), which is
	// before Active.Release() has removed the active files: the two op sequences then run concurrently, so
	// every interleaving of them (and every crash prefix of each interleaving) is a reachable file set
	// premise, read from proxyFrac.Seal: the waiter is released (sealWg.Done) before Active.Release has run; when Release
	// comes first the two sequences are ordered and there is nothing to interleave
	concurrent := true
	if sealFn := c.P.Func("(*fracmanager.proxyFrac).Seal"); sealFn != nil {
		dones := c.P.FindLifted(sealFn, CallSel(OnField(Callee("(*sync.WaitGroup).Done"), "fracmanager.proxyFrac", "sealWg")))
		rels := c.P.FindLifted(sealFn, CallSel(Callee("(*frac.Active).Release")))
		if len(dones) > 0 && len(rels) > 0 {
			concurrent = false
			for _, d := range dones {
				after := false
				for _, r := range rels {
					if LiftedDominates(r, d) {
						after = true
					}
				}
				if !after {
					concurrent = true
				}
			}
		}
	}
	// second half of the premise: a suicide that arrives after proxyFrac.Seal has published the sealed fraction (and
	// so finds it without having waited) is ordered behind Release only when every call of Sealed.Suicide in
	// proxyFrac.Suicide is itself preceded by sealWg.Wait() on every path
	if suFn := c.P.Func("(*fracmanager.proxyFrac).Suicide"); suFn != nil && !concurrent {
		waits := c.P.FindLifted(suFn, CallSel(OnField(Callee("(*sync.WaitGroup).Wait"), "fracmanager.proxyFrac", "sealWg")))
		kills := c.P.FindLifted(suFn, CallSel(Callee("(*frac.Sealed).Suicide")))
		for _, k := range kills {
			waited := false
			for _, w := range waits {
				if LiftedDominates(w, k) {
					waited = true
				}
			}
			if !waited {
				concurrent = true
			}
		}
		if len(kills) == 0 {
			concurrent = true
		}
	}
	c.Note("Active.Release and Sealed.Suicide of the same fraction can run concurrently: %v", concurrent)
	for _, skip := range []string{"true", "false"} {
		if !concurrent {
			break
		}
		// KeepMetaFile=true is a configuration only tests use (cmd/seq-db sets it to false): with it neither Release nor
		// Sealed.Suicide removes .meta, which the next start then finds alone; it is left out of this composition
		for _, keep := range []string{"false"} {
			cfg := map[string]string{"SkipSortDocs": skip, "KeepMetaFile": keep}
			for _, cr := range m.create {
				for _, se := range pick(m.seal, cfg) {
					base := FileSet{}
					for _, op := range cr.Ops {
						base = base.Apply(op)
					}
					for _, op := range se.Ops {
						base = base.Apply(op)
					}
					for _, re := range pick(m.release, cfg) {
						for _, su := range m.sealedSuicide {
							seenIL := map[string]bool{}
							var walk func(fs FileSet, i, j int, begun bool, trail string)
							walk = func(fs FileSet, i, j int, begun bool, trail string) {
								key := fmt.Sprintf("%s|%d|%d|%v", fs.String(), i, j, begun)
								if seenIL[key] {
									return
								}
								seenIL[key] = true
								// the deletion has begun on disk once one of its operations has changed the file set
								// (a rename of a file that Release has already removed changes nothing)
								if begun {
									o := m.classify(fs)
									c.Count("crash_states", 1)
									ns := lifeState{fs: fs, trail: fmt.Sprintf("[%s] sealed ; Active.Release || Sealed.Suicide[%s]: %s", cfgKey(cfg), cfgKey(su.Assume), trail)}
									switch {
									case o.Kind == "AMBIG":
										c.Undecided("filestate-ambig:"+fs.String(), o.Pos, "loader decision for %s could not be extracted: %s", fs, o.Why)
									case o.Kind == "FATAL":
										report("violated", "never-fatal", ns, o, "the store cannot start after a crash while a fraction was deleted during the tail of its sealing")
									case !okDeleted(o, fs):
										report("violated", "deletion-monotone:Sealed.Suicide||Release", ns, o, "a fraction whose deletion has begun (while Active.Release was still removing the active files) is served again after a crash")
									default:
										c.Site(su.Ops[j-1].Pos, "deleting during release: %s -> %s", fs, o.Kind)
									}
								}
								if i < len(re.Ops) {
									walk(fs.Apply(re.Ops[i]), i+1, j, begun, trail+" R:"+re.Ops[i].String())
								}
								if j < len(su.Ops) {
									nfs := fs.Apply(su.Ops[j])
									walk(nfs, i, j+1, begun || nfs.String() != fs.String(), trail+" S:"+su.Ops[j].String())
								}
							}
							walk(base, 0, 0, false, "")
						}
					}
				}
			}
		}
	}
	// every suffix produced by a mutator is known to makeInfos
	all := [][]OpSeq{m.create, m.seal, m.release, m.activeSuicide, m.sealedSuicide}
	seen := map[string]bool{}
	for _, group := range all {
		for _, s := range group {
			for _, op := range s.Ops {
				for _, sfx := range []string{op.A, op.B} {
					if sfx == "" || seen[sfx] {
						continue
					}
					seen[sfx] = true
					if _, ok := m.suffixFlag[sfx]; ok || m.ignored[sfx] {
						c.Site(op.Pos, "suffix %s produced by %s is known to makeInfos", sfx, op.Fn)
					} else {
						c.Violation("filestate:unknown-suffix:"+sfx, op.Pos, "%s produces a file with suffix %s that makeInfos does not know: any start-up while it exists is fatal", op.Fn, sfx)
					}
				}
			}
		}
	}
	c.Count("loader_flag_assignments_decided", len(m.decideMemo))
	c.Note("suffix table from makeInfos: %v; ignored temp suffixes: %v", m.suffixFlag, keys(m.ignored))
	c.Note("create=%s | seal=%s | release=%s | active-suicide=%s | sealed-suicide=%s | loader-delete=%s", seqsString(m.create), seqsString(m.seal), seqsString(m.release), seqsString(m.activeSuicide), seqsString(m.sealedSuicide), opsString(m.loaderDelete))
}

func seqsString(ss []OpSeq) string {
	var out []string
	for _, s := range ss {
		out = append(out, "("+s.Key()+")")
	}
	return strings.Join(out, " ")
}

func keys(m map[string]bool) []string {
	var ks []string
	for k := range m {
		ks = append(ks, k)
	}
	sort.Strings(ks)
	return ks
}

func ifs(b bool, x, y string) string {
	if b {
		return x
	}
	return y
}

func c15() []*Ob {
	return []*Ob{
		{Prop: "C15", ID: "C15.10", Engine: "PROV(order)", Floor: 2,
			Desc:  "oldest first starts at start-up: the lists loader.load returns (sealed and unsealed fractions) are derived from the loop over the sorted file names only — no element comes out of a channel or a map iteration on the way (replaying the unsealed fractions concurrently and collecting them as they finish returns them in completion order: FracManager.Load then makes the wrong one the writable fraction and retention, which pops from the front, deletes a younger fraction before an older one)",
			Check: func(c *Ctx) { loadKeepsNameOrder(c) }},
		{Prop: "C15", ID: "C15.9", Engine: "PAIR(two sites)", Floor: 1,
			Desc:  "after a crash between publishing .index and releasing the active fraction the sealed fraction serves the sorted docs: NewSealed does not open the docs file eagerly, or the loader removes the leftover .meta/.docs before it loads the sealed fraction (Sealed.openDocs prefers an existing .docs)",
			Check: func(c *Ctx) { sealedOpensAfterCleanup(c) }},
		{Prop: "C15", ID: "C15.8", Engine: "ORDER(test-and-set)", Floor: 1,
			Desc: "a deleted active fraction really loses its files: Active.Suicide decides between \"already released: only the leftovers\" and \"not released: remove .meta and .docs\" on the value the released flag had BEFORE it sets the flag — the read of f.released that feeds the branch precedes the store f.released = true; read afterwards it is always true, nothing is removed under the default configuration, and after a restart the loader replays the files of a fraction retention had dropped",
			Check: func(c *Ctx) {
				fn := c.Fn("(*frac.Active).Suicide")
				if fn == nil {
					return
				}
				n := 0
				for _, b := range fn.Blocks {
					iff, ok := b.Instrs[len(b.Instrs)-1].(*ssa.If)
					if !ok {
						continue
					}
					for _, ld := range InstrsIn(fn, FieldLoad("frac.Active", "released")) {
						v, isV := ld.(ssa.Value)
						if !isV || !DerivesFrom(iff.Cond, func(x ssa.Value) bool { return x == v }) {
							continue
						}
						n++
						stale := false
						for _, st := range InstrsIn(fn, FieldStore("frac.Active", "released")) {
							if Dominates(st, ld) {
								stale = true
							}
						}
						if stale {
							c.Violation("order:Active.Suicide:released-read-after-set", ld.Pos(), "Active.Suicide reads the released flag after it has set it: the branch for a fraction that was not released (remove .meta and .docs) is dead, the files of a deleted active fraction stay on disk and are replayed at the next start")
						} else {
							c.Site(ld.Pos(), "the released flag is read before it is set")
						}
					}
				}
				if n == 0 {
					c.Undecided("order:Active.Suicide:noflag", fn.Pos(), "Active.Suicide no longer branches on the released flag")
				}
			}},
		{Prop: "C15", ID: "C15.7", Engine: "DOM(truncate)", Floor: 1,
			Desc:  "an interrupted start-up leaves the data as it found it: Active.Replay cuts the files only where it read the log to its end (shared rule with C01.12) — a start that is stopped by a signal while an active fraction is replayed must not shorten that fraction: the next start would serve only a part of it, or delete it as empty",
			Check: func(c *Ctx) { truncateOnlyAtEOF(c) }},
		{Prop: "C15", ID: "C15.6", Engine: "PAIR(measure)", Floor: 1,
			Desc: "retention counts down what it counted up: the per-fraction amount shrinkSizes subtracts from the running total when it drops a fraction is computed by the same function (Info.FullSize) as the per-fraction amounts List.GetTotalSize added up — if the total leaves out a part that the subtraction includes (.meta of a not yet sealed fraction), the unsigned total wraps around below zero and retention goes on deleting until no fraction is left, the newest included",
			Check: func(c *Ctx) {
				fn := c.Fn("(*fracmanager.FracManager).shrinkSizes")
				if fn == nil {
					return
				}
				measureOf := func(v ssa.Value) string {
					name := ""
					DerivesFrom(v, func(x ssa.Value) bool {
						cl, ok := x.(*ssa.Call)
						if !ok || cl.Call.IsInvoke() {
							return false
						}
						if h := StaticCallee(cl); h != nil && c.P.InRepo(h) && isUnsignedResult(h) && h.Signature.Recv() != nil && strings.HasSuffix(TypeStr(h.Signature.Recv().Type()), "frac.Info") {
							name = FuncName(h)
							return true
						}
						return false
					})
					return name
				}
				// the subtraction from the running total
				var sub *ssa.BinOp
				for _, b := range fn.Blocks {
					for _, in := range b.Instrs {
						if bo, ok := in.(*ssa.BinOp); ok && bo.Op == token.SUB && InLoop(b) {
							if _, isPhi := bo.X.(*ssa.Phi); isPhi && measureOf(bo.Y) != "" {
								sub = bo
							}
						}
					}
				}
				if sub == nil {
					c.Undecided("pair:retention-measure:nosub", fn.Pos(), "shrinkSizes no longer subtracts a per-fraction size (a method of frac.Info) from a running total in its loop")
					return
				}
				want := measureOf(sub.Y)
				// where the total comes from: the helper that adds the per-fraction amounts up
				var total *ssa.Function
				for _, e := range sub.X.(*ssa.Phi).Edges {
					if cl, ok := e.(*ssa.Call); ok {
						if h := StaticCallee(cl); h != nil && c.P.InRepo(h) {
							total = h
						}
					}
				}
				if total == nil {
					c.Undecided("pair:retention-measure:nototal", sub.Pos(), "cannot see which function computes the total that shrinkSizes counts down from")
					return
				}
				n, bad := 0, 0
				for _, b := range total.Blocks {
					for _, in := range b.Instrs {
						bo, ok := in.(*ssa.BinOp)
						if !ok || bo.Op != token.ADD || !InLoop(b) {
							continue
						}
						if _, isPhi := bo.X.(*ssa.Phi); !isPhi {
							continue
						}
						if k, isK := ConstInt(bo.Y); isK && k == 1 {
							continue // the loop counter
						}
						n++
						if got := measureOf(bo.Y); got != want {
							bad++
							c.Violation("pair:retention-measure:"+FuncName(total), bo.Pos(), "%s adds up a per-fraction amount that is not %s (%s), while shrinkSizes subtracts %s for every fraction it drops: the two disagree for a fraction that still has its .meta file, the unsigned total wraps around and retention deletes every fraction", FuncName(total), want, map[bool]string{true: "no size method of frac.Info", false: got}[got == ""], want)
						}
					}
				}
				if n == 0 {
					c.Undecided("pair:retention-measure:noadd", total.Pos(), "%s no longer adds per-fraction amounts in a loop", FuncName(total))
				} else if bad == 0 {
					c.Site(sub.Pos(), "the total is summed and counted down with %s", want)
				}
			}},
		{Prop: "C15", ID: "C15.1", Engine: "FILESTATE", Floor: 40,
			Desc:  "for every configuration and every crash prefix of create/seal/release/suicide/loader-cleanup, the loader's decision table never reaches a fatal sink, serves live fractions (ACTIVE/SEALED with the files they need), and finishes off every deletion that has begun (monotone)",
			Check: func(c *Ctx) { fileStateObligations(c, "C15") }},
		{Prop: "C15", ID: "C15.3", Engine: "OWN+ORDER+PROV", Floor: 3,
			Desc: "oldest first, whole fractions: FracManager.fracs is stored only by Load, rotate (append at the tail) and shiftFirstFrac (drop element 0); shrinkSizes removes only through shiftFirstFrac, calls Suicide on exactly what it removed and drops it from the fraction cache; the loader sorts fraction ids before building the list",
			Check: func(c *Ctx) {
				owners := map[string]bool{"(*fracmanager.FracManager).Load": true, "(*fracmanager.FracManager).rotate": true, "(*fracmanager.FracManager).shiftFirstFrac": true}
				for _, fn := range c.P.Funcs {
					for _, in := range InstrsIn(fn, FieldStore("fracmanager.FracManager", "fracs")) {
						st := in.(*ssa.Store)
						name := FuncName(fn)
						if o, ok := c.P.OwnedBy(fn, func(n string) bool { return owners[n] }); ok {
							name = o
						}
						if !owners[name] {
							c.Violation("own:FracManager.fracs:"+name, st.Pos(), "%s stores FracManager.fracs; only Load, rotate and shiftFirstFrac may change the ordered fraction list", name)
							continue
						}
						switch name {
						case "(*fracmanager.FracManager).rotate":
							ap, ok := st.Val.(*ssa.Call)
							if ok && CallName(ap) == "builtin.append" && ValueIsField(ap.Call.Args[0], "fracmanager.FracManager", "fracs") {
								c.Site(st.Pos(), "rotate appends the new fraction at the tail")
							} else {
								c.Violation("prov:rotate:append-tail", st.Pos(), "rotate no longer appends the new fraction at the tail of FracManager.fracs")
							}
						case "(*fracmanager.FracManager).shiftFirstFrac":
							sl, ok := st.Val.(*ssa.Slice)
							lo := int64(-1)
							if ok && sl.Low != nil {
								lo, _ = ConstInt(sl.Low)
							}
							if ok && lo == 1 && sl.High == nil && ValueIsField(sl.X, "fracmanager.FracManager", "fracs") {
								c.Site(st.Pos(), "shiftFirstFrac drops exactly element 0")
							} else {
								c.Violation("prov:shiftFirstFrac:drop-first", st.Pos(), "shiftFirstFrac no longer stores fracs[1:]")
							}
						default:
							c.Site(st.Pos(), "%s stores FracManager.fracs (allowed owner)", name)
						}
					}
				}
				if fn := c.Fn("(*fracmanager.FracManager).shiftFirstFrac"); fn != nil {
					// the returned fraction is element 0
					for _, rp := range ReturnPaths(fn, 0) {
						if IsNilConst(rp.Val) {
							continue
						}
						ok := DerivesFrom(rp.Val, func(v ssa.Value) bool {
							ia, isIA := v.(*ssa.IndexAddr)
							if !isIA {
								return false
							}
							k, isK := ConstInt(ia.Index)
							return isK && k == 0 && ValueIsField(ia.X, "fracmanager.FracManager", "fracs")
						})
						if ok {
							c.Site(rp.Ret.Pos(), "shiftFirstFrac returns element 0 (the oldest)")
						} else {
							c.Violation("prov:shiftFirstFrac:returns-first", rp.Ret.Pos(), "shiftFirstFrac returns something other than fracs[0]")
						}
					}
				}
				if fn := c.Fn("(*fracmanager.FracManager).shrinkSizes"); fn != nil {
					shift := Callee("(*fracmanager.FracManager).shiftFirstFrac")
					fromShift := func(v ssa.Value) bool {
						cl, ok := v.(ssa.CallInstruction)
						return ok && shift(cl)
					}
					n := 0
					// the deletion may sit in shrinkSizes itself or in a helper it hands the outsiders to
					home := c.P.Locate(fn, CallSel(Callee("(frac.Fraction).Suicide")))
					for home != nil && home.Parent() != nil && home != fn {
						home = home.Parent()
					}
					for _, call := range CallsInAll(home, Callee("(frac.Fraction).Suicide")) {
						n++
						if c.P.DerivesFromIP(Receiver(call), fromShift) {
							c.Site(call.Pos(), "Suicide is called on a fraction obtained from shiftFirstFrac")
						} else {
							c.Violation("prov:shrinkSizes:suicide-target", call.Pos(), "retention calls Suicide on a fraction that was not removed from the list by shiftFirstFrac")
						}
					}
					if n == 0 {
						c.Undecided("shrinkSizes:nosuicide", fn.Pos(), "shrinkSizes no longer calls Fraction.Suicide; cannot tell how retention deletes")
					}
					MustPrecede(c, fn, shift, "shiftFirstFrac", Callee("(*fracmanager.sealedFracCache).RemoveFraction"), "fracCache.RemoveFraction")
				}
				if fn := c.Fn("(*fracmanager.loader).load"); fn != nil {
					MustPrecede(c, fn, Callee("sort.Strings"), "sort.Strings(fracIDs)", Callee("(*fracmanager.loader).filterInfos"), "filterInfos")
				}
			}},
		{Prop: "C15", ID: "C15.4", Engine: "DOM+ORDER", Floor: 2,
			Desc: "suicide waits for a running seal: proxyFrac.Suicide waits on sealWg only when trySetSuicided reported sealing, re-reads the state after the wait, and trySetSuicided clears active/sealed only when not sealing; proxyFrac.Seal signals sealWg.Done only after it has stored the sealed fraction and cleared the active one (a waiter woken earlier re-reads the sealing state and deletes the active files while the published sealed files stay)",
			Check: func(c *Ctx) {
				fn := c.Fn("(*fracmanager.proxyFrac).Suicide")
				try := c.Fn("(*fracmanager.proxyFrac).trySetSuicided")
				if fn == nil || try == nil {
					return
				}
				// the waiter is woken only after the hand-over: what it re-reads is the sealed fraction
				if sealFn := c.Fn("(*fracmanager.proxyFrac).Seal"); sealFn != nil {
					PrecedeI(c, sealFn, FieldStore("fracmanager.proxyFrac", "active"), "the hand-over f.sealed = sealed; f.active = nil", CallSel(OnField(Callee("(*sync.WaitGroup).Done"), "fracmanager.proxyFrac", "sealWg")), "sealWg.Done()")
				}
				tryM := Callee("(*fracmanager.proxyFrac).trySetSuicided")
				waitM := OnField(Callee("(*sync.WaitGroup).Wait"), "fracmanager.proxyFrac", "sealWg")
				waits := CallsIn(fn, waitM)
				if len(waits) == 0 {
					c.Violation("order:proxyFrac.Suicide:no-wait", fn.Pos(), "proxyFrac.Suicide no longer waits for a running seal before deleting")
				}
				// the waits that follow a trySetSuicided that reported "sealing": what was read before them is stale
				isSealingRes := func(x ssa.Value) bool {
					e, ok := x.(*ssa.Extract)
					if !ok || !types.Identical(e.Type().Underlying(), types.Typ[types.Bool]) {
						return false
					}
					cl, ok := e.Tuple.(ssa.CallInstruction)
					return ok && tryM(cl)
				}
				var sealingWaits []ssa.CallInstruction
				for _, w := range waits {
					if v, found := BoolFact(FactsAtInstr(w.(ssa.Instruction)), isSealingRes); found && v {
						sealingWaits = append(sealingWaits, w)
					} else {
						c.Site(w.Pos(), "sealWg.Wait() outside the sealing branch: it only delays the deletion (nothing read before it is stale)")
					}
				}
				if len(waits) > 0 && len(sealingWaits) == 0 {
					c.Violation("order:proxyFrac.Suicide:no-wait", fn.Pos(), "proxyFrac.Suicide no longer waits for a running seal when trySetSuicided reports one")
				}
				for _, w := range sealingWaits {
					// a second trySetSuicided after the wait
					ok := false
					for _, t := range CallsIn(fn, tryM) {
						if Dominates(w.(ssa.Instruction), t.(ssa.Instruction)) {
							ok = true
						}
					}
					if ok {
						c.Site(w.Pos(), "state is re-read after sealWg.Wait()")
					} else {
						c.Violation("order:proxyFrac.Suicide:reread-after-wait", w.Pos(), "after waiting for the seal the state is not taken again: the freshly sealed fraction would not be deleted")
					}
				}
				isTryRes := func(after ssa.Instruction) func(v ssa.Value) bool {
					return func(v ssa.Value) bool {
						e, ok := v.(*ssa.Extract)
						if !ok {
							return false
						}
						cl, ok := e.Tuple.(ssa.CallInstruction)
						if !ok || !tryM(cl) {
							return false
						}
						return after == nil || Dominates(after, cl.(ssa.Instruction))
					}
				}
				for _, su := range CallsIn(fn, Callee("(*frac.Active).Suicide", "(*frac.Sealed).Suicide")) {
					recv := Receiver(su)
					if !DerivesFrom(recv, isTryRes(nil)) {
						c.Violation("prov:proxyFrac.Suicide:target:"+CallName(su), su.Pos(), "%s is called on something that did not come from trySetSuicided", CallName(su))
						continue
					}
					bad := false
					for _, w := range waits {
						wi := w.(ssa.Instruction)
						if !CanFollow(wi, su.(ssa.Instruction)) {
							continue
						}
						// on the path through the wait, the target must be the state re-read after it
						phi, isPhi := recv.(*ssa.Phi)
						if !isPhi {
							bad = true
							continue
						}
						for i, e := range phi.Edges {
							pred := phi.Block().Preds[i]
							if pred != wi.Block() && !wi.Block().Dominates(pred) {
								continue
							}
							if !DerivesFrom(e, isTryRes(wi)) {
								bad = true
							}
						}
					}
					if bad {
						c.Violation("prov:proxyFrac.Suicide:stale-target:"+CallName(su), su.Pos(), "after waiting for the running seal, %s is called on the state taken BEFORE the wait (the freshly sealed fraction is never deleted)", CallName(su))
					} else {
						c.Site(su.Pos(), "%s target comes from trySetSuicided (re-read after the wait on that path)", CallName(su))
					}
				}
				// in trySetSuicided: clearing stores only under !sealing
				sealingCall := Callee("(*fracmanager.proxyFrac).isSealingState")
				for _, field := range []string{"active", "sealed"} {
					for _, in := range InstrsIn(try, FieldStore("fracmanager.proxyFrac", field)) {
						facts := FactsAtInstr(in)
						v, found := BoolFact(facts, func(x ssa.Value) bool {
							cl, ok := x.(ssa.CallInstruction)
							return ok && sealingCall(cl)
						})
						if found && !v {
							c.Site(in.Pos(), "trySetSuicided clears f.%s only when not sealing", field)
						} else {
							c.Violation("dom:trySetSuicided:clear-"+field, in.Pos(), "trySetSuicided can clear f.%s while a seal is running", field)
						}
					}
				}
			}},
		{Prop: "C15", ID: "C15.5", Engine: "ORDER+ACK+ENUM", Floor: 5,
			Desc: ".frac-cache is replaced atomically (temp file < write < rename, version recorded only after a successful rename, temp name invisible to the loader's glob); loading it reaches no fatal sink; NewSealed reads the index header whenever the cached info is absent or has IndexOnDisk == 0",
			Check: func(c *Ctx) {
				if fn := c.Fn("(*fracmanager.sealedFracCache).SaveCacheToDisk"); fn != nil {
					mk := Callee("os.CreateTemp")
					wr := Callee("(*os.File).Write")
					rn := Callee("os.Rename")
					MustPrecede(c, fn, mk, "os.CreateTemp", wr, "tmp.Write")
					MustPrecede(c, fn, wr, "tmp.Write", rn, "os.Rename")
					for _, r := range CallsIn(fn, rn) {
						if GuardedByNilErr(r.(ssa.Instruction), wr) {
							c.Site(r.Pos(), "rename only after the content was written")
						} else {
							c.Violation("dom:SaveCacheToDisk:rename-needs-write-ok", r.Pos(), "the cache temp file can be renamed over .frac-cache although writing it failed")
						}
						// the rename source is the temp file, the target the cache path
						if !DerivesFrom(r.Common().Args[0], func(v ssa.Value) bool { cl, ok := v.(ssa.CallInstruction); return ok && mk(cl) }) {
							c.Violation("prov:SaveCacheToDisk:rename-source", r.Pos(), "the file renamed into place is not the temp file that was written")
						}
					}
					for _, st := range CallsIn(fn, OnField(Callee("(*sync/atomic.Uint64).Store"), "fracmanager.sealedFracCache", "savedVersion")) {
						if GuardedByNilErr(st.(ssa.Instruction), rn) {
							c.Site(st.Pos(), "savedVersion recorded only after a successful rename")
						} else {
							c.Violation("dom:SaveCacheToDisk:version-needs-rename-ok", st.Pos(), "the saved version can be advanced although the cache file was not replaced: later changes would never be written")
						}
					}
					AckCheck(c, fn, []Must{{Name: "os.CreateTemp", M: mk}, {Name: "tmp.Write", M: wr}, {Name: "os.Rename", M: rn}}, func(rp RetPath) string {
						// "already saved" fast path: version <= savedVersion
						for _, f := range rp.Facts {
							if bo, ok := f.Cond.(*ssa.BinOp); ok && (bo.Op == token.LEQ || bo.Op == token.GTR || bo.Op == token.LSS || bo.Op == token.GEQ) {
								isParam := func(v ssa.Value) bool { p, ok := v.(*ssa.Parameter); return ok && ParamName(p) == "version" }
								if isParam(bo.X) || isParam(bo.Y) {
									return "version already saved"
								}
							}
						}
						return ""
					})
				}
				// temp name is invisible to the loader
				cp := c.P.TypesPkg("consts")
				fp := c.P.TypesPkg("fracmanager")
				if cp != nil && fp != nil {
					sfx := constString(cp, "FracCacheFileSuffix")
					pat := constString(fp, "fileBasePattern")
					if sfx == "" || pat == "" {
						c.Undecided("const:frac-cache-names", token.NoPos, "consts.FracCacheFileSuffix / fracmanager.fileBasePattern no longer resolve")
					} else if strings.HasPrefix(sfx, pat) {
						c.Violation("filestate:cache-temp-visible", token.NoPos, "the cache file name %q matches the loader's fraction glob %q*: a leftover temp file would be treated as a fraction file (unknown suffix => fatal)", sfx, pat)
					} else {
						c.Site(token.NoPos, "cache file name %q (and its temp files %q.*) do not match the fraction glob %q*", sfx, sfx, pat)
					}
				}
				if fn := c.Fn("(*fracmanager.sealedFracCache).LoadFromDisk"); fn != nil {
					if fs := FatalSites(fn); len(fs) > 0 {
						c.Violation("fatal:LoadFromDisk", fs[0].Pos(), "loading a missing/corrupt .frac-cache reaches a fatal sink")
					} else {
						c.Site(fn.Pos(), "LoadFromDisk has no fatal sink; read and unmarshal errors fall back to an empty cache")
					}
				}
				if fn := c.Fn("frac.NewSealed"); fn != nil {
					lh := Callee("(*frac.Sealed).loadHeader")
					if !Current.HasCall(fn, lh) {
						c.Undecided("NewSealed:noloadHeader", fn.Pos(), "frac.NewSealed no longer calls loadHeader")
					}
					var info *ssa.Parameter
					for _, p := range fn.Params {
						if ParamName(p) == "info" {
							info = p
						}
					}
					// every path to a return reads the header, or has established info != nil and info.IndexOnDisk > 0
					// (path-sensitive: the decision may be kept in a flag, `needHeader := info == nil || info.IndexOnDisk == 0`)
					lhc := c.P.MustCall(lh)
					isIndexOnDisk := func(v ssa.Value) bool {
						l, ok := v.(*ssa.UnOp)
						return ok && IsFieldAddr(l.X, "frac.Info", "IndexOnDisk")
					}
					bad, good := 0, 0
					var badPos token.Pos
					res := Simulate(fn.Blocks[0].Instrs[0], false, nil, func(st SimState, in ssa.Instruction) bool {
						if cl, ok := in.(ssa.CallInstruction); ok && lhc(cl) {
							st.Tag("header")
						}
						ret, ok := in.(*ssa.Return)
						if !ok {
							return true
						}
						if st.HasTag("header") {
							good++
							return false
						}
						nonNil := info != nil && st.Nilness(info) == -1
						positive := false
						for _, op := range []token.Token{token.GTR, token.NEQ, token.EQL, token.LEQ} {
							op := op
							if v, found := st.CondFact(func(c ssa.Value) bool {
								bo, ok := c.(*ssa.BinOp)
								if !ok || bo.Op != op || !isIndexOnDisk(bo.X) {
									return false
								}
								k, isK := ConstInt(bo.Y)
								return isK && k == 0
							}); found {
								switch op {
								case token.GTR, token.NEQ:
									positive = positive || v
								case token.EQL, token.LEQ:
									positive = positive || !v
								}
							}
						}
						if nonNil && positive {
							good++
						} else {
							bad++
							badPos = ret.Pos()
						}
						return false
					})
					c.Count("paths_simulated", res.Paths)
					switch {
					case bad > 0:
						c.Violation("dom:NewSealed:fast-path", badPos, "NewSealed can skip reading the index header although the cached info is absent or has IndexOnDisk == 0")
					case good > 0:
						c.Site(fn.Pos(), "NewSealed: on every path the header is read from the index file, or the cached info exists and has IndexOnDisk > 0 (%d paths)", good)
					default:
						c.Undecided("NewSealed:nopaths", fn.Pos(), "no return path of NewSealed could be simulated")
					}
				}
			}},
	}
}

func constString(pk *types.Package, name string) string {
	if o, ok := pk.Scope().Lookup(name).(*types.Const); ok && o.Val().Kind() == constant.String {
		return constant.StringVal(o.Val())
	}
	return ""
}

func isUnsignedResult(f *ssa.Function) bool {
	r := f.Signature.Results()
	if r.Len() != 1 {
		return false
	}
	b, ok := r.At(0).Type().Underlying().(*types.Basic)
	return ok && b.Info()&types.IsUnsigned != 0
}
