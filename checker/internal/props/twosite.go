package props

import (
	"go/token"
	"go/types"
	"strings"

	"golang.org/x/tools/go/ssa"

	. "seqverif/internal/kit"
)

// Agreement rules between two sites: each of them names two local conditions, one at each site, of which at least
// one must hold. Either site may be rewritten on its own as long as the other still carries the invariant; the rule
// reports only when neither does (seed round 7: changes made of two hunks that are harmless one by one).

// successReturnsDominatedBy: every return of fn whose error may be nil is dominated by a call selected by m.
func successReturnsDominatedBy(c *Ctx, fn *ssa.Function, m Matcher) bool {
	idx := ErrorResultIndex(fn)
	calls := CallsIn(fn, c.P.MustCall(m))
	for _, b := range fn.Blocks {
		ret, ok := b.Instrs[len(b.Instrs)-1].(*ssa.Return)
		if !ok || b == fn.Recover {
			continue
		}
		if idx >= 0 {
			nonNil := true
			for _, rp := range ReturnPaths(fn, idx) {
				if rp.Ret == ret && !DefinitelyNonNil(rp.Val, rp.Facts) {
					nonNil = false
				}
			}
			if nonNil {
				continue
			}
		}
		dom := false
		for _, cl := range calls {
			if Dominates(cl.(ssa.Instruction), ret) {
				dom = true
			}
		}
		if !dom {
			return false
		}
	}
	return len(calls) > 0
}

// C01.13: a replayed fraction that is kept has had its tails cut.
func keptFractionIsTruncated(c *Ctx) {
	tt := c.Fn("(*frac.Active).truncateTails")
	ld := c.Fn("(*fracmanager.loader).load")
	if tt == nil || ld == nil {
		return
	}
	always := successReturnsDominatedBy(c, tt, c.P.MayCall(Callee("(*os.File).Truncate")))
	// the loader drops every fraction that replayed to nothing: the removal is decided by DocsTotal == 0 alone
	dropsAllEmpty := false
	for _, rm := range CallsIn(ld, Callee("fracmanager.removeFractionFiles")) {
		l := InnermostLoop(rm.(ssa.Instruction).Block())
		if l == nil {
			continue
		}
		hasZero, extra := false, 0
		for _, f := range FactsAtInstr(rm.(ssa.Instruction)) {
			if iff, ok := l.Header.Instrs[len(l.Header.Instrs)-1].(*ssa.If); ok && iff.Cond == f.Cond {
				continue
			}
			// the exit conditions of loops that ran before say nothing about this fraction
			isLoopCond := false
			for _, ol := range Loops(ld) {
				if iff, ok := ol.Header.Instrs[len(ol.Header.Instrs)-1].(*ssa.If); ok && iff.Cond == f.Cond {
					isLoopCond = true
				}
			}
			if isLoopCond {
				continue
			}
			bo, isBo := f.Cond.(*ssa.BinOp)
			if isBo && (bo.Op == token.EQL) == f.Val && (bo.Op == token.EQL || bo.Op == token.NEQ) {
				if k, isK := ConstInt(bo.Y); isK && k == 0 && DerivesFrom(bo.X, func(v ssa.Value) bool { return ValueIsField(v, "frac.Info", "DocsTotal") }) {
					hasZero = true
					continue
				}
			}
			// facts about errors that were checked before (err == nil) do not restrict the removal
			if isBo && (IsNilConst(bo.X) || IsNilConst(bo.Y)) {
				continue
			}
			extra++
			c.Note("load: extra condition on the removal of an empty fraction: %s = %v", f.Cond.String(), f.Val)
		}
		if hasZero && extra == 0 {
			dropsAllEmpty = true
		} else {
			c.Note("removeFractionFiles in load: DocsTotal==0 fact: %v, other conditions: %d", hasZero, extra)
		}
	}
	switch {
	case always:
		c.Site(tt.Pos(), "truncateTails cuts both files on every success path")
	case dropsAllEmpty:
		c.Site(ld.Pos(), "truncateTails may skip an empty fraction: the loader removes every fraction that replayed to nothing")
	default:
		c.Violation("pair:truncate-or-drop", tt.Pos(), "truncateTails returns without cutting the files on some success path, and the loader keeps (some) fractions that replayed to nothing: a fresh fraction whose first bulk was torn by a crash is reused with the torn meta block and the orphan docs block still in it, and the next replay misreads everything appended behind them")
	}
}

// C02.13: the LID window handed to the range node is well-formed, or the node's end test does not rely on it.
func rangeNodeEndsOnEmptyWindow(c *Ctx) {
	nx := c.Fn("(*node.nodeRange).Next")
	gb := c.Fn("frac/processor.getLIDsBorders")
	if nx == nil || gb == nil {
		return
	}
	// robust: the stop test is an ordering test (a call of the node's less function, or < / >), not an equality with one value
	robust := false
	for _, b := range nx.Blocks {
		iff, ok := b.Instrs[len(b.Instrs)-1].(*ssa.If)
		if !ok {
			continue
		}
		switch x := iff.Cond.(type) {
		case *ssa.Call:
			robust = true
			_ = x
		case *ssa.BinOp:
			if x.Op == token.LSS || x.Op == token.GTR || x.Op == token.LEQ || x.Op == token.GEQ {
				robust = true
			}
		}
	}
	// invariant: the second border search starts where the first one ended (max >= min-1)
	bs := CallsIn(gb, Callee("util.BinSearchInRange"))
	chained := false
	if len(bs) >= 2 {
		for _, second := range bs[1:] {
			for _, first := range bs {
				if first != second && DerivesFrom(Arg(second, 0), func(v ssa.Value) bool { return v == first.Value() }) {
					chained = true
				}
			}
		}
	}
	switch {
	case robust:
		c.Site(nx.Pos(), "the range node stops on an ordering test: any window, also an inverted one, ends")
	case chained:
		c.Site(gb.Pos(), "the range node stops on equality with its bound; getLIDsBorders chains its two searches, so max >= min-1")
	default:
		c.Violation("pair:range-window", nx.Pos(), "nodeRange.Next stops only when it hits one exact value, and getLIDsBorders no longer searches the second border from the first one: for from > to the window is (4,1)-like, the node never meets its stop value, NOT queries return documents for an empty window and a search with total spins until it is cancelled")
	}
}

// C03.11 (= C02.14): the field's lowest token is the first block's.
func fieldMinValIsFirstEntrys(c *Ctx) {
	ldr := c.Fn("(*frac/token.TableLoader).load")
	if ldr == nil {
		return
	}
	hosts := []*ssa.Function{ldr}
	for _, call := range CallsIn(ldr, nil) {
		if h := StaticCallee(call); h != nil && h.Blocks != nil && PkgOf(h) == "frac/token" {
			hosts = append(hosts, h)
		}
	}
	// reader side: FieldData.MinVal is taken under "this is entry 0"
	firstOnly, stores := true, 0
	for _, h := range hosts {
		for _, st := range InstrsIn(h, FieldStore("frac/token.FieldData", "MinVal")) {
			stores++
			ok := false
			for _, f := range FactsAtInstr(st) {
				bo, isBo := f.Cond.(*ssa.BinOp)
				if !isBo || (bo.Op != token.EQL && bo.Op != token.NEQ) || (bo.Op == token.EQL) != f.Val {
					continue
				}
				if k, isK := ConstInt(bo.Y); isK && k == 0 {
					if _, isStr := bo.X.Type().Underlying().(*types.Basic); isStr && bo.X.Type().Underlying().(*types.Basic).Info()&types.IsInteger != 0 {
						ok = true
					}
				}
			}
			if !ok {
				firstOnly = false
			}
		}
	}
	// writer side: TableEntry.MinVal is filled only for the entry that opens a field (in the step that creates the FieldData)
	writerFirstOnly := true
	for _, fn := range c.P.FuncsInPkg("frac") {
		for _, st := range InstrsIn(fn, FieldStore("frac/token.TableEntry", "MinVal")) {
			sameStep := false
			for _, in := range st.Block().Instrs {
				if s2, ok := in.(*ssa.Store); ok && IsFieldAddr(s2.Addr, "frac/token.FieldData", "MinVal") {
					sameStep = true
				}
			}
			// or under the fact that the field was not in the table yet
			for _, f := range FactsAtInstr(st) {
				if e, ok := f.Cond.(*ssa.Extract); ok && e.Index == 1 && !f.Val {
					if lk, isL := e.Tuple.(*ssa.Lookup); isL && lk.CommaOk {
						sameStep = true
					}
				}
			}
			if !sameStep {
				writerFirstOnly = false
			}
		}
	}
	switch {
	case stores == 0:
		c.Undecided("pair:field-minval:nostore", ldr.Pos(), "the token table loader no longer sets FieldData.MinVal")
	case firstOnly:
		c.Site(ldr.Pos(), "the loader takes a field's MinVal from its first entry")
	case writerFirstOnly:
		c.Site(ldr.Pos(), "the loader takes a field's MinVal from the first entry that has one; the writer gives one to the first entry only")
	default:
		c.Violation("pair:field-minval", ldr.Pos(), "the loader takes a field's lowest token from the first entry with a non-empty MinVal, and the writer fills MinVal for every entry: when the lowest token of a field is the empty string the second block's first token is taken for it, and the reloaded table rejects every hint below that value")
	}
}

// C03.12: a decoded flag that somebody consumes is encoded from the same flag.
func consumedChunkFlagIsEncoded(c *Ctx) {
	pack := c.Fn("(*frac/lids.Chunks).Pack")
	if pack == nil {
		return
	}
	var readers []string
	for _, fn := range c.P.Funcs {
		if !c.P.InRepo(fn) || fn.Blocks == nil {
			continue
		}
		n := FuncName(fn)
		if strings.HasSuffix(n, ".Pack") || strings.Contains(strings.ToLower(n), "unpack") {
			continue
		}
		if strings.HasPrefix(PkgOf(fn), "cmd/") {
			continue // offline diagnostic tools (index_analyzer) are not part of the store
		}
		if len(InstrsIn(fn, FieldLoad("frac/lids.Chunks", "IsLastLID"))) > 0 {
			readers = append(readers, n)
		}
	}
	encodes := false
	for _, b := range pack.Blocks {
		if iff, ok := b.Instrs[len(b.Instrs)-1].(*ssa.If); ok && DerivesFrom(iff.Cond, func(v ssa.Value) bool { return ValueIsField(v, "frac/lids.Chunks", "IsLastLID") }) {
			encodes = true
		}
	}
	switch {
	case len(readers) == 0:
		c.Site(pack.Pos(), "nothing outside the codec reads Chunks.IsLastLID")
	case encodes:
		c.Site(pack.Pos(), "Chunks.IsLastLID is read by %v and Pack writes the end marker from it", readers)
	default:
		c.Violation("pair:chunks-islast", pack.Pos(), "%v decide(s) from the decoded Chunks.IsLastLID, but Pack no longer writes the end marker from that flag: for a token whose postings fill a block exactly the marker is missing, the reader takes the token to go on in the next block and indexes a chunk that is not there", readers)
	}
}

// C04.12: LessOrEqual is never asked about a position beyond the table, or answers it.
func lessOrEqualBorder(c *Ctx) {
	le := c.Fn("(*frac.sealedIDsIndex).LessOrEqual")
	fl := c.Fn("(*frac.sealedFetchIndex).findLIDs")
	if le == nil || fl == nil {
		return
	}
	// the border clause: a constant-true return under a comparison of lid with the table size
	clause := false
	for _, rp := range ReturnPaths(le, 0) {
		if v, isK := ConstBool(rp.Val); !isK || !v {
			continue
		}
		for _, f := range rp.Facts {
			bo, ok := f.Cond.(*ssa.BinOp)
			if ok && DerivesFrom(bo, func(v ssa.Value) bool {
				return ValueIsField(v, "frac.IDsTable", "IDsTotal") || ValueIsField(v, "frac/ids.Table", "IDsTotal") || strings.HasSuffix(func() string { _, f, _, _ := FieldOf(v); return f }(), "IDsTotal")
			}) {
				clause = true
			}
		}
	}
	// every search of findLIDs stays inside [1, Len()-1]: its upper argument derives from Len()-1 alone (not from an earlier result)
	bounded := true
	for _, bs := range CallsIn(fl, Callee("util.BinSearchInRange")) {
		hi := Arg(bs, 1)
		fromResult := DerivesFrom(hi, func(v ssa.Value) bool {
			cl, ok := v.(ssa.CallInstruction)
			return ok && CallName(cl) == "util.BinSearchInRange"
		})
		if fromResult {
			bounded = false
		}
	}
	switch {
	case clause:
		c.Site(le.Pos(), "LessOrEqual answers for positions beyond the table")
	case bounded:
		c.Site(fl.Pos(), "LessOrEqual has no clause for positions beyond the table; findLIDs never searches beyond Len()-1")
	default:
		c.Violation("pair:lessorequal-border", le.Pos(), "LessOrEqual no longer answers for a position beyond the ID table, and findLIDs uses an earlier search result (which is Len() for an id below everything stored) as the upper end of the next search: the probe indexes past the table, the panic is turned into an error and the whole fetch fails because of one absent id")
	}
}

// C05.10: the list that is consumed in chunks is sorted, whatever the chunk size.
func chunkedListIsSorted(c *Ctx) {
	pf := c.Fn("(*fracmanager.Searcher).prepareFracs")
	sd := c.Fn("(*fracmanager.Searcher).SearchDocs")
	if pf == nil || sd == nil {
		return
	}
	always := successReturnsDominatedBy(c, pf, Callee("(fracmanager.List).Sort"))
	// the chunk size is the configured one (or everything at once): nothing else enters it
	plain := true
	for _, sh := range CallsIn(sd, Callee("(*fracmanager.List).Shift")) {
		n := Arg(sh, 0)
		other := DerivesFrom(n, func(v ssa.Value) bool {
			cl, ok := v.(*ssa.Call)
			if !ok {
				return false
			}
			switch CallName(cl) {
			case "builtin.len":
				return false
			case "builtin.min", "builtin.max", "builtin.cap":
				return true
			}
			return false
		})
		if other {
			plain = false
		}
	}
	switch {
	case always:
		c.Site(pf.Pos(), "prepareFracs sorts the list on every success path")
	case plain:
		c.Site(pf.Pos(), "prepareFracs sorts only when there is more than one iteration; SearchDocs iterates by the configured chunk size alone")
	default:
		c.Violation("pair:sorted-chunks", pf.Pos(), "prepareFracs skips the sort when the configured iteration size covers the list, while SearchDocs cuts its iterations by something else as well (the worker pool size): an unsorted list is consumed in several chunks, the early-termination test reads the wrong border and fractions with newer documents are never searched")
	}
}

// C06.9: an operand without samples does not touch the extrema.
func mergeIgnoresEmptyOperand(c *Ctx) {
	fn := c.Fn("(*seq.SamplesContainer).Merge")
	if fn == nil {
		return
	}
	var operand *ssa.Parameter
	if len(fn.Params) >= 2 {
		operand = fn.Params[1]
	}
	if operand == nil {
		return
	}
	n := 0
	for _, f := range []string{"Min", "Max"} {
		for _, ld := range InstrsIn(fn, FieldLoad("seq.SamplesContainer", f)) {
			u := ld.(*ssa.UnOp)
			fa, ok := u.X.(*ssa.FieldAddr)
			if !ok || fa.X != ssa.Value(operand) {
				continue
			}
			n++
			guarded := false
			for _, fact := range FactsAtInstr(ld) {
				bo, isBo := fact.Cond.(*ssa.BinOp)
				if !isBo {
					continue
				}
				opTotal := func(v ssa.Value) bool {
					l, ok := v.(*ssa.UnOp)
					if !ok {
						return false
					}
					a, ok := l.X.(*ssa.FieldAddr)
					if !ok || a.X != ssa.Value(operand) {
						return false
					}
					_, fld, _, okF := FieldOf(a)
					return okF && fld == "Total"
				}
				if !(opTotal(bo.X) || opTotal(bo.Y)) {
					continue
				}
				switch bo.Op {
				case token.EQL:
					guarded = guarded || !fact.Val
				case token.NEQ, token.GTR:
					guarded = guarded || fact.Val
				}
			}
			if guarded {
				c.Site(ld.Pos(), "Merge reads the operand's %s only when the operand has samples", f)
			} else {
				c.Violation("dom:Merge:empty-operand:"+f, ld.Pos(), "SamplesContainer.Merge reads the operand's %s although the operand may hold no samples: a part that only counted not-exists documents (Total == 0, Min == Max == 0) drags the minimum or maximum of the group to 0, and only when it is merged after a part with values — the result depends on the merge order", f)
			}
		}
	}
	if n == 0 {
		c.Undecided("dom:Merge:empty-operand:none", fn.Pos(), "Merge no longer reads the operand's Min/Max")
	}
}

// C06.10: a token iterator that steps on after a hit is asked once per document.
func iteratorConsumedOncePerDoc(c *Ctx) {
	fn := c.Fn("(*frac/processor.SourcedNodeIterator).ConsumeTokenSource")
	if fn == nil {
		return
	}
	// eager: an advance of the underlying node outside the catch-up loop
	eager := false
	for _, call := range CallsIn(fn, func(cl ssa.CallInstruction) bool {
		return cl.Common().IsInvoke() && cl.Common().Method.Name() == "NextSourced"
	}) {
		if !InLoop(call.(ssa.Instruction).Block()) {
			eager = true
		}
	}
	shared := ""
	for _, f := range c.P.FuncsInPkg("frac/processor") {
		for _, call := range CallsIn(f, nil) {
			h := StaticCallee(call)
			if h == nil || !c.P.InRepo(h) {
				continue
			}
			var its []ssa.Value
			for _, a := range call.Common().Args {
				if strings.HasSuffix(TypeStr(a.Type()), "processor.SourcedNodeIterator") {
					its = append(its, a)
				}
			}
			for i := range its {
				for j := i + 1; j < len(its); j++ {
					if its[i] == its[j] {
						shared = FuncName(f) + " -> " + FuncName(h)
					}
				}
			}
		}
	}
	switch {
	case !eager:
		c.Site(fn.Pos(), "ConsumeTokenSource leaves the node on a hit: asking twice for one document gives the same answer")
	case shared == "":
		c.Site(fn.Pos(), "ConsumeTokenSource steps over a hit at once; no aggregator is given one iterator for two roles")
	default:
		c.Violation("pair:iterator-once", fn.Pos(), "ConsumeTokenSource steps over a hit at once, and %s hands one iterator to an aggregator for two roles: the second question about the same document finds the node advanced, every document counts as lacking the field", shared)
	}
}

// C10.10: the format that has its own parser is picked by name, or it is where the position says.
func timeFormatByNameOrPosition(c *Ctx) {
	fn := c.Fn("proxy/bulk.extractDocTime")
	if fn == nil {
		return
	}
	isTable := func(v ssa.Value) bool {
		return DerivesFrom(v, func(x ssa.Value) bool {
			g, ok := x.(*ssa.Global)
			return ok && g.Name() == "TimeFormats" && g.Pkg != nil && strings.HasSuffix(g.Pkg.Pkg.Path(), "consts")
		})
	}
	positional := false
	for _, f := range WithClosures(fn) {
		for _, b := range f.Blocks {
			for _, in := range b.Instrs {
				switch x := in.(type) {
				case *ssa.Slice:
					if isTable(x.X) && (x.Low != nil || x.High != nil) {
						positional = true
					}
				case *ssa.IndexAddr:
					if _, isK := ConstInt(x.Index); isK && isTable(x.X) {
						positional = true
					}
				}
			}
		}
	}
	if !positional {
		c.Site(fn.Pos(), "extractDocTime goes through consts.TimeFormats without relying on positions")
		return
	}
	// the table as initialised: element 0
	es := constString(c.P.TypesPkg("consts"), "ESTimeFormat")
	first := ""
	for _, f := range c.P.Funcs {
		if f.Name() != "init" || f.Pkg == nil || !strings.HasSuffix(f.Pkg.Pkg.Path(), "seq-db/consts") {
			continue
		}
		for _, b := range f.Blocks {
			for _, in := range b.Instrs {
				st, ok := in.(*ssa.Store)
				if !ok {
					continue
				}
				ia, ok := st.Addr.(*ssa.IndexAddr)
				if !ok {
					continue
				}
				if k, isK := ConstInt(ia.Index); !isK || k != 0 {
					continue
				}
				if s, isS := ConstString(st.Val); isS {
					// the array this element belongs to ends up in TimeFormats
					for _, in2 := range b.Instrs {
						if s2, ok := in2.(*ssa.Store); ok {
							if g, isG := s2.Addr.(*ssa.Global); isG && g.Name() == "TimeFormats" && DerivesFrom(s2.Val, func(v ssa.Value) bool { return v == ia.X }) {
								first = s
							}
						}
					}
				}
			}
		}
	}
	switch {
	case first == "":
		c.Undecided("pair:timeformats:init", fn.Pos(), "extractDocTime relies on positions in consts.TimeFormats, but the initial contents of the table could not be read")
	case first == es:
		c.Site(fn.Pos(), "extractDocTime skips TimeFormats[0]; it is the format with the dedicated parser")
	default:
		c.Violation("pair:timeformats", fn.Pos(), "extractDocTime treats consts.TimeFormats by position (the first entry has its own parser, the rest go to time.Parse), but the first entry of the table is %q, not the ES format: the ES layout reaches the lenient time.Parse, which accepts spellings the strict parser rejects, and the id carries a document time the property says is the receive time", first)
	}
}
