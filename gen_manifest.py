#!/usr/bin/env python3
"""Regenerates MANIFEST.json from the table below (claimed properties) and properties.jsonl."""
import json, os, subprocess

CLAIMED = {
 "C01": dict(technique="static analysis: must-pass-through (dominance) over SSA for write<sync<ack ordering, success-return provenance per call-graph hop, provenance/ownership of the skip-fsync flag, replay/append offset agreement, abstract file-set typestate for loader totality",
             text="Structural necessary conditions of durability, decided for every path of the ack chain (not sampled): a break of any of them loses or corrupts an acknowledged bulk under some crash point. It does not decide byte contents or equality of replayed state.",
             note="Trusted: go/types+go/ssa, dominators, frozen anchor table in checker/internal/props/c01.go; assumes all durable effects go through os.File WriteAt/Sync/Truncate.", ref="§3 C01"),
 "C08": dict(technique="static analysis: scoped error-flow (every error under frac.Seal must be returned/wrapped/stored/fatal), must-pass-through publish order (sync<rename<dirsync, registry last), who-may-call ownership of file removal, file-set typestate over crash prefixes",
             text="Every path of the sealing code is examined for a swallowed error, a publish step that can run after a failed step, or a release of the originals that is not dominated by a successful seal: each is a necessary condition of all-or-nothing sealing. Torn file contents are not decided.",
             note="Trusted: go/ssa, the set of error-handling idioms accepted as propagation (DESIGN §2.3 ERRFLOW), frozen owner table; scope is static callees+closures in frac, disk, bytespool, packer, zstd, util.", ref="§3 C08"),
 "C15": dict(technique="static analysis: file-set typestate — file-operation sequences extracted from SSA in program order per configuration, every crash prefix classified by the loader decision table (also extracted from SSA); ownership/provenance of the ordered fraction list; ordering/ack rules for the cache file",
             text="All crash prefixes of create/seal/release/suicide/loader-cleanup (abstract file sets, enumerated completely for the extracted sequences) are classified by the loader's own decision logic: never fatal, live fractions served, begun deletions finished. Plus structural rules for oldest-first retention and the atomic cache-file update. File contents and size accounting are not decided.",
             note="Trusted: go/ssa, the suffix/flag abstraction (a file is its suffix), the assumption that completed directory operations are not reordered by a crash; tables in checker/internal/props/c15.go, filemodel.go.", ref="§3 C15"),
 "C09": dict(technique="static analysis: dominance (written-bit under err==nil), provenance (status slice of the called shard, index/replica of one iteration), error-flow, and a bounded path-sensitive simulation over SSA (phi resolution, nil-ness and integer-interval facts) deciding that no success return follows a failed last attempt in the shard loop and in the bounded retry loop",
             text="Every path of the proxy's replication client is examined: a success report must be preceded by a successful last attempt per tier, written bits only follow successful sends to the same replica. This is the bookkeeping the property rests on; the remote side and the circuit library are summarised, not analysed.",
             note="Trusted: go/ssa; summaries of cep21/circuit Execute and multierr.Combine; PATHSIM visits each block at most 3 times per path.", ref="§3 C09"),
 "C04": dict(technique="static analysis: non-zero-divisor analysis over the fetch call scope (constants, max(), dominating comparisons, predicates, all call sites, frozen invariants), bounds-check-before-index rule for binary-search results, dominance/provenance rules for recover, not-found handling and result placement, lossless cache-key rule",
             text="For every path of the fetch code: no division by a possibly-zero value, no unchecked search result used as index, panics of one fraction are converted to errors, absent ids are skipped and never overwrite found documents, one response per id. These are necessary for 'absent IDs never error, crash or hang'; byte equality with the ingested document is not decided.",
             note="Trusted: go/ssa; frozen divisor invariants and the list of request-content functions in checker/internal/props/c04.go; interface calls resolved to repo implementations by types.Implements.", ref="§3 C04"),
 "C07": dict(technique="static analysis: guarded-by must-lockset dataflow over SSA for a frozen field->mutex table (with caller-holds helpers and phase exemptions backed by ordering obligations), lock-class order graph acyclicity, who-may-read ownership of unprotected phase-ordered fields, dominance-based publication/snapshot order, lock typestate of data providers, path-sensitive retry ack",
             text="Lockset discipline, lock order, publication order and hand-over rules are schedule-independent facts: they hold for every interleaving or are violated by some. They are necessary for race-freedom and reader safety on the tabled state; races on untabled memory, linearizability and liveness are not decided.",
             note="Trusted: go/ssa; lock identity by access path within one function; the frozen tables in checker/internal/props/c07.go (each exemption has a reason and, for sealing, a backing obligation).", ref="§3 C07"),
 "C18": dict(technique="static analysis: guarded-by lockset (incl. TryLock edges and caller-holds helpers) for cache and cleaner state, dominance-based entry state-machine order, error/panic path rules, accounting pair rules, ownership of the bucket list and a deviant-idiom detector with a proof of wrongness",
             text="The locking discipline, the order in which an entry becomes valid or is abandoned, and the pairing of every generation move with its counter update are decided on all paths; they are necessary for coherence and correct accounting. The numeric bound after cleaning and coherence beyond the lockset are not decided.",
             note="Trusted: go/ssa on the generic method bodies; single maintenance goroutine for the cleaner's unlocked fields (stated in the code).", ref="§3 C18"),
 "C12": dict(technique="static analysis: finite-domain (enum) reachability of panicking default branches through parameters and call sites up to the producer, type-switch coverage against every concrete type boxed into the interface, per-site caller-guard checks, SCC detection in the static call graph with a depth-bound test, error-flow at every parse call site",
             text="Totality half of the property only: decides for every mapping type and every call path that no explicit panic is reachable from the three parse entry points, and that recursion driven by the input has a bound; preservation of boolean meaning needs evaluation of trees and is not decided.",
             note="Trusted: go/ssa; enum values are declared constants; recursion through interface/function values is not followed; one frozen exemption (ParseSeqQL 'lexer is not end') with its reason in c12.go.", ref="§3 C12"),
 "C03": dict(technique="static analysis: wire-signature extraction from the type-checked syntax tree of every encoder/decoder pair and comparison after normalisation; getter/setter offset+width agreement; shift/mask pairs; dominance order of sections vs read order; cache<->loader pairing; field-set comparison of the two construction paths; alias rule for pooled buffers; who-may-read rule for the raw MinTIDs column; lossless cache keys",
             text="What the sealer writes and what the sealed loaders read are compared structurally for every table of the index file, and the two ways of building a Sealed fraction are compared field by field: a disagreement makes a sealed/reloaded fraction answer differently from the active one. Value-level logic at block borders is not decided.",
             note="Trusted: go/types, go/ssa; the frozen pair table in checker/internal/props/c03.go; byte-slice payloads (BYTES) are not compared.", ref="§3 C03"),
 "C16": dict(technique="static analysis: error-flow and dominance rules for shard error accounting, path-sensitive simulation (PATHSIM) that a non-nil tier error never ends in a nil return, sibling checklist over the four proxy handlers, enum coverage of store answer codes, dominance/loop-shape rules for the merged fetch iterator",
             text="Every path of the proxy read code is checked for the bookkeeping that makes an incomplete answer visible: collected shard errors decide completeness, the partial error survives Ingestor.Search and reaches all four handlers, the fetch iterator pairs documents with ids by equality. The content of the merged result is not decided.",
             note="Trusted: go/ssa; PATHSIM bounds; errors.Is treated as an unknown boolean.", ref="§3 C16"),
 "C19": dict(technique="static analysis: dominance order and error-flow of the atomic file write, symmetric key-codec rules (one separator, first-separator split, Itoa/Atoi), field coverage of the JSON shadow struct, done-after-loop order, sibling rule for the two parse sites (same parser, same mapping provider), provenance of MergeQPRs arguments",
             text="The persistence protocol, the key codec of persisted aggregation bins, the resume path and the merge arguments are the places where the asynchronous result can silently diverge from the synchronous one; each is decided structurally on all paths. Equality of results is not decided.",
             note="Trusted: go/ssa; string-splitting functions are classified by name (first-separator vs all).", ref="§3 C19"),
 "C20": dict(technique="static analysis: alias/mutation-sink analysis of the fetched document bytes, polarity chain of the allow/except flag across proxy, wire request and store, dominance rules for pass-through returns, provenance of the parsed query text, per-id send order",
             text="Decides that the filter never writes through the (possibly cached) stored bytes, that allow/except arrives with the right polarity, that documents pass through unfiltered only in the enumerated cases and that one block per id is sent in order. Value fidelity of the JSON re-encoding is the library's behaviour and is not decided.",
             note="Trusted: go/ssa; dependency summary: insane-json DecodeBytes copies its input.", ref="§3 C20"),
 "C10": dict(technique="static analysis: alias/mutation-sink analysis of the ingested document bytes and of tokenizer inputs, path-sensitive error discipline in the bulk loop, reset-before-use order for pooled buffers, single-store ack rule, counter/append pairing, provenance of the id time, loop-nest shape of the time extraction, framing order and capacity limiting",
             text="Structural conditions of 'stored verbatim, exactly once, or not at all': nothing can write through the bytes that are stored, an invalid document or reader error aborts before the single store call, the created count is tied to the append, the time rule is wired as stated. Time parsing, drift boundaries and JSON validity are value-level and not decided.",
             note="Trusted: go/ssa; dependency summaries (insane-json DecodeBytes copies; bufio.ReadLine returns a view).", ref="§3 C10"),
 "C11": dict(technique="static analysis: sibling comparison of the character-class predicates and constants used by the byte-level tokenizer and the two rune-level parsers, case-mapping class rule, forced case-sensitivity of _exists_ in both parsers, enum coverage of registered tokenizer types by the parsers' switches, provenance of the case flag, alias rule for tokenizer helpers",
             text="The two independently written tokenizations are compared where they must say the same thing (which runes continue a word, how case is folded, which index types are searchable). A disagreement is exactly a token the query side cannot produce. Size limits, path prefixes and quoting styles are input-space and not decided.",
             note="Trusted: go/ssa; unicode predicates compared by identity.", ref="§3 C11"),
 "C17": dict(technique="static analysis: dominance order and provenance in the append worker (filter before ids/tokens/stats), field-coverage of the duplicate filter, exclusive-prefix-sum shape of the token offsets, lockset rule that SetMultiple decides and stores under one write-lock hold, first-writer-wins dominance rule, dedup-before-cut order in MergeQPRs",
             text="The mechanisms that keep a re-delivered document single (atomic first-writer-wins, filtering the collector before anything is indexed, rebuilding all per-document columns, de-duplicating merged results before the cut) are decided structurally on all paths. Arithmetic details of the filter and effects on aggregations are not decided.",
             note="Trusted: go/ssa; lock identity by access path.", ref="§3 C17"),
 "C14": dict(technique="static analysis: dominance rules that pruning predicates default to 'may intersect', unit-pair and field-coverage rules for the persisted occupancy map, sibling rule that search and fetch use one predicate and one index function, every-id rule for building the map, provenance of the fetch window from the sorted id list",
             text="Soundness of pruning rests on a few structural facts that are decided on all paths: unknown means intersects, persisted units agree, the map is complete and built before it is persisted, search and fetch ask the same question, the fetch window spans all requested ids. Bitmask arithmetic and border binary searches are value-level and not decided.",
             note="Trusted: go/ssa; time-unit functions classified by name.", ref="§3 C14"),
 "C05": dict(technique="static analysis: dominance order (sort before chunking, merge before pagination), pairing of the sort key with the early-termination key per DocsOrder constant through the one-line order predicates, non-strictness rule for the border comparison, provenance of limits and merge arguments, error-flow of fraction errors",
             text="Layout independence rests on the fraction order, the key used to declare ids final, and the merge pipeline; these are compared structurally for both orders. The arithmetic of early termination beyond the key/strictness, paging continuity and cross-replica de-duplication are metamorphic, value-level claims and are not decided.",
             note="Trusted: go/ssa; IsDesc/IsReverse are evaluated from their one-line bodies over the declared DocsOrder constants.", ref="§3 C05"),
 "C06": dict(technique="static analysis: enum-table agreement across three packages (names and values) and totality of the mapping tables, field-coverage of summary conversions and merges in both directions, unit-class rule for bin timestamps, order rule for the first-value test, enum coverage of aggregation switches, non-zero divisor of the time-bin modulo",
             text="Conversions and merges of partial aggregation results are compared field by field and enum by enum: a dropped field, a renumbered function or a unit mismatch changes results for every input, but no test compares the three enum tables or both conversion directions. Numeric correctness of the aggregates themselves is not decided.",
             note="Trusted: go/ssa, go/types; constant names compared after normalisation.", ref="§3 C06"),
 "C02": dict(technique="static analysis: enum/type coverage of the evaluator against what the parser constructs, provenance of the single direction flag and the single LID window through the eval-tree builders, guarded histogram modulo, previous-value dominance rule in the posting-list merge",
             text="Only the structural skeleton of search correctness is decided: every node type and operator is handled, all merge nodes agree on direction and on the LID window, the histogram arithmetic cannot divide by zero, the active merge cannot keep a repeated posting. The merge algorithms, border searches and limit/total arithmetic are value-level and not decided; this is the larger part of the property.",
             note="Trusted: go/ssa; enum values are declared constants.", ref="§3 C02"),
 "C13": dict(technique="static analysis: dominance rule that narrowing needs an ordered provider (with the constant Ordered() results), comparator-class pairing between sealing sort and narrowing, bound check before GetToken, type-switch coverage, path-sensitive rule that a failed ParseFloat never yields a numeric searcher, window and loop-shape necessities of the wildcard matcher",
             text="Decides the structural conditions under which dictionary narrowing and the numeric/text decision are sound, plus two shape necessities of the wildcard matcher (fragment window, iterated KMP fallback). Glob and range semantics themselves need enumeration of strings and are not decided.",
             note="Trusted: go/ssa; PATHSIM bounds; bytes.Compare and Go string order are the bytewise order.", ref="§3 C13"),
}

# clauses added in build round 2 (appended to the technique text of the property)
ADDENDA = {
 "C08": "; no file is created under a name the loader takes for a completed seal",
 "C06": "; memo-key rule (an entry written on the miss branch of a lookup uses the key of that lookup); every-iteration rule for the per-token posting sources; per-element provenance of the aggregation interval; read/maintained pairing of every aggregator counter",
 "C01": "; lockset rule that the docs write and the meta write of one bulk share one hold of the writer mutex; publication order of the index worker (stats before the wait group is released); shared rules on the duplicate filter's columns and on truncating only a log that was read to io.EOF",
 "C02": "; comparator pairing (whoever orders by MID also compares RID) in the active posting-list merge; idiom rule for the second binary search of the LID window; provenance rule that the pooled LID-inversion table is cleared before it is filled; the fraction order is keyed on what the early-stop cut reads; mirror-sibling rule for the sealed posting-list iterators shared with C03; the dedup comparand of the posting-list merge is loop-carried and updated",
 "C03": "; mirror-sibling rule for the ascending/descending posting-list iterators (the block walk ends only on the bound ahead of it); alias analysis that nothing reachable from a pooled block writer survives its return to the pool; checked-before-use rule for binary-search results used as bounds; provenance rule that the dictionary block bounds reach the index file and come back untruncated and copied; polarity-aware justification of the iterators' end-of-walk",
 "C04": "; alias/mutation-sink analysis of the request's id list inside the fetcher; shared rules: a failed block read is not cached, and the occupancy map has a bit for every document; parallel-results rule for the per-fraction id groups",
 "C05": "; key rule for the repetition test of the result merge (document id only); every-iteration (back-edge dominance) rule for the occupancy map; independent running-extrema rule for the fraction borders; tie-break direction shared with C02",
 "C07": "; read-modify-write-in-one-hold rule for every guarded field; snapshot order in TokenLIDs.GetLIDs; pooled-writer alias rule shared with C03; publish/snapshot order of the token dictionary; strictness of every length guard that protects an element read",
 "C09": "; provenance of the per-bulk write status (created per call or reset before use); a recovered panic is returned through a named error result; use-after-put typestate over discovered release functions",
 "C10": "; no reader activity between reading the document line and returning its view; provenance of the delay handed to the drift check (the request's own time); no fall-through success of the store client (shared with C09); pooled buffers are reset on every hand-out path; format ranges of the hand-written time parser; skip-to-end-of-line loop of the bulk reader",
 "C11": "; append-to-view rule extended to the indexer (append-style APIs recognised); no predicate on the rune gates the case-mapping call; raw strings are taken verbatim; a case predicate handed over as a function value gates the mapping all the same; ASCII capital table covers A..Z; the quote byte given to UnquoteChar is the literal's own",
 "C12": "; conditional constant propagation with input partitioning (FINITE) recovering the negation push-down table of propagateNot and comparing every cell with the truth table of the input; constant-index reads of the input text dominated by a length test; cursor typestate of the legacy parser (read/advance only after eof() answered false since the position changed, callee requirements to a fixed point); dominance rule that unquotePrefix succeeds after its scanning loop only with input left; word characters of text terms shared with C11",
 "C13": "; type-switch dominance rule for the dictionary pre-selection hint (literals only); exact-length cut of the block bounds; no spelling test before the numeric parse; no-truncation / no-view provenance of the dictionary block bounds; each parsed range bound is the one validated",
 "C14": "; evidence rule for the constant-true answers of the sealed LID-border predicate; every-iteration rule for the occupancy map; the fetch window is read after the sort; independent running-extrema rule for min/max border pairs; a border mask is applied to its own border byte only; iterator end-of-walk rule shared with C03",
 "C15": "; the loader's decision walk inlines its private helpers; a SKIP outcome never finishes a deletion; a sealed fraction with both .docs and .sdocs left is checked against the file Sealed.openDocs prefers; composition of Active.Release with a concurrent Sealed.Suicide (all interleavings and crash prefixes) under a premise read from proxyFrac.Seal/Suicide; measure pairing of the retention total and its decrements; truncation only at io.EOF; per-suffix symbolic walk of the loader's file-name classification; test-and-set order of the released flag",
 "C16": "; every return of the per-store stream iterator is dominated by that call's Recv; the stream handed out is the position-keeping merged iterator; OldestCT is computed from the fractions that remain; one response slot per id (every iteration, no early exit); an unknown (zero) oldest creation time counts as earlier",
 "C17": "; alias/mutation-sink analysis of SetMultiple's parameters; the per-fraction fetch loop is left early only when the context is done; non-strict cut shared with C05; token offsets are summed from the collector's own column",
 "C18": "; read-modify-write-in-one-hold rule for the cleaner's bucket list; generations are handed to buckets under the cleaner lock",
 "C19": "; unconditional copy of every aggregation bin into the persisted form; classification rule for per-replica errors in the proxy's fetch of an asynchronous result; the request state is read before the partial-result files are listed; only a comparison with the constant NotFound lets the replica loop continue; type-level admissibility of what is decoded from JSON; a searched fraction always leaves its partial-result file; the fraction loop of a resumed search has no early exit towards done",
 "C20": "; who-may-compare rule for the lexer's token text (keywords only through the lexer's own tests); sibling rule that every reader of the use-seq-ql header also reads the configured default; no escaping unsafe view of a recycled byte buffer (recycled fields are discovered); exclusive ownership of the pooled decoder",
}

NOT_YET = "check not built yet in this round (planned in DESIGN.md §3); nothing is claimed for it"

def main():
    here = os.path.dirname(os.path.abspath(__file__))
    props = [json.loads(l) for l in open(os.path.join(here, "properties.jsonl"))]
    baseline = json.load(open("/root/.vp/BASELINE.json"))["cmd"] if os.path.exists("/root/.vp/BASELINE.json") else ""
    extra = {}
    if os.path.exists(os.path.join(here, "manifest_extra.json")):
        extra = json.load(open(os.path.join(here, "manifest_extra.json")))
    checks, na = [], []
    for p in props:
        pid = p["id"]
        if pid in CLAIMED:
            c = CLAIMED[pid]
            checks.append({
                "property_id": pid,
                "quick_cmd": f"./check {pid} quick",
                "thorough_cmd": f"./check {pid} thorough",
                "evidence_file": f"/verif/evidence/{pid}.json",
                "replay_cmd_template": "./check --replay {path}",
                "engine": "seqverif",
                "level_claimed": {"category": "other", "text": c["text"], "design_ref": c["ref"]},
                "level_note": c["note"],
                "technique": c["technique"] + ADDENDA.get(pid, ""),
            })
        else:
            na.append({"property_id": pid, "reason": extra.get("na", {}).get(pid, NOT_YET)})
    m = {
        "version": 1,
        "setup_cmd": "./setup.sh",
        "hooks": {"guard": "verif", "enable": "no hooks: nothing in /repo is instrumented; checks analyse the unmodified source",
                  "baseline_off_cmd": baseline, "source_commits": [], "add_only": True},
        "engines": [{"name": "seqverif", "path": "/verif/checker", "serves_properties": sorted(CLAIMED),
                     "kind_free_text": "repository-specific static analyser over go/packages + go/ssa (dominance, provenance, lockset, codec-signature, enum-coverage, file-set typestate rules)"}],
        "checks": checks,
        "notes": "Tiers: quick = all obligations of the property on the current tree; thorough = quick + the same obligations on the CGO_ENABLED=0 build configuration + positive controls (every confirmed seeded change of the property under /verif/seeded is applied as an in-memory overlay and must be reported) + negative controls (every behaviour-preserving refactoring under /verif/refactors that touches a file the property has sites in is applied the same way and must add no report). All claims are level 'other': structural necessary conditions decided on every path by static analysis; behaviours over runtime values are not decided (DESIGN.md §5).",
        "not_applicable": na,
    }
    json.dump(m, open(os.path.join(here, "MANIFEST.json"), "w"), indent=1)
    print("claimed", len(checks), "not_applicable", len(na))

main()
