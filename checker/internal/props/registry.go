// Package props instantiates the rule engines per property: anchors, tables, floors.
package props

import (
	"sort"

	"seqverif/internal/kit"
)

// PropInfo describes what a property's check decides.
type PropInfo struct {
	ID          string
	Title       string
	Explanation string   // what is decided, what is not
	Assumptions []string // trusted base specific to the property
	Obs         func() []*kit.Ob
}

var registry = map[string]*PropInfo{}

func register(p *PropInfo) { registry[p.ID] = p }

// Get returns the property description or nil.
func Get(id string) *PropInfo { return registry[id] }

// IDs lists registered property ids in order.
func IDs() []string {
	var out []string
	for id := range registry {
		out = append(out, id)
	}
	sort.Strings(out)
	return out
}

// shared returns the rule body of another property's obligation, so that a property that depends on the same
// structural condition can claim it under its own id (reports are keyed by the claiming obligation).
func shared(obID string) func(*kit.Ctx) {
	return func(c *kit.Ctx) {
		p := registry[obID[:3]]
		if p == nil {
			c.Undecided("shared:"+obID, 0, "shared rule %s is not registered", obID)
			return
		}
		for _, ob := range p.Obs() {
			if ob.ID == obID {
				ob.Check(c)
				return
			}
		}
		c.Undecided("shared:"+obID, 0, "shared rule %s is not registered", obID)
	}
}
