package fracmanager

import (
	"context"
	"io"
	"os"
	"path/filepath"
	"sort"
	"strings"
	"testing"
	"time"

	"github.com/ozontech/seq-db/frac"
	"github.com/ozontech/seq-db/seq"
)

// TestF14SuicideDuringSealTail reproduces the following history against the real code:
//
//	seal goroutine:    proxyFrac.Seal ... f.sealed = sealed; f.active = nil; f.sealWg.Done(); active.Release() <- blocked by a reader
//	suicide goroutine: proxyFrac.Suicide: sealing -> f.sealWg.Wait() -> frac.Sealed.Suicide() (runs to completion)
//	CRASH (snapshot of the data dir)
//	restart, restart
//
// Expectation of a correct store: a deletion that has begun is finished off at the next start,
// i.e. no file of the fraction is left and the fraction is not served.
func TestF14SuicideDuringSealTail(t *testing.T) {
	const (
		suicideTimeout = 3 * time.Second
		finishTimeout  = 20 * time.Second
	)

	dataDir := filepath.Join(t.TempDir(), "data")
	snapDir := filepath.Join(t.TempDir(), "snapshot")
	mustMkdir(t, dataDir)
	mustMkdir(t, snapDir)

	// default fraction config: docs are sorted while sealing, meta file is not kept
	fm := NewFracManager(&Config{
		FracSize:  1000,
		TotalSize: 100000,
		DataDir:   dataDir,
		Fraction:  frac.Config{SkipSortDocs: false, KeepMetaFile: false},
	})
	if err := fm.Load(context.Background()); err != nil {
		t.Fatalf("load: %v", err)
	}
	defer fm.fracProvider.Stop()

	// ingest a few documents into the active fraction
	dp := frac.NewDocProvider()
	for i := 1; i <= 5; i++ {
		dp.TryReset()
		addDummyDoc(t, fm, dp, seq.SimpleID(i))
	}
	fm.WaitIdle()

	proxy := fm.Writer()
	active := proxy.active
	base := active.BaseFileName
	fracName := filepath.Base(base)
	if n := active.Info().DocsTotal; n == 0 {
		t.Fatalf("no documents in the active fraction")
	}
	t.Logf("fraction %s, files before rotation: %v", fracName, fracFiles(t, dataDir, fracName))

	// a reader of the active fraction: holds active.useMu.RLock until release is called,
	// so that Active.Release() (which starts with active.useMu.Lock()) has to wait for it
	_, releaseReader := active.DataProvider(context.Background())
	readerReleased := false
	releaseReaderOnce := func() {
		if !readerReleased {
			readerReleased = true
			releaseReader()
		}
	}
	defer releaseReaderOnce()

	// rotate
	ref := fm.rotate()
	if ref.frac != proxy {
		t.Fatalf("rotate returned an unexpected fraction")
	}

	// An in-flight bulk keeps the seal in WaitWriteIdle so that we can observe the sealing state
	// (readonly is set, sealWg is incremented) and start Suicide in exactly this state.
	proxy.indexWg.Add(1)

	sealDone := make(chan struct{})
	go func() {
		defer close(sealDone)
		fm.seal(ref) // the way the fraction manager does it
	}()

	waitFor(t, finishTimeout, "proxy in the sealing state", func() bool {
		proxy.useMu.RLock()
		defer proxy.useMu.RUnlock()
		return proxy.isSealingState()
	})

	suicideDone := make(chan struct{})
	go func() {
		defer close(suicideDone)
		proxy.Suicide() // retention (shrinkSizes) does exactly this
	}()

	// give Suicide the time to find the sealing state and to park in sealWg.Wait()
	time.Sleep(300 * time.Millisecond)
	select {
	case <-suicideDone:
		t.Fatalf("Suicide returned while the fraction is still sealing")
	default:
	}
	proxy.useMu.RLock()
	stillSealing := proxy.isSealingState()
	proxy.useMu.RUnlock()
	if !stillSealing {
		t.Fatalf("Suicide did not wait for the seal: proxy left the sealing state")
	}

	// the in-flight bulk is done: sealing goes on
	proxy.indexWg.Done()

	suicideBeforeRelease := false
	select {
	case <-suicideDone:
		suicideBeforeRelease = true
		t.Logf("Suicide returned while Active.Release() is still blocked by the reader")
		select {
		case <-sealDone:
			t.Fatalf("test bug: seal finished although the reader is still held")
		default:
		}
	case <-time.After(suicideTimeout):
		t.Logf("Suicide did not return within %v while Release is blocked: it waits for Release (correct ordering)", suicideTimeout)
		releaseReaderOnce()
		waitChan(t, suicideDone, finishTimeout, "Suicide")
		waitChan(t, sealDone, finishTimeout, "seal")
	}

	// CRASH: this is what the disk holds at this moment
	atCrash := fracFiles(t, dataDir, fracName)
	t.Logf("files of the fraction at the crash point: %v", atCrash)
	for _, name := range atCrash {
		copyFile(t, filepath.Join(dataDir, name), filepath.Join(snapDir, name))
	}

	// let the original process finish
	releaseReaderOnce()
	waitChan(t, sealDone, finishTimeout, "seal")
	t.Logf("files of the fraction in the live dir after Release finished: %v", fracFiles(t, dataDir, fracName))

	// restart twice on the snapshot with the real loader
	for i := 1; i <= 2; i++ {
		fm2 := NewFracManager(&Config{
			FracSize:  1000,
			TotalSize: 100000,
			DataDir:   snapDir,
			Fraction:  frac.Config{SkipSortDocs: false, KeepMetaFile: false},
		})
		if err := fm2.Load(context.Background()); err != nil {
			t.Fatalf("restart %d: load: %v", i, err)
		}
		for _, f := range fm2.GetAllFracs() {
			if f.Info().Name() == fracName {
				t.Errorf("restart %d: deleted fraction %s is served again", i, fracName)
			}
		}
		fm2.fracProvider.Stop()

		left := fracFiles(t, snapDir, fracName)
		t.Logf("restart %d: files of the fraction left: %v", i, left)
	}

	if left := fracFiles(t, snapDir, fracName); len(left) > 0 {
		t.Errorf("F14: deletion of fraction %s was never finished off: after 2 restarts the data dir still holds %v "+
			"(crash-point content: %v, Suicide returned before Active.Release: %v)",
			fracName, left, atCrash, suicideBeforeRelease)
	}
}

func mustMkdir(t *testing.T, dir string) {
	t.Helper()
	if err := os.MkdirAll(dir, 0o777); err != nil {
		t.Fatal(err)
	}
}

func fracFiles(t *testing.T, dir, fracName string) []string {
	t.Helper()
	entries, err := os.ReadDir(dir)
	if err != nil {
		t.Fatal(err)
	}
	res := []string{}
	for _, e := range entries {
		if strings.HasPrefix(e.Name(), fracName+".") || e.Name() == fracName {
			res = append(res, e.Name())
		}
	}
	sort.Strings(res)
	return res
}

func copyFile(t *testing.T, from, to string) {
	t.Helper()
	src, err := os.Open(from)
	if err != nil {
		t.Fatal(err)
	}
	defer src.Close()
	dst, err := os.Create(to)
	if err != nil {
		t.Fatal(err)
	}
	if _, err := io.Copy(dst, src); err != nil {
		t.Fatal(err)
	}
	if err := dst.Close(); err != nil {
		t.Fatal(err)
	}
}

func waitFor(t *testing.T, timeout time.Duration, what string, cond func() bool) {
	t.Helper()
	deadline := time.Now().Add(timeout)
	for !cond() {
		if time.Now().After(deadline) {
			t.Fatalf("timeout waiting for: %s", what)
		}
		time.Sleep(time.Millisecond)
	}
}

func waitChan(t *testing.T, ch <-chan struct{}, timeout time.Duration, what string) {
	t.Helper()
	select {
	case <-ch:
	case <-time.After(timeout):
		t.Fatalf("timeout waiting for: %s", what)
	}
}

// TestF14SuicideArrivesDuringRelease is the second window of the same defect: the Suicide does not wait for
// the seal, it arrives after proxyFrac.Seal has published the sealed fraction (f.sealed = sealed; f.active = nil)
// and while Active.Release() is still running (here: blocked by a reader of the active fraction):
//
//	seal goroutine:    proxyFrac.Seal ... f.sealed = sealed; f.active = nil; active.Release() <- blocked by a reader
//	suicide goroutine: proxyFrac.Suicide: not sealing, sealed != nil -> frac.Sealed.Suicide() (runs to completion)
//	CRASH (snapshot of the data dir)
//	restart, restart
//
// Moving sealWg.Done() behind Release alone does not close this window: Suicide has to wait for the tail of
// the seal whenever it finds a sealed fraction.
func TestF14SuicideArrivesDuringRelease(t *testing.T) {
	const (
		suicideTimeout = 3 * time.Second
		finishTimeout  = 20 * time.Second
	)

	dataDir := filepath.Join(t.TempDir(), "data")
	snapDir := filepath.Join(t.TempDir(), "snapshot")
	mustMkdir(t, dataDir)
	mustMkdir(t, snapDir)

	cfg := func(dir string) *Config {
		return &Config{
			FracSize:  1000,
			TotalSize: 100000,
			DataDir:   dir,
			Fraction:  frac.Config{SkipSortDocs: false, KeepMetaFile: false},
		}
	}
	fm := NewFracManager(cfg(dataDir))
	if err := fm.Load(context.Background()); err != nil {
		t.Fatalf("load: %v", err)
	}
	defer fm.fracProvider.Stop()

	dp := frac.NewDocProvider()
	for i := 1; i <= 5; i++ {
		dp.TryReset()
		addDummyDoc(t, fm, dp, seq.SimpleID(i))
	}
	fm.WaitIdle()

	proxy := fm.Writer()
	active := proxy.active
	fracName := filepath.Base(active.BaseFileName)

	// a reader of the active fraction keeps Active.Release() waiting
	_, releaseReader := active.DataProvider(context.Background())
	readerReleased := false
	releaseReaderOnce := func() {
		if !readerReleased {
			readerReleased = true
			releaseReader()
		}
	}
	defer releaseReaderOnce()

	ref := fm.rotate()

	sealDone := make(chan struct{})
	go func() {
		defer close(sealDone)
		fm.seal(ref)
	}()

	// the sealed fraction is published, Release is blocked by the reader
	waitFor(t, finishTimeout, "sealed fraction published by the proxy", func() bool {
		proxy.useMu.RLock()
		defer proxy.useMu.RUnlock()
		return proxy.sealed != nil && proxy.active == nil
	})
	time.Sleep(100 * time.Millisecond)
	select {
	case <-sealDone:
		t.Fatalf("test bug: seal finished although the reader is still held")
	default:
	}

	suicideDone := make(chan struct{})
	go func() {
		defer close(suicideDone)
		proxy.Suicide() // retention (shrinkSizes) does exactly this
	}()

	suicideBeforeRelease := false
	select {
	case <-suicideDone:
		suicideBeforeRelease = true
		t.Logf("Suicide returned while Active.Release() is still blocked by the reader")
	case <-time.After(suicideTimeout):
		t.Logf("Suicide did not return within %v while Release is blocked: it waits for Release (correct ordering)", suicideTimeout)
		releaseReaderOnce()
		waitChan(t, suicideDone, finishTimeout, "Suicide")
		waitChan(t, sealDone, finishTimeout, "seal")
	}

	// CRASH
	atCrash := fracFiles(t, dataDir, fracName)
	t.Logf("files of the fraction at the crash point: %v", atCrash)
	for _, name := range atCrash {
		copyFile(t, filepath.Join(dataDir, name), filepath.Join(snapDir, name))
	}

	releaseReaderOnce()
	waitChan(t, sealDone, finishTimeout, "seal")

	for i := 1; i <= 2; i++ {
		fm2 := NewFracManager(cfg(snapDir))
		if err := fm2.Load(context.Background()); err != nil {
			t.Fatalf("restart %d: load: %v", i, err)
		}
		for _, f := range fm2.GetAllFracs() {
			if f.Info().Name() == fracName {
				t.Errorf("restart %d: deleted fraction %s is served again", i, fracName)
			}
		}
		fm2.fracProvider.Stop()
		t.Logf("restart %d: files of the fraction left: %v", i, fracFiles(t, snapDir, fracName))
	}

	if left := fracFiles(t, snapDir, fracName); len(left) > 0 {
		t.Errorf("F14: deletion of fraction %s was never finished off: after 2 restarts the data dir still holds %v "+
			"(crash-point content: %v, Suicide returned before Active.Release: %v)",
			fracName, left, atCrash, suicideBeforeRelease)
	}
}
