// Package props instantiates the rule engines per property: anchors, tables, floors.
package props

import (
	"sort"

	"seqverif/internal/kit"
)

// PropInfo describes what a property's check decides.
type PropInfo struct {
	ID          string
	Title       string
	Explanation string   // what is decided, what is not
	Assumptions []string // trusted base specific to the property
	Obs         func() []*kit.Ob
}

var registry = map[string]*PropInfo{}

func register(p *PropInfo) { registry[p.ID] = p }

// Get returns the property description or nil.
func Get(id string) *PropInfo { return registry[id] }

// IDs lists registered property ids in order.
func IDs() []string {
	var out []string
	for id := range registry {
		out = append(out, id)
	}
	sort.Strings(out)
	return out
}
