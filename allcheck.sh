#!/bin/bash
# usage: allcheck.sh seed...  — applies each seed to /repo, runs all properties, prints obligations that report
cd /repo
for s in "$@"; do
  git apply /verif/seeded/$s/patch.diff || { echo "$s: no apply"; continue; }
  out=$(cd /verif && VERIF_NOWRITE=1 bin/seqverif -n -property all -repo /repo -verif /verif 2>&1)
  git checkout -q -- . ; git clean -fdq
  echo "$s: $(echo "$out" | grep -E '^\s+(VIOLATED|UNDECIDED)' | grep -oE 'C[0-9]+\.[0-9a-z]+\|[^ ]+' | sort -u | tr '\n' ' ')"
done
