package kit

import (
	"fmt"
	"go/token"
	"go/types"

	"golang.org/x/tools/go/ssa"
)

// DIV: every integer / and % needs a divisor that cannot be zero.

// DivSite is one integer division/modulo with a non-constant divisor.
type DivSite struct {
	Op      *ssa.BinOp
	Fn      *ssa.Function
	Proof   string // non-empty when the divisor is shown non-zero
	Ordinal int
}

func isIntegerType(t types.Type) bool {
	b, ok := t.Underlying().(*types.Basic)
	return ok && b.Info()&types.IsInteger != 0
}

// DivSites lists integer divisions in fn whose divisor is not a non-zero constant.
func (p *Prog) DivSites(fn *ssa.Function) []DivSite {
	var out []DivSite
	n := 0
	for _, b := range fn.Blocks {
		for _, in := range b.Instrs {
			bo, ok := in.(*ssa.BinOp)
			if !ok || (bo.Op != token.QUO && bo.Op != token.REM) || !isIntegerType(bo.X.Type()) {
				continue
			}
			if k, ok := ConstInt(bo.Y); ok && k != 0 {
				continue
			}
			n++
			ds := DivSite{Op: bo, Fn: fn, Ordinal: n}
			ds.Proof = p.nonZero(bo.Y, bo, 0, map[ssa.Value]bool{})
			out = append(out, ds)
		}
	}
	return out
}

// nonZero tries to show v != 0 at instruction `at`. Returns the argument or "".
func (p *Prog) nonZero(v ssa.Value, at ssa.Instruction, depth int, seen map[ssa.Value]bool) string {
	if depth > 8 || seen[v] {
		return ""
	}
	seen[v] = true
	if k, ok := ConstInt(v); ok {
		if k != 0 {
			return "non-zero constant"
		}
		return ""
	}
	// dominating comparison
	if at != nil {
		if why := zeroFact(FactsAtInstr(at), v); why != "" {
			return why
		}
	}
	switch x := v.(type) {
	case *ssa.Convert:
		return p.nonZero(x.X, at, depth+1, seen)
	case *ssa.ChangeType:
		return p.nonZero(x.X, at, depth+1, seen)
	case *ssa.Call:
		if b, ok := x.Call.Value.(*ssa.Builtin); ok && b.Name() == "max" {
			for _, a := range x.Call.Args {
				if k, ok := ConstInt(a); ok && k > 0 {
					return "max(_, positive constant)"
				}
			}
		}
		// one-line getter of a field/param: follow
		if callee := StaticCallee(x); callee != nil && callee.Blocks != nil && len(callee.Blocks) == 1 {
			if ret, ok := callee.Blocks[0].Instrs[len(callee.Blocks[0].Instrs)-1].(*ssa.Return); ok && len(ret.Results) == 1 {
				if why := p.nonZero(ret.Results[0], nil, depth+1, seen); why != "" {
					return "getter: " + why
				}
			}
		}
	case *ssa.BinOp:
		switch x.Op {
		case token.ADD:
			// e + c with e non-negative and c > 0
			if k, ok := ConstInt(x.Y); ok && k > 0 && nonNegative(x.X) {
				return "non-negative + positive constant"
			}
			if k, ok := ConstInt(x.X); ok && k > 0 && nonNegative(x.Y) {
				return "positive constant + non-negative"
			}
		case token.MUL:
			a := p.nonZero(x.X, at, depth+1, seen)
			b := p.nonZero(x.Y, at, depth+1, seen)
			if a != "" && b != "" {
				return "product of non-zero values (" + a + "; " + b + ")"
			}
		case token.SHL:
			if k, ok := ConstInt(x.X); ok && k != 0 {
				return "constant shifted left"
			}
		}
	case *ssa.Phi:
		all := ""
		for _, e := range x.Edges {
			w := p.nonZero(e, nil, depth+1, seen)
			if w == "" {
				return ""
			}
			all = w
		}
		if all != "" {
			return "all phi inputs non-zero"
		}
	case *ssa.Parameter:
		// all call sites pass a non-zero value
		fn := x.Parent()
		idx := -1
		for i, pp := range fn.Params {
			if pp == x {
				idx = i
			}
		}
		callers := p.Callers(fn)
		if idx >= 0 && len(callers) > 0 && len(p.FuncValueUses(fn)) == 0 {
			for _, c := range callers {
				args := c.Common().Args
				if idx >= len(args) {
					return ""
				}
				if p.nonZero(args[idx], c.(ssa.Instruction), depth+1, seen) == "" {
					return ""
				}
			}
			return fmt.Sprintf("non-zero at all %d call sites", len(callers))
		}
	case *ssa.FreeVar:
		// closure: the bound value where the closure is made
		fn := x.Parent()
		idx := -1
		for i, fv := range fn.FreeVars {
			if fv == x {
				idx = i
			}
		}
		if par := fn.Parent(); par != nil && idx >= 0 {
			n := 0
			for _, b := range par.Blocks {
				for _, in := range b.Instrs {
					if mc, ok := in.(*ssa.MakeClosure); ok && mc.Fn == ssa.Value(fn) {
						n++
						bound := mc.Bindings[idx]
						if al, isAlloc := bound.(*ssa.Alloc); isAlloc {
							// captured by reference: reason about the variable's value where the closure is made
							proved := false
							for _, r := range *al.Referrers() {
								if ld, ok := r.(*ssa.UnOp); ok && ld.Op == token.MUL {
									if zeroFact(FactsAtInstr(mc), ld) != "" {
										proved = true
									}
								}
							}
							if !proved {
								// or: every value ever stored into the captured variable is non-zero where it is stored
								// (`size := T(interval)` under `interval > 0`, then captured)
								stores := 0
								allNZ := true
								for _, r := range *al.Referrers() {
									if st, ok := r.(*ssa.Store); ok && st.Addr == ssa.Value(al) {
										stores++
										if p.nonZero(st.Val, st, depth+1, seen) == "" {
											allNZ = false
										}
									}
								}
								// the variable must not be written by the closure itself or by another one
								for _, r := range *al.Referrers() {
									if other, ok := r.(*ssa.MakeClosure); ok {
										if cf, _ := other.Fn.(*ssa.Function); cf != nil {
											for i, bnd := range other.Bindings {
												if bnd != ssa.Value(al) || i >= len(cf.FreeVars) {
													continue
												}
												for _, rr := range *cf.FreeVars[i].Referrers() {
													if st, isSt := rr.(*ssa.Store); isSt && st.Addr == ssa.Value(cf.FreeVars[i]) {
														allNZ = false
													}
												}
											}
										}
									}
								}
								proved = stores > 0 && allNZ
							}
							if !proved {
								return ""
							}
							continue
						}
						if p.nonZero(bound, mc, depth+1, seen) == "" {
							return ""
						}
					}
				}
			}
			if n > 0 {
				return "non-zero where the closure is made"
			}
		}
	case *ssa.UnOp:
		if x.Op == token.MUL {
			// load of a captured variable / alloc: look at what is stored
			switch a := x.X.(type) {
			case *ssa.FreeVar:
				return p.nonZero(a, at, depth+1, seen)
			case *ssa.Alloc:
				ok := false
				for _, r := range *a.Referrers() {
					if st, isSt := r.(*ssa.Store); isSt && st.Addr == a {
						if p.nonZero(st.Val, st, depth+1, seen) == "" {
							return ""
						}
						ok = true
					}
				}
				if ok {
					return "every store into the variable is non-zero"
				}
			}
		}
	}
	return ""
}

func nonNegative(v ssa.Value) bool {
	if b, ok := v.Type().Underlying().(*types.Basic); ok && b.Info()&types.IsUnsigned != 0 {
		return true
	}
	if c, ok := v.(*ssa.Call); ok {
		if b, ok := c.Call.Value.(*ssa.Builtin); ok && (b.Name() == "len" || b.Name() == "cap") {
			return true
		}
	}
	if k, ok := ConstInt(v); ok && k >= 0 {
		return true
	}
	if cv, ok := v.(*ssa.Convert); ok {
		return nonNegative(cv.X)
	}
	if bo, ok := v.(*ssa.BinOp); ok {
		switch bo.Op {
		case token.ADD, token.MUL:
			return nonNegative(bo.X) && nonNegative(bo.Y)
		case token.QUO, token.REM:
			if k, ok := ConstInt(bo.Y); ok && k > 0 {
				return nonNegative(bo.X)
			}
		}
	}
	return false
}

// sameQuantity: identical values, or len()/cap() of the same value, or loads of the same field.
func sameQuantity(a, b ssa.Value) bool {
	if SameValue(a, b) {
		return true
	}
	ca, ok1 := a.(*ssa.Call)
	cb, ok2 := b.(*ssa.Call)
	if ok1 && ok2 {
		ba, ok3 := ca.Call.Value.(*ssa.Builtin)
		bb, ok4 := cb.Call.Value.(*ssa.Builtin)
		if ok3 && ok4 && ba.Name() == bb.Name() && (ba.Name() == "len" || ba.Name() == "cap") {
			return sameQuantity(ca.Call.Args[0], cb.Call.Args[0])
		}
	}
	cva, ok1 := a.(*ssa.Convert)
	cvb, ok2 := b.(*ssa.Convert)
	if ok1 && ok2 {
		return sameQuantity(cva.X, cvb.X)
	}
	if ok1 {
		return sameQuantity(cva.X, b)
	}
	if ok2 {
		return sameQuantity(a, cvb.X)
	}
	return false
}

// zeroFact looks for a dominating comparison that implies v != 0.
func zeroFact(facts []Fact, v ssa.Value) string {
	for _, f := range facts {
		bo, ok := f.Cond.(*ssa.BinOp)
		if !ok {
			// predicate method: HasHist() etc. — one-line `return x.f > 0`
			if c, ok := f.Cond.(*ssa.Call); ok && f.Val {
				if callee := StaticCallee(c); callee != nil && len(callee.Blocks) == 1 {
					if ret, ok := callee.Blocks[0].Instrs[len(callee.Blocks[0].Instrs)-1].(*ssa.Return); ok && len(ret.Results) == 1 {
						if cmp, ok := ret.Results[0].(*ssa.BinOp); ok {
							if k, isK := ConstInt(cmp.Y); isK && ((cmp.Op == token.GTR && k >= 0) || (cmp.Op == token.NEQ && k == 0) || (cmp.Op == token.GEQ && k >= 1)) {
								// the compared field, loaded in the callee from its receiver; v must be a load of the same field from the same receiver
								if lf, ok := cmp.X.(*ssa.UnOp); ok {
									if t1, f1, _, ok1 := FieldOf(lf.X); ok1 {
										if lv, ok := stripConv2(v).(*ssa.UnOp); ok {
											if t2, f2, _, ok2 := FieldOf(lv.X); ok2 && t1 == t2 && f1 == f2 {
												return "predicate " + CallName(c) + "() holds"
											}
										}
									}
								}
							}
						}
					}
				}
			}
			continue
		}
		var other ssa.Value
		var k int64
		op := bo.Op
		if kk, ok := ConstInt(bo.Y); ok && sameQuantity(bo.X, v) {
			other, k = bo.X, kk
		} else if kk, ok := ConstInt(bo.X); ok && sameQuantity(bo.Y, v) {
			other, k = bo.Y, kk
			// flip
			switch op {
			case token.LSS:
				op = token.GTR
			case token.LEQ:
				op = token.GEQ
			case token.GTR:
				op = token.LSS
			case token.GEQ:
				op = token.LEQ
			}
		} else {
			continue
		}
		_ = other
		if !f.Val {
			switch op {
			case token.EQL:
				op = token.NEQ
			case token.NEQ:
				op = token.EQL
			case token.LSS:
				op = token.GEQ
			case token.LEQ:
				op = token.GTR
			case token.GTR:
				op = token.LEQ
			case token.GEQ:
				op = token.LSS
			}
		}
		switch {
		case op == token.NEQ && k == 0,
			op == token.GTR && k >= 0,
			op == token.GEQ && k >= 1,
			op == token.LSS && k <= 0 && false:
			return "dominating comparison " + bo.String()
		}
	}
	return ""
}

func stripConv2(v ssa.Value) ssa.Value {
	for {
		switch x := v.(type) {
		case *ssa.Convert:
			v = x.X
		case *ssa.ChangeType:
			v = x.X
		default:
			return v
		}
	}
}

// IndexUse: value r (the result of a search over [lo, hi+1]) used as an
// element index by a call matching access, without a dominating comparison of
// r against another value (bound check).
func UncheckedIndexUses(fn *ssa.Function, r ssa.Value, access Matcher) []ssa.CallInstruction {
	var out []ssa.CallInstruction
	for _, c := range CallsIn(fn, access) {
		uses := false
		for _, a := range c.Common().Args {
			if DerivesFrom(a, func(v ssa.Value) bool { return v == r }) {
				uses = true
			}
		}
		if !uses {
			continue
		}
		checked := false
		for _, f := range FactsAtInstr(c.(ssa.Instruction)) {
			bo, ok := f.Cond.(*ssa.BinOp)
			if !ok {
				continue
			}
			switch bo.Op {
			case token.LSS, token.LEQ, token.GTR, token.GEQ:
				if DerivesFrom(bo.X, func(v ssa.Value) bool { return v == r }) || DerivesFrom(bo.Y, func(v ssa.Value) bool { return v == r }) {
					checked = true
				}
			}
		}
		if !checked {
			out = append(out, c)
		}
	}
	return out
}

// SameQuantity is the exported form of sameQuantity.
func SameQuantity(a, b ssa.Value) bool { return sameQuantity(a, b) }
