#!/usr/bin/env python3
# usage: splithunks.py patch.diff outprefix  -> outprefix.h1.diff, outprefix.h2.diff ... (one hunk each)
import sys,re
src=open(sys.argv[1]).read()
files=re.split(r'(?m)^(?=diff --git )',src)
hunks=[]
for f in files:
    if not f.strip(): continue
    m=re.search(r'(?m)^@@ ',f)
    if not m: continue
    head=f[:m.start()]
    body=f[m.start():]
    hs=re.split(r'(?m)^(?=@@ )',body)
    for h in hs:
        if h.strip(): hunks.append((head,h))
for i,(head,h) in enumerate(hunks,1):
    open('%s.h%d.diff'%(sys.argv[2],i),'w').write(head+h)
print(len(hunks))
