package props

import (
	"go/token"
	"go/types"
	"strings"

	"golang.org/x/tools/go/ssa"

	. "seqverif/internal/kit"
)

// Rules added by seed round 8 (additive changes: fast paths, memos, batching, new goroutines).

// mergeAccumulates (C05.11 = C06.11): SamplesContainer.Merge adds the operand's counters to its own.
// The fields are read off the code: a numeric field F that Merge updates as h.F = h.F + (.. hist.F ..)
// is a counter. If that update is made whether or not the operand has samples (it is not under
// hist.Total != 0), the field does not follow Total, and nothing implies that the receiver's value
// is zero when the receiver has no samples: a plain copy h.F = hist.F then loses what was counted.
// For the counters that follow Total a plain copy is accepted under h.Total == 0.
func mergeAccumulates(c *Ctx) {
	fn := c.Fn("(*seq.SamplesContainer).Merge")
	if fn == nil {
		return
	}
	isContainer := func(t types.Type) bool { return strings.HasSuffix(TypeStr(t), "seq.SamplesContainer") }
	recvOf := func(f *ssa.Function) ssa.Value {
		if f == nil || len(f.Params) == 0 || !isContainer(f.Params[0].Type()) {
			return nil
		}
		return f.Params[0]
	}
	isOperand := func(v ssa.Value) bool {
		p, ok := v.(*ssa.Parameter)
		return ok && p.Parent() != nil && len(p.Parent().Params) > 0 && p != p.Parent().Params[0] && isContainer(p.Type())
	}
	loadOf := func(v ssa.Value, base func(ssa.Value) bool, field string) bool {
		l, ok := v.(*ssa.UnOp)
		if !ok || l.Op != token.MUL {
			return false
		}
		a, ok := l.X.(*ssa.FieldAddr)
		if !ok || !base(a.X) {
			return false
		}
		_, fld, _, okF := FieldOf(a)
		return okF && (field == "" || fld == field)
	}
	type upd struct {
		l        Lifted
		field    string
		additive bool
	}
	var upds []upd
	for _, l := range c.P.FindLiftedAll(fn, func(in ssa.Instruction) bool {
		st, ok := in.(*ssa.Store)
		if !ok {
			return false
		}
		a, ok := st.Addr.(*ssa.FieldAddr)
		return ok && a.X == recvOf(in.Parent())
	}) {
		st := l.In.(*ssa.Store)
		a := st.Addr.(*ssa.FieldAddr)
		_, fld, _, okF := FieldOf(a)
		b, isNum := a.Type().(*types.Pointer).Elem().Underlying().(*types.Basic)
		if !okF || !isNum || b.Info()&types.IsNumeric == 0 {
			continue
		}
		recv := recvOf(st.Parent())
		fromOperand := DerivesFrom(st.Val, func(v ssa.Value) bool { return loadOf(v, isOperand, fld) })
		if !fromOperand {
			continue
		}
		add := false
		if bo, ok := st.Val.(*ssa.BinOp); ok && bo.Op == token.ADD {
			isOwn := func(v ssa.Value) bool { return loadOf(v, func(x ssa.Value) bool { return x == recv }, fld) }
			add = isOwn(bo.X) || isOwn(bo.Y)
		}
		upds = append(upds, upd{l, fld, add})
	}
	guardedBy := func(l Lifted, base func(ssa.Value) bool, field string, wantZero bool) bool {
		for _, f := range l.Facts() {
			bo, ok := f.Cond.(*ssa.BinOp)
			if !ok || !(loadOf(bo.X, base, field) || loadOf(bo.Y, base, field)) {
				continue
			}
			k, isK := ConstInt(bo.Y)
			if !isK {
				k, isK = ConstInt(bo.X)
			}
			if !isK || k != 0 {
				continue
			}
			zero := (bo.Op == token.EQL && f.Val) || ((bo.Op == token.NEQ || bo.Op == token.GTR) && !f.Val)
			nonZero := (bo.Op == token.EQL && !f.Val) || ((bo.Op == token.NEQ || bo.Op == token.GTR) && f.Val)
			if (wantZero && zero) || (!wantZero && nonZero) {
				return true
			}
		}
		return false
	}
	// counters and whether they follow Total
	followsTotal := map[string]bool{}
	counter := map[string]bool{}
	for _, u := range upds {
		if u.additive {
			if !counter[u.field] {
				followsTotal[u.field] = true
			}
			counter[u.field] = true
			if !guardedBy(u.l, isOperand, "Total", false) {
				followsTotal[u.field] = false
			}
		}
	}
	if len(counter) == 0 {
		c.Undecided("acc:Merge:no-counters", fn.Pos(), "SamplesContainer.Merge no longer adds any counter of the operand to its own")
		return
	}
	for _, u := range upds {
		if !counter[u.field] {
			continue
		}
		if u.additive {
			c.Site(u.l.In.Pos(), "Merge adds the operand's %s to its own", u.field)
			continue
		}
		isRecv := func(x ssa.Value) bool { return x == recvOf(u.l.In.Parent()) }
		switch {
		case guardedBy(u.l, isRecv, u.field, true):
			c.Site(u.l.In.Pos(), "Merge copies the operand's %s only when its own is zero", u.field)
		case followsTotal[u.field] && guardedBy(u.l, isRecv, "Total", true):
			c.Site(u.l.In.Pos(), "Merge copies the operand's %s only when it holds no samples (the counter follows Total)", u.field)
		default:
			c.Violation("acc:Merge:plain-copy:"+u.field, u.l.In.Pos(), "SamplesContainer.Merge overwrites its %s with the operand's although it may already hold a count (%s is counted also for parts without samples, so an empty Total says nothing about it): what the parts merged so far had counted is lost, and only for some merge orders", u.field, u.field)
		}
	}
}

// everyElementAsked: the loop of fn that makes the call selected by m makes it on every iteration and is
// left only through its header — every element of what the loop walks over is asked. Exits towards a
// panic do not count.
func everyElementAsked(c *Ctx, fn *ssa.Function, m Matcher, what, consequence string) {
	found := c.P.FindLiftedAll(fn, CallSel(m))
	if len(found) == 0 {
		c.Undecided("loop:"+FuncName(fn)+":"+what+":none", fn.Pos(), "%s no longer calls %s (directly or through a helper)", FuncName(fn), what)
		return
	}
	for _, lf := range found {
		// the level at which the call is repeated: the call itself, or the call of the helper it sits in
		chain := []ssa.Instruction{lf.In}
		for i := len(lf.Via) - 1; i >= 0; i-- {
			chain = append(chain, lf.Via[i].(ssa.Instruction))
		}
		var in ssa.Instruction
		var l *Loop
		for _, x := range chain {
			if lp := InnermostLoop(x.Block()); lp != nil {
				in, l = x, lp
				break
			}
		}
		if l == nil {
			c.Undecided("loop:"+FuncName(fn)+":"+what+":no-loop", lf.In.Pos(), "%s calls %s outside a loop", FuncName(fn), what)
			continue
		}
		host := FuncName(in.Parent())
		if _, every := EveryIteration(in); !every {
			c.Violation("loop:"+FuncName(fn)+":"+what+":skipped", in.Pos(), "%s does not call %s on every iteration of its loop: %s", host, what, consequence)
			continue
		}
		bad := 0
		for _, e := range l.EarlyExits() {
			if endsInPanic(e[1]) {
				continue
			}
			bad++
			c.Violation("loop:"+FuncName(fn)+":"+what+":early-exit", blockPos(e[0], in.Pos()), "%s leaves the loop over its elements before the last one: the remaining ones are never given to %s — %s", host, what, consequence)
		}
		if bad == 0 {
			c.Site(in.Pos(), "%s calls %s for every element (the loop has no early exit)", host, what)
		}
	}
}

func endsInPanic(b *ssa.BasicBlock) bool {
	seen := map[*ssa.BasicBlock]bool{}
	for b != nil && !seen[b] {
		seen[b] = true
		if len(b.Instrs) == 0 {
			return false
		}
		switch b.Instrs[len(b.Instrs)-1].(type) {
		case *ssa.Panic:
			return true
		case *ssa.Jump:
			b = b.Succs[0]
		default:
			return false
		}
	}
	return false
}

// blockPos: the position of the last instruction of b that has one (an If or Jump has none), else dflt.
func blockPos(b *ssa.BasicBlock, dflt token.Pos) token.Pos {
	for i := len(b.Instrs) - 1; i >= 0; i-- {
		if p := b.Instrs[i].Pos(); p.IsValid() {
			return p
		}
		if iff, ok := b.Instrs[i].(*ssa.If); ok && iff.Cond.Pos().IsValid() {
			return iff.Cond.Pos()
		}
	}
	return dflt
}

// sameQuestionForEveryFraction (C05.12): between the iterations of Searcher.SearchDocs only the limit of the
// request changes. Every field store into a SearchParams value of SearchDocs (the spilled parameter or a copy)
// is a store to Limit — whose per-iteration value is justified by what has been found so far
// (calcEnsuredIDsCount) — or narrows From / To to a timestamp as it is (inclusive). A bound computed with +1 / -1
// steps past the millisecond of the last id found, and a change of the query, the order or the aggregation
// between iterations makes the answer depend on how many fractions one iteration takes.
func sameQuestionForEveryFraction(c *Ctx) {
	fn := c.Fn("(*fracmanager.Searcher).SearchDocs")
	if fn == nil {
		return
	}
	n := 0
	for _, f := range WithClosures(fn) {
		for _, b := range f.Blocks {
			for _, in := range b.Instrs {
				st, ok := in.(*ssa.Store)
				if !ok {
					continue
				}
				a, ok := st.Addr.(*ssa.FieldAddr)
				if !ok {
					continue
				}
				typ, fld, _, okF := FieldOf(a)
				if !okF || !strings.HasSuffix(typ, "processor.SearchParams") {
					continue
				}
				n++
				if fld == "From" || fld == "To" {
					// cutting the range at the last id found so far is sound while the cut is inclusive: ids that tie with
					// it on the millisecond can still displace it. A cut computed with +1 / -1 excludes them.
					exclusive := false
					for _, o := range c.P.Origins(st.Val, nil, 2, nil) {
						if DerivesFromStop(o.Val, func(v ssa.Value) bool {
							bo, ok := v.(*ssa.BinOp)
							if !ok || !(bo.Op == token.ADD || bo.Op == token.SUB) {
								return false
							}
							_, kx := ConstInt(bo.X)
							_, ky := ConstInt(bo.Y)
							return kx || ky
						}, func(v ssa.Value) bool {
							// the position an id is read from (ids[limit-1]) is not arithmetic on the timestamp
							switch v.(type) {
							case *ssa.IndexAddr, *ssa.Index, *ssa.Lookup:
								return true
							}
							return false
						}) {
							exclusive = true
						}
					}
					if !exclusive {
						c.Site(st.Pos(), "SearchDocs narrows %s between iterations without stepping past a timestamp", fld)
						continue
					}
				}
				if fld == "Limit" {
					c.Site(st.Pos(), "SearchDocs adjusts the limit of the request between iterations")
				} else {
					c.Violation("params:SearchDocs:"+fld, st.Pos(), "SearchDocs changes %s of the request between its iterations: the fractions of a later iteration are asked a different question than those of the first, so the answer depends on FractionsPerIteration and on the order of the fractions (documents that tie with the last id found so far, or lie just outside the narrowed range, are lost)", fld)
				}
			}
		}
	}
	if n == 0 {
		c.Site(fn.Pos(), "SearchDocs does not modify the request between iterations")
	}
}

// answersFromCurrentFraction (C07.12, used by C14.3 too): what proxyFrac.Info / Contains / IsIntersecting return is,
// on every return, the answer of the fraction that is current at the time of the call (the result of the
// delegate call on f.cur(), or on f.active / f.sealed) — never a value kept from an earlier call.
func answersFromCurrentFraction(c *Ctx) {
	for _, it := range []struct{ fn, callee string }{
		{"(*fracmanager.proxyFrac).Info", "(frac.Fraction).Info"},
		{"(*fracmanager.proxyFrac).Contains", "(frac.Fraction).Contains"},
		{"(*fracmanager.proxyFrac).IsIntersecting", "(frac.Fraction).IsIntersecting"},
	} {
		fn := c.Fn(it.fn)
		if fn == nil {
			continue
		}
		short := it.callee[strings.LastIndex(it.callee, ".")+1:]
		isDelegate := func(v ssa.Value) bool {
			cl, ok := v.(ssa.CallInstruction)
			if !ok {
				return false
			}
			n := CallName(cl)
			if !strings.HasSuffix(n, ")."+short) || !(strings.Contains(n, "frac.Fraction") || strings.Contains(n, "frac.Active") || strings.Contains(n, "frac.Sealed")) {
				return false
			}
			var recv ssa.Value
			if cl.Common().IsInvoke() {
				recv = cl.Common().Value
			} else if len(cl.Common().Args) > 0 {
				recv = cl.Common().Args[0]
			}
			return recv != nil && DerivesFrom(recv, func(x ssa.Value) bool {
				if cc, ok := x.(ssa.CallInstruction); ok && CallName(cc) == "(*fracmanager.proxyFrac).cur" {
					return true
				}
				return ValueIsField(x, "fracmanager.proxyFrac", "active") || ValueIsField(x, "fracmanager.proxyFrac", "sealed")
			})
		}
		for _, b := range fn.Blocks {
			ret, ok := b.Instrs[len(b.Instrs)-1].(*ssa.Return)
			if !ok || len(ret.Results) == 0 || b == fn.Recover {
				continue
			}
			bad := false
			for _, o := range c.P.Origins(ret.Results[0], nil, 2, func(cl ssa.CallInstruction) bool { return strings.HasSuffix(CallName(cl), ")."+short) }) {
				if !DerivesFrom(o.Val, isDelegate) && sealedOnlyMemo(c, o.Val) {
					c.Site(ret.Pos(), "%s may answer from a remembered Info that is only ever taken from a sealed fraction (immutable)", it.fn)
					continue
				}
				if !DerivesFrom(o.Val, isDelegate) {
					bad = true
					c.Violation("delegate:"+it.fn+":stale", ret.Pos(), "%s can answer with %s, which is not what the current fraction says at the time of the call: while a fraction is being sealed its borders and counters still move (bulks that passed the writable check are indexed after the fraction became read-only), so a remembered Info hides the newest documents from time-ranged searches and makes the fetch reject their ids", it.fn, Short(o.Val.String()))
					break
				}
			}
			if !bad {
				c.Site(ret.Pos(), "%s returns what the current fraction's %s says", it.fn, short)
			}
		}
	}
}

// onlySnapshotLIDs (C07.13): a search on an active fraction works on the ids it took a snapshot of. Every
// element of what frac.inverseLIDs returns has gone through inverser.Inverse of that snapshot (the token's
// list is read later than the snapshot and may hold newer documents, which Inverse does not know): every
// append that builds a returned slice — in inverseLIDs or in a helper it returns the result of — appends a
// value derived from the Inverse call.
func onlySnapshotLIDs(c *Ctx) {
	fn := c.Fn("frac.inverseLIDs")
	if fn == nil {
		return
	}
	isInverse := func(v ssa.Value) bool {
		cl, ok := v.(ssa.CallInstruction)
		return ok && CallName(cl) == "(*frac.inverser).Inverse"
	}
	n := 0
	for _, b := range fn.Blocks {
		ret, ok := b.Instrs[len(b.Instrs)-1].(*ssa.Return)
		if !ok || len(ret.Results) == 0 {
			continue
		}
		for _, o := range c.P.Origins(ret.Results[0], nil, 3, nil) {
			var apps []ssa.CallInstruction
			seenApp := map[ssa.CallInstruction]bool{}
			DerivesFrom(o.Val, func(v ssa.Value) bool {
				if cl, ok := v.(ssa.CallInstruction); ok && CallName(cl) == "builtin.append" && !seenApp[cl] {
					seenApp[cl] = true
					apps = append(apps, cl)
				}
				return false
			})
			for _, ap := range apps {
				args := ap.Common().Args
				if len(args) < 2 {
					continue
				}
				n++
				if DerivesFrom(args[1], isInverse) {
					c.Site(ap.Pos(), "inverseLIDs returns positions that inverser.Inverse produced")
				} else {
					c.Violation("prov:inverseLIDs:not-from-snapshot", ap.Pos(), "a list returned by frac.inverseLIDs is filled with %s, which does not come from inverser.Inverse: the token's list is read after the search took its snapshot of the ids, so a shortcut that infers the positions from the list's length and ends lets documents indexed in between stand in for documents of the snapshot that do not carry the token", Short(args[1].String()))
				}
			}
		}
	}
	if n == 0 {
		c.Undecided("prov:inverseLIDs:no-append", fn.Pos(), "frac.inverseLIDs no longer builds its result by appending")
	}
}

// chanRecvBehind: a channel receive in the derivation of v — through the elements appended to a slice v is
// built from and through the results of the repo functions v comes from (to the given depth). The order of
// what comes out of a channel filled by several goroutines is the order in which they finished.
func chanRecvBehind(p *Prog, v ssa.Value, depth int, seen map[ssa.Value]bool) ssa.Instruction {
	if v == nil || seen[v] {
		return nil
	}
	seen[v] = true
	var found ssa.Instruction
	var calls []ssa.CallInstruction
	DerivesFrom(v, func(x ssa.Value) bool {
		switch y := x.(type) {
		case *ssa.UnOp:
			if y.Op == token.ARROW {
				found = y
				return true
			}
		case *ssa.Select:
			found = y
			return true
		case *ssa.Next:
			// range over a channel is lowered to a receive; range over a map to Next: map order is random too
			if !y.IsString {
				found = y
				return true
			}
		case ssa.CallInstruction:
			calls = append(calls, y)
		}
		return false
	})
	if found != nil || depth == 0 {
		return found
	}
	for _, cl := range calls {
		h := StaticCallee(cl)
		if h == nil || h.Blocks == nil || !p.InRepo(h) {
			continue
		}
		for _, b := range h.Blocks {
			if ret, ok := b.Instrs[len(b.Instrs)-1].(*ssa.Return); ok {
				for _, r := range ret.Results {
					if _, isSlice := r.Type().Underlying().(*types.Slice); !isSlice {
						continue
					}
					if in := chanRecvBehind(p, r, depth-1, seen); in != nil {
						return in
					}
				}
			}
		}
	}
	return nil
}

// loadKeepsNameOrder (C15.10): the fraction lists loader.load returns are in the order of the sorted file
// names — nothing in their derivation comes out of a channel (or a map iteration).
func loadKeepsNameOrder(c *Ctx) {
	fn := c.Fn("(*fracmanager.loader).load")
	if fn == nil {
		return
	}
	for _, b := range fn.Blocks {
		ret, ok := b.Instrs[len(b.Instrs)-1].(*ssa.Return)
		if !ok {
			continue
		}
		for i, r := range ret.Results {
			if _, isSlice := r.Type().Underlying().(*types.Slice); !isSlice {
				continue
			}
			if k, isK := r.(*ssa.Const); isK && k.IsNil() {
				continue
			}
			if in := chanRecvBehind(c.P, r, 3, map[ssa.Value]bool{}); in != nil {
				c.Violation("order:loader.load:completion-order", in.Pos(), "result %d of loader.load is built from values received from a channel (or a map iteration) in %s: the fractions come back in the order in which their goroutines finished, not in the order of their names — after an unclean stop with two unsealed fractions the older, larger one can end up behind the younger one: Load then seals the younger and writes into the older, and retention deletes the younger first", i, FuncName(in.Parent()))
			} else {
				c.Site(ret.Pos(), "result %d of loader.load keeps the order of the sorted file names (no channel or map iteration in its derivation)", i)
			}
		}
	}
}

// reachFrom: the repo functions that run on the goroutine that runs root — static callees, closures and
// function values created on the way (they may be called back by a helper such as util.RunEvery), but not
// the targets of go statements: those run elsewhere.
func reachFrom(p *Prog, root *ssa.Function) map[*ssa.Function]bool {
	seen := map[*ssa.Function]bool{}
	var visit func(f *ssa.Function)
	visit = func(f *ssa.Function) {
		if f == nil || f.Blocks == nil || seen[f] || !p.InRepo(f) {
			return
		}
		seen[f] = true
		spawned := map[ssa.Value]bool{}
		for _, b := range f.Blocks {
			for _, in := range b.Instrs {
				if g, ok := in.(*ssa.Go); ok {
					spawned[g.Call.Value] = true
				}
			}
		}
		for _, b := range f.Blocks {
			for _, in := range b.Instrs {
				if _, isGo := in.(*ssa.Go); isGo {
					continue
				}
				if cl, ok := in.(ssa.CallInstruction); ok {
					visit(StaticCallee(cl))
				}
				for _, op := range in.Operands(nil) {
					switch x := (*op).(type) {
					case *ssa.Function:
						visit(x)
					case *ssa.MakeClosure:
						if !spawned[x] {
							if fn, ok := x.Fn.(*ssa.Function); ok {
								visit(fn)
							}
						}
					}
				}
			}
		}
	}
	visit(root)
	return seen
}

// goRoots: the functions started by go statements of non-test repo code.
func goRoots(p *Prog) map[*ssa.Function]*ssa.Go {
	out := map[*ssa.Function]*ssa.Go{}
	for _, f := range p.Funcs {
		if !p.InRepo(f) {
			continue
		}
		for _, b := range f.Blocks {
			for _, in := range b.Instrs {
				g, ok := in.(*ssa.Go)
				if !ok {
					continue
				}
				var t *ssa.Function
				switch x := g.Call.Value.(type) {
				case *ssa.Function:
					t = x
				case *ssa.MakeClosure:
					t, _ = x.Fn.(*ssa.Function)
				}
				if t != nil {
					out[t] = g
				}
			}
		}
	}
	return out
}

// oneMaintenanceGoroutine (C18.10): Cleaner.generations and Cleaner.lastGen are written without a lock; that is
// sound only while every writer runs on one goroutine. The writers are read off the code (stores into the
// fields or into elements of the slice); of the goroutines the repo starts, exactly one may reach a writer.
func oneMaintenanceGoroutine(c *Ctx) {
	writers := map[*ssa.Function]bool{}
	for _, f := range c.P.FuncsInPkg("cache") {
		for _, b := range f.Blocks {
			for _, in := range b.Instrs {
				st, ok := in.(*ssa.Store)
				if !ok {
					continue
				}
				if DerivesFromNoCall(st.Addr, func(v ssa.Value) bool {
					return IsFieldAddr(v, "cache.Cleaner", "generations") || IsFieldAddr(v, "cache.Cleaner", "lastGen")
				}) {
					writers[f] = true
				}
			}
		}
	}
	// constructors build a Cleaner nobody else sees yet
	for f := range writers {
		if f.Signature.Recv() == nil {
			delete(writers, f)
		}
	}
	if len(writers) == 0 {
		c.Undecided("confine:Cleaner:no-writers", token.NoPos, "no method of cache.Cleaner writes generations / lastGen any more")
		return
	}
	var roots []*ssa.Function
	gos := goRoots(c.P)
	for r := range gos {
		for f := range reachFrom(c.P, r) {
			if writers[f] {
				roots = append(roots, r)
				break
			}
		}
	}
	c.Count("go_statements", len(gos))
	c.Count("unlocked_writers", len(writers))
	switch {
	case len(roots) == 0:
		c.Undecided("confine:Cleaner:no-goroutine", token.NoPos, "no goroutine started by the repo reaches the writers of Cleaner.generations; the single-goroutine argument cannot be shown")
	case len(roots) == 1:
		c.Site(gos[roots[0]].Pos(), "the %d methods that write Cleaner.generations / lastGen without a lock are reached from one goroutine only (%s)", len(writers), FuncName(roots[0]))
	default:
		for _, r := range roots {
			c.Violation("confine:Cleaner.generations:"+FuncName(r), gos[r].Pos(), "goroutine %s reaches a method that writes Cleaner.generations / lastGen, and so do %d other goroutine(s): these fields are written without a lock, which is sound only on a single maintenance goroutine — a rotation that appends a generation while another goroutine compacts the list loses the new generation, and everything loaded afterwards is never accounted, marked stale or evicted", FuncName(r), len(roots)-1)
		}
	}
}

// mapKeyUse: an instruction that uses v — or a string / struct built from it — as the key of a map access,
// in v's function or in a repo function it is passed to (to the given depth).
func mapKeyUse(p *Prog, v ssa.Value, depth int, seen map[ssa.Value]bool) ssa.Instruction {
	if v == nil || seen[v] {
		return nil
	}
	seen[v] = true
	refs := v.Referrers()
	if refs == nil {
		return nil
	}
	for _, r := range *refs {
		switch x := r.(type) {
		case *ssa.Lookup:
			if x.Index == v {
				if _, isMap := x.X.Type().Underlying().(*types.Map); isMap {
					return x
				}
			}
		case *ssa.MapUpdate:
			if x.Key == v {
				return x
			}
		case *ssa.BinOp:
			if x.Op == token.ADD {
				if in := mapKeyUse(p, x, depth, seen); in != nil {
					return in
				}
			}
		case *ssa.Phi, *ssa.Convert, *ssa.ChangeType, *ssa.MakeInterface:
			if in := mapKeyUse(p, x.(ssa.Value), depth, seen); in != nil {
				return in
			}
		case *ssa.Store:
			if x.Val != v {
				continue
			}
			// a local variable, or a field of a local struct that becomes the key
			var root ssa.Value = x.Addr
			if fa, ok := root.(*ssa.FieldAddr); ok {
				root = fa.X
			}
			if a, ok := root.(*ssa.Alloc); ok {
				for _, rr := range *a.Referrers() {
					if l, ok := rr.(*ssa.UnOp); ok && l.Op == token.MUL {
						if in := mapKeyUse(p, l, depth, seen); in != nil {
							return in
						}
					}
				}
				if fa, ok := x.Addr.(*ssa.FieldAddr); ok {
					_ = fa
				}
			}
			if x.Addr != root {
				for _, rr := range *x.Addr.Referrers() {
					if l, ok := rr.(*ssa.UnOp); ok && l.Op == token.MUL {
						if in := mapKeyUse(p, l, depth, seen); in != nil {
							return in
						}
					}
				}
			}
		case ssa.CallInstruction:
			if depth == 0 {
				continue
			}
			h := StaticCallee(x)
			if h == nil || h.Blocks == nil || !p.InRepo(h) {
				continue
			}
			for i, a := range x.Common().Args {
				if a == v && i < len(h.Params) {
					if in := mapKeyUse(p, h.Params[i], depth-1, seen); in != nil {
						return in
					}
				}
			}
		}
	}
	return nil
}

// hintOnlyNarrows (C13.13 = C02.15): parser.GetHint returns the leading fragment of a pattern — enough to pick the
// token blocks that can hold a match, not enough to tell two patterns apart. Its value never becomes (part of)
// a map key: a memo of resolved TIDs keyed by field and hint gives `k:ab*c` the answer of `k:ab*d`.
func hintOnlyNarrows(c *Ctx) {
	n := 0
	for _, fn := range c.P.Funcs {
		if !c.P.InRepo(fn) {
			continue
		}
		for _, call := range CallsIn(fn, Callee("parser.GetHint")) {
			v := call.Value()
			if v == nil {
				continue
			}
			n++
			if in := mapKeyUse(c.P, v, 2, map[ssa.Value]bool{}); in != nil {
				c.Violation("hint:"+FuncName(fn)+":map-key", in.Pos(), "%s uses the hint of a token expression (parser.GetHint: the pattern's leading fragment only) as a map key in %s: two different expressions on the same field with the same leading text — `k:ab*c` and `k:ab*d`, two ranges, a pattern and its negated refinement — share the entry, and the second is answered with the first one's tokens", FuncName(fn), FuncName(in.Parent()))
			} else {
				c.Site(call.Pos(), "%s uses the hint to narrow or to report, not to identify the expression", FuncName(fn))
			}
		}
	}
	if n == 0 {
		c.Site(token.NoPos, "parser.GetHint is not called")
	}
}

// parsedAgainstCurrentMapping (C12.11): the AST a store searches with was parsed by this request against the
// mapping the provider reports now: every non-nil AST that GrpcV1.parseQuery returns derives from a call of
// parser.ParseSeqQL / parser.ParseQuery whose mapping argument comes from GetMapping() in the same call, or
// — if it is taken from somewhere else (a memo) — the key of that lookup derives from GetMapping() too.
func parsedAgainstCurrentMapping(c *Ctx) {
	fn := c.Fn("(*storeapi.GrpcV1).parseQuery")
	if fn == nil {
		return
	}
	isParse := func(cl ssa.CallInstruction) bool {
		n := CallName(cl)
		return n == "parser.ParseSeqQL" || n == "parser.ParseQuery"
	}
	fromMapping := func(v ssa.Value) bool {
		return c.P.DerivesFromIP(v, func(x ssa.Value) bool {
			cl, ok := x.(ssa.CallInstruction)
			return ok && strings.HasSuffix(CallName(cl), ").GetMapping")
		})
	}
	for _, b := range fn.Blocks {
		ret, ok := b.Instrs[len(b.Instrs)-1].(*ssa.Return)
		if !ok || len(ret.Results) == 0 {
			continue
		}
		for _, o := range c.P.Origins(ret.Results[0], nil, 2, isParse) {
			if k, isK := o.Val.(*ssa.Const); isK && k.IsNil() {
				continue
			}
			var parse ssa.CallInstruction
			DerivesFrom(o.Val, func(x ssa.Value) bool {
				if cl, ok := x.(ssa.CallInstruction); ok && isParse(cl) {
					parse = cl
					return true
				}
				return false
			})
			if parse != nil {
				args := parse.Common().Args
				if len(args) >= 2 && fromMapping(args[1]) {
					c.Site(parse.Pos(), "the query is parsed against the mapping the provider reports at the time of the request")
				} else {
					c.Violation("parse:parseQuery:mapping-arg", parse.Pos(), "parseQuery parses against a mapping that is not the result of GetMapping() of this request")
				}
				continue
			}
			// not parsed here: a remembered AST. Acceptable only when what it is looked up by includes the mapping.
			keyed := false
			DerivesFrom(o.Val, func(x ssa.Value) bool {
				switch y := x.(type) {
				case *ssa.Lookup:
					keyed = keyed || fromMapping(y.Index)
				case ssa.CallInstruction:
					for _, a := range y.Common().Args {
						keyed = keyed || fromMapping(a)
					}
				}
				return false
			})
			if keyed {
				c.Site(ret.Pos(), "a remembered AST is looked up by a key that includes the current mapping")
			} else {
				c.Violation("parse:parseQuery:remembered-ast", ret.Pos(), "parseQuery can return an AST (%s) that was not parsed in this call and is not looked up by the current mapping: the mapping decides how a value is split into terms and which fields may be queried, and it is reloaded at run time — after a reload that changes a field's type the same query text keeps being searched with the AST of the old mapping", Short(o.Val.String()))
			}
		}
	}
}

// queuedLIDsEnterOneByOne (C02.16): the LIDs queued for a token may repeat (the text tokenizer emits a token per
// occurrence, so a document with "error ... error" queues its LID twice); the merged list must not. In
// frac.mergeSorted the parameter that receives the queued batch (the one the caller fills from
// TokenLIDs.getQueuedLIDs) is never appended to the result as a whole — no append(result, batch...) of it or of a
// sub-slice: its elements are appended one at a time, behind a comparison with the value appended before.
func queuedLIDsEnterOneByOne(c *Ctx) {
	fn := c.Fn("frac.mergeSorted")
	if fn == nil {
		return
	}
	// which parameter is the queued batch
	var batch *ssa.Parameter
	for _, caller := range c.P.FuncsInPkg("frac") {
		for _, call := range CallsIn(caller, Callee("frac.mergeSorted")) {
			for i, a := range call.Common().Args {
				if i < len(fn.Params) && DerivesFrom(a, func(v ssa.Value) bool {
					cl, ok := v.(ssa.CallInstruction)
					return ok && CallName(cl) == "(*frac.TokenLIDs).getQueuedLIDs"
				}) {
					batch = fn.Params[i]
				}
			}
		}
	}
	if batch == nil {
		c.Undecided("merge:mergeSorted:no-batch", fn.Pos(), "no caller hands the result of TokenLIDs.getQueuedLIDs to frac.mergeSorted any more")
		return
	}
	fromBatch := func(v ssa.Value) bool {
		return DerivesFromNoCall(v, func(x ssa.Value) bool { return x == ssa.Value(batch) })
	}
	n := 0
	for _, ap := range CallsIn(fn, Callee("builtin.append")) {
		args := ap.Common().Args
		if len(args) != 2 {
			continue
		}
		// append(result, v) is lowered to a one-element array that is sliced; append(result, s...) passes s itself
		elems, spread := variadicElems(args[1])
		if spread {
			if !fromBatch(args[1]) {
				continue
			}
			n++
			{
				c.Violation("merge:mergeSorted:batch-appended-whole", ap.Pos(), "frac.mergeSorted appends the queued batch (parameter %s) to the result as a whole: the queue may hold the same LID twice (one entry per occurrence of the token in the document), and only the element-wise path drops the repeat — the token's list then carries the document twice, searches with total, aggregations and the histogram count it twice, and sealing writes the duplicate", batch.Name())
				continue
			}
		}
		isBatchElem := false
		for _, e := range elems {
			isBatchElem = isBatchElem || fromBatch(e)
		}
		if !isBatchElem {
			continue
		}
		n++
		guarded := false
		for _, f := range FactsAtInstr(ap.(ssa.Instruction)) {
			if bo, ok := f.Cond.(*ssa.BinOp); ok && (bo.Op == token.EQL || bo.Op == token.NEQ) {
				guarded = true
			}
		}
		if guarded {
			c.Site(ap.Pos(), "an element of the queued batch is appended behind a comparison with the previous value")
		} else {
			c.Violation("merge:mergeSorted:batch-element-unguarded", ap.Pos(), "frac.mergeSorted appends an element of the queued batch without comparing it with the value appended before: a LID queued twice stays twice in the token's list")
		}
	}
	if n == 0 {
		c.Undecided("merge:mergeSorted:no-append", fn.Pos(), "frac.mergeSorted no longer appends elements of the queued batch")
	}
}

// variadicElems: the values passed for a variadic parameter. A call f(a, x, y) is lowered to a new array
// holding x and y that is sliced; f(a, s...) passes s (spread = true).
func variadicElems(arg ssa.Value) (elems []ssa.Value, spread bool) {
	sl, ok := arg.(*ssa.Slice)
	if !ok {
		return nil, true
	}
	al, ok := sl.X.(*ssa.Alloc)
	if !ok || al.Comment != "varargs" {
		return nil, true
	}
	for _, r := range *al.Referrers() {
		ia, ok := r.(*ssa.IndexAddr)
		if !ok {
			continue
		}
		for _, rr := range *ia.Referrers() {
			if st, ok := rr.(*ssa.Store); ok && st.Addr == ssa.Value(ia) {
				elems = append(elems, st.Val)
			}
		}
	}
	return elems, false
}

// decodedOwnsItsMemory (C03.13): what Chunks.unpack leaves in the Chunks (which goes into the per-fraction cache)
// is a copy: no slice field of the receiver is assigned a view of the scratch buffer the loader passes in and
// reuses for the next block.
func decodedOwnsItsMemory(c *Ctx) {
	fn := c.Fn("(*frac/lids.Chunks).unpack")
	if fn == nil {
		return
	}
	isScratch := func(v ssa.Value) bool {
		p, ok := v.(*ssa.Parameter)
		return ok && strings.HasSuffix(TypeStr(p.Type()), "unpackBuffer")
	}
	hasScratch := false
	for _, p := range fn.Params {
		hasScratch = hasScratch || isScratch(p)
	}
	if !hasScratch {
		c.Note("Chunks.unpack no longer takes a scratch buffer; the ownership rule has nothing to check")
		c.Site(fn.Pos(), "Chunks.unpack has no scratch buffer parameter")
		return
	}
	isChunks := func(v ssa.Value) bool {
		p, ok := v.(*ssa.Parameter)
		return ok && strings.HasSuffix(TypeStr(p.Type()), "lids.Chunks")
	}
	n := 0
	// the stores may sit in unpack itself or in a helper it hands the Chunks and the buffer to
	for _, l := range c.P.FindLiftedAll(fn, func(in ssa.Instruction) bool {
		st, ok := in.(*ssa.Store)
		if !ok {
			return false
		}
		fa, ok := st.Addr.(*ssa.FieldAddr)
		if !ok || !isChunks(fa.X) {
			return false
		}
		_, isSl := st.Val.Type().Underlying().(*types.Slice)
		return isSl
	}) {
		st := l.In.(*ssa.Store)
		fa := st.Addr.(*ssa.FieldAddr)
		n++
		_, fld, _, _ := FieldOf(fa)
		view := DerivesFromNoCall(st.Val, isScratch)
		if view {
			c.Violation("own:Chunks.unpack:"+fld, st.Pos(), "Chunks.unpack stores a view of the loader's scratch buffer into %s: the Chunks goes into the LIDs cache while the loader reuses the buffer for the next block, so a cached block is overwritten by the contents of the block read after it — the first answer is right, every answer served from the cache is not", fld)
		} else {
			c.Site(st.Pos(), "Chunks.%s is a copy, not a view of the scratch buffer", fld)
		}
	}
	if n == 0 {
		c.Undecided("own:Chunks.unpack:none", fn.Pos(), "Chunks.unpack no longer assigns the slices of the receiver")
	}
}

// startBlockPerTID (C03.14): the LIDs block an iterator starts in is looked up for its own tid. In
// sealedTokenIndex.GetLIDsFromTIDs every value stored into the table of start blocks comes out of a call that is
// given the tid of that position (first block for descending, last block for ascending order — which one is
// right depends on the order, and a neighbour's block is right for one of them only).
func startBlockPerTID(c *Ctx) {
	fn := c.Fn("(*frac.sealedTokenIndex).GetLIDsFromTIDs")
	if fn == nil {
		return
	}
	n := 0
	for _, b := range fn.Blocks {
		for _, in := range b.Instrs {
			st, ok := in.(*ssa.Store)
			if !ok {
				continue
			}
			ia, ok := st.Addr.(*ssa.IndexAddr)
			if !ok {
				continue
			}
			bt, ok := st.Val.Type().Underlying().(*types.Basic)
			if !ok || bt.Kind() != types.Uint32 {
				continue
			}
			if _, isMk := stripSliceRoot(ia.X).(*ssa.MakeSlice); !isMk {
				continue
			}
			n++
			// the tid of this position: an element of the tids parameter
			isTid := func(v ssa.Value) bool {
				return DerivesFromNoCall(v, func(x ssa.Value) bool { return x == ssa.Value(fn.Params[1]) })
			}
			viaLookup := false
			DerivesFrom(st.Val, func(v ssa.Value) bool {
				cl, ok := v.(ssa.CallInstruction)
				if !ok {
					return false
				}
				for _, a := range cl.Common().Args {
					if isTid(a) {
						viaLookup = true
					}
				}
				return false
			})
			direct := false
			if cl, ok := st.Val.(ssa.CallInstruction); ok {
				for _, a := range cl.Common().Args {
					direct = direct || isTid(a)
				}
			}
			if direct || (viaLookup && !derivesFromLoadOfSameTable(st.Val, ia.X)) {
				c.Site(st.Pos(), "the start block of a tid is the result of a lookup with that tid")
			} else {
				c.Violation("prov:GetLIDsFromTIDs:start-block", st.Pos(), "GetLIDsFromTIDs can take the start block of a tid from %s instead of looking it up for that tid: the previous tid's block is the right place to start for one iteration order only — for the other one the iterator of a token whose postings continue into later blocks starts too early or too late and the continuation is never visited", Short(st.Val.String()))
			}
		}
	}
	if n == 0 {
		c.Undecided("prov:GetLIDsFromTIDs:no-table", fn.Pos(), "GetLIDsFromTIDs no longer fills a table of start blocks")
	}
}

func stripSliceRoot(v ssa.Value) ssa.Value {
	for {
		switch x := v.(type) {
		case *ssa.Slice:
			v = x.X
		case *ssa.Phi:
			if len(x.Edges) == 1 {
				v = x.Edges[0]
				continue
			}
			return v
		default:
			return v
		}
	}
}

// derivesFromLoadOfSameTable: v is (a phi over) an element read back from the table it is stored into.
func derivesFromLoadOfSameTable(v, table ssa.Value) bool {
	return DerivesFromNoCall(v, func(x ssa.Value) bool {
		u, ok := x.(*ssa.UnOp)
		if !ok || u.Op != token.MUL {
			return false
		}
		ia, ok := u.X.(*ssa.IndexAddr)
		return ok && ia.X == table
	})
}

// sealedOnlyMemo: v is read from a field of the proxy fraction (plainly or through atomic Load), and every value
// the package stores into that field derives from (*frac.Sealed).Info — a sealed fraction does not change any more.
func sealedOnlyMemo(c *Ctx, v ssa.Value) bool {
	var field string
	fieldOf := func(x ssa.Value) string {
		for i := 0; x != nil && i < 6; i++ {
			if fa, ok := x.(*ssa.FieldAddr); ok {
				if typ, fld, _, okF := FieldOf(fa); okF && strings.HasSuffix(typ, "fracmanager.proxyFrac") {
					return fld
				}
				x = fa.X
				continue
			}
			if u, ok := x.(*ssa.UnOp); ok {
				x = u.X
				continue
			}
			break
		}
		return ""
	}
	DerivesFrom(v, func(x ssa.Value) bool {
		switch y := x.(type) {
		case ssa.CallInstruction:
			if n := CallName(y); strings.Contains(n, "atomic.") && strings.HasSuffix(n, ").Load") && len(y.Common().Args) > 0 {
				if f := fieldOf(y.Common().Args[0]); f != "" {
					field = f
					return true
				}
			}
		case *ssa.UnOp:
			if y.Op == token.MUL {
				if f := fieldOf(y.X); f != "" && f != "active" && f != "sealed" {
					field = f
					return true
				}
			}
		}
		return false
	})
	if field == "" {
		return false
	}
	fromSealed := func(x ssa.Value) bool {
		return DerivesFrom(x, func(y ssa.Value) bool {
			cl, ok := y.(ssa.CallInstruction)
			return ok && CallName(cl) == "(*frac.Sealed).Info"
		})
	}
	stores, ok := 0, true
	for _, fn := range c.P.FuncsInPkg("fracmanager") {
		for _, b := range fn.Blocks {
			for _, in := range b.Instrs {
				switch y := in.(type) {
				case ssa.CallInstruction:
					n := CallName(y)
					if strings.Contains(n, "atomic.") && (strings.HasSuffix(n, ").Store") || strings.HasSuffix(n, ").Swap") || strings.HasSuffix(n, ").CompareAndSwap")) && len(y.Common().Args) >= 2 && fieldOf(y.Common().Args[0]) == field {
						stores++
						args := y.Common().Args
						if !fromSealed(args[len(args)-1]) && !IsNilConst(args[len(args)-1]) {
							ok = false
						}
					}
				case *ssa.Store:
					if fa, isFA := y.Addr.(*ssa.FieldAddr); isFA && fieldOf(fa) == field {
						stores++
						if !fromSealed(y.Val) && !IsNilConst(y.Val) {
							ok = false
						}
					}
				}
			}
		}
	}
	return ok && stores > 0
}
