package props

import (
	"go/token"
	"go/types"

	"golang.org/x/tools/go/ssa"

	. "seqverif/internal/kit"
)

func init() {
	register(&PropInfo{
		ID:          "C17",
		Title:       "Re-delivering a bulk does not duplicate documents",
		Explanation: "Decided: (1) in the append worker the ids already present are filtered out of the collector (Filter(appended), under len(appended) != len(IDs)) after DocsPositions.SetMultiple and before ids, tokens and stats are taken from the collector; (2) Filter rebuilds every per-document column (IDs, Positions, tokensInDocs, tokensIndex) and the stats that feed UpdateStats (MinMID, MaxMID, DocsCounter), and the per-document token offsets are an exclusive running sum (the offset stored for document i does not include document i's own token count); (3) SetMultiple decides and stores under one write-lock hold, stores only for a new id or an identical position, and reports exactly the stored ids; (4) merging partial results removes repeats before the limit cut and corrects the total; sealing writes a repeated id's document once. NOT decided: the remaining token-offset arithmetic, effects on aggregations.",
		Assumptions: []string{"lock identity by access path"},
		Obs:         c17,
	})
}

func c17() []*Ob {
	return []*Ob{
		{Prop: "C17", ID: "C17.9", Engine: "PAIR(two sites)", Floor: 1,
			Desc:  "LIDs and tokens of a partly repeated bulk belong to the same documents: Active.AppendIDs receives the collector's own filtered id column, or — if it receives SetMultiple's result — getIndexesOfIntercept walks the bulk front to back so that the filtered collector keeps bulk order",
			Check: func(c *Ctx) { lidsFollowCollectorOrder(c) }},
		{Prop: "C17", ID: "C17.7", Engine: "PAIR", Floor: 1,
			Desc:  "a repeat that sits in the next fraction does not cost a hit: ids whose timestamp equals the border of the next, not yet searched fraction are not counted as final (the early-termination test of calcEnsuredIDsCount is non-strict and uses the border the list was sorted by — shared rule with C05.2); counted as final, the re-delivered document at the border comes back from the next fraction inside the reduced limit, the merge drops it as a repetition and the answer is one id short",
			Check: func(c *Ctx) { sortKeyIsCutKey(c) }},
		{Prop: "C17", ID: "C17.8", Engine: "DOM(loop exit)", Floor: 1,
			Desc: "every fraction of the range is read: the loop of fetchDocsAsync that starts one fetch per fraction is left early only when the request's context is done — not on a count of documents found so far: a re-delivered document lives in two fractions and is counted twice, so a count-based stop skips the fractions that hold the other requested ids and they come back empty",
			Check: func(c *Ctx) {
				fn := c.Fn("(*fracmanager.Fetcher).fetchDocsAsync")
				if fn == nil {
					return
				}
				var loop *Loop
				for _, l := range Loops(fn) {
					for b := range l.Blocks {
						for _, in := range b.Instrs {
							if _, isGo := in.(*ssa.Go); isGo && (loop == nil || loop.Contains(l)) {
								loop = l
							}
						}
					}
				}
				if loop == nil {
					c.Undecided("dom:fetchDocsAsync:noloop", fn.Pos(), "fetchDocsAsync no longer starts the per-fraction fetches from a loop")
					return
				}
				doneCase := func(f Fact) bool {
					bo, ok := f.Cond.(*ssa.BinOp)
					if !ok || (bo.Op != token.EQL && bo.Op != token.NEQ) || (bo.Op == token.EQL) != f.Val {
						return false
					}
					e, ok := bo.X.(*ssa.Extract)
					if !ok || e.Index != 0 {
						return false
					}
					sel, ok := e.Tuple.(*ssa.Select)
					k, isK := ConstInt(bo.Y)
					if !ok || !isK || int(k) >= len(sel.States) {
						return false
					}
					return DerivesFrom(sel.States[k].Chan, func(v ssa.Value) bool {
						cl, ok := v.(ssa.CallInstruction)
						return ok && CallName(cl) == "(context.Context).Done"
					})
				}
				exits := loop.EarlyExits()
				bad := 0
				for _, e := range exits {
					if _, isPanic := e[1].Instrs[len(e[1].Instrs)-1].(*ssa.Panic); isPanic {
						continue // the compiler's "blocking select matched no case" trap, or an explicit panic: not a silent skip
					}
					ok := false
					for _, f := range append(FactsAt(e[0]), FactsOnEdge(e[0], e[1])...) {
						if doneCase(f) {
							ok = true
						}
					}
					if !ok {
						bad++
						c.Violation("dom:fetchDocsAsync:early-exit", e[0].Instrs[len(e[0].Instrs)-1].Pos(), "fetchDocsAsync leaves the loop over the fractions although the request's context is not done: the remaining fractions are never read and their documents come back empty")
					}
				}
				if bad == 0 {
					c.Site(loop.Header.Instrs[0].Pos(), "the per-fraction loop is left early only when the context is done (%d early exit(s))", len(exits))
				}
			}},
		{Prop: "C17", ID: "C17.1", Engine: "ORDER+DOM+PROV", Floor: 3,
			Desc: "filter before anything is indexed: in appendWorker, collector.Filter(appended) takes SetMultiple's result, is guarded by len(appended) != len(collector.IDs), follows SetMultiple and precedes AppendIDs / TokenList.Append / GroupLIDsByToken / UpdateStats; those take their arguments from the collector after the filter",
			Check: func(c *Ctx) {
				fn := c.Fn("(*frac.ActiveIndexer).appendWorker")
				if fn == nil {
					return
				}
				setM := Callee("(*frac.DocsPositions).SetMultiple")
				filt := Callee("(*frac.metaDataCollector).Filter")
				MustPrecede(c, fn, setM, "SetMultiple", filt, "collector.Filter")
				// the filter call may sit in appendWorker or in a private helper of it (together with SetMultiple or not)
				lifted := c.P.FindLifted(fn, CallSel(filt))
				if len(lifted) == 0 {
					return
				}
				f := lifted[0].Call()
				ftop := lifted[0].Top()
				sm := CallsIn(f.Parent(), setM)
				isAppended := func(x ssa.Value) bool {
					if len(sm) > 0 {
						return x == sm[0].Value()
					}
					return c.P.DerivesFromIP(x, func(v ssa.Value) bool { cl, ok := v.(ssa.CallInstruction); return ok && setM(cl) })
				}
				if isAppended(Arg(f, 0)) {
					c.Site(f.Pos(), "Filter receives exactly the ids SetMultiple reported as stored")
				} else {
					c.Violation("prov:appendWorker:filter-arg", f.Pos(), "collector.Filter is not given SetMultiple's result")
				}
				// guard: len(appended) != len(collector.IDs)
				okGuard := false
				for _, fact := range lifted[0].Facts() {
					bo, ok := fact.Cond.(*ssa.BinOp)
					if !ok || (bo.Op != token.NEQ && bo.Op != token.EQL) || (bo.Op == token.NEQ) != fact.Val {
						continue
					}
					isLenOf := func(v ssa.Value, pred func(ssa.Value) bool) bool {
						cl, ok := v.(*ssa.Call)
						return ok && CallName(cl) == "builtin.len" && pred(cl.Call.Args[0])
					}
					a := isLenOf(bo.X, isAppended) || isLenOf(bo.Y, isAppended)
					b := isLenOf(bo.X, func(x ssa.Value) bool { return ValueIsField(x, "frac.metaDataCollector", "IDs") }) || isLenOf(bo.Y, func(x ssa.Value) bool { return ValueIsField(x, "frac.metaDataCollector", "IDs") })
					if a && b {
						okGuard = true
					}
				}
				if okGuard {
					c.Site(f.Pos(), "Filter runs whenever fewer ids were stored than delivered")
				} else {
					c.Violation("dom:appendWorker:filter-guard", f.Pos(), "the duplicate filter is not guarded by len(appended) != len(collector.IDs): a bulk with repeats could be indexed unfiltered")
				}
				// later consumers read the collector after the filter
				for _, it := range []struct {
					m     Matcher
					name  string
					field string
				}{
					{Callee("(*frac.Active).AppendIDs"), "AppendIDs", "IDs"},
					{Callee("(*frac.Active).UpdateStats"), "UpdateStats", "DocsCounter"},
				} {
					for _, call := range CallsIn(fn, it.m) {
						if Dominates(call.(ssa.Instruction), ftop) {
							c.Violation("order:appendWorker:"+it.name+"-before-filter", call.Pos(), "%s runs before the duplicate filter", it.name)
							continue
						}
						okLoad := true
						for _, a := range call.Common().Args {
							if ld, ok := a.(*ssa.UnOp); ok && IsFieldAddr(ld.X, "frac.metaDataCollector", it.field) {
								if ld.Block().Dominates(ftop.Block()) && ld.Block() != call.(ssa.Instruction).Block() {
									okLoad = false
								}
							}
						}
						if okLoad {
							c.Site(call.Pos(), "%s takes collector.%s after the filter", it.name, it.field)
						} else {
							c.Violation("prov:appendWorker:"+it.name+"-stale-arg", call.Pos(), "%s is given collector.%s as it was before the duplicate filter", it.name, it.field)
						}
					}
				}
				MustPrecede(c, fn, setM, "SetMultiple", Callee("(*frac.Active).AppendIDs"), "AppendIDs")
				MustPrecede(c, fn, Callee("(*frac.Active).AppendIDs"), "AppendIDs", Callee("(*frac.metaDataCollector).GroupLIDsByToken"), "GroupLIDsByToken")
			}},
		{Prop: "C17", ID: "C17.2", Engine: "FIELDS+PROV", Floor: 4,
			Desc: "the filter rebuilds every per-document column and the stats: Filter assigns IDs, Positions, tokensInDocs, tokensIndex, MinMID, MaxMID, DocsCounter; the per-document token offset table is an exclusive running sum of tokensInDocs",
			Check: func(c *Ctx) {
				fn := c.Fn("(*frac.metaDataCollector).Filter")
				if fn == nil {
					return
				}
				for _, f := range []string{"IDs", "Positions", "tokensInDocs", "tokensIndex", "MinMID", "MaxMID", "DocsCounter"} {
					if Current.Has(fn, FieldStore("frac.metaDataCollector", f)) {
						c.Site(fn.Pos(), "Filter assigns %s", f)
					} else {
						c.Violation("fields:Filter:"+f, fn.Pos(), "Filter does not rebuild collector.%s: after dropping repeated ids this column no longer lines up with IDs (documents get a neighbour's positions/tokens or the fraction's document count includes the repeats)", f)
					}
				}
				// the columns reset per bulk are the ones Filter rebuilds
				if init := c.Fn("(*frac.metaDataCollector).Init"); init != nil {
					for _, f := range []string{"IDs", "Positions", "tokensInDocs", "tokensIndex"} {
						if !Current.Has(init, FieldStore("frac.metaDataCollector", f)) {
							c.Violation("fields:Init:"+f, init.Pos(), "Init no longer resets collector.%s per bulk", f)
						}
					}
				}
				// exclusive prefix sum
				n := 0
				// the table may be built in Filter itself or in a private helper it calls
				isTableStore := func(in ssa.Instruction) bool {
					st, ok := in.(*ssa.Store)
					if !ok {
						return false
					}
					ia, ok := st.Addr.(*ssa.IndexAddr)
					if !ok || TypeStr(ia.X.Type()) != "[]uint32" {
						return false
					}
					_, isMk := ia.X.(*ssa.MakeSlice)
					_, isCall := ia.X.(*ssa.Call)
					return isMk || isCall
				}
				tableFn := c.P.Locate(fn, isTableStore)
				if tableFn == nil {
					tableFn = fn
				}
				for _, b := range tableFn.Blocks {
					for _, in := range b.Instrs {
						st, ok := in.(*ssa.Store)
						if !ok {
							continue
						}
						ia, ok := st.Addr.(*ssa.IndexAddr)
						if !ok || TypeStr(ia.X.Type()) != "[]uint32" {
							continue
						}
						if _, isAlloc := ia.X.(*ssa.Call); !isAlloc {
							if mk, isMk := ia.X.(*ssa.MakeSlice); !isMk {
								_ = mk
								continue
							}
						}
						n++
						// does the stored value add the element of the SAME index (not through the loop-carried accumulator)?
						includesOwn := false
						var walk func(v ssa.Value, d int)
						walk = func(v ssa.Value, d int) {
							if d > 6 || v == nil {
								return
							}
							switch x := v.(type) {
							case *ssa.BinOp:
								if x.Op == token.ADD {
									walk(x.X, d+1)
									walk(x.Y, d+1)
								}
							case *ssa.Convert:
								walk(x.X, d+1)
							case *ssa.UnOp:
								if e, ok := x.X.(*ssa.IndexAddr); ok && x.Op == token.MUL {
									fromColumn := c.P.DerivesFromIP(e.X, func(w ssa.Value) bool { return ValueIsField(w, "frac.metaDataCollector", "tokensInDocs") })
									if fromColumn && SameValue(e.Index, ia.Index) && e.X != ia.X {
										includesOwn = true
									}
								}
							}
						}
						walk(st.Val, 0)
						sumsColumn := c.P.DerivesFromIP(st.Val, func(w ssa.Value) bool { return ValueIsField(w, "frac.metaDataCollector", "tokensInDocs") })
						if !sumsColumn {
							c.Violation("prov:Filter:offsets-from-column", st.Pos(), "the token offsets are not summed up from the collector's tokensInDocs column (the per-document token counts of the bulk as it arrived): every kept document gets the wrong window of tokens")
						} else if includesOwn {
							c.Violation("prov:Filter:exclusive-offsets", st.Pos(), "the token offset stored for document i includes document i's own token count: kept documents whose token count differs from their predecessors get a shifted window of tokens (their own tokens are lost, a neighbour's are attached)")
						} else {
							c.Site(st.Pos(), "token offset of document i is the sum of the counts of the documents before it")
						}
					}
				}
				if n == 0 {
					c.Undecided("prov:Filter:offsets", fn.Pos(), "cannot find the per-document token offset table in Filter")
				}
			}},
		{Prop: "C17", ID: "C17.5", Engine: "ALIAS", Floor: 1,
			Desc: "the collector's columns are not rewritten behind its back: DocsPositions.SetMultiple builds its result in memory of its own — its ids and pos parameters (collector.IDs / Positions, which appendWorker goes on using for the length test and for Filter) reach no mutating sink (element store, append into the parameter's array)",
			Check: func(c *Ctx) {
				fn := c.Fn("(*frac.DocsPositions).SetMultiple")
				if fn == nil {
					return
				}
				n := 0
				for _, p := range fn.Params[1:] {
					if _, ok := p.Type().Underlying().(*types.Slice); !ok {
						continue
					}
					n++
					sinks := c.P.MutatingSinks(p, 3)
					if len(sinks) == 0 {
						c.Site(fn.Pos(), "parameter %s is only read", p.Name())
					}
					for _, sk := range sinks {
						c.Violation("alias:SetMultiple:"+p.Name(), sk.Instr.Pos(), "DocsPositions.SetMultiple writes through its %s parameter (%s): the caller's collector column is compacted in place while the collector still uses it, so Filter keeps a new document in a dropped duplicate's slot and it is indexed under that document's tokens", p.Name(), sk.How)
					}
				}
				if n == 0 {
					c.Undecided("alias:SetMultiple:params", fn.Pos(), "SetMultiple has no slice parameters any more")
				}
				// ... and its result is the caller's alone: the returned slice is not (a view of) memory kept in the
				// DocsPositions, which the next SetMultiple on the same fraction — another index worker — refills
				// while this caller is still reading it, after the lock is gone
				for _, b := range fn.Blocks {
					ret, ok := b.Instrs[len(b.Instrs)-1].(*ssa.Return)
					if !ok || len(ret.Results) == 0 {
						continue
					}
					if _, isSlice := ret.Results[0].Type().Underlying().(*types.Slice); !isSlice {
						continue
					}
					shared := DerivesFrom(ret.Results[0], func(v ssa.Value) bool {
						fa, ok := v.(*ssa.FieldAddr)
						if !ok {
							return false
						}
						if _, isSl := fa.Type().(*types.Pointer).Elem().Underlying().(*types.Slice); !isSl {
							return false
						}
						return DerivesFromNoCall(fa.X, func(x ssa.Value) bool { return x == ssa.Value(fn.Params[0]) })
					})
					pos := ret.Pos()
					if !pos.IsValid() {
						pos = fn.Pos()
					}
					if shared {
						c.Violation("alias:SetMultiple:result-shared", pos, "DocsPositions.SetMultiple returns a slice that lives in the DocsPositions itself: it is filled under the lock but read by the caller (length test, collector.Filter) after the lock is released, when another index worker's SetMultiple on the same fraction may already be overwriting it — the new documents of a partly repeated bulk then get a position but no LIDs and no tokens")
					} else {
						c.Site(pos, "the result of SetMultiple is memory of this call")
					}
				}
			}},
		{Prop: "C17", ID: "C17.6", Engine: "PAIR(key)", Floor: 1,
			Desc:  "a re-delivered document that landed on another store is still one document: the repetition test of the result merge compares the document id only, never the source (shared rule with C05.6)",
			Check: func(c *Ctx) { repetitionKeyIsID(c) }},
		{Prop: "C17", ID: "C17.3", Engine: "LOCK+DOM", Floor: 1,
			Desc: "first writer wins, atomically: DocsPositions.SetMultiple looks an id up and stores it under one write-lock hold, stores only when the id is new or has the same position, and appends to the result exactly the ids it stored",
			Check: func(c *Ctx) {
				fn := c.Fn("(*frac.DocsPositions).SetMultiple")
				if fn == nil {
					return
				}
				li := Locksets(fn, nil)
				var lookups, updates []ssa.Instruction
				collect := func(f *ssa.Function) (ls, us []ssa.Instruction) {
					for _, b := range f.Blocks {
						for _, in := range b.Instrs {
							switch x := in.(type) {
							case *ssa.Lookup:
								if ValueIsField(x.X, "frac.DocsPositions", "positions") {
									ls = append(ls, x)
								}
							case *ssa.MapUpdate:
								if ValueIsField(x.Map, "frac.DocsPositions", "positions") {
									us = append(us, x)
								}
							}
						}
					}
					return
				}
				lookups, updates = collect(fn)
				// the check-and-store step may live in a private helper that SetMultiple calls with the lock held:
				// the lock state is then the one at the call, the guard is judged inside the helper
				var viaCall ssa.Instruction
				if len(lookups) == 0 && len(updates) == 0 {
					for _, call := range CallsIn(fn, nil) {
						h := StaticCallee(call)
						if h == nil || h.Blocks == nil || !c.P.InRepo(h) {
							continue
						}
						if ls, us := collect(h); len(ls) > 0 && len(us) > 0 && len(CallsIn(h, Callee("(*sync.RWMutex).Unlock", "(*sync.RWMutex).RUnlock", "(*sync.RWMutex).Lock", "(*sync.RWMutex).RLock"))) == 0 {
							lookups, updates, viaCall = ls, us, call.(ssa.Instruction)
						}
					}
				}
				if len(lookups) == 0 || len(updates) == 0 {
					c.Undecided("SetMultiple:shape", fn.Pos(), "SetMultiple no longer looks up and updates the positions map")
					return
				}
				heldAt := func(in ssa.Instruction) int {
					if viaCall != nil {
						return li.Held(viaCall, "dp.mu")
					}
					return li.Held(in, "dp.mu")
				}
				for _, l := range lookups {
					if heldAt(l) == 2 {
						c.Site(l.Pos(), "the deciding lookup runs under the write lock")
					} else {
						c.Violation("lock:SetMultiple:lookup-under-write-lock", l.Pos(), "SetMultiple decides whether an id is new without holding the write lock (held: %s): two concurrent deliveries of the same ids both see them as new, nothing is filtered and each document is indexed twice", modeStr(heldAt(l)))
					}
				}
				for _, u := range updates {
					if heldAt(u) != 2 {
						c.Violation("lock:SetMultiple:update", u.Pos(), "SetMultiple stores a position without the write lock")
					}
					// guarded by !ok || savedPos == pos[i]
					guarded := false
					for _, f := range FactsAtInstr(u) {
						if e, ok := f.Cond.(*ssa.Extract); ok && e.Index == 1 {
							if _, isL := e.Tuple.(*ssa.Lookup); isL {
								guarded = true
							}
						}
						if bo, ok := f.Cond.(*ssa.BinOp); ok && (bo.Op == token.EQL && f.Val || bo.Op == token.NEQ && !f.Val) {
							guarded = true
						}
					}
					if !guarded {
						// `!ok || saved == pos` joins two edges
						b := u.Block()
						all := len(b.Preds) > 0
						for _, p := range b.Preds {
							e := false
							for _, f := range FactsOnEdge(p, b) {
								if ex, ok := f.Cond.(*ssa.Extract); ok && ex.Index == 1 && !f.Val {
									e = true
								}
								if bo, ok := f.Cond.(*ssa.BinOp); ok && (bo.Op == token.EQL && f.Val || bo.Op == token.NEQ && !f.Val) {
									e = true
								}
							}
							if !e {
								all = false
							}
						}
						guarded = all
					}
					if guarded {
						c.Site(u.Pos(), "a position is stored only for a new id or an identical position")
					} else {
						c.Violation("dom:SetMultiple:first-writer-wins", u.Pos(), "SetMultiple overwrites the position of an id that is already present with a different position: the repeat wins and the original document becomes unreachable")
					}
				}
				// no unlock between lookup and update
				for _, ul := range CallsIn(fn, Callee("(*sync.RWMutex).Unlock", "(*sync.RWMutex).RUnlock")) {
					if _, isDefer := ul.(*ssa.Defer); isDefer {
						continue
					}
					for _, l := range lookups {
						for _, u := range updates {
							if Dominates(l, ul.(ssa.Instruction)) && Dominates(ul.(ssa.Instruction), u) {
								c.Violation("lock:SetMultiple:one-hold", ul.Pos(), "the lock is released between deciding that an id is new and storing it")
							}
						}
					}
				}
			}},
		{Prop: "C17", ID: "C17.4", Engine: "ORDER+DOM", Floor: 2,
			Desc: "dedup before cut: seq.MergeQPRs removes repeated ids before applying the limit and subtracts the number of repeats from the total; sealing writes the document of a repeated id once",
			Check: func(c *Ctx) {
				if fn := c.Fn("seq.MergeQPRs"); fn != nil {
					rr := CallsIn(fn, Callee("seq.removeRepetitionsAdvanced"))
					if len(rr) == 0 {
						c.Violation("order:MergeQPRs:no-dedup", fn.Pos(), "MergeQPRs no longer removes repeated ids")
					} else {
						// the cut slices the dedup result
						okCut := false
						for _, st := range InstrsIn(fn, FieldStore("seq.QPR", "IDs")) {
							if sl, ok := st.(*ssa.Store).Val.(*ssa.Slice); ok && sl.High != nil && DerivesFrom(sl.X, func(v ssa.Value) bool {
								e, ok := v.(*ssa.Extract)
								return ok && e.Tuple == rr[0].Value() && e.Index == 0
							}) {
								okCut = true
								c.Site(st.Pos(), "the limit cut is applied to the de-duplicated id list")
							}
						}
						if !okCut {
							c.Violation("order:MergeQPRs:cut-after-dedup", fn.Pos(), "the limit is no longer applied to the result of the de-duplication: repeats can push distinct documents out of the top")
						}
						okTotal := false
						for _, st := range InstrsIn(fn, FieldStore("seq.QPR", "Total")) {
							if bo, ok := st.(*ssa.Store).Val.(*ssa.BinOp); ok && bo.Op == token.SUB && DerivesFrom(bo.Y, func(v ssa.Value) bool {
								e, ok := v.(*ssa.Extract)
								return ok && e.Tuple == rr[0].Value() && e.Index == 1
							}) {
								okTotal = true
								c.Site(st.Pos(), "the total is reduced by the number of repeats")
							}
						}
						if !okTotal {
							c.Violation("order:MergeQPRs:total-correction", fn.Pos(), "the total is no longer corrected by the number of removed repeats")
						}
						// no way out that skips the dedup once ids have been added
						dd := rr[0].(ssa.Instruction)
						for _, b := range fn.Blocks {
							ret, isRet := b.Instrs[len(b.Instrs)-1].(*ssa.Return)
							if !isRet || Dominates(dd, ret) {
								continue
							}
							for _, st := range InstrsIn(fn, FieldStore("seq.QPR", "IDs")) {
								added := DerivesFrom(st.(*ssa.Store).Val, func(v ssa.Value) bool {
									cl, ok := v.(ssa.CallInstruction)
									return ok && CallName(cl) == "builtin.append"
								})
								if added && (st.Block() == b || Reachable(st.Block(), b)) {
									c.Violation("order:MergeQPRs:return-skips-dedup", ret.Pos(), "MergeQPRs can return after it has appended the partial results' ids without removing repeated ids (and without correcting total and histogram): a 'the concatenation is already in order' shortcut lets through the repeat that sits exactly on the border of two partial results — the last id of one and the first of the next — which is where a re-delivered document of two neighbouring fractions lands")
									break
								}
							}
						}
						// sort precedes dedup (adjacent-duplicate removal needs order)
						var sorts []ssa.Instruction
						// the sort call, or the call of a private helper that sorts on every path
						for _, sc := range CallsIn(fn, c.P.MustCall(Callee("sort.Sort", "sort.Stable", "slices.SortFunc", "sort.Slice"))) {
							sorts = append(sorts, sc.(ssa.Instruction))
						}
						if AllPathsPass(sorts, rr[0].(ssa.Instruction)) {
							c.Site(rr[0].Pos(), "ids are sorted on every path before adjacent repeats are removed")
						} else {
							c.Violation("order:MergeQPRs:sort-before-dedup", rr[0].Pos(), "adjacent-duplicate removal can run on an unsorted id list")
						}
					}
				}
				if fn := c.Fn("frac.writeDocBlocksInOrder"); fn != nil {
					for _, rd := range CallsIn(fn, Callee("(*disk.DocsReader).ReadDocsFunc")) {
						okSkip := false
						for _, f := range FactsAtInstr(rd.(ssa.Instruction)) {
							if bo, ok := f.Cond.(*ssa.BinOp); ok && (bo.Op == token.EQL || bo.Op == token.NEQ) {
								if phi, isPhi := bo.Y.(*ssa.Phi); isPhi && phi.Comment == "prevID" || func() bool { p, ok := bo.X.(*ssa.Phi); return ok && p.Comment == "prevID" }() {
									if (bo.Op == token.EQL) != f.Val {
										okSkip = true
									}
								}
							}
						}
						// struct comparison is lowered field-wise: accept any fact on prevID fields
						if !okSkip {
							for _, f := range FactsAtInstr(rd.(ssa.Instruction)) {
								if DerivesFrom(f.Cond, func(v ssa.Value) bool { p, ok := v.(*ssa.Phi); return ok && p.Comment == "prevID" }) {
									okSkip = true
								}
							}
						}
						if okSkip {
							c.Site(rd.Pos(), "sealing copies a document only when its id differs from the previous id")
						} else {
							c.Violation("dom:writeDocBlocksInOrder:skip-repeats", rd.Pos(), "sealing writes the document of a repeated id again")
						}
					}
				}
			}},
	}
}
