package frac

import (
	"fmt"
	"path/filepath"
	"sync"
	"testing"

	"github.com/ozontech/seq-db/cache"
	"github.com/ozontech/seq-db/disk"
	"github.com/ozontech/seq-db/seq"
)

// F10: the append worker queues a background merge task for a token whose posting queue is long; the task is
// consumed asynchronously. If the fraction is released (retention deletes it) while the task is still queued,
// the merge worker used to read frac.MIDs/frac.RIDs from the fraction, which releaseMem has set to nil:
// a data race and, with postings still queued, a nil dereference in a goroutine without recover.
// The schedule is forced here by running the merge worker only after the release.
func TestF10MergeTaskOutlivesRelease(t *testing.T) {
	indexer := NewActiveIndexer(1, 8)
	appendDone := make(chan struct{})
	go func() { indexer.appendWorker(0); close(appendDone) }() // no merge worker yet

	a := NewActive(
		filepath.Join(t.TempDir(), "f10"),
		indexer,
		disk.NewReadLimiter(1, nil),
		cache.NewCache[[]byte](nil, nil),
		cache.NewCache[[]byte](nil, nil),
		&Config{},
	)

	dp := NewDocProvider()
	for i := 1; i <= 10100; i++ { // > minMergeQueue postings of one token => a merge task is queued
		dp.Append([]byte(fmt.Sprintf(`{"n":%d}`, i)), nil, seq.SimpleID(i), seq.Tokens("_all_:", "service:a"))
	}
	docs, metas := dp.Provide()
	wg := sync.WaitGroup{}
	wg.Add(1)
	if err := a.Append(docs, metas, &wg); err != nil {
		t.Fatal(err)
	}
	wg.Wait()
	if len(indexer.chMerge) == 0 {
		t.Fatal("expected a queued merge task")
	}

	a.Suicide() // retention removes the fraction: releaseMem()

	close(indexer.ch)
	<-appendDone
	close(indexer.chMerge)
	indexer.mergeWorker() // the queued task runs now; must not touch the released fraction
}
