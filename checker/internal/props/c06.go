package props

import (
	"go/token"
	"go/types"
	"sort"
	"strings"

	"golang.org/x/tools/go/ssa"

	. "seqverif/internal/kit"
)

func init() {
	register(&PropInfo{
		ID:          "C06",
		Title:       "Aggregations and histograms equal values computed from the matching documents",
		Explanation: "Decided: (1) ENUMTAB — the aggregation-function and order enums of seq, the store API and the proxy API agree name by name and value by value (the proxy casts one into the other numerically), and the proxy's mapping tables are total; (2) FIELDS — every field of a per-bin summary (Min, Max, Sum, Total, NotExists, Samples) is read when the store builds its response, stored when the proxy converts it back and updated by Merge; NotExists of the aggregation and Total/Histogram/Aggs/IDs/Errors of a partial result are merged; bin timestamps cross the store->proxy hop through one unit class (MID.Time()/timestamppb.New <-> AsTime().UnixMilli()), never through hand-written second/nanosecond arithmetic; (3) Merge and InsertNTimes test 'is this the first value' (Total == 0) before they change Total; (4) the switches over the aggregation function cover every function; (5) the time-bin modulo is guarded. NOT decided: every numeric result (initial values, NaN, quantile selection, lock-step iteration of the sourced iterator, merge-order independence).",
		Assumptions: []string{"enum constant names are compared after normalisation (prefixes and underscores removed)"},
		Obs:         c06,
	})
}

func normEnum(n string) string {
	n = strings.ToLower(n)
	for _, p := range []string{"aggfunc_agg_func_", "aggfunc_", "aggfunc", "agg_func_", "order_order_", "docsorder", "order_"} {
		n = strings.TrimPrefix(n, p)
	}
	return strings.ReplaceAll(n, "_", "")
}

func c06() []*Ob {
	return []*Ob{
		{Prop: "C06", ID: "C06.12", Engine: "MUST-SEND", Floor: 1,
			Desc:  "an aggregation over several shards is the aggregation of all of them or is flagged: every shard goroutine of searchStores sends its response or its error (shared rule with C16.12) — a shard dropped silently on a context that ended mid-fan-out makes counts, sums and histogram buckets those of the remaining shards, returned with a nil error",
			Check: shared("C16.12")},
		{Prop: "C06", ID: "C06.11", Engine: "SHAPE(accumulation)", Floor: 3,
			Desc:  "merging partial results adds up: a numeric field that SamplesContainer.Merge updates as own + operand's is a counter; every other store of the operand's value into it is a copy under 'own value is zero' (or, for the counters that are only updated when the operand has samples, under own Total == 0). NotExists is counted for parts without samples too, so a 'destination is empty' fast path that copies it loses the not-exists count of the parts merged before — for some merge orders only",
			Check: func(c *Ctx) { mergeAccumulates(c) }},
		{Prop: "C06", ID: "C06.9", Engine: "PAIR(two sites)", Floor: 1,
			Desc:  "a partial result without samples does not move the extrema: SamplesContainer.Merge reads the operand's Min and Max only when the operand has samples (Total != 0), or — if it reads them regardless — every container the repo creates gets both Min and Max assigned at creation (NewSamplesContainers' sentinels) — the sentinel start values are identities for min/max only inside the sentinel's range, and a container built with zero Min/Max (a part that only counted not-exists documents) drags the group's minimum or maximum to 0 when it is merged last",
			Check: func(c *Ctx) { mergeIgnoresEmptyOperand(c) }},
		{Prop: "C06", ID: "C06.10", Engine: "PAIR(two sites)", Floor: 1,
			Desc:  "one question per document and iterator, or a repeatable answer: SourcedNodeIterator.ConsumeTokenSource leaves the underlying node on a hit, or — if it steps on at once — no aggregator is given the same iterator for its two roles. With both relaxed, sum(x) by x asks the shared iterator twice per document and every document counts as lacking the field",
			Check: func(c *Ctx) { iteratorConsumedOncePerDoc(c) }},
		{Prop: "C06", ID: "C06.8", Engine: "FIELDS(read/maintained)", Floor: 6,
			Desc: "every number an aggregator reports is one it keeps: for each aggregator type of frac/processor, every counter or table of the receiver (integer or map field) that Aggregate reads is written by Next (directly or through a helper) — a counter that is read into the result but never incremented (the not-exists count of the group, lost with the one line that bumped it) is reported as 0 whatever the documents were",
			Check: func(c *Ctx) {
				n := 0
				for _, agg := range c.P.FuncsInPkg("frac/processor") {
					if agg.Name() != "Aggregate" || agg.Signature.Recv() == nil || agg.Blocks == nil {
						continue
					}
					recv := agg.Signature.Recv().Type()
					ptr, ok := recv.(*types.Pointer)
					if !ok {
						continue
					}
					named, ok := ptr.Elem().(*types.Named)
					if !ok {
						continue
					}
					st, ok := named.Underlying().(*types.Struct)
					if !ok {
						continue
					}
					var next *ssa.Function
					for _, f := range c.P.FuncsInPkg("frac/processor") {
						if f.Name() == "Next" && f.Signature.Recv() != nil && types.Identical(f.Signature.Recv().Type(), recv) {
							next = f
						}
					}
					if next == nil {
						continue
					}
					typ := NamedTypeString(named)
					for i := 0; i < st.NumFields(); i++ {
						f := st.Field(i)
						isCounter := false
						switch u := f.Type().Underlying().(type) {
						case *types.Basic:
							isCounter = u.Info()&types.IsInteger != 0
						case *types.Map:
							isCounter = true
						}
						if !isCounter || !c.P.Has(agg, FieldLoad(typ, f.Name())) {
							continue
						}
						n++
						written := c.P.Has(next, FieldStore(typ, f.Name())) || c.P.Has(next, func(in ssa.Instruction) bool {
							mu, ok := in.(*ssa.MapUpdate)
							return ok && ValueIsField(mu.Map, typ, f.Name())
						}) || c.P.Has(next, func(in ssa.Instruction) bool {
							// a pointer-valued entry of a map field that is updated in place (histogram[mid].NotExists++ ...)
							lk, ok := in.(*ssa.Lookup)
							return ok && ValueIsField(lk.X, typ, f.Name())
						})
						if written {
							c.Site(next.Pos(), "%s.%s is maintained by Next and reported by Aggregate", typ, f.Name())
						} else {
							c.Violation("fields:aggregator:"+typ+"."+f.Name(), agg.Pos(), "%s.Aggregate reports %s, but Next never updates it: the reported value is its initial one whatever documents were seen", typ, f.Name())
						}
					}
				}
				if n == 0 {
					c.Undecided("fields:aggregator:none", 0, "no aggregator with counters found in frac/processor")
				}
			}},
		{Prop: "C06", ID: "C06.1", Engine: "ENUMTAB", Floor: 3,
			Desc: "enum tables agree: seq.AggFunc*, storeapi.AggFunc_* and seqproxyapi.AggFunc_* have the same names with the same values; seq.DocsOrder* and Order_* likewise; the proxy's funcMappings/orderMappings composite literals have one entry per seq constant",
			Check: func(c *Ctx) {
				cmp := func(what string, a, b map[string]int64, an, bn string) {
					na, nb := map[string]int64{}, map[string]int64{}
					for k, v := range a {
						na[normEnum(k)] = v
					}
					for k, v := range b {
						nb[normEnum(k)] = v
					}
					if len(na) == 0 || len(nb) == 0 {
						c.Undecided("enumtab:"+what+":empty", token.NoPos, "cannot enumerate %s / %s", an, bn)
						return
					}
					ok := true
					var names []string
					for k := range na {
						names = append(names, k)
					}
					sort.Strings(names)
					for _, k := range names {
						v2, has := nb[k]
						if !has {
							ok = false
							c.Violation("enumtab:"+what+":missing:"+k, token.NoPos, "%s has %q but %s has no constant of that name", an, k, bn)
						} else if v2 != na[k] {
							ok = false
							c.Violation("enumtab:"+what+":value:"+k, token.NoPos, "%q is %d in %s but %d in %s: the numeric cast between the two selects a different function", k, na[k], an, v2, bn)
						}
					}
					if ok {
						c.Site(token.NoPos, "%s == %s (%d constants, names and values)", an, bn, len(na))
					}
				}
				seqAgg := c.P.EnumConsts("seq", "AggFunc")
				if len(seqAgg) == 0 {
					// untyped iota constants: collect by name prefix
					if tp := c.P.TypesPkg("seq"); tp != nil {
						for _, n := range tp.Scope().Names() {
							if k, ok := tp.Scope().Lookup(n).(*types.Const); ok && strings.HasPrefix(n, "AggFunc") {
								if v, ok := constInt64(k); ok {
									seqAgg[n] = v
								}
							}
						}
					}
				}
				cmp("aggfunc-store", seqAgg, c.P.EnumConsts("pkg/storeapi", "AggFunc"), "seq.AggFunc*", "storeapi.AggFunc_*")
				cmp("aggfunc-proxy", seqAgg, c.P.EnumConsts("pkg/seqproxyapi/v1", "AggFunc"), "seq.AggFunc*", "seqproxyapi.AggFunc_*")
				seqOrd := c.P.EnumConsts("seq", "DocsOrder")
				cmp("order-store", seqOrd, c.P.EnumConsts("pkg/storeapi", "Order"), "seq.DocsOrder*", "storeapi.Order_*")
				cmp("order-proxy", seqOrd, c.P.EnumConsts("pkg/seqproxyapi/v1", "Order"), "seq.DocsOrder*", "seqproxyapi.Order_*")
				// mapping tables are total
				for _, it := range []struct {
					global string
					n      int
				}{{"funcMappings", len(seqAgg)}, {"orderMappings", len(seqOrd)}} {
					sp := c.P.TypesPkg("pkg/seqproxyapi/v1")
					if sp == nil {
						continue
					}
					v, ok := sp.Scope().Lookup(it.global).(*types.Var)
					if !ok {
						c.Undecided("enumtab:"+it.global, token.NoPos, "seqproxyapi.%s no longer exists", it.global)
						continue
					}
					_ = v
					// the initializer stores one element per constant into the backing array
					init := c.P.Func("pkg/seqproxyapi/v1.init")
					stores := 0
					if init != nil {
						for _, b := range init.Blocks {
							for _, in := range b.Instrs {
								st, ok := in.(*ssa.Store)
								if !ok {
									continue
								}
								if ia, ok := st.Addr.(*ssa.IndexAddr); ok {
									if al, ok := ia.X.(*ssa.Alloc); ok && strings.Contains(TypeStr(al.Type()), "]pkg/seqproxyapi/v1."+map[string]string{"funcMappings": "AggFunc", "orderMappings": "Order"}[it.global]) {
										stores++
									}
								}
							}
						}
					}
					if stores == it.n && it.n > 0 {
						c.Site(token.NoPos, "seqproxyapi.%s has %d entries, one per seq constant", it.global, stores)
					} else {
						c.Violation("enumtab:"+it.global+":total", token.NoPos, "seqproxyapi.%s has %d entries for %d seq constants", it.global, stores, it.n)
					}
				}
			}},
		{Prop: "C06", ID: "C06.2", Engine: "FIELDS+PAIR(units)", Floor: 12,
			Desc: "summary fields survive both conversions and the merge: Min, Max, Sum, Total, NotExists, Samples of seq.SamplesContainer are read in storeapi.buildSearchResponse, stored in search.responseToQPR and updated in SamplesContainer.Merge; AggregatableSamples.NotExists and the QPR fields are merged; bin timestamps use MID.Time()+timestamppb.New on the store and AsTime().UnixMilli() on the proxy",
			Check: func(c *Ctx) {
				fields := []string{"Min", "Max", "Sum", "Total", "NotExists", "Samples"}
				if fn := c.Fn("storeapi.buildSearchResponse"); fn != nil {
					for _, f := range fields {
						if Current.Has(fn, FieldLoad("seq.SamplesContainer", f)) {
							c.Site(fn.Pos(), "buildSearchResponse reads SamplesContainer.%s", f)
						} else {
							c.Violation("fields:buildSearchResponse:"+f, fn.Pos(), "the store's response drops SamplesContainer.%s: the proxy merges summaries without it", f)
						}
					}
					okTs := false
					for _, st := range InstrsIn(fn, FieldStore("pkg/storeapi.SearchResponse_Bin", "Ts")) {
						v := st.(*ssa.Store).Val
						if DerivesFrom(v, func(x ssa.Value) bool {
							cl, ok := x.(*ssa.Call)
							return ok && CallName(cl) == "google.golang.org/protobuf/types/known/timestamppb.New" && DerivesFrom(cl.Call.Args[0], func(y ssa.Value) bool {
								c2, ok := y.(*ssa.Call)
								return ok && CallName(c2) == "(seq.MID).Time"
							})
						}) {
							okTs = true
						}
					}
					if okTs {
						c.Site(fn.Pos(), "bin timestamps are produced by timestamppb.New(MID.Time())")
					} else {
						c.Violation("pair:units:bin-ts:store", fn.Pos(), "the store no longer converts a bin's MID with timestamppb.New(mid.Time()): hand-written second/nanosecond arithmetic and the proxy's AsTime().UnixMilli() disagree on sub-second bins")
					}
					for _, f := range []string{"Total", "Histogram", "Aggs", "IDs"} {
						if !Current.Has(fn, FieldLoad("seq.QPR", f)) {
							c.Violation("fields:buildSearchResponse:QPR."+f, fn.Pos(), "the store's response drops QPR.%s", f)
						}
					}
				}
				if fn := c.Fn("proxy/search.responseToQPR"); fn != nil {
					for _, f := range fields {
						if Current.Has(fn, FieldStore("seq.SamplesContainer", f)) {
							c.Site(fn.Pos(), "responseToQPR restores SamplesContainer.%s", f)
						} else {
							c.Violation("fields:responseToQPR:"+f, fn.Pos(), "the proxy does not restore SamplesContainer.%s from the store's response", f)
						}
					}
					okMs := Current.HasCall(fn, Callee("(*google.golang.org/protobuf/types/known/timestamppb.Timestamp).AsTime")) && Current.HasCall(fn, Callee("(time.Time).UnixMilli"))
					if okMs {
						c.Site(fn.Pos(), "bin timestamps are read back with AsTime().UnixMilli()")
					} else {
						c.Violation("pair:units:bin-ts:proxy", fn.Pos(), "the proxy no longer converts bin timestamps with AsTime().UnixMilli()")
					}
					if !Current.Has(fn, FieldStore("seq.AggregatableSamples", "NotExists")) {
						c.Violation("fields:responseToQPR:AggregatableSamples.NotExists", fn.Pos(), "the proxy drops the aggregation's NotExists count")
					}
				}
				if fn := c.Fn("(seq.MID).Time"); fn != nil {
					if Current.HasCall(fn, Callee("time.UnixMilli")) {
						c.Site(fn.Pos(), "MID.Time() is time.UnixMilli(mid)")
					} else {
						c.Violation("pair:units:MID.Time", fn.Pos(), "MID.Time() no longer interprets the MID as Unix milliseconds")
					}
				}
				if fn := c.Fn("(*seq.SamplesContainer).Merge"); fn != nil {
					for _, f := range []string{"Min", "Max", "Sum", "Total", "NotExists"} {
						if Current.Has(fn, FieldStore("seq.SamplesContainer", f)) {
							c.Site(fn.Pos(), "Merge updates %s", f)
						} else {
							c.Violation("fields:SamplesContainer.Merge:"+f, fn.Pos(), "SamplesContainer.Merge does not fold %s", f)
						}
					}
					if Current.HasCall(fn, Callee("(*seq.SamplesContainer).InsertSample")) {
						c.Site(fn.Pos(), "Merge folds Samples")
					} else {
						c.Violation("fields:SamplesContainer.Merge:Samples", fn.Pos(), "SamplesContainer.Merge does not fold the sample reservoir")
					}
				}
				if fn := c.Fn("(*seq.AggregatableSamples).Merge"); fn != nil {
					if Current.Has(fn, FieldStore("seq.AggregatableSamples", "NotExists")) {
						c.Site(fn.Pos(), "AggregatableSamples.Merge folds NotExists")
					} else {
						c.Violation("fields:AggregatableSamples.Merge:NotExists", fn.Pos(), "AggregatableSamples.Merge drops NotExists")
					}
				}
				if fn := c.Fn("seq.MergeQPRs"); fn != nil {
					for _, f := range []string{"Total", "IDs", "Errors"} {
						if Current.Has(fn, FieldStore("seq.QPR", f)) {
							c.Site(fn.Pos(), "MergeQPRs merges %s", f)
						} else {
							c.Violation("fields:MergeQPRs:"+f, fn.Pos(), "MergeQPRs does not merge QPR.%s", f)
						}
					}
				}
			}},
		{Prop: "C06", ID: "C06.3", Engine: "ORDER", Floor: 2,
			Desc: "first-value test before counting: in SamplesContainer.Merge and InsertNTimes the test Total == 0 (copy vs fold Min/Max) reads Total before this call changes it",
			Check: func(c *Ctx) {
				for _, name := range []string{"(*seq.SamplesContainer).Merge", "(*seq.SamplesContainer).InsertNTimes"} {
					fn := c.Fn(name)
					if fn == nil {
						continue
					}
					// the test may be in the function or in a helper called on the same container;
					// both events are recognised on the receiver of the function they sit in
					onRecv := func(addr ssa.Value) bool {
						fa, ok := addr.(*ssa.FieldAddr)
						if !ok || !IsFieldAddr(fa, "seq.SamplesContainer", "Total") {
							return false
						}
						f := fa.Parent()
						return len(f.Params) > 0 && fa.X == ssa.Value(f.Params[0])
					}
					test := func(in ssa.Instruction) bool {
						bo, ok := in.(*ssa.BinOp)
						if !ok || (bo.Op != token.EQL && bo.Op != token.NEQ) {
							return false
						}
						ld, ok := bo.X.(*ssa.UnOp)
						if !ok || !onRecv(ld.X) {
							return false
						}
						k, isK := ConstInt(bo.Y)
						return isK && k == 0
					}
					change := func(in ssa.Instruction) bool {
						st, ok := in.(*ssa.Store)
						return ok && onRecv(st.Addr)
					}
					if !Current.Has(fn, test) {
						c.Violation("order:"+name+":no-first-value-test", fn.Pos(), "%s no longer distinguishes the first value (Total == 0) when it folds Min/Max", name)
						continue
					}
					if n := PrecedeI(c, fn, test, "the test Total == 0", change, "the update of Total"); n > 0 {
						c.Site(fn.Pos(), "%s tests Total == 0 before changing Total", name)
					}
				}
			}},
		{Prop: "C06", ID: "C06.5", Engine: "PAIR(key)", Floor: 1,
			Desc: "a memo is filled under the key it is asked with: in the aggregation code (package frac/processor) a map entry that is written on the miss branch of a lookup of the same map uses the same key value as that lookup (a token value cached under a TID but looked up by a source index hands one group the label and the number of another)",
			Check: func(c *Ctx) {
				n := 0
				for _, fn := range c.P.FuncsInPkg("frac/processor") {
					for _, b := range fn.Blocks {
						for _, in := range b.Instrs {
							mu, ok := in.(*ssa.MapUpdate)
							if !ok {
								continue
							}
							for _, f := range FactsAt(b) {
								e, isE := f.Cond.(*ssa.Extract)
								if !isE || e.Index != 1 || f.Val {
									continue
								}
								lk, isL := e.Tuple.(*ssa.Lookup)
								if !isL || !lk.CommaOk || !SameValue(lk.X, mu.Map) {
									continue
								}
								n++
								if SameValue(lk.Index, mu.Key) {
									c.Site(mu.Pos(), "%s fills the memo under the key it looked up", FuncName(fn))
								} else {
									c.Violation("pair:memo-key:"+FuncName(fn), mu.Pos(), "%s looks a memo up by one key and fills it under another: the entry is never found again under its own key and is served to whoever asks with the other one", FuncName(fn))
								}
							}
						}
					}
				}
				if n == 0 {
					c.Site(token.NoPos, "no fill-on-miss memo in frac/processor (nothing to pair)")
				}
			}},
		{Prop: "C06", ID: "C06.6", Engine: "PAIR(parallel arrays)", Floor: 2,
			Desc: "one posting source per token, in the token's position: every implementation of tokenIndex.GetLIDsFromTIDs writes into its result (append, or a store at an index) on every iteration of the loop that does it — the aggregation numbers its sources by position in that slice and SourcedNodeIterator.ValueBySource resolves tids[source]; a token skipped because it has no postings in the range shifts every later source onto the wrong token (wrong group label, wrong numeric value), on active fractions and partial time ranges only",
			Check: func(c *Ctx) {
				n := 0
				for _, fn := range c.P.Funcs {
					if !c.P.InRepo(fn) || fn.Blocks == nil || fn.Signature.Recv() == nil || fn.Name() != "GetLIDsFromTIDs" {
						continue
					}
					n++
					isNodeSlice := func(t types.Type) bool {
						sl, ok := t.Underlying().(*types.Slice)
						return ok && strings.HasSuffix(TypeStr(sl.Elem()), "node.Node")
					}
					writes := 0
					for _, b := range fn.Blocks {
						for _, in := range b.Instrs {
							var at ssa.Instruction
							switch x := in.(type) {
							case *ssa.Call:
								if CallName(x) == "builtin.append" && isNodeSlice(x.Type()) {
									at = x
								}
							case *ssa.Store:
								if ia, ok := x.Addr.(*ssa.IndexAddr); ok && isNodeSlice(ia.X.Type()) {
									at = x
								}
							}
							if at == nil {
								continue
							}
							writes++
							inLoop, every := EveryIteration(at)
							switch {
							case !inLoop:
								c.Site(at.Pos(), "%s: result written outside a loop", FuncName(fn))
							case every:
								c.Site(at.Pos(), "%s: a posting source is written on every iteration", FuncName(fn))
							default:
								c.Violation("pair:sources-parallel:"+FuncName(fn), at.Pos(), "%s skips the write of a token's posting source on some iteration: the returned nodes are no longer parallel to tids, and every later source of an aggregation is resolved to the wrong token", FuncName(fn))
							}
						}
					}
					if writes == 0 {
						c.Undecided("pair:sources-parallel:nowrite:"+FuncName(fn), fn.Pos(), "%s: cannot see where the result slice is filled", FuncName(fn))
					}
				}
				if n == 0 {
					c.Undecided("pair:sources-parallel:noimpl", 0, "no GetLIDsFromTIDs implementation found")
				}
			}},
		{Prop: "C06", ID: "C06.7", Engine: "PROV(per element)", Floor: 1,
			Desc: "each aggregation is binned by its own interval: the time extractor handed to evalAgg is built, inside the loop over the request's aggregations, from the Interval of the query of that iteration — one extractor shared by all (built from the first non-zero interval, say) splits a plain aggregation into time bins and bins a second time series by the first one's interval; merging and the proxy carry the wrong bins on faithfully",
			Check: func(c *Ctx) {
				fn := c.Fn("frac/processor.IndexSearch")
				if fn == nil {
					return
				}
				calls := c.P.FindLifted(fn, CallSel(Callee("frac/processor.evalAgg")))
				if len(calls) == 0 {
					c.Undecided("prov:agg-interval:nocall", fn.Pos(), "IndexSearch no longer calls evalAgg")
				}
				for _, lc := range calls {
					call := lc.Call()
					l := InnermostLoop(call.(ssa.Instruction).Block())
					var ext ssa.Value
					for _, a := range call.Common().Args {
						if _, isFunc := a.Type().Underlying().(*types.Signature); isFunc {
							ext = a
						}
					}
					if ext == nil {
						c.Undecided("prov:agg-interval:noarg", call.Pos(), "evalAgg no longer receives a time extractor")
						continue
					}
					if l == nil {
						c.Site(call.Pos(), "evalAgg is called outside a loop (one aggregation)")
						continue
					}
					own := DerivesFrom(ext, func(v ssa.Value) bool {
						in, isIn := v.(ssa.Instruction)
						return isIn && ValueIsField(v, "frac/processor.AggQuery", "Interval") && in.Parent() == call.Parent() && l.Blocks[in.Block()]
					})
					if own {
						c.Site(call.Pos(), "the time extractor is built from the Interval of this iteration's query")
					} else {
						c.Violation("prov:agg-interval:shared", call.Pos(), "the time extractor given to evalAgg is not built from the Interval of the aggregation of this iteration (it is loop-invariant or comes from elsewhere): aggregations with different intervals in one request are binned alike")
					}
				}
			}},
		{Prop: "C06", ID: "C06.4", Engine: "ENUM+DIV", Floor: 1,
			Desc: "switch coverage: processor.evalAgg, seq's aggregate computation and proxyapi.validateAgg handle every aggregation function; the time-bin modulo of provideExtractTimeFunc runs only for interval > 0",
			Check: func(c *Ctx) {
				uni := c.P.EnumConsts("seq", "AggFunc")
				if len(uni) == 0 {
					if tp := c.P.TypesPkg("seq"); tp != nil {
						for _, n := range tp.Scope().Names() {
							if k, ok := tp.Scope().Lookup(n).(*types.Const); ok && strings.HasPrefix(n, "AggFunc") {
								if v, ok := constInt64(k); ok {
									uni[n] = v
								}
							}
						}
					}
				}
				isAggFunc := func(v ssa.Value) bool {
					return strings.HasSuffix(TypeStr(v.Type()), "seq.AggFunc") || strings.HasSuffix(TypeStr(v.Type()), ".AggFunc")
				}
				for _, name := range []string{"frac/processor.evalAgg", "(*seq.AggregatableSamples).getAggBucket"} {
					fn := c.P.Func(name)
					if fn == nil {
						continue
					}
					cov := c.P.SwitchCoverageLifted(fn, isAggFunc)
					var missing []string
					for n, k := range uni {
						if !cov[k] {
							missing = append(missing, n)
						}
					}
					sort.Strings(missing)
					if len(missing) == 0 {
						c.Site(fn.Pos(), "%s handles all %d aggregation functions", name, len(uni))
					} else {
						c.Violation("enum:"+name+":aggfunc", fn.Pos(), "%s does not handle %v", name, missing)
					}
				}
				if fn := c.Fn("frac/processor.provideExtractTimeFunc"); fn != nil {
					n := 0
					for _, f := range WithClosures(fn) {
						for _, d := range c.P.DivSites(f) {
							n++
							if d.Proof != "" {
								c.Site(d.Op.Pos(), "time-bin modulo: divisor non-zero (%s)", d.Proof)
							} else {
								c.Violation("div:provideExtractTimeFunc", d.Op.Pos(), "the time-bin modulo can run with interval == 0")
							}
						}
					}
					if n == 0 {
						c.Undecided("div:provideExtractTimeFunc:none", fn.Pos(), "no modulo found in provideExtractTimeFunc")
					}
				}
			}},
	}
}
