package props

import (
	"fmt"
	"go/token"
	"go/types"
	"sort"
	"strings"

	"golang.org/x/tools/go/ssa"

	. "seqverif/internal/kit"
)

func init() {
	register(&PropInfo{
		ID:          "C03",
		Title:       "Answers do not depend on fraction form: active = sealed = reloaded = any cache",
		Explanation: "The sealed index is written by one set of functions and read by another. Decided: (1) CODEC — for every frozen writer/reader pair the wire signature extracted from the typed syntax tree (fixed-width and varint primitives, loops, named fields) is equal after normalisation; header accessors of IndexBlockHeader and DocBlock use the same offset and width in getter and setter and do not overlap; bit-packing pairs (PackDocPos/Unpack, LID block ext words) use the same shift and mask; (2) the section order written by writeSealedFraction equals the order read by Loader.Load and TableLoader.load, every multi-block section ends with an empty block, the ids triple is flushed in the order of the reader's +0/+1/+2 block indices; (3) each cache of IndexCache is filled by exactly one loader function; (4) NewSealedPreloaded and Loader.Load assign the same set of Sealed table fields; (5) cache keys are lossless; (6) data handed from pooled writers to the sealed fraction is copied. NOT decided: LID re-assignment, block splitting at borders, token-table entry selection, continuation logic (IsContinued, HasTIDInNextBlock) — all value-level.",
		Assumptions: []string{"primitives recognised by CODEC are the packer and encoding/binary calls; byte-slice copies (BYTES) are not compared", "pair table frozen in c03.go from reading both sides"},
		Obs:         c03,
	})
}

type codecPair struct{ name, enc, dec string }

var codecPairs = []codecPair{
	{"token table entry", "(*frac/token.TableEntry).Pack", ""},
	{"token table block", "(frac.DiskTokenTableBlock).pack", "(*frac/token.TableLoader).load"},
	{"tokens block", "(*frac.DiskTokensBlock).pack", "(*frac/token.Block).unpack"},
	{"positions block", "(*frac.DiskPositionsBlock).pack", "(*frac.Loader).loadIDs"},
	{"mids block", "(*frac.DiskIDsBlock).packMIDs", "frac.unpackRawIDsVarint"},
	{"pos block", "(*frac.DiskIDsBlock).packPos", "frac.unpackRawIDsVarint"},
	{"rids block", "(*frac.DiskIDsBlock).packRIDs", "frac.unpackRawIDsNoVarint"},
	{"lids chunks", "(*frac/lids.Chunks).Pack", "(*frac/lids.Chunks).unpack"},
}

func c03() []*Ob {
	return []*Ob{
		{Prop: "C03", ID: "C03.15", Engine: "ORDER+LOCK(publish)", Floor: 2,
			Desc:  "a reloaded sealed fraction answers like the freshly sealed one from its first request on: Sealed.load sets isLoaded only after Loader.Load has returned, and both run with loadMu held — with the flag set first and the load moved out of the lock, a second request that arrives during the first one's load sees 'loaded' and works on empty tables",
			Check: func(c *Ctx) { loadedMeansLoaded(c) }},
		{Prop: "C03", ID: "C03.13", Engine: "OWN(copy out of scratch)", Floor: 2,
			Desc:  "a cached block is not a window into a reused buffer: lids.Chunks.unpack assigns the slice fields of the Chunks (which goes into the LIDs cache) only copies — never the scratch buffer the loader hands in, or a sub-slice of it. A 'zero-copy' hand-over of a block that is one big chunk leaves the cache entry pointing into memory that the loader refills with the next block: cold caches answer right, warm caches wrong",
			Check: func(c *Ctx) { decodedOwnsItsMemory(c) }},
		{Prop: "C03", ID: "C03.14", Engine: "PROV(per element)", Floor: 1,
			Desc:  "each token's iterator starts in the block looked up for that token: every value sealedTokenIndex.GetLIDsFromTIDs stores into its table of start blocks is the result of a call that receives the tid of that position — not the neighbour's entry read back from the table. 'Neighbouring tids share a block' holds for the first-block lookup (descending) and fails for the last-block lookup (ascending) when the token's postings continue into later blocks: the continuation is never visited, in ascending order only",
			Check: func(c *Ctx) { startBlockPerTID(c) }},
		{Prop: "C03", ID: "C03.11", Engine: "PAIR(two sites)", Floor: 1,
			Desc:  "a field's lowest token is read back as it was written: the token table loader takes FieldData.MinVal from entry 0, or — if it takes the first non-empty one — the writer gives a MinVal to the first entry of a field only. With both relaxed, a field whose lowest token is the empty string gets the second block's first token as its minimum in the reloaded table, and hints below it select nothing",
			Check: func(c *Ctx) { fieldMinValIsFirstEntrys(c) }},
		{Prop: "C03", ID: "C03.12", Engine: "PAIR(two sites)", Floor: 1,
			Desc:  "a decoded flag that is consumed is encoded from the same flag: nothing outside the codec reads lids.Chunks.IsLastLID, or — if an iterator does — Chunks.Pack writes the end marker from that flag. With both relaxed, a token whose postings fill a LIDs block exactly has no marker, the iterator goes on into the next block and the sealed search panics where the active one answers",
			Check: func(c *Ctx) { consumedChunkFlagIsEncoded(c) }},
		{Prop: "C03", ID: "C03.10", Engine: "PROV(no-truncation)+ALIAS", Floor: 3,
			Desc:  "the token table that is read back from the index file selects the same dictionary blocks as the one built at sealing: the block bounds written by TableEntry.Pack and restored by the table loader are the whole first/last tokens, copied (shared rule with C13.9) — a bound cut to a default token size on the way to disk makes the reloaded (restarted, or evicted and re-read) form of a fraction miss tokens that the active and the freshly sealed form find",
			Check: func(c *Ctx) { tableBoundsWhole(c) }},
		{Prop: "C03", ID: "C03.1", Engine: "CODEC", Floor: 5,
			Desc: "writer and reader of every on-disk table agree: equal wire signatures (widths, order, loop nesting, field identity where both sides name the field) for the frozen encoder/decoder pairs of the sealed index",
			Check: func(c *Ctx) {
				for _, pr := range codecPairs {
					enc := c.Fn(pr.enc)
					if enc == nil {
						continue
					}
					es := NormalizeSig(c.P.WireSig(enc, "enc"), true)
					if len(es) == 0 {
						c.Undecided("codec-empty:"+pr.enc, enc.Pos(), "no wire primitive recognised in encoder %s", pr.enc)
						continue
					}
					if pr.dec == "" {
						c.Site(enc.Pos(), "%s: encoder signature [%s]", pr.name, SigString(es))
						continue
					}
					dec := c.Fn(pr.dec)
					if dec == nil {
						continue
					}
					ds := NormalizeSig(c.P.WireSig(dec, "dec"), true)
					if len(ds) == 0 {
						c.Undecided("codec-empty:"+pr.dec, dec.Pos(), "no wire primitive recognised in decoder %s", pr.dec)
						continue
					}
					if ok, why := SigEqual(es, ds); ok {
						c.Site(enc.Pos(), "%s: %s [%s] == %s [%s]", pr.name, pr.enc, SigString(es), pr.dec, SigString(ds))
					} else {
						c.Violation("codec:"+pr.name, dec.Pos(), "%s: writer %s emits [%s] but reader %s consumes [%s] (%s): a sealed or reloaded fraction decodes different values than the active one holds", pr.name, pr.enc, SigString(es), pr.dec, SigString(ds), why)
					}
				}
				// registry header: two u64 written at offset 0 <-> two u64 read
				if w := c.Fn("(*disk.BlocksWriter).WriteBlocksRegistry"); w != nil {
					if r := c.Fn("(*disk.IndexReader).readRegistry"); r != nil {
						es := NormalizeSig(c.P.WireSig(w, "enc"), false)
						ds := NormalizeSig(c.P.WireSig(r, "dec"), false)
						if ok, why := SigEqual(es, ds); ok && len(es) == 2 {
							c.Site(w.Pos(), "registry locator: writer [%s] == reader [%s]", SigString(es), SigString(ds))
						} else {
							c.Violation("codec:registry locator", r.Pos(), "registry locator: writer emits [%s], reader consumes [%s] %s", SigString(es), SigString(ds), why)
						}
					}
				}
				// the version that selects the non-varint RID decoder is what NewInfo sets
				if ni := c.P.Func("frac.NewInfo"); ni != nil {
					ok := false
					for _, st := range InstrsIn(ni, FieldStore("frac.Info", "BinaryDataVer")) {
						if k, isK := ConstInt(st.(*ssa.Store).Val); isK && k >= 1 {
							ok = true
							c.Site(st.Pos(), "NewInfo marks new fractions with BinaryDataVer=%d (fixed-width RIDs)", k)
						}
					}
					if !ok {
						c.Violation("codec:rid-version", ni.Pos(), "NewInfo no longer sets the binary data version that selects the fixed-width RID decoder while packRIDs writes fixed-width RIDs")
					}
				}
			}},
		{Prop: "C03", ID: "C03.1b", Engine: "CODEC(header)", Floor: 6,
			Desc: "header accessors: for disk.IndexBlockHeader and disk.DocBlock every getter reads the same offset and width its setter writes, fields do not overlap and stay inside the header length; seq.PackDocPos and DocPos.Unpack use the same shift/mask; the LID block registry words are split with the shift/mask they were joined with",
			Check: func(c *Ctx) {
				for _, typ := range []string{"disk.IndexBlockHeader", "disk.DocBlock"} {
					type acc struct {
						off, width int64
						fn         string
						pos        token.Pos
					}
					get, set := map[string]acc{}, map[string]acc{}
					for _, fn := range c.P.FuncsInPkg("disk") {
						name := FuncName(fn)
						if !strings.HasPrefix(name, "("+typ+").") {
							continue
						}
						m := strings.TrimPrefix(name, "("+typ+").")
						off, width, write, ok := headerAccess(fn)
						if !ok {
							continue
						}
						key := strings.TrimPrefix(strings.TrimPrefix(m, "Set"), "Get")
						a := acc{off, width, name, fn.Pos()}
						if write {
							set[key] = a
						} else {
							get[key] = a
						}
					}
					var keys []string
					for k := range set {
						keys = append(keys, k)
					}
					sort.Strings(keys)
					for _, k := range keys {
						s := set[k]
						g, ok := get[k]
						if !ok {
							continue
						}
						if g.off == s.off && g.width == s.width {
							c.Site(s.pos, "%s.%s: getter and setter use offset %d width %d", typ, k, s.off, s.width)
						} else {
							c.Violation("codec:header:"+typ+"."+k, g.pos, "%s: %s reads offset %d width %d but %s writes offset %d width %d", typ, g.fn, g.off, g.width, s.fn, s.off, s.width)
						}
					}
					// overlap
					for i, a := range keys {
						for _, b := range keys[i+1:] {
							x, y := set[a], set[b]
							if x.off < y.off+y.width && y.off < x.off+x.width {
								c.Violation("codec:header-overlap:"+typ+"."+a+"/"+b, x.pos, "%s: fields %s [%d,%d) and %s [%d,%d) overlap", typ, a, x.off, x.off+x.width, b, y.off, y.off+y.width)
							}
						}
					}
					if len(keys) < 4 {
						c.Undecided("codec:header:"+typ, token.NoPos, "only %d setter/getter pairs recognised for %s", len(keys), typ)
					}
				}
				// bit packing pairs
				bitPair := func(name, enc, dec string) {
					e, d := c.Fn(enc), c.Fn(dec)
					if e == nil || d == nil {
						return
					}
					es, ds := shiftMaskConsts(e), shiftMaskConsts(d)
					if len(es) == 0 {
						c.Undecided("codec:bits:"+name, e.Pos(), "no shift constant found in %s", enc)
						return
					}
					okAll := true
					for k := range es {
						if strings.HasPrefix(k, "shift:") {
							if !ds[k] {
								okAll = false
								c.Violation("codec:bits:"+name+":"+k, d.Pos(), "%s: %s joins with %s but %s does not split with the same shift", name, enc, k, dec)
							}
						}
					}
					if okAll {
						c.Site(e.Pos(), "%s: shifts %v used by both %s and %s", name, keysOf(es), enc, dec)
					}
				}
				bitPair("DocPos", "seq.PackDocPos", "(seq.DocPos).Unpack")
				bitPair("LID block ext", "(*frac/lids.Block).GetExtForRegistry", "(*frac.Loader).loadLIDsBlocksTable")
			}},
		{Prop: "C03", ID: "C03.2", Engine: "ORDER+PAIR", Floor: 10,
			Desc: "section order: writeSealedFraction writes info < tokens < token table < positions < ids < lids < registry, the order in which Loader.Load (skipTokens, loadIDs, loadLIDsBlocksTable) and TableLoader.load read; multi-block sections end with an empty block; the ids triple is flushed as MIDs, RIDs, Pos, matching the reader's +0/+1/+2 block indices",
			Check: func(c *Ctx) {
				if fn := c.Fn("frac.writeSealedFraction"); fn != nil {
					seq := []string{"writeInfoBlock", "writeTokensBlocks", "writeTokenTableBlocks", "writePositionsBlock", "writeIDsBlocks", "writeLIDsBlocks", "WriteRegistryBlock"}
					for i := 0; i+1 < len(seq); i++ {
						MustPrecede(c, fn, Callee("(*frac.DiskBlocksWriter)."+seq[i]), seq[i], Callee("(*frac.DiskBlocksWriter)."+seq[i+1]), seq[i+1])
					}
				}
				if fn := c.Fn("(*frac.Loader).Load"); fn != nil {
					MustPrecede(c, fn, Callee("(*frac.Loader).skipTokens"), "skipTokens (tokens, token table)", Callee("(*frac.Loader).loadIDs"), "loadIDs (positions, ids)")
					MustPrecede(c, fn, Callee("(*frac.Loader).loadIDs"), "loadIDs", Callee("(*frac.Loader).loadLIDsBlocksTable"), "loadLIDsBlocksTable")
				}
				if fn := c.Fn("(*frac.Loader).skipTokens"); fn != nil {
					runs, singles, unknown := skipRuns(c.P, fn, 3)
					if unknown != "" {
						c.Undecided("order:skipTokens:shape", fn.Pos(), "cannot count the block runs skipTokens walks: %s", unknown)
					} else if runs == 2 && singles == 0 {
						c.Site(fn.Pos(), "skipTokens skips exactly two empty-terminated runs (tokens, token table)")
					} else {
						c.Violation("order:skipTokens:runs", fn.Pos(), "skipTokens walks %d block runs and %d single blocks; the writer emits two runs (tokens, token table) before the positions block", runs, singles)
					}
				}
				empty := Callee("(*disk.BlocksWriter).WriteEmptyBlock")
				for _, it := range []struct {
					fn   string
					want bool
				}{
					{"writeTokensBlocks", true}, {"writeTokenTableBlocks", true}, {"writeIDsBlocks", true}, {"writeLIDsBlocks", true},
					{"writeInfoBlock", false}, {"writePositionsBlock", false},
				} {
					fn := c.Fn("(*frac.DiskBlocksWriter)." + it.fn)
					if fn == nil {
						continue
					}
					// the terminator may be written by the function itself or by a private helper that always writes it
					calls := CallsIn(fn, c.P.MustCall(empty))
					if !it.want {
						calls = CallsIn(fn, c.P.MayCall(empty))
					}
					if it.want {
						ok := len(calls) == 1
						if ok {
							// on every success return
							for _, rp := range ReturnPaths(fn, ErrorResultIndex(fn)) {
								if DefinitelyNonNil(rp.Val, rp.Facts) {
									continue
								}
								if !(calls[0].(ssa.Instruction).Block() == rp.At || calls[0].(ssa.Instruction).Block().Dominates(rp.At)) {
									ok = false
								}
							}
						}
						if ok {
							c.Site(fn.Pos(), "%s terminates its section with exactly one empty block on every success path", it.fn)
						} else {
							c.Violation("order:"+it.fn+":empty-terminator", fn.Pos(), "%s does not end its section with exactly one empty block on every success path (the readers stop at the empty block)", it.fn)
						}
					} else if len(calls) == 0 {
						c.Site(fn.Pos(), "%s writes a single block without terminator (the readers read exactly one)", it.fn)
					} else {
						c.Violation("order:"+it.fn+":unexpected-terminator", fn.Pos(), "%s writes an empty block although the readers expect exactly one block for this section", it.fn)
					}
				}
				// ids triple order vs reader indices
				if fn := c.Fn("(*frac.DiskBlocksWriter).writeIDsBlocks"); fn != nil {
					var push *ssa.Function
					for _, a := range fn.AnonFuncs {
						if Current.HasCall(a, Callee("(*frac.DiskIDsBlock).packMIDs")) {
							push = a
						}
					}
					if push == nil {
						c.Undecided("order:writeIDsBlocks:push", fn.Pos(), "cannot find the push closure that packs the ids triple")
					} else {
						MustPrecede(c, push, Callee("(*frac.DiskIDsBlock).packMIDs"), "packMIDs", Callee("(*frac.DiskIDsBlock).packRIDs"), "packRIDs")
						MustPrecede(c, push, Callee("(*frac.DiskIDsBlock).packRIDs"), "packRIDs", Callee("(*frac.DiskIDsBlock).packPos"), "packPos")
						// a flush between consecutive packs
						fl := CallsIn(push, Callee("(*disk.BlockFormer).FlushForced"))
						if len(fl) == 3 {
							c.Site(push.Pos(), "each part of the triple is flushed as its own block (3 flushes)")
						} else {
							c.Violation("order:writeIDsBlocks:three-flushes", push.Pos(), "the ids triple is flushed %d times; the reader addresses MIDs, RIDs and Pos as three consecutive blocks", len(fl))
						}
					}
				}
				want := map[string]int64{"midBlockIndex": 0, "ridBlockIndex": 1, "paramsBlockIndex": 2}
				for name, add := range want {
					fn := c.Fn("(*frac.IDsLoader)." + name)
					if fn == nil {
						continue
					}
					got := int64(0)
					mul := int64(0)
					for _, b := range fn.Blocks {
						for _, in := range b.Instrs {
							if bo, ok := in.(*ssa.BinOp); ok {
								if k, isK := ConstInt(bo.Y); isK {
									if bo.Op == token.ADD {
										got = k
									}
									if bo.Op == token.MUL {
										mul = k
									}
								}
							}
						}
					}
					if got == add && mul == 3 {
						c.Site(fn.Pos(), "%s = start + index*3 + %d", name, add)
					} else {
						c.Violation("pair:"+name, fn.Pos(), "%s computes start + index*%d + %d; the writer flushes MIDs, RIDs, Pos as blocks +0, +1, +2 of each triple", name, mul, got)
					}
				}
				// loaders use their own block-index function
				for _, it := range []struct{ loader, idx string }{{"loadMIDBlock", "midBlockIndex"}, {"loadRIDBlock", "ridBlockIndex"}, {"loadParamsBlock", "paramsBlockIndex"}} {
					fn := c.Fn("(*frac.IDsLoader)." + it.loader)
					if fn == nil {
						continue
					}
					for _, rd := range CallsIn(fn, Callee("(*disk.IndexReader).ReadIndexBlock")) {
						ok := DerivesFrom(Arg(rd, 0), func(v ssa.Value) bool {
							cl, isC := v.(ssa.CallInstruction)
							return isC && CallName(cl) == "(*frac.IDsLoader)."+it.idx
						})
						if ok {
							c.Site(rd.Pos(), "%s reads block %s(index)", it.loader, it.idx)
						} else {
							c.Violation("pair:"+it.loader, rd.Pos(), "%s does not read the block addressed by %s", it.loader, it.idx)
						}
					}
				}
			}},
		{Prop: "C03", ID: "C03.3", Engine: "PAIR(cache<->loader)", Floor: 4,
			Desc: "each cache of frac.IndexCache is filled by exactly one loader: MIDs<-loadMIDBlock, RIDs<-loadRIDBlock, Params<-loadParamsBlock, LIDs<-lids loader, Tokens<-token block loader, TokenTable<-TableLoader.load (or the preloaded table), Registry<-readRegistry",
			Check: func(c *Ctx) {
				want := map[string][]string{
					"MIDs":       {"(*frac.IDsLoader).loadMIDBlock"},
					"RIDs":       {"(*frac.IDsLoader).loadRIDBlock"},
					"Params":     {"(*frac.IDsLoader).loadParamsBlock"},
					"TokenTable": {"(*frac/token.TableLoader).load", "preloaded"},
				}
				get := Callee("(*cache.Cache).Get", "(*cache.Cache).GetWithError")
				seen := map[string]bool{}
				for _, fn := range c.P.FuncsInPkg("frac") {
					for _, call := range CallsIn(fn, get) {
						recv := Receiver(call)
						var field string
						DerivesFrom(recv, func(v ssa.Value) bool {
							if t, f, _, ok := FieldOf(v); ok && t == "frac.IndexCache" {
								field = f
								return true
							}
							if u, ok := v.(*ssa.UnOp); ok {
								if t, f, _, ok := FieldOf(u.X); ok && t == "frac.IndexCache" {
									field = f
									return true
								}
							}
							return false
						})
						if field == "" {
							continue
						}
						loaders, tabled := want[field]
						if !tabled {
							continue
						}
						seen[field] = true
						// the loader closure calls the expected function
						cb := Arg(call, 1)
						okL := false
						switch x := cb.(type) {
						case *ssa.MakeClosure:
							if cf, ok := x.Fn.(*ssa.Function); ok {
								for _, l := range loaders {
									if Current.HasCall(cf, Callee(l)) {
										okL = true
									}
									if l == "preloaded" && FuncName(fn) == "frac.NewSealedPreloaded" {
										okL = true
									}
								}
							}
						case *ssa.Function:
							for _, l := range loaders {
								if FuncName(x) == l {
									okL = true
								}
							}
						}
						if okL {
							c.Site(call.Pos(), "%s: IndexCache.%s is filled by %v", FuncName(fn), field, loaders)
						} else {
							c.Violation("pair:cache:"+field+":"+FuncName(fn), call.Pos(), "%s fills IndexCache.%s with something other than %v: another reader of that cache gets a value of a different kind", FuncName(fn), field, loaders)
						}
					}
				}
				for f := range want {
					if !seen[f] && f != "TokenTable" {
						c.Undecided("pair:cache:"+f, token.NoPos, "no Get on IndexCache.%s found in package frac", f)
					}
				}
				// token table loader goes through the token-table cache it was constructed with
				if fn := c.Fn("(*frac/token.TableLoader).Load"); fn != nil {
					for _, call := range CallsIn(fn, get) {
						if f, ok := Arg(call, 1).(*ssa.MakeClosure); ok {
							_ = f
						}
						if DerivesFrom(Arg(call, 1), func(v ssa.Value) bool {
							if mc, ok := v.(*ssa.MakeClosure); ok {
								v = mc.Fn
							}
							fv, ok := v.(*ssa.Function)
							return ok && strings.Contains(fv.String(), "TableLoader).load")
						}) {
							c.Site(call.Pos(), "TableLoader.Load fills its cache with TableLoader.load")
						} else {
							c.Violation("pair:cache:TokenTable:TableLoader.Load", call.Pos(), "TableLoader.Load no longer fills the token-table cache with TableLoader.load")
						}
					}
				}
				if fn := c.Fn("(*frac.Sealed).createDataProvider"); fn != nil {
					// loaders are constructed with the matching cache field
					for _, it := range []struct{ ctor, field string }{{"frac/lids.NewLoader", "LIDs"}, {"frac/token.NewBlockLoader", "Tokens"}, {"frac/token.NewTableLoader", "TokenTable"}} {
						for _, call := range CallsIn(fn, Callee(it.ctor)) {
							ok := false
							for _, a := range call.Common().Args {
								if DerivesFrom(a, func(v ssa.Value) bool { return ValueIsField(v, "frac.IndexCache", it.field) }) {
									ok = true
								}
							}
							if ok {
								c.Site(call.Pos(), "%s is given IndexCache.%s", it.ctor, it.field)
							} else {
								c.Violation("pair:cache:"+it.field+":ctor", call.Pos(), "%s is not constructed with IndexCache.%s", it.ctor, it.field)
							}
						}
					}
				}
			}},
		{Prop: "C03", ID: "C03.4", Engine: "FIELDS+ALIAS", Floor: 4,
			Desc: "two ways to the same tables: NewSealedPreloaded and Loader.Load assign the same Sealed table fields (idsTable, lidsTable, BlocksOffsets); what sealing hands to the preloaded fraction from pooled writers (block offsets, positions) is a copy, not the pooled buffer",
			Check: func(c *Ctx) {
				fields := []string{"idsTable", "lidsTable", "BlocksOffsets"}
				for _, name := range []string{"frac.NewSealedPreloaded", "(*frac.Loader).Load"} {
					fn := c.Fn(name)
					if fn == nil {
						continue
					}
					for _, f := range fields {
						if Current.Has(fn, FieldStore("frac.Sealed", f)) {
							c.Site(fn.Pos(), "%s assigns Sealed.%s", name, f)
						} else {
							c.Violation("fields:"+name+":"+f, fn.Pos(), "%s does not assign Sealed.%s, which the other construction path assigns: a preloaded and a reloaded fraction would answer from different tables", name, f)
						}
					}
				}
				pooledTablesNotKept(c)
				if fn := c.Fn("frac.writeSortedDocs"); fn != nil {
					for _, b := range fn.Blocks {
						ret, ok := b.Instrs[len(b.Instrs)-1].(*ssa.Return)
						if !ok || len(ret.Results) < 4 {
							continue
						}
						for idx, what := range map[int]string{1: "BlockOffsets", 2: "Positions"} {
							v := RetOperand(ret, idx)
							if IsNilConst(v) {
								continue
							}
							pooled := DerivesFromNoCall(v, func(x ssa.Value) bool {
								return ValueIsField(x, "frac.docBlocksWriter", what)
							})
							if pooled {
								c.Violation("alias:writeSortedDocs:"+what, ret.Pos(), "writeSortedDocs returns the pooled docBlocksWriter.%s itself: the next sealing overwrites the tables of the fraction that was just sealed (only the freshly sealed, not the reloaded, fraction is affected)", what)
							} else {
								c.Site(ret.Pos(), "writeSortedDocs returns a copy of docBlocksWriter.%s", what)
							}
						}
					}
				}
			}},
		{Prop: "C03", ID: "C03.7", Engine: "SIBLING(mirror)", Floor: 3,
			Desc: "the two posting-list iterators of a sealed fraction are mirror images: IteratorAsc walks towards lower LID blocks (blockIndex--) and IteratorDesc towards higher ones (blockIndex++); narrowLIDsRange may end the walk (tryNextBlock = false) only on a comparison with the bound that lies ahead in the direction of the walk (minLID for Asc, maxLID for Desc) — ending it on the other bound drops every posting stored in the remaining blocks",
			Check: func(c *Ctx) {
				for _, it := range []struct {
					typ, far, near string
					step           token.Token
				}{
					{"IteratorAsc", "minLID", "maxLID", token.SUB},
					{"IteratorDesc", "maxLID", "minLID", token.ADD},
				} {
					load := c.Fn("(*frac/lids." + it.typ + ").loadNextLIDsChunk")
					nr := c.Fn("(*frac/lids." + it.typ + ").narrowLIDsRange")
					if load == nil || nr == nil {
						continue
					}
					// direction of the walk
					dirOK := false
					for _, l := range c.P.FindLifted(load, func(in ssa.Instruction) bool {
						st, ok := in.(*ssa.Store)
						if !ok {
							return false
						}
						fa, ok := st.Addr.(*ssa.FieldAddr)
						if !ok {
							return false
						}
						_, f, _, okf := FieldOf(fa)
						return okf && f == "blockIndex"
					}) {
						if bo, ok := l.In.(*ssa.Store).Val.(*ssa.BinOp); ok && bo.Op == it.step {
							dirOK = true
							c.Site(l.In.Pos(), "%s walks the blocks with blockIndex %s 1", it.typ, it.step)
						}
					}
					if !dirOK {
						c.Violation("sibling:"+it.typ+":direction", load.Pos(), "%s no longer moves blockIndex with %s: the mirror rule for its range cut cannot be applied", it.typ, it.step)
						continue
					}
					// a fact that says the bound ahead has been reached inside this block: for the iterator that walks towards higher
					// LIDs "far < x" or "far <= x" (x a LID of the block), for the one that walks towards lower LIDs "far > x" / "far >= x" —
					// whichever way the comparison is written and whichever branch of it is taken
					mentions := func(facts []Fact, field string) bool {
						isFar := func(v ssa.Value) bool {
							if u, ok := v.(*ssa.UnOp); ok && u.Op == token.MUL {
								if fa, ok := u.X.(*ssa.FieldAddr); ok {
									if _, fn, _, okf := FieldOf(fa); okf && fn == field {
										return true
									}
								}
							}
							return false
						}
						for _, f := range facts {
							bo, ok := f.Cond.(*ssa.BinOp)
							if !ok {
								continue
							}
							op := bo.Op
							switch {
							case isFar(bo.X):
							case isFar(bo.Y):
								switch op { // x OP far  ==>  far OP' x
								case token.LSS:
									op = token.GTR
								case token.LEQ:
									op = token.GEQ
								case token.GTR:
									op = token.LSS
								case token.GEQ:
									op = token.LEQ
								}
							default:
								continue
							}
							if !f.Val {
								switch op {
								case token.LSS:
									op = token.GEQ
								case token.LEQ:
									op = token.GTR
								case token.GTR:
									op = token.LEQ
								case token.GEQ:
									op = token.LSS
								default:
									continue
								}
							}
							if it.step == token.ADD && (op == token.LSS || op == token.LEQ) || it.step == token.SUB && (op == token.GTR || op == token.GEQ) {
								return true
							}
						}
						return false
					}
					// every origin of a false second result
					var origins func(fn *ssa.Function, v ssa.Value, facts []Fact, pos token.Pos, depth int, seen map[ssa.Value]bool)
					origins = func(fn *ssa.Function, v ssa.Value, facts []Fact, pos token.Pos, depth int, seen map[ssa.Value]bool) {
						if seen[v] || depth > 6 {
							return
						}
						seen[v] = true
						switch x := v.(type) {
						case *ssa.Const:
							if b, ok := ConstBool(x); ok && !b {
								if mentions(facts, it.far) {
									c.Site(pos, "%s ends the block walk on a comparison with %s", it.typ, it.far)
								} else {
									c.Violation("sibling:"+it.typ+":stops-on-wrong-bound", pos, "%s.narrowLIDsRange ends the block walk without a comparison with %s (the bound ahead of an iterator that moves with blockIndex %s 1): postings of the token in the remaining LID blocks are never read — totals, aggregations and ids of long posting lists are short", it.typ, it.far, it.step)
								}
							}
						case *ssa.Phi:
							for i, e := range x.Edges {
								origins(fn, e, FactsOnEdge(x.Block().Preds[i], x.Block()), x.Block().Preds[i].Instrs[len(x.Block().Preds[i].Instrs)-1].Pos(), depth+1, seen)
							}
						case *ssa.Extract:
							if call, ok := x.Tuple.(*ssa.Call); ok {
								if h := StaticCallee(call); h != nil && h.Blocks != nil && c.P.InRepo(h) {
									for _, b := range h.Blocks {
										if ret, ok := b.Instrs[len(b.Instrs)-1].(*ssa.Return); ok && x.Index < len(ret.Results) {
											origins(h, RetOperand(ret, x.Index), FactsAt(b), ret.Pos(), depth+1, seen)
										}
									}
								}
							}
						}
					}
					for _, b := range nr.Blocks {
						if ret, ok := b.Instrs[len(b.Instrs)-1].(*ssa.Return); ok && len(ret.Results) == 2 {
							origins(nr, RetOperand(ret, 1), FactsAt(b), ret.Pos(), 0, map[ssa.Value]bool{})
						}
					}
				}
			}},
		{Prop: "C03", ID: "C03.8", Engine: "DOM(evidence)", Floor: 1,
			Desc:  "the sealed id table answers position queries like the active one: sealedIDsIndex.LessOrEqual takes a block-table shortcut to true only from the full (MID, RID) comparison with the previous block's minimum, or after looking at the position's own MID (shared rule with C14.6 / C04.8 — an id present in the active fraction must be found in its sealed form)",
			Check: func(c *Ctx) { lessOrEqualEvidence(c) }},
		{Prop: "C03", ID: "C03.9", Engine: "INDEX", Floor: 1,
			Desc:  "an id that the active fraction finds is found in its sealed form: the position search of sealedFetchIndex.findLIDs checks the result of each binary search against a bound and never starts the next search behind the previous result (shared rule with C04.2)",
			Check: func(c *Ctx) { searchResultBoundChecked(c) }},
		{Prop: "C03", ID: "C03.6", Engine: "OWN(who-may-read)", Floor: 2,
			Desc: "the raw MinTIDs column of lids.Table is not comparable with a TID for continued blocks (MinTID is lastMaxTID+1 there); its elements and the IsContinued flags may be read only by GetAdjustedMinTID, through which every lookup (first/last block for a TID, chunk index, next-block test) must go",
			Check: func(c *Ctx) {
				n := 0
				for _, fn := range c.P.Funcs {
					for _, b := range fn.Blocks {
						for _, in := range b.Instrs {
							ia, ok := in.(*ssa.IndexAddr)
							if !ok {
								continue
							}
							for _, f := range []string{"MinTIDs", "IsContinued"} {
								if !ValueIsField(ia.X, "frac/lids.Table", f) {
									continue
								}
								n++
								top := fn
								for top.Parent() != nil {
									top = top.Parent()
								}
								if FuncName(top) == "(*frac/lids.Table).GetAdjustedMinTID" {
									c.Site(ia.Pos(), "Table.%s[i] read inside GetAdjustedMinTID", f)
								} else {
									c.Violation("own:lids.Table."+f+":"+FuncName(fn), ia.Pos(), "%s reads Table.%s[i] directly instead of GetAdjustedMinTID: for a block that continues the previous block's token the raw MinTID is one past that token, so the token's last block is missed (only with posting lists longer than one LID block)", FuncName(fn), f)
								}
							}
						}
					}
				}
				if n == 0 {
					c.Undecided("own:lids.Table:noreads", token.NoPos, "no element read of lids.Table.MinTIDs / IsContinued found")
				}
				// the lookups go through the accessor
				for _, name := range []string{"(*frac/lids.Table).GetLastBlockIndexForTID", "(*frac/lids.Table).HasTIDInNextBlock", "(*frac/lids.Table).GetChunkIndex", "(*frac/lids.Table).GetChunksCount"} {
					fn := c.Fn(name)
					if fn == nil {
						continue
					}
					if Current.HasCall(fn, Callee("(*frac/lids.Table).GetAdjustedMinTID")) {
						c.Site(fn.Pos(), "%s uses GetAdjustedMinTID", name)
					} else {
						c.Violation("own:lids.Table:accessor:"+name, fn.Pos(), "%s no longer goes through GetAdjustedMinTID", name)
					}
				}
			}},
		{Prop: "C03", ID: "C03.5", Engine: "KEY(PROV)", Floor: 3,
			Desc:  "lossless cache keys: the key passed to a block cache is not a narrowing conversion of a wider quantity (shared rule with C04.6)",
			Check: func(c *Ctx) { cacheKeyObligation(c) }},
	}
}

func keysOf(m map[string]bool) []string {
	var out []string
	for k := range m {
		out = append(out, k)
	}
	sort.Strings(out)
	return out
}

// headerAccess: the method reads/writes recv[off:] with a fixed width.
func headerAccess(fn *ssa.Function) (off, width int64, write, ok bool) {
	if len(fn.Params) == 0 || len(fn.Blocks) != 1 {
		return
	}
	recv := fn.Params[0]
	for _, in := range fn.Blocks[0].Instrs {
		switch x := in.(type) {
		case *ssa.Call:
			name := CallName(x)
			w := map[string]int64{"Uint16": 2, "Uint32": 4, "Uint64": 8}
			for suffix, n := range w {
				if strings.HasSuffix(name, "littleEndian)."+suffix) || strings.HasSuffix(name, "littleEndian).Put"+suffix) {
					args := x.Call.Args
					buf := args[len(args)-1]
					if strings.Contains(name, ".Put") {
						buf = args[len(args)-2]
						write = true
					}
					if sl, isS := stripConvs(buf).(*ssa.Slice); isS && stripConvs(sl.X) == ssa.Value(recv) && sl.Low != nil {
						if k, isK := ConstInt(sl.Low); isK {
							return k, n, write, true
						}
					}
				}
			}
		case *ssa.IndexAddr:
			if stripConvs(x.X) == ssa.Value(recv) {
				if k, isK := ConstInt(x.Index); isK {
					for _, r := range *x.Referrers() {
						if st, isSt := r.(*ssa.Store); isSt && st.Addr == ssa.Value(x) {
							return k, 1, true, true
						}
					}
					return k, 1, false, true
				}
			}
		}
	}
	return
}

// shiftMaskConsts collects "shift:N" for constant shifts in fn.
func shiftMaskConsts(fn *ssa.Function) map[string]bool {
	out := map[string]bool{}
	for _, b := range fn.Blocks {
		for _, in := range b.Instrs {
			if bo, ok := in.(*ssa.BinOp); ok && (bo.Op == token.SHL || bo.Op == token.SHR) {
				if k, isK := ConstInt(bo.Y); isK {
					out[fmt.Sprintf("shift:%d", k)] = true
				}
			}
		}
	}
	return out
}

// skipRuns counts what a section skipper walks: runs = loops that call
// Loader.skipBlock (an empty-terminated run of blocks), singles = skipBlock
// calls outside any loop that do not feed such a loop (the init call of a
// three-clause for is part of its loop's run). Calls of private helpers are
// expanded; a helper that skips blocks called from inside a loop cannot be counted.
func skipRuns(p *Prog, fn *ssa.Function, depth int) (runs, singles int, unknown string) {
	skip := Callee("(*frac.Loader).skipBlock")
	loops := map[*ssa.BasicBlock]bool{} // headers of loops with a skipBlock call
	var outside []ssa.CallInstruction
	for _, call := range CallsIn(fn, nil) {
		l := InnermostLoop(call.Block())
		if skip(call) {
			if l != nil {
				loops[l.Header] = true
			} else {
				outside = append(outside, call)
			}
			continue
		}
		callee := StaticCallee(call)
		if callee == nil || callee.Blocks == nil || !p.InRepo(callee) || depth == 0 || !p.HasCall(callee, skip) {
			continue
		}
		if l != nil {
			return 0, 0, "helper " + FuncName(callee) + " skips blocks and is called inside a loop of " + FuncName(fn)
		}
		r, s1, u := skipRuns(p, callee, depth-1)
		if u != "" {
			return 0, 0, u
		}
		runs += r
		singles += s1
	}
	runs += len(loops)
	for _, call := range outside {
		feeds := false
		if v, ok := call.(ssa.Value); ok {
			for _, r := range *v.Referrers() {
				if ph, ok := r.(*ssa.Phi); ok {
					if l := InnermostLoop(ph.Block()); l != nil && loops[l.Header] {
						feeds = true
					}
				}
			}
		}
		if !feeds {
			singles++
		}
	}
	return runs, singles, ""
}

// pooledTablesNotKept: nothing that sealing puts into the PreloadedData it returns (and that the freshly
// sealed fraction keeps) aliases a table of the pooled docBlocksWriter — whichever function builds it.
// A copy (slices.Clone, maps.Clone, append to a fresh slice, make+copy) cuts the derivation.
func pooledTablesNotKept(c *Ctx) {
	fn := c.Fn("frac.writeSealedFraction")
	if fn == nil {
		return
	}
	copies := func(v ssa.Value) bool {
		cl, ok := v.(*ssa.Call)
		if !ok {
			return false
		}
		switch CallName(cl) {
		case "slices.Clone", "maps.Clone", "bytes.Clone":
			return true
		case "builtin.append":
			// append(fresh, x...) copies x into fresh
			if len(cl.Call.Args) > 0 {
				if _, isMk := cl.Call.Args[0].(*ssa.MakeSlice); isMk {
					return true
				}
				if sl, isSl := cl.Call.Args[0].(*ssa.Slice); isSl {
					if _, isAlloc := sl.X.(*ssa.Alloc); isAlloc {
						return true
					}
				}
			}
		}
		return false
	}
	pooled := func(v ssa.Value) bool {
		return ValueIsField(v, "frac.docBlocksWriter", "BlockOffsets") || ValueIsField(v, "frac.docBlocksWriter", "Positions")
	}
	n := 0
	for _, l := range c.P.FindLifted(fn, func(in ssa.Instruction) bool {
		st, ok := in.(*ssa.Store)
		if !ok {
			return false
		}
		typ, _, _, okf := FieldOf(st.Addr)
		return okf && typ == "frac.PreloadedData" && isRefLikeType(st.Val.Type())
	}) {
		st := l.In.(*ssa.Store)
		_, field, _, _ := FieldOf(st.Addr)
		n++
		if DerivesFromStop(st.Val, pooled, copies) {
			c.Violation("alias:PreloadedData:"+field, st.Pos(), "the table stored into PreloadedData.%s is the pooled docBlocksWriter's own buffer (no copy on the way): the writer goes back to its pool when sealing returns, and the next sealing overwrites the table of the fraction that was just sealed (the reloaded form is not affected)", field)
		} else {
			c.Site(st.Pos(), "PreloadedData.%s does not alias a pooled writer table", field)
		}
	}
	if n == 0 {
		c.Undecided("alias:PreloadedData:none", fn.Pos(), "writeSealedFraction no longer fills a PreloadedData")
	}
}

func isRefLikeType(t types.Type) bool {
	switch t.Underlying().(type) {
	case *types.Slice, *types.Map:
		return true
	}
	return false
}
