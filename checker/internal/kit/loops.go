package kit

import (
	"golang.org/x/tools/go/ssa"
)

// Loop is a natural loop: the header and the blocks of its body (header included).
type Loop struct {
	Header *ssa.BasicBlock
	Blocks map[*ssa.BasicBlock]bool
}

// Loops returns the natural loops of fn, one per header (back edges with the
// same header are merged).
func Loops(fn *ssa.Function) []*Loop {
	byHeader := map[*ssa.BasicBlock]*Loop{}
	var out []*Loop
	for _, p := range fn.Blocks {
		for _, h := range p.Succs {
			if !(h == p || h.Dominates(p)) {
				continue
			}
			l := byHeader[h]
			if l == nil {
				l = &Loop{Header: h, Blocks: map[*ssa.BasicBlock]bool{h: true}}
				byHeader[h] = l
				out = append(out, l)
			}
			stack := []*ssa.BasicBlock{p}
			for len(stack) > 0 {
				x := stack[len(stack)-1]
				stack = stack[:len(stack)-1]
				if l.Blocks[x] {
					continue
				}
				l.Blocks[x] = true
				stack = append(stack, x.Preds...)
			}
		}
	}
	return out
}

// InnermostLoop returns the smallest natural loop containing b, or nil.
func InnermostLoop(b *ssa.BasicBlock) *Loop {
	var best *Loop
	for _, l := range Loops(b.Parent()) {
		if l.Blocks[b] && (best == nil || len(l.Blocks) < len(best.Blocks)) {
			best = l
		}
	}
	return best
}

// Contains reports whether every block of m is a block of l.
func (l *Loop) Contains(m *Loop) bool {
	for b := range m.Blocks {
		if !l.Blocks[b] {
			return false
		}
	}
	return true
}

// EarlyExits returns the CFG edges that leave the loop from a block other than
// its header (break, return, goto out of the body).
func (l *Loop) EarlyExits() [][2]*ssa.BasicBlock {
	var out [][2]*ssa.BasicBlock
	for _, b := range l.Header.Parent().Blocks {
		if !l.Blocks[b] || b == l.Header {
			continue
		}
		for _, s := range b.Succs {
			if !l.Blocks[s] {
				out = append(out, [2]*ssa.BasicBlock{b, s})
			}
		}
	}
	return out
}

// ReturnsFrom lists the Return instructions reachable from block b (b included).
func ReturnsFrom(b *ssa.BasicBlock) []*ssa.Return {
	seen := map[*ssa.BasicBlock]bool{}
	var out []*ssa.Return
	stack := []*ssa.BasicBlock{b}
	for len(stack) > 0 {
		x := stack[len(stack)-1]
		stack = stack[:len(stack)-1]
		if seen[x] {
			continue
		}
		seen[x] = true
		if len(x.Instrs) > 0 {
			if r, ok := x.Instrs[len(x.Instrs)-1].(*ssa.Return); ok {
				out = append(out, r)
			}
		}
		stack = append(stack, x.Succs...)
	}
	return out
}

// RangeLoopOfGlobal: the innermost loop of fn that indexes the slice loaded
// from the package-level variable named global (`for .. := range pkg.Global`),
// or nil.
func RangeLoopOfGlobal(fn *ssa.Function, global string) *Loop {
	for _, b := range fn.Blocks {
		for _, in := range b.Instrs {
			var x ssa.Value
			switch ia := in.(type) {
			case *ssa.IndexAddr:
				x = ia.X
			case *ssa.Index:
				x = ia.X
			default:
				continue
			}
			if DerivesFromNoCall(x, func(v ssa.Value) bool {
				g, ok := v.(*ssa.Global)
				return ok && g.Name() == global
			}) {
				if l := InnermostLoop(b); l != nil {
					return l
				}
			}
		}
	}
	return nil
}

// EveryIteration: in is inside a loop and runs on every iteration of its innermost loop (every back edge of
// that loop is dominated by it). inLoop is false when the instruction is in no loop.
func EveryIteration(in ssa.Instruction) (inLoop, every bool) {
	l := InnermostLoop(in.Block())
	if l == nil {
		return false, false
	}
	for _, pr := range l.Header.Preds {
		if l.Blocks[pr] && !Dominates(in, pr.Instrs[len(pr.Instrs)-1]) {
			return true, false
		}
	}
	return true, true
}
