package props

import (
	"fmt"
	"go/types"
	"sort"

	. "seqverif/internal/kit"
)

// LockStats prints, per struct field of types that own a mutex, how many
// accesses happen under which of the struct's mutexes. Discovery aid only:
// rows that arm a check are confirmed by reading and frozen in the tables.
func LockStats(p *Prog, pkgs []string) {
	for _, rel := range pkgs {
		tp := p.TypesPkg(rel)
		if tp == nil {
			continue
		}
		names := tp.Scope().Names()
		sort.Strings(names)
		for _, n := range names {
			tn, ok := tp.Scope().Lookup(n).(*types.TypeName)
			if !ok {
				continue
			}
			named, ok := tn.Type().(*types.Named)
			if !ok {
				continue
			}
			mus := MutexFields(named)
			if len(mus) == 0 {
				continue
			}
			typ := rel + "." + n
			type stat struct{ r, w map[string]int }
			stats := map[string]*stat{}
			for _, fn := range p.Funcs {
				accs := FieldAccesses(fn, func(t, f string) bool { return t == typ })
				if len(accs) == 0 {
					continue
				}
				li := Locksets(fn, nil)
				for _, a := range accs {
					isMu := false
					for _, m := range mus {
						if m == a.Field {
							isMu = true
						}
					}
					if isMu {
						continue
					}
					s := stats[a.Field]
					if s == nil {
						s = &stat{r: map[string]int{}, w: map[string]int{}}
						stats[a.Field] = s
					}
					under := "none"
					if FreshBase(a.Base) {
						under = "ctor"
					} else {
						for _, m := range mus {
							if h := li.Held(a.Instr, a.BasePath+"."+m); h > 0 {
								under = fmt.Sprintf("%s/%d", m, h)
							}
						}
					}
					if under == "none" {
						under = "none@" + FuncName(fn)
					}
					if a.Write {
						s.w[under]++
					} else {
						s.r[under]++
					}
				}
			}
			fmt.Printf("== %s mutexes=%v\n", typ, mus)
			var fs []string
			for f := range stats {
				fs = append(fs, f)
			}
			sort.Strings(fs)
			for _, f := range fs {
				fmt.Printf("   %-18s R%v W%v\n", f, stats[f].r, stats[f].w)
			}
		}
	}
}
