package kit

import (
	"fmt"
	"go/constant"
	"go/token"
	"go/types"
	"sort"

	"golang.org/x/tools/go/ssa"
)

// FINITE: conditional constant propagation with input partitioning.
//
// Some functions compute a decision from a handful of small-domain inputs
// (booleans, enum constants) and otherwise only move opaque values around. For
// such a function the analysis enumerates the finite input partition, and for
// each cell propagates constants through the SSA form (branches on known
// conditions are followed, unknown ones forked), keeping opaque values as
// symbols and memory as a map from access paths to abstract values. The result
// is, per cell, the set of (results, final memory) the function can produce —
// a decision table recovered from the code, which the rule then compares with
// the table the property demands. Nothing is executed: unknown instructions
// produce Unknown, and an Unknown that reaches a decision makes the rule
// undecided rather than guessed.

// AbsKind classifies an abstract value.
type AbsKind int

const (
	AUnknown AbsKind = iota
	ABool
	AInt
	ASym  // an opaque value with a name (identity comparable)
	ARef  // a pointer/slice value denoting the object at Path
	AAddr // the address of the cell at Path
	ATuple
)

// AbsVal is an abstract value of the FINITE domain.
type AbsVal struct {
	Kind  AbsKind
	B     bool
	I     int64
	Name  string   // ASym: symbol; ARef/AAddr: path
	Elems []AbsVal // ATuple
}

func (v AbsVal) String() string {
	switch v.Kind {
	case ABool:
		return fmt.Sprint(v.B)
	case AInt:
		return fmt.Sprint(v.I)
	case ASym:
		return "$" + v.Name
	case ARef:
		return "&obj(" + v.Name + ")"
	case AAddr:
		return "&" + v.Name
	case ATuple:
		return fmt.Sprint(v.Elems)
	}
	return "?"
}

func Bool(b bool) AbsVal       { return AbsVal{Kind: ABool, B: b} }
func Int(i int64) AbsVal       { return AbsVal{Kind: AInt, I: i} }
func Sym(n string) AbsVal      { return AbsVal{Kind: ASym, Name: n} }
func Ref(p string) AbsVal      { return AbsVal{Kind: ARef, Name: p} }
func Tuple(e ...AbsVal) AbsVal { return AbsVal{Kind: ATuple, Elems: e} }

// FEState is the abstract state on one path.
type FEState struct {
	Env   map[ssa.Value]AbsVal
	Mem   map[string]AbsVal
	Calls map[string]int // per callee name: how many calls were modelled on this path
	Notes []string       // why something became unknown
}

func (s *FEState) clone() *FEState {
	n := &FEState{Env: make(map[ssa.Value]AbsVal, len(s.Env)), Mem: make(map[string]AbsVal, len(s.Mem)), Calls: make(map[string]int, len(s.Calls))}
	for k, v := range s.Env {
		n.Env[k] = v
	}
	for k, v := range s.Mem {
		n.Mem[k] = v
	}
	for k, v := range s.Calls {
		n.Calls[k] = v
	}
	n.Notes = append([]string{}, s.Notes...)
	return n
}

// FEConfig describes one cell of the input partition.
type FEConfig struct {
	Fn *ssa.Function
	// Params gives the abstract value of parameters by name (others are Ref(name) for pointers, Unknown else).
	Params map[string]AbsVal
	// Mem is the initial memory (access path -> value).
	Mem map[string]AbsVal
	// Call models a call: nth (0-based) call of this callee name on the path. ok=false leaves the result Unknown.
	Call func(name string, nth int, args []AbsVal, st *FEState) (res AbsVal, ok bool)
	// TypeAssert models `x.(T)` (commaok or not): returns the value and the ok flag.
	TypeAssert func(x AbsVal, t types.Type) (val AbsVal, okFlag AbsVal, handled bool)
	MaxPaths   int
}

// FEOutcome is one way the function can end in this cell.
type FEOutcome struct {
	Results []AbsVal
	Mem     map[string]AbsVal
	Notes   []string
	Panics  bool
	Pos     token.Pos
}

// FiniteEval explores fn for one cell. It returns an error when the path budget is exceeded.
func FiniteEval(cfg FEConfig) ([]FEOutcome, error) {
	fn := cfg.Fn
	if fn == nil || len(fn.Blocks) == 0 {
		return nil, fmt.Errorf("no body")
	}
	if cfg.MaxPaths == 0 {
		cfg.MaxPaths = 256
	}
	st := &FEState{Env: map[ssa.Value]AbsVal{}, Mem: map[string]AbsVal{}, Calls: map[string]int{}}
	for k, v := range cfg.Mem {
		st.Mem[k] = v
	}
	for _, p := range fn.Params {
		if v, ok := cfg.Params[p.Name()]; ok {
			st.Env[p] = v
		} else if isRefType(p.Type()) {
			st.Env[p] = Ref(p.Name())
		}
	}
	var out []FEOutcome
	paths := 0
	var run func(b, from *ssa.BasicBlock, st *FEState, steps int) error
	val := func(st *FEState, v ssa.Value) AbsVal {
		if c, ok := v.(*ssa.Const); ok {
			if c.Value == nil {
				return Sym("nil")
			}
			switch c.Value.Kind() {
			case constant.Bool:
				return Bool(constant.BoolVal(c.Value))
			case constant.Int:
				if i, ok := constant.Int64Val(c.Value); ok {
					return Int(i)
				}
			}
			return AbsVal{}
		}
		if a, ok := st.Env[v]; ok {
			return a
		}
		return AbsVal{}
	}
	load := func(st *FEState, addr AbsVal, t types.Type) AbsVal {
		if addr.Kind != AAddr {
			return AbsVal{}
		}
		if v, ok := st.Mem[addr.Name]; ok {
			return v
		}
		// an untouched cell: its content is an opaque object named by the path
		if isRefType(t) {
			return Ref(addr.Name)
		}
		return Sym(addr.Name)
	}
	run = func(b, from *ssa.BasicBlock, st *FEState, steps int) error {
		if steps > 400 {
			return fmt.Errorf("path too long in %s", FuncName(fn))
		}
		// phis first, all evaluated against the incoming state
		if from != nil {
			idx := -1
			for i, p := range b.Preds {
				if p == from {
					idx = i
				}
			}
			newVals := map[ssa.Value]AbsVal{}
			for _, in := range b.Instrs {
				ph, ok := in.(*ssa.Phi)
				if !ok {
					break
				}
				if idx >= 0 {
					newVals[ph] = val(st, ph.Edges[idx])
				}
			}
			for k, v := range newVals {
				st.Env[k] = v
			}
		}
		for _, in := range b.Instrs {
			switch x := in.(type) {
			case *ssa.Phi, *ssa.DebugRef:
			case *ssa.Alloc:
				st.Env[x] = AbsVal{Kind: AAddr, Name: "alloc:" + x.Name()}
			case *ssa.FieldAddr:
				base := val(st, x.X)
				_, f, _, _ := FieldOf(x)
				switch base.Kind {
				case ARef, AAddr:
					st.Env[x] = AbsVal{Kind: AAddr, Name: base.Name + "." + f}
				}
			case *ssa.Field:
				base := val(st, x.X)
				_, f, _, _ := FieldOf(x)
				if base.Kind == ARef {
					st.Env[x] = load(st, AbsVal{Kind: AAddr, Name: base.Name + "." + f}, x.Type())
				}
			case *ssa.IndexAddr:
				base := val(st, x.X)
				idx := val(st, x.Index)
				if (base.Kind == ARef || base.Kind == AAddr) && idx.Kind == AInt {
					st.Env[x] = AbsVal{Kind: AAddr, Name: fmt.Sprintf("%s[%d]", base.Name, idx.I)}
				}
			case *ssa.UnOp:
				switch x.Op {
				case token.MUL:
					st.Env[x] = load(st, val(st, x.X), x.Type())
				case token.NOT:
					if a := val(st, x.X); a.Kind == ABool {
						st.Env[x] = Bool(!a.B)
					}
				case token.SUB:
					if a := val(st, x.X); a.Kind == AInt {
						st.Env[x] = Int(-a.I)
					}
				}
			case *ssa.BinOp:
				a, c := val(st, x.X), val(st, x.Y)
				if r, ok := absBinOp(x.Op, a, c); ok {
					st.Env[x] = r
				}
			case *ssa.Store:
				addr := val(st, x.Addr)
				if addr.Kind != AAddr {
					st.Notes = append(st.Notes, "store through an unknown address at "+Current.Fset.Position(x.Pos()).String())
					// conservatively forget everything but allocs
					for k := range st.Mem {
						delete(st.Mem, k)
					}
					st.Mem["<havoc>"] = Bool(true)
					continue
				}
				st.Mem[addr.Name] = val(st, x.Val)
			case *ssa.ChangeType:
				st.Env[x] = val(st, x.X)
			case *ssa.Convert:
				st.Env[x] = val(st, x.X)
			case *ssa.MakeInterface:
				st.Env[x] = val(st, x.X)
			case *ssa.ChangeInterface:
				st.Env[x] = val(st, x.X)
			case *ssa.TypeAssert:
				if cfg.TypeAssert != nil {
					if v, okf, handled := cfg.TypeAssert(val(st, x.X), x.AssertedType); handled {
						if x.CommaOk {
							st.Env[x] = Tuple(v, okf)
						} else {
							if okf.Kind == ABool && !okf.B {
								out = append(out, FEOutcome{Panics: true, Pos: x.Pos(), Mem: st.Mem, Notes: st.Notes})
								return nil
							}
							st.Env[x] = v
						}
					}
				}
			case *ssa.Extract:
				if t := val(st, x.Tuple); t.Kind == ATuple && x.Index < len(t.Elems) {
					st.Env[x] = t.Elems[x.Index]
				}
			case *ssa.Call:
				name := CallName(x)
				var args []AbsVal
				for _, a := range x.Call.Args {
					args = append(args, val(st, a))
				}
				handled := false
				if cfg.Call != nil {
					if r, ok := cfg.Call(name, st.Calls[name], args, st); ok {
						st.Env[x] = r
						handled = true
					}
				}
				st.Calls[name]++
				if !handled {
					// an unmodelled call may write anything reachable: only builtins without effects are exempt
					if !pureBuiltin(name) {
						st.Notes = append(st.Notes, "unmodelled call "+name)
						for k := range st.Mem {
							delete(st.Mem, k)
						}
						st.Mem["<havoc>"] = Bool(true)
					}
				}
			case *ssa.Slice:
				st.Env[x] = val(st, x.X)
			case *ssa.If:
				c := val(st, x.Cond)
				if c.Kind == ABool {
					s := b.Succs[1]
					if c.B {
						s = b.Succs[0]
					}
					return run(s, b, st, steps+1)
				}
				paths++
				if paths > cfg.MaxPaths {
					return fmt.Errorf("more than %d paths in %s", cfg.MaxPaths, FuncName(fn))
				}
				// fork; record the assumption when the condition is a plain value
				s0 := st.clone()
				s0.Env[x.Cond] = Bool(true)
				if err := run(b.Succs[0], b, s0, steps+1); err != nil {
					return err
				}
				s1 := st.clone()
				s1.Env[x.Cond] = Bool(false)
				return run(b.Succs[1], b, s1, steps+1)
			case *ssa.Jump:
				return run(b.Succs[0], b, st, steps+1)
			case *ssa.Return:
				o := FEOutcome{Mem: st.Mem, Notes: st.Notes, Pos: x.Pos()}
				for i := range x.Results {
					o.Results = append(o.Results, val(st, RetOperand(x, i)))
				}
				out = append(out, o)
				return nil
			case *ssa.Panic:
				out = append(out, FEOutcome{Panics: true, Pos: x.Pos(), Mem: st.Mem, Notes: st.Notes})
				return nil
			default:
				// value-producing instruction we do not model: stays Unknown
			}
		}
		return nil
	}
	if err := run(fn.Blocks[0], nil, st, 0); err != nil {
		return nil, err
	}
	return out, nil
}

func pureBuiltin(name string) bool {
	switch name {
	case "builtin.len", "builtin.cap", "builtin.min", "builtin.max":
		return true
	}
	return false
}

func isRefType(t types.Type) bool {
	switch t.Underlying().(type) {
	case *types.Pointer, *types.Slice, *types.Map, *types.Interface:
		return true
	}
	return false
}

func absBinOp(op token.Token, a, b AbsVal) (AbsVal, bool) {
	if a.Kind == AInt && b.Kind == AInt {
		switch op {
		case token.EQL:
			return Bool(a.I == b.I), true
		case token.NEQ:
			return Bool(a.I != b.I), true
		case token.LSS:
			return Bool(a.I < b.I), true
		case token.LEQ:
			return Bool(a.I <= b.I), true
		case token.GTR:
			return Bool(a.I > b.I), true
		case token.GEQ:
			return Bool(a.I >= b.I), true
		case token.ADD:
			return Int(a.I + b.I), true
		case token.SUB:
			return Int(a.I - b.I), true
		}
	}
	if a.Kind == ABool && b.Kind == ABool {
		switch op {
		case token.EQL:
			return Bool(a.B == b.B), true
		case token.NEQ:
			return Bool(a.B != b.B), true
		case token.AND:
			return Bool(a.B && b.B), true
		case token.OR:
			return Bool(a.B || b.B), true
		case token.XOR:
			return Bool(a.B != b.B), true
		}
	}
	if (a.Kind == ASym || a.Kind == ARef) && (b.Kind == ASym || b.Kind == ARef) {
		// identity of opaque objects is only known when the names agree with "nil"
		if a.Name == "nil" && b.Name == "nil" {
			return Bool(op == token.EQL), op == token.EQL || op == token.NEQ
		}
	}
	return AbsVal{}, false
}

// MemKeys lists the paths of an outcome's memory, sorted.
func MemKeys(m map[string]AbsVal) []string {
	var out []string
	for k := range m {
		out = append(out, k)
	}
	sort.Strings(out)
	return out
}
