package kit

import (
	"fmt"
	"go/constant"
	"go/token"
	"sort"
	"strings"

	"golang.org/x/tools/go/ssa"
)

// ---------------------------------------------------------------------------
// FILESTATE part 1: extraction of ordered file-operation sequences from code.

// FileOp is one effect on a fraction's file set.
type FileOp struct {
	Kind string // "create" | "rename" | "remove"
	A, B string // suffixes (B only for rename)
	Fn   string
	Pos  token.Pos
}

func (o FileOp) String() string {
	if o.Kind == "rename" {
		return fmt.Sprintf("rename(%s->%s)", o.A, o.B)
	}
	return fmt.Sprintf("%s(%s)", o.Kind, o.A)
}

// OpSeq is one path: the ops in order and the configuration assumed on it.
type OpSeq struct {
	Ops    []FileOp
	Assume map[string]string
	Died   bool // the path ends in a fatal sink (process exit), not in a return
}

func (s OpSeq) Key() string {
	var ks []string
	for k, v := range s.Assume {
		ks = append(ks, k+"="+v)
	}
	sort.Strings(ks)
	var os []string
	for _, o := range s.Ops {
		os = append(os, o.String())
	}
	d := ""
	if s.Died {
		d = " !died"
	}
	return strings.Join(ks, ",") + " :: " + strings.Join(os, " ") + d
}

// CfgVar recognises a branch condition as a configuration variable:
// returns its name and the values on the true and false edges.
type CfgVar func(cond ssa.Value) (name, onTrue, onFalse string, ok bool)

type paramEnv struct {
	bind   map[*ssa.Parameter]ssa.Value
	parent *paramEnv
}

// FileOpExtractor walks function bodies symbolically.
type FileOpExtractor struct {
	P        *Prog
	Cfg      CfgVar
	Problems []string
	hasOps   map[*ssa.Function]bool
	MaxPaths int
	paths    int
}

func (x *FileOpExtractor) problem(format string, a ...any) {
	msg := fmt.Sprintf(format, a...)
	for _, p := range x.Problems {
		if p == msg {
			return
		}
	}
	x.Problems = append(x.Problems, msg)
}

var fileOpNames = map[string]bool{"os.Create": true, "os.OpenFile": true, "os.Rename": true, "os.Remove": true, "os.RemoveAll": true, "(*os.File).Truncate": true}

func (x *FileOpExtractor) containsOps(fn *ssa.Function, depth int) bool {
	if fn == nil || fn.Blocks == nil || !x.P.InRepo(fn) {
		return false
	}
	if x.hasOps == nil {
		x.hasOps = map[*ssa.Function]bool{}
	}
	if v, ok := x.hasOps[fn]; ok {
		return v
	}
	x.hasOps[fn] = false
	res := false
	for _, c := range CallsIn(fn, nil) {
		if fileOpNames[CallName(c)] {
			res = true
			break
		}
		if depth > 0 && x.containsOps(StaticCallee(c), depth-1) {
			res = true
			break
		}
	}
	x.hasOps[fn] = res
	return res
}

// Seqs returns the distinct op sequences of fn (success paths; configuration
// variables forked; failure branches of error checks skipped when they perform
// no file operation).
func (x *FileOpExtractor) Seqs(fn *ssa.Function) []OpSeq {
	if x.MaxPaths == 0 {
		x.MaxPaths = 20000
	}
	x.paths = 0
	raw := x.walkFn(fn, &paramEnv{}, map[string]string{}, 0)
	seen := map[string]bool{}
	var out []OpSeq
	for _, s := range raw {
		k := s.Key()
		if !seen[k] {
			seen[k] = true
			out = append(out, s)
		}
	}
	sort.Slice(out, func(i, j int) bool { return out[i].Key() < out[j].Key() })
	return out
}

// SeqsOfCall returns the op sequences performed by the callee of call, with
// its parameters bound to the call's arguments.
func (x *FileOpExtractor) SeqsOfCall(call ssa.CallInstruction) []OpSeq {
	callee := StaticCallee(call)
	if callee == nil || callee.Blocks == nil {
		return nil
	}
	if x.MaxPaths == 0 {
		x.MaxPaths = 20000
	}
	x.paths = 0
	cenv := &paramEnv{bind: map[*ssa.Parameter]ssa.Value{}, parent: &paramEnv{}}
	for pi, p := range callee.Params {
		if pi < len(call.Common().Args) {
			cenv.bind[p] = call.Common().Args[pi]
		}
	}
	return x.walkFn(callee, cenv, map[string]string{}, 1)
}

func copyAssume(m map[string]string) map[string]string {
	n := make(map[string]string, len(m)+1)
	for k, v := range m {
		n[k] = v
	}
	return n
}

func (x *FileOpExtractor) walkFn(fn *ssa.Function, env *paramEnv, assume map[string]string, depth int) []OpSeq {
	if depth > 6 {
		x.problem("inlining depth exceeded at %s", FuncName(fn))
		return []OpSeq{{Assume: assume}}
	}
	var results []OpSeq
	var dfs func(b *ssa.BasicBlock, idx int, onPath map[*ssa.BasicBlock]bool, cur OpSeq)
	dfs = func(b *ssa.BasicBlock, idx int, onPath map[*ssa.BasicBlock]bool, cur OpSeq) {
		if x.paths > x.MaxPaths {
			x.problem("path budget exceeded in %s", FuncName(fn))
			return
		}
		for i := idx; i < len(b.Instrs); i++ {
			in := b.Instrs[i]
			if IsFatalInstr(in) {
				// process dies here: the path ends with what was done so far
				x.paths++
				cur.Died = true
				results = append(results, cur)
				return
			}
			call, ok := in.(ssa.CallInstruction)
			if !ok {
				continue
			}
			if _, isGo := in.(*ssa.Go); isGo {
				continue
			}
			name := CallName(call)
			if fileOpNames[name] {
				if op, ok := x.opOf(call, name, env, fn); ok {
					cur = OpSeq{Ops: append(append([]FileOp{}, cur.Ops...), op), Assume: cur.Assume}
				}
				continue
			}
			callee := StaticCallee(call)
			if callee != nil && x.containsOps(callee, 6) {
				cenv := &paramEnv{bind: map[*ssa.Parameter]ssa.Value{}, parent: env}
				for pi, p := range callee.Params {
					if pi < len(call.Common().Args) {
						cenv.bind[p] = call.Common().Args[pi]
					}
				}
				subs := x.walkFn(callee, cenv, cur.Assume, depth+1)
				seenK := map[string]bool{}
				for _, s := range subs {
					k := s.Key()
					if seenK[k] {
						continue
					}
					seenK[k] = true
					next := OpSeq{Ops: append(append([]FileOp{}, cur.Ops...), s.Ops...), Assume: s.Assume}
					if s.Died {
						next.Died = true
						x.paths++
						results = append(results, next)
						continue
					}
					dfs(b, i+1, onPath, next)
				}
				return
			}
		}
		// terminator
		if len(b.Instrs) == 0 {
			return
		}
		switch t := b.Instrs[len(b.Instrs)-1].(type) {
		case *ssa.Return:
			x.paths++
			results = append(results, cur)
			return
		case *ssa.If:
			succs := []*ssa.BasicBlock{b.Succs[0], b.Succs[1]}
			if name, onT, onF, ok := x.Cfg(t.Cond); ok {
				for si, val := range []string{onT, onF} {
					if have, set := cur.Assume[name]; set && have != val {
						continue // contradicts the configuration assumed earlier on this path
					}
					as := copyAssume(cur.Assume)
					as[name] = val
					x.follow(succs[si], onPath, OpSeq{Ops: cur.Ops, Assume: as}, dfs)
				}
				return
			}
			// error check: follow only the success branch when the failure branch has no file ops
			if fail := errFailBranch(t); fail >= 0 {
				if !x.regionHasOps(succs[fail], b) {
					x.follow(succs[1-fail], onPath, cur, dfs)
					return
				}
			}
			x.follow(succs[0], onPath, cur, dfs)
			x.follow(succs[1], onPath, cur, dfs)
			return
		default:
			for _, s := range b.Succs {
				x.follow(s, onPath, cur, dfs)
			}
			if len(b.Succs) == 0 {
				x.paths++
				results = append(results, cur)
			}
		}
	}
	dfs(fn.Blocks[0], 0, map[*ssa.BasicBlock]bool{fn.Blocks[0]: true}, OpSeq{Assume: assume})
	return results
}

func (x *FileOpExtractor) follow(s *ssa.BasicBlock, onPath map[*ssa.BasicBlock]bool, cur OpSeq, dfs func(*ssa.BasicBlock, int, map[*ssa.BasicBlock]bool, OpSeq)) {
	if onPath[s] {
		return // back edge: one iteration is enough for ordering
	}
	onPath[s] = true
	dfs(s, 0, onPath, cur)
	delete(onPath, s)
}

// errFailBranch: cond is `e != nil` / `e == nil` on an error value; returns the
// index of the successor taken on failure, or -1.
func errFailBranch(t *ssa.If) int {
	f := normFact(Fact{Cond: t.Cond, Val: true})
	bo, ok := f.Cond.(*ssa.BinOp)
	if !ok || (bo.Op != token.EQL && bo.Op != token.NEQ) {
		return -1
	}
	var e ssa.Value
	switch {
	case IsNilConst(bo.Y):
		e = bo.X
	case IsNilConst(bo.X):
		e = bo.Y
	default:
		return -1
	}
	if !IsErrorType(e.Type()) {
		return -1
	}
	neq := bo.Op == token.NEQ
	if !f.Val {
		neq = !neq
	}
	if neq {
		return 0
	}
	return 1
}

func (x *FileOpExtractor) regionHasOps(start, from *ssa.BasicBlock) bool {
	if len(start.Preds) != 1 {
		return true // join block: cannot be attributed to the failure branch
	}
	fn := start.Parent()
	for _, b := range fn.Blocks {
		if b != start && !start.Dominates(b) {
			continue
		}
		for _, in := range b.Instrs {
			if c, ok := in.(ssa.CallInstruction); ok {
				if fileOpNames[CallName(c)] || x.containsOps(StaticCallee(c), 6) {
					return true
				}
			}
		}
	}
	return false
}

func (x *FileOpExtractor) opOf(call ssa.CallInstruction, name string, env *paramEnv, fn *ssa.Function) (FileOp, bool) {
	args := call.Common().Args
	where := FuncName(fn)
	switch name {
	case "os.Create":
		s, ok := x.suffixOf(args[0], env, 0)
		if !ok {
			x.problem("%s: cannot resolve the suffix of the file created at %s", where, x.P.Pos(call.Pos()))
			return FileOp{}, false
		}
		return FileOp{Kind: "create", A: s, Fn: where, Pos: call.Pos()}, true
	case "os.OpenFile":
		flags, isC := ConstInt(args[1])
		if !isC {
			x.problem("%s: non-constant open flags at %s", where, x.P.Pos(call.Pos()))
			return FileOp{}, false
		}
		if flags&0x40 == 0 { // O_CREAT on linux
			return FileOp{}, false
		}
		s, ok := x.suffixOf(args[0], env, 0)
		if !ok {
			x.problem("%s: cannot resolve the suffix of the file opened with O_CREATE at %s", where, x.P.Pos(call.Pos()))
			return FileOp{}, false
		}
		return FileOp{Kind: "create", A: s, Fn: where, Pos: call.Pos()}, true
	case "os.Remove", "os.RemoveAll":
		s, ok := x.suffixOf(args[0], env, 0)
		if !ok {
			x.problem("%s: cannot resolve the suffix of the file removed at %s", where, x.P.Pos(call.Pos()))
			return FileOp{}, false
		}
		return FileOp{Kind: "remove", A: s, Fn: where, Pos: call.Pos()}, true
	case "(*os.File).Truncate":
		s, ok := x.fileSuffix(args[0], env, 0)
		if !ok {
			x.problem("%s: cannot resolve which file is truncated at %s", where, x.P.Pos(call.Pos()))
			return FileOp{}, false
		}
		return FileOp{Kind: "truncate", A: s, Fn: where, Pos: call.Pos()}, true
	case "os.Rename":
		a, ok1 := x.suffixOf(args[0], env, 0)
		b, ok2 := x.suffixOf(args[1], env, 0)
		if !ok1 || !ok2 {
			x.problem("%s: cannot resolve the suffixes of the rename at %s", where, x.P.Pos(call.Pos()))
			return FileOp{}, false
		}
		return FileOp{Kind: "rename", A: a, B: b, Fn: where, Pos: call.Pos()}, true
	}
	return FileOp{}, false
}

func (e *paramEnv) lookup(p *ssa.Parameter) (ssa.Value, *paramEnv, bool) {
	for x := e; x != nil; x = x.parent {
		if v, ok := x.bind[p]; ok {
			return v, x.parent, true
		}
	}
	return nil, nil, false
}

// suffixOf resolves the file-name suffix (".docs") denoted by a string value.
func (x *FileOpExtractor) suffixOf(v ssa.Value, env *paramEnv, d int) (string, bool) {
	if d > 12 || v == nil {
		return "", false
	}
	switch t := v.(type) {
	case *ssa.Const:
		if t.Value != nil && t.Value.Kind() == constant.String {
			s := constant.StringVal(t.Value)
			if strings.HasPrefix(s, ".") {
				return s, true
			}
		}
		return "", false
	case *ssa.BinOp:
		if t.Op == token.ADD {
			if s, ok := x.suffixOf(t.Y, env, d+1); ok {
				return s, true
			}
		}
		return "", false
	case *ssa.Parameter:
		if val, penv, ok := env.lookup(t); ok {
			return x.suffixOf(val, penv, d+1)
		}
		return "", false
	case *ssa.Phi:
		res := ""
		for _, e := range t.Edges {
			s, ok := x.suffixOf(e, env, d+1)
			if !ok || (res != "" && s != res) {
				return "", false
			}
			res = s
		}
		return res, res != ""
	case *ssa.Call:
		name := CallName(t)
		if name == "(*os.File).Name" {
			return x.fileSuffix(t.Call.Args[0], env, d+1)
		}
		if name == "path/filepath.Join" || name == "path.Join" {
			// last element carries the suffix
			return "", false
		}
		return "", false
	}
	return "", false
}

// fileSuffix resolves the suffix of the name an *os.File value was opened with.
func (x *FileOpExtractor) fileSuffix(v ssa.Value, env *paramEnv, d int) (string, bool) {
	if d > 12 || v == nil {
		return "", false
	}
	switch t := v.(type) {
	case *ssa.Parameter:
		if val, penv, ok := env.lookup(t); ok {
			return x.fileSuffix(val, penv, d+1)
		}
		return "", false
	case *ssa.Extract:
		if c, ok := t.Tuple.(*ssa.Call); ok && t.Index == 0 {
			return x.fileFromCall(c, 0, env, d+1)
		}
	case *ssa.Call:
		return x.fileFromCall(t, 0, env, d+1)
	case *ssa.Phi:
		res := ""
		for _, e := range t.Edges {
			s, ok := x.fileSuffix(e, env, d+1)
			if !ok || (res != "" && s != res) {
				return "", false
			}
			res = s
		}
		return res, res != ""
	case *ssa.UnOp:
		if t.Op != token.MUL {
			return "", false
		}
		typ, field, _, ok := FieldOf(t.X)
		if !ok {
			return "", false
		}
		// field-opening sites: every store into typ.field in the repo
		res := ""
		n := 0
		for _, fn := range x.P.Funcs {
			for _, in := range InstrsIn(fn, FieldStore(typ, field)) {
				st := in.(*ssa.Store)
				if IsNilConst(st.Val) {
					continue
				}
				n++
				s, ok := x.fileSuffix(st.Val, &paramEnv{}, d+1)
				if !ok || (res != "" && s != res) {
					return "", false
				}
				res = s
			}
		}
		return res, n > 0 && res != ""
	}
	return "", false
}

func (x *FileOpExtractor) fileFromCall(c *ssa.Call, idx int, env *paramEnv, d int) (string, bool) {
	name := CallName(c)
	switch name {
	case "os.Create", "os.OpenFile", "os.Open":
		return x.suffixOf(c.Call.Args[0], env, d+1)
	}
	callee := StaticCallee(c)
	if callee == nil || callee.Blocks == nil || !x.P.InRepo(callee) {
		return "", false
	}
	cenv := &paramEnv{bind: map[*ssa.Parameter]ssa.Value{}, parent: env}
	for pi, p := range callee.Params {
		if pi < len(c.Call.Args) {
			cenv.bind[p] = c.Call.Args[pi]
		}
	}
	res := ""
	for _, rp := range ReturnPaths(callee, idx) {
		if IsNilConst(rp.Val) {
			continue
		}
		s, ok := x.fileSuffix(rp.Val, cenv, d+1)
		if !ok || (res != "" && s != res) {
			return "", false
		}
		res = s
	}
	return res, res != ""
}

// ---------------------------------------------------------------------------
// FILESTATE part 2: abstract file sets and the application of ops.

// FileSet is a set of suffixes.
type FileSet map[string]bool

func (s FileSet) Clone() FileSet {
	n := FileSet{}
	for k := range s {
		n[k] = true
	}
	return n
}

func (s FileSet) String() string {
	var ks []string
	for k := range s {
		ks = append(ks, k)
	}
	sort.Strings(ks)
	return "{" + strings.Join(ks, " ") + "}"
}

// Apply performs op; missing sources are tolerated (the code logs and goes on).
func (s FileSet) Apply(op FileOp) FileSet {
	n := s.Clone()
	switch op.Kind {
	case "create":
		n[op.A] = true
	case "remove":
		delete(n, op.A)
	case "rename":
		if n[op.A] {
			delete(n, op.A)
			n[op.B] = true
		}
	}
	return n
}
