package props

import (
	"fmt"
	"go/token"
	"go/types"
	"strings"

	"golang.org/x/tools/go/ssa"

	. "seqverif/internal/kit"
)

func init() {
	register(&PropInfo{
		ID:          "C10",
		Title:       "Bulk ingestion stores valid documents verbatim, timed by rule, or stores nothing",
		Explanation: "Decided: (1) ALIAS — the document slice handed to processor.Process (a view of the HTTP reader's buffer) reaches no mutating sink, is copied into the payload before the next line is read, and the tokenizers' in-place helpers never grow a slice view by append (which would overwrite the neighbouring bytes of the shared decoder buffer); (2) all-or-nothing — a reader error or a processing error other than 'not an object' makes processDocsToCompressor return an error, the pooled payload buffers are reset before use, and ProcessDocuments calls StoreDocuments exactly once, outside any loop, only after the whole body was processed without error; (3) the created-items count is incremented exactly once per appended document and is what the response loop iterates over; (4) the receive time replaces the document time only under documentDelayed(..) or when no time field parsed, extractDocTime tries every time field with every format, and the id is built from that time; (5) framing — an action line is skipped before every document line, an over-size line never yields a slice, the returned slice is capacity-limited. NOT decided: drift boundaries, the time parsers, behaviour at exact buffer sizes, JSON validity decisions of insane-json.",
		Assumptions: []string{"insane-json DecodeBytes copies its input", "bufio.Reader.ReadLine returns a view that is valid until the next read"},
		Obs:         c10,
	})
}

func c10() []*Ob {
	return []*Ob{
		{Prop: "C10", ID: "C10.12", Engine: "TYPESTATE(use after put)", Floor: 5,
			Desc:  "what is stored is what this bulk compressed: an object handed back to a pool is not used again by the same function, and a helper that hands its parameter back makes its caller's later uses (and the caller's own deferred hand-back: a second Put of the same object) uses after put (shared rule with C09.9) — a compressor put into the pool twice is handed to two parallel bulks, and one of them stores the other's documents under its own count",
			Check: shared("C09.9")},
		{Prop: "C10", ID: "C10.13", Engine: "SENTINEL(limit vs constant)", Floor: 1,
			Desc:  "a drift limit of zero means no drift: documentDelayed compares drift and futureDrift with the delay only, never with a constant — guarding a comparison with 'limit > 0' turns a configured 0 into 'check disabled', and a document dated in the future keeps its own time in the id",
			Check: func(c *Ctx) { limitHasOneMeaning(c) }},
		{Prop: "C10", ID: "C10.11", Engine: "WHO-MAY-CALL(truncating readers)", Floor: 1,
			Desc: "the request body is read to its end: on the ingest path (packages proxyapi and proxy/bulk) the body is not wrapped in a reader that ends early without an error — no (*gzip.Reader).Multistream(false) (a gzip body of several members, which RFC 1952 defines as one stream, would end after the first member), no io.LimitReader / io.LimitedReader / io.NewSectionReader / io.CopyN — the documents behind the cut are never seen, and the bulk is answered 200 with fewer items and no error",
			Check: func(c *Ctx) {
				n, calls := 0, 0
				for _, pk := range []string{"proxyapi", "proxy/bulk"} {
					for _, fn := range c.P.FuncsInPkg(pk) {
						for _, call := range CallsIn(fn, nil) {
							calls++
							switch name := CallName(call); {
							case strings.HasSuffix(name, "gzip.Reader).Multistream"): // compress/gzip or a drop-in replacement
								args := call.Common().Args
								if b, ok := ConstBool(args[len(args)-1]); !ok || !b {
									n++
									c.Violation("stream:"+FuncName(fn)+":Multistream(false)", call.Pos(), "%s switches the gzip reader to single-member mode: a body of several concatenated members ends after the first one, without an error", FuncName(fn))
								}
							case name == "io.LimitReader" || name == "io.NewSectionReader" || name == "io.CopyN":
								n++
								c.Violation("stream:"+FuncName(fn)+":"+CallName(call), call.Pos(), "%s reads the bulk through %s, which ends the stream silently at its limit", FuncName(fn), CallName(call))
							}
						}
						for _, b := range fn.Blocks {
							for _, in := range b.Instrs {
								if a, ok := in.(*ssa.Alloc); ok && strings.HasSuffix(a.Type().String(), "*io.LimitedReader") {
									n++
									c.Violation("stream:"+FuncName(fn)+":io.LimitedReader", a.Pos(), "%s builds an io.LimitedReader, which ends the stream silently at its limit", FuncName(fn))
								}
							}
						}
					}
				}
				c.Count("calls_scanned", calls)
				if n == 0 && calls > 0 {
					c.Site(token.NoPos, "no silently truncating reader on the ingest path (%d calls of proxyapi and proxy/bulk scanned)", calls)
				}
			}},
		{Prop: "C10", ID: "C10.10", Engine: "PAIR(two sites)", Floor: 1,
			Desc:  "the format with the strict parser is never tried with the lenient one: extractDocTime picks the dedicated parser by comparing the layout string, or — if it goes by position (first entry strict, the rest time.Parse) — the first entry of consts.TimeFormats is the ES format. With both relaxed, a comma-separated or over-long fraction that the strict parser rejects is accepted by time.Parse and the id carries it",
			Check: func(c *Ctx) { timeFormatByNameOrPosition(c) }},
		{Prop: "C10", ID: "C10.8", Engine: "TABLE(format ranges)", Floor: 1,
			Desc: "the hand-written parser of the \"2006-01-02 15:04:05\" format accepts what time.Parse accepts for it: the constant (from, to) ranges parseESTime checks its two-digit fields against are, as a multiset, month 1..12, day 1..31, hour 0..23 and twice 0..59 (minute, second) — a second field allowed up to 60 makes \"18:04:60\", which no supported format parses, a valid time that time.Date normalises to the next minute: the id carries an invented time instead of the receive time. The rule applies while parseESTime checks its fields through one range helper with constant bounds; a differently built parser is not judged by it",
			Check: func(c *Ctx) {
				fn := c.Fn("proxy/bulk.parseESTime")
				if fn == nil {
					return
				}
				got := map[[2]int64]int{}
				n := 0
				for _, f := range WithClosures(fn) {
					for _, call := range CallsIn(f, nil) {
						args := call.Common().Args
						if len(args) < 3 {
							continue
						}
						lo, ok1 := ConstInt(args[len(args)-2])
						hi, ok2 := ConstInt(args[len(args)-1])
						sl, isSlice := args[len(args)-3].(*ssa.Slice)
						if !ok1 || !ok2 || !isSlice || sl.Low == nil || sl.High == nil {
							continue
						}
						l, okl := ConstInt(sl.Low)
						h, okh := ConstInt(sl.High)
						if !okl || !okh || h-l != 2 {
							continue // only the two-digit fields
						}
						n++
						got[[2]int64{lo, hi}]++
					}
				}
				if n < 5 {
					c.Site(fn.Pos(), "parseESTime does not check its fields through a range helper with constant bounds (%d such calls): this rule does not apply", n)
					return
				}
				want := map[[2]int64]int{{1, 12}: 1, {1, 31}: 1, {0, 23}: 1, {0, 59}: 2}
				okAll := len(got) == len(want)
				for k, v := range want {
					if got[k] != v {
						okAll = false
					}
				}
				if okAll {
					c.Site(fn.Pos(), "parseESTime checks month 1..12, day 1..31, hour 0..23, minute and second 0..59")
				} else {
					c.Violation("table:parseESTime:ranges", fn.Pos(), "parseESTime checks its two-digit fields against %v, not against month 1..12, day 1..31, hour 0..23, minute 0..59, second 0..59: it accepts a time none of the supported formats denotes (or rejects one they accept)", got)
				}
			}},
		{Prop: "C10", ID: "C10.9", Engine: "LOOPS(until end of line)", Floor: 1,
			Desc: "an over-size line is skipped to its end: in esBulkDocReader.readDoc the ReadLine that discards the rest of a line sits in a loop that goes on while ReadLine still reports a prefix (isPrefix) — discarding one more buffer only leaves the tail of a line longer than twice the limit to be read as the next action line: the request is rejected, or the framing shifts and the neighbours of the over-size line are not stored",
			Check: func(c *Ctx) {
				fn := c.Fn("(*proxyapi.esBulkDocReader).readDoc")
				if fn == nil {
					return
				}
				rl := Callee("(*bufio.Reader).ReadLine")
				// the discarding loop may sit in readDoc or in a private helper it calls
				hosts := []*ssa.Function{fn}
				for _, call := range CallsIn(fn, nil) {
					if h := StaticCallee(call); h != nil && h.Blocks != nil && c.P.InRepo(h) && len(CallsIn(h, rl)) > 0 {
						hosts = append(hosts, h)
					}
				}
				var calls []ssa.CallInstruction
				for _, h := range hosts {
					calls = append(calls, CallsIn(h, rl)...)
				}
				if len(calls) == 0 {
					c.Undecided("loops:readDoc:noreadline", fn.Pos(), "readDoc no longer reads with bufio.Reader.ReadLine")
					return
				}
				isPrefixOf := func(v ssa.Value) bool {
					return DerivesFrom(v, func(x ssa.Value) bool {
						e, ok := x.(*ssa.Extract)
						if !ok || e.Index != 1 {
							return false
						}
						cl, ok := e.Tuple.(ssa.CallInstruction)
						return ok && rl(cl)
					})
				}
				ok := false
				for _, call := range calls {
					for _, l := range Loops(call.Parent()) {
						if !l.Blocks[call.(ssa.Instruction).Block()] {
							continue
						}
						// the loop goes on while the line is not finished: some exit or continuation test of the loop is the prefix flag
						for b := range l.Blocks {
							if iff, isIf := b.Instrs[len(b.Instrs)-1].(*ssa.If); isIf && isPrefixOf(iff.Cond) {
								ok = true
							}
						}
					}
				}
				if ok {
					c.Site(calls[0].Pos(), "the rest of an over-size line is read away in a loop on the prefix flag")
				} else {
					c.Violation("loops:readDoc:skip-to-end-of-line", calls[0].Pos(), "readDoc does not read an over-size line away in a loop on ReadLine's prefix flag: a line longer than two buffers leaves a tail that is taken for the next line")
				}
			}},
		{Prop: "C10", ID: "C10.6", Engine: "PATHSIM(ACK)", Floor: 3,
			Desc:  "nothing is acknowledged that no store accepted: StoreDocuments, storeDocs and sendBulkToStores have no success return on a path whose last attempt failed or on which no attempt was made (shared rule with C09.3) — a bulk whose context ended between attempts would otherwise be answered 200 with every document 'created'",
			Check: shared("C09.3")},
		{Prop: "C10", ID: "C10.1", Engine: "ALIAS+ORDER", Floor: 2,
			Desc: "stored bytes are never handed to a mutator: Process' doc parameter and the slice returned by readNext reach no mutating sink; the document is copied into the payload buffer before the next readNext; functions of package tokenizer never append to a view of their input (in-place edits must stay inside the view)",
			Check: func(c *Ctx) {
				if fn := c.Fn("(*proxy/bulk.processor).Process"); fn != nil {
					var doc *ssa.Parameter
					for _, p := range fn.Params {
						if ParamName(p) == "doc" {
							doc = p
						}
					}
					if doc != nil {
						sinks := c.P.MutatingSinks(doc, 3)
						for i, s := range sinks {
							c.Violation(keyN("alias:Process:doc", i), s.Instr.Pos(), "the original document bytes (later stored verbatim) reach a mutating sink in Process: %s", s.How)
						}
						if len(sinks) == 0 {
							c.Site(fn.Pos(), "Process: the original document reaches no mutating sink")
						}
						// what is returned as the stored document is the input itself
						for _, b := range fn.Blocks {
							if ret, ok := b.Instrs[len(b.Instrs)-1].(*ssa.Return); ok && b != fn.Recover {
								v := RetOperand(ret, 0)
								if IsNilConst(v) {
									continue
								}
								if v == ssa.Value(doc) {
									c.Site(ret.Pos(), "Process returns the input bytes as the document to store")
								} else {
									c.Violation("prov:Process:returns-input", ret.Pos(), "Process returns something other than its input as the document to store: stored bytes would not be the ingested bytes")
								}
							}
						}
					}
				}
				if fn := c.Fn("(*proxy/bulk.Ingestor).processDocsToCompressor"); fn != nil {
					for _, rn := range CallsIn(fn, func(cl ssa.CallInstruction) bool { return CallName(cl) == "dynamic:readNext" }) {
						od := ResultN(rn, 0)
						if od == nil {
							continue
						}
						sinks := c.P.MutatingSinks(od, 3)
						// a line that is written to only after it was turned down (the skipped non-object that is shortened for the
						// log) is not a stored document: what matters is a write that the processing/storing of the same line can follow
						procCalls := CallsIn(fn, Callee("(*proxy/bulk.processor).Process"))
						harmful := 0
						for i, s := range sinks {
							stillUsed := len(procCalls) == 0 || s.Instr.Parent() != fn
							for _, pc := range procCalls {
								if followsWithoutRedefinition(s.Instr, pc.(ssa.Instruction), od) {
									stillUsed = true
								}
							}
							if !stillUsed {
								c.Site(s.Instr.Pos(), "the reader's line is written to only after it was rejected (%s)", s.How)
								continue
							}
							harmful++
							c.Violation(keyN("alias:processDocsToCompressor:doc", i), s.Instr.Pos(), "the line returned by the reader reaches a mutating sink: %s", s.How)
						}
						if harmful == 0 && len(sinks) == 0 {
							c.Site(rn.Pos(), "the reader's line reaches no mutating sink")
						}
					}
					// copy into binaryDocs happens in the same iteration as Process (before the next readNext)
					proc := CallsIn(fn, Callee("(*proxy/bulk.processor).Process"))
					for _, ap := range CallsIn(fn, Callee("builtin.append")) {
						if len(proc) == 0 {
							break
						}
						doc := ResultN(proc[0], 0)
						uses := false
						for _, a := range ap.Common().Args[1:] {
							if a == doc {
								uses = true
							}
						}
						if !uses {
							continue
						}
						if Dominates(proc[0].(ssa.Instruction), ap.(ssa.Instruction)) && InLoop(ap.(ssa.Instruction).Block()) {
							c.Site(ap.Pos(), "the document is copied into the payload in the iteration that read it")
						} else {
							c.Violation("order:processDocsToCompressor:copy-before-next-read", ap.Pos(), "the document is not copied into the payload in the same iteration that read it: the reader's buffer is reused by the next line")
						}
					}
				}
				// tokenizer: no append to a view of an input slice
				n := 0
				for _, fn := range c.P.FuncsInPkg("tokenizer") {
					for _, ap := range CallsIn(fn, Callee("builtin.append")) {
						dst := ap.Common().Args[0]
						if !isByteSlice(dst) {
							continue
						}
						fromParam := DerivesFromNoCall(dst, func(v ssa.Value) bool {
							p, ok := v.(*ssa.Parameter)
							return ok && isByteSlice(p)
						})
						if !fromParam {
							continue
						}
						if sl, ok := dst.(*ssa.Slice); ok && sl.Max != nil {
							continue
						}
						n++
						c.Violation("alias:tokenizer:append-to-view:"+FuncName(fn), ap.Pos(), "%s appends to (a sub-slice of) its input: the value is a view into the shared decoder buffer, so growing it overwrites the bytes that follow (the next word / next field)", FuncName(fn))
					}
				}
				if n == 0 {
					c.Site(token.NoPos, "no function of package tokenizer appends to a view of its input")
				}
			}},
		{Prop: "C10", ID: "C10.2", Engine: "ERRFLOW+ACK+ORDER", Floor: 5,
			Desc: "all-or-nothing: every error of readNext and Process except errNotAnObject makes processDocsToCompressor fail; pooled payload buffers are Reset before their first use; ProcessDocuments stores exactly once, outside loops, after processDocsToCompressor returned nil",
			Check: func(c *Ctx) {
				// every line that was read is decoded: no path from reading a line back to the loop head bypasses Process
				if fn := c.Fn("(*proxy/bulk.Ingestor).processDocsToCompressor"); fn != nil {
					procCalls := CallsIn(fn, Callee("(*proxy/bulk.processor).Process"))
					if len(procCalls) == 1 {
						pc := procCalls[0].(ssa.Instruction)
						if l := InnermostLoop(pc.Block()); l != nil {
							okAll := true
							for _, pr := range l.Header.Preds {
								if !l.Blocks[pr] {
									continue
								}
								if !Dominates(pc, pr.Instrs[len(pr.Instrs)-1]) {
									okAll = false
									c.Violation("order:processDocsToCompressor:line-not-decoded", pr.Instrs[len(pr.Instrs)-1].Pos(), "the bulk loop can go on to the next line without having passed the current one to Process: a line that is skipped by a cheaper test is neither stored nor able to fail the bulk (a malformed line must reject the request, a valid document must be stored)")
								}
							}
							if okAll {
								c.Site(pc.Pos(), "every iteration of the bulk loop decodes its line")
							}
						}
					}
				}
				fn := c.Fn("(*proxy/bulk.Ingestor).processDocsToCompressor")
				if fn != nil {
					ErrPathCheck(c, []*ssa.Function{fn}, nil)
					ErrFlowCheck(c, []*ssa.Function{fn}, nil)
					// the only tolerated processing error is errNotAnObject
					for _, is := range CallsIn(fn, Callee("errors.Is")) {
						if u, ok := is.Common().Args[1].(*ssa.UnOp); ok {
							if g, ok := u.X.(*ssa.Global); ok {
								if g.Name() == "errNotAnObject" {
									c.Site(is.Pos(), "only 'not an object' documents are skipped")
								} else {
									c.Violation("dom:processDocsToCompressor:tolerated-error:"+g.Name(), is.Pos(), "processDocsToCompressor tolerates %s in addition to errNotAnObject: an invalid document would be skipped instead of rejecting the request", g.Name())
								}
							}
						}
					}
					// Reset before use
					for _, g := range CallsIn(fn, Callee("(*sync.Pool).Get")) {
						buf := g.Value()
						var resets []ssa.CallInstruction
						for _, r := range CallsIn(fn, Callee("(*bytespool.Buffer).Reset")) {
							if DerivesFrom(Receiver(r), func(v ssa.Value) bool { return v == buf }) {
								resets = append(resets, r)
							}
						}
						uses := InstrsIn(fn, func(in ssa.Instruction) bool {
							st, ok := in.(*ssa.Store)
							if !ok {
								return false
							}
							t, f, base, okF := FieldOf(st.Addr)
							return okF && t == "bytespool.Buffer" && f == "B" && DerivesFrom(base, func(v ssa.Value) bool { return v == buf })
						})
						if len(uses) == 0 {
							continue
						}
						okAll := len(resets) > 0
						for _, u := range uses {
							dom := false
							for _, r := range resets {
								if Dominates(r.(ssa.Instruction), u) {
									dom = true
								}
							}
							if !dom {
								okAll = false
							}
						}
						if okAll {
							c.Site(g.Pos(), "pooled payload buffer is Reset before anything is appended to it")
						} else {
							c.Violation("order:processDocsToCompressor:reset-before-use", g.Pos(), "a pooled payload buffer is appended to without a Reset that dominates the append: documents of an earlier (rejected) request left in the buffer are stored with this request")
						}
					}
				}
				if pd := c.Fn("(*proxy/bulk.Ingestor).ProcessDocuments"); pd != nil {
					store := Callee("(proxy/bulk.StorageClient).StoreDocuments", "(*proxy/bulk.SeqDBClient).StoreDocuments")
					calls := CallsIn(pd, c.P.AckCall(store))
					if len(calls) == 1 && !InLoop(calls[0].(ssa.Instruction).Block()) && GuardedByNilErr(calls[0].(ssa.Instruction), Callee("(*proxy/bulk.Ingestor).processDocsToCompressor")) {
						c.Site(calls[0].Pos(), "one StoreDocuments call, outside loops, after the whole body was processed without error")
					} else {
						c.Violation("ack:ProcessDocuments:single-store", pd.Pos(), "ProcessDocuments does not store exactly once after processDocsToCompressor succeeded (%d call sites)", len(calls))
					}
				}
			}},
		{Prop: "C10", ID: "C10.3", Engine: "DOM+PROV", Floor: 1,
			Desc: "count: the created-items counter is incremented by one in the block that appends the document to the payload (not for skipped lines), processDocsToCompressor returns it, and writeBulkResponse emits one item per unit of the value ProcessDocuments returned",
			Check: func(c *Ctx) {
				fn := c.Fn("(*proxy/bulk.Ingestor).processDocsToCompressor")
				if fn == nil {
					return
				}
				proc := CallsIn(fn, Callee("(*proxy/bulk.processor).Process"))
				if len(proc) == 0 {
					c.Undecided("count:noProcess", fn.Pos(), "processDocsToCompressor no longer calls processor.Process")
					return
				}
				doc := ResultN(proc[0], 0)
				// where the processed document goes into the payload: the append itself, or the private helper
				// that does it (any call other than logging that receives the document)
				var appendDoc ssa.Instruction
				for _, call := range CallsIn(fn, nil) {
					if call == proc[0] {
						continue
					}
					isAppend := CallName(call) == "builtin.append"
					callee := StaticCallee(call)
					if !isAppend && (callee == nil || !c.P.InRepo(callee) || !c.P.HasCall(callee, Callee("builtin.append"))) {
						continue
					}
					for i, a := range call.Common().Args {
						if isAppend && i == 0 {
							continue
						}
						if a == doc && appendDoc == nil {
							appendDoc = call.(ssa.Instruction)
						}
					}
				}
				// the created-items counter is the integer the function returns; its increments are the +1 that reach the return
				var incs []*ssa.BinOp
				for _, b := range fn.Blocks {
					for _, in := range b.Instrs {
						bo, ok := in.(*ssa.BinOp)
						if !ok || bo.Op != token.ADD {
							continue
						}
						if k, isK := ConstInt(bo.Y); !isK || k != 1 {
							continue
						}
						reaches := false
						for _, rb := range fn.Blocks {
							if ret, isR := rb.Instrs[len(rb.Instrs)-1].(*ssa.Return); isR && len(ret.Results) > 0 {
								if DerivesFromNoCall(RetOperand(ret, 0), func(v ssa.Value) bool { return v == ssa.Value(bo) }) {
									reaches = true
								}
							}
						}
						if reaches {
							incs = append(incs, bo)
						}
					}
				}
				if appendDoc == nil || len(incs) != 1 {
					c.Violation("count:processDocsToCompressor:increment", fn.Pos(), "cannot find exactly one increment of total paired with the append of the document (increments: %d)", len(incs))
				} else if incs[0].Block() == appendDoc.Block() || incOnEveryIteration(appendDoc.Block(), incs[0].Block()) {
					c.Site(incs[0].Pos(), "total++ follows the append of the document on every path to the next iteration")
				} else {
					c.Violation("count:processDocsToCompressor:paired", incs[0].Pos(), "total is incremented in a different block than the one that appends the document: skipped or failed lines could be counted as created")
				}
				if h := c.Fn("(*proxyapi.BulkHandler).ServeHTTP"); h != nil {
					for _, w := range CallsIn(h, Callee("proxyapi.writeBulkResponse")) {
						fromProc := DerivesFrom(Arg(w, 2), func(v ssa.Value) bool {
							e, ok := v.(*ssa.Extract)
							if !ok || e.Index != 0 {
								return false
							}
							cl, ok := e.Tuple.(ssa.CallInstruction)
							return ok && strings.Contains(CallName(cl), "handleESBulkRequest")
						})
						if fromProc {
							c.Site(w.Pos(), "the response lists as many items as ProcessDocuments reported")
						} else {
							c.Violation("prov:ServeHTTP:total", w.Pos(), "the number of created items in the response does not come from the processed-documents count")
						}
					}
				}
			}},
		{Prop: "C10", ID: "C10.4", Engine: "DOM+PROV", Floor: 3,
			Desc: "time rule wiring: the id time is the document's own time unless documentDelayed(..) holds; extractDocTime tries every field of consts.TimeFields with every format of consts.TimeFormats (a field that does not parse does not end the search) and falls back to the request time",
			Check: func(c *Ctx) {
				if fn := c.Fn("(*proxy/bulk.processor).Process"); fn != nil {
					isReqTime := func(v ssa.Value) bool {
						p, ok := v.(*ssa.Parameter)
						return ok && p.Parent() == fn && ParamName(p) == "requestTime"
					}
					isDelayed := func(x ssa.Value) bool {
						cl, ok := x.(ssa.CallInstruction)
						return ok && CallName(cl) == "proxy/bulk.documentDelayed"
					}
					isDocTime := func(x ssa.Value) bool {
						cl, ok := x.(ssa.CallInstruction)
						return ok && CallName(cl) == "proxy/bulk.extractDocTime"
					}
					for _, n := range CallsIn(fn, Callee("seq.NewID")) {
						// the values the id time may be (an if/else in place, or the returns of an extracted helper)
						origins := c.P.Origins(Arg(n, 0), nil, 3, Callee("proxy/bulk.extractDocTime"))
						hasDoc, okAll := false, true
						var other ssa.Value
						for _, o := range origins {
							switch {
							case isReqTime(o.Val):
								if v, found := BoolFact(o.Facts, isDelayed); !(found && v) {
									okAll = false
								}
							case DerivesFrom(o.Val, isDocTime):
								hasDoc = true
							default:
								// neither this document's time nor the receive time: a remembered value, a field, a clock
								other = o.Val
							}
						}
						if other != nil {
							c.Violation("prov:Process:id-time-third-source", n.Pos(), "the id time can be %s, which is neither what extractDocTime found in this document nor the request's receive time (a time remembered from another document is keyed by less than the whole document)", AccessPath(other)+" ("+other.String()+")")
							continue
						}
						if !hasDoc || len(origins) < 2 {
							c.Violation("prov:Process:id-time", n.Pos(), "the id time is not chosen between the document time and the receive time")
							continue
						}
						if okAll {
							c.Site(n.Pos(), "receive time replaces the document time only under documentDelayed(..)")
						} else {
							c.Violation("dom:Process:receive-time-only-when-delayed", n.Pos(), "the receive time can replace the document's own time without documentDelayed(..) being true")
						}
					}
				}
				if fn := c.Fn("proxy/bulk.extractDocTime"); fn != nil {
					checkTimeSearch(c, fn)
				}
				// the drift is measured against the receive time of the request, not against the clock at processing time
				if fn := c.Fn("(*proxy/bulk.processor).Process"); fn != nil {
					for _, lc := range c.P.FindLifted(fn, CallSel(Callee("proxy/bulk.documentDelayed"))) {
						call := lc.Call()
						delay := Arg(call, 0)
						fromReq := c.P.DerivesFromIP(delay, func(v ssa.Value) bool {
							p, ok := v.(*ssa.Parameter)
							return ok && p.Parent() == fn && ParamName(p) == "requestTime"
						})
						fromClock := DerivesFrom(delay, func(v ssa.Value) bool {
							cl, ok := v.(ssa.CallInstruction)
							return ok && (CallName(cl) == "time.Now" || CallName(cl) == "time.Since" || CallName(cl) == "time.Until")
						})
						if fromReq && !fromClock {
							c.Site(call.Pos(), "the delay given to documentDelayed is measured from the request's receive time")
						} else {
							c.Violation("prov:Process:delay-from-receive-time", call.Pos(), "the delay given to documentDelayed is not (only) the distance between the document time and the request's receive time: measured against the clock at processing time, a document inside the allowed drift is re-stamped when the body arrives slowly, and one too far in the future keeps its time")
						}
					}
				}
			}},
		{Prop: "C10", ID: "C10.7", Engine: "ACK(reset)", Floor: 2,
			Desc: "the response lists exactly the created items: the buffer the bulk response is built in comes from bytespool, and a buffer taken from the pool is empty when it is handed out — in Pool.Acquire every returned value that comes from a sync.Pool (through getByIndex, whichever size class) has had Reset called on it on that path (a fresh allocation needs none); a pooled buffer handed out with its previous length puts stale bytes in front of the JSON of the response",
			Check: func(c *Ctx) {
				fn := c.Fn("(*bytespool.Pool).Acquire")
				if fn == nil {
					return
				}
				fromPool := c.P.MayCall(Callee("(*sync.Pool).Get"))
				reset := Callee("(*bytespool.Buffer).Reset")
				// a helper hands out clean buffers when every pooled value it returns was reset on that path (the same rule, one level down)
				var cleanHelper func(h *ssa.Function, depth int) bool
				cleanPath := func(f *ssa.Function, rp RetPath, src *ssa.Call, depth int) bool {
					for _, r := range CallsIn(f, reset) {
						ri := r.(ssa.Instruction)
						if Receiver(r) == ssa.Value(src) && (ri.Block() == rp.At || ri.Block().Dominates(rp.At)) {
							return true
						}
					}
					if h := StaticCallee(src); h != nil && c.P.InRepo(h) && depth > 0 {
						return cleanHelper(h, depth-1)
					}
					return false
				}
				cleanHelper = func(h *ssa.Function, depth int) bool {
					if h.Blocks == nil || h.Signature.Results().Len() == 0 {
						return false
					}
					found := false
					for _, rp := range ReturnPaths(h, 0) {
						src, _ := rp.Val.(*ssa.Call)
						if src == nil || !fromPool(src) {
							if ta, isTA := rp.Val.(*ssa.TypeAssert); isTA {
								_ = ta
								return false // the raw pool value itself: not reset here
							}
							continue
						}
						found = true
						if !cleanPath(h, rp, src, depth) {
							return false
						}
					}
					return found
				}
				n := 0
				for _, rp := range ReturnPaths(fn, 0) {
					src, _ := rp.Val.(*ssa.Call)
					if src == nil || !fromPool(src) {
						continue
					}
					n++
					ok := cleanPath(fn, rp, src, 2)
					if ok {
						c.Site(rp.Ret.Pos(), "a pooled buffer is reset before it is handed out")
					} else {
						c.Violation("ack:Acquire:reset:"+retKeyOf(src), rp.Ret.Pos(), "Pool.Acquire hands out a buffer taken from the pool without resetting it: it still has the length and the bytes its previous user left in it")
					}
				}
				if n == 0 {
					c.Undecided("ack:Acquire:nopool", fn.Pos(), "Pool.Acquire no longer returns buffers taken from a sync.Pool directly: cannot see where they are emptied")
				}
			}},
		{Prop: "C10", ID: "C10.5", Engine: "ORDER+DOM", Floor: 2,
			Desc: "framing: in esBulkDocReader.ReadDoc an action line is skipped before every document line, an over-size document loops on without being returned, and the returned slice is capacity-limited (doc[:n:n])",
			Check: func(c *Ctx) {
				fn := c.Fn("(*proxyapi.esBulkDocReader).ReadDoc")
				if fn == nil {
					return
				}
				MustPrecede(c, fn, Callee("(*proxyapi.esBulkDocReader).skipActionLine"), "skipActionLine", Callee("(*proxyapi.esBulkDocReader).readDoc"), "readDoc")
				rd := CallsIn(fn, Callee("(*proxyapi.esBulkDocReader).readDoc"))
				for _, b := range fn.Blocks {
					ret, ok := b.Instrs[len(b.Instrs)-1].(*ssa.Return)
					if !ok {
						continue
					}
					v := RetOperand(ret, 0)
					if IsNilConst(v) {
						continue
					}
					// what is returned, in place or through the returns of a private helper (limitDocCapacity)
					limited, some := true, false
					for _, o := range c.P.Origins(v, nil, 2, nil) {
						if IsNilConst(o.Val) {
							continue
						}
						some = true
						if sl, ok := o.Val.(*ssa.Slice); !(ok && sl.Max != nil && sl.High != nil && SameQuantity(sl.Max, sl.High)) {
							limited = false
						}
					}
					if !some {
						continue
					}
					if limited {
						c.Site(ret.Pos(), "the returned document is capacity-limited")
					} else if !readerLineIsAppendedTo(c) {
						c.Site(ret.Pos(), "the returned document is not capacity-limited, and nothing downstream appends to the reader's line")
					} else {
						c.Violation("alias:ReadDoc:cap-limited", ret.Pos(), "ReadDoc returns a view of the reader's buffer without limiting its capacity, and the ingestor appends to that view: the append overwrites the next line in the buffer")
					}
					if len(rd) > 0 {
						exceeded := ResultN(rd[0], 1)
						val, found := BoolFact(FactsAt(b), func(x ssa.Value) bool { return exceeded != nil && SameValue(x, exceeded) })
						if found && !val || DerivesFrom(v, func(x ssa.Value) bool { _, isPhi := x.(*ssa.Phi); return isPhi }) {
							c.Site(ret.Pos(), "only a document within the size limit is returned")
						}
					}
				}
				// the returned slice is a view of the bufio buffer, valid until the next read: between the
				// readDoc that produced it and the return nothing may touch the reader again
				isReaderCall := c.P.MayCall(func(cl ssa.CallInstruction) bool {
					n := CallName(cl)
					return strings.HasPrefix(n, "(*bufio.Reader).") && n != "(*bufio.Reader).Buffered" && n != "(*bufio.Reader).Size"
				})
				isReadDoc := Callee("(*proxyapi.esBulkDocReader).readDoc")
				for _, b := range fn.Blocks {
					ret, ok := b.Instrs[len(b.Instrs)-1].(*ssa.Return)
					if !ok || IsNilConst(RetOperand(ret, 0)) {
						continue
					}
					for _, x := range CallsIn(fn, isReaderCall) {
						xi := x.(ssa.Instruction)
						if isReadDoc(x) || !Dominates(xi, ret) {
							continue
						}
						fresh := false
						for _, y := range rd {
							if Dominates(xi, y.(ssa.Instruction)) && Dominates(y.(ssa.Instruction), ret) {
								fresh = true
							}
						}
						if fresh {
							c.Site(x.Pos(), "reader activity is followed by the readDoc that produces the returned line")
						} else {
							c.Violation("alias:ReadDoc:read-after-line", x.Pos(), "ReadDoc touches the bufio reader (%s) after the document line was read and before it is returned: a refill of the buffer overwrites the bytes of the returned document (ReadLine's result is only valid until the next read)", CallName(x))
						}
					}
				}
				// the over-size branch stays in the loop
				if len(rd) > 0 && InLoop(rd[0].(ssa.Instruction).Block()) {
					c.Site(rd[0].Pos(), "over-size documents are skipped by continuing the loop")
				} else {
					c.Violation("order:ReadDoc:skip-oversize", fn.Pos(), "ReadDoc no longer loops over over-size documents")
				}
			}},
	}
}

func isByteSlice(v ssa.Value) bool {
	return v.Type().Underlying().String() == "[]byte" || TypeStr(v.Type()) == "[]byte"
}

// loopDepth: number of distinct loop headers (blocks that dominate b and are reachable from b).
func loopDepth(b *ssa.BasicBlock) int {
	n := 0
	for _, h := range b.Parent().Blocks {
		if (h == b || h.Dominates(b)) && Reachable(b, h) {
			// h is a header if one of its predecessors is dominated by it
			isHeader := false
			for _, p := range h.Preds {
				if p == h || h.Dominates(p) {
					isHeader = true
				}
			}
			if isHeader {
				n++
			}
		}
	}
	return n
}

// incOnEveryIteration: app dominates inc, and every back edge of the loop that
// contains app and is taken after app passes through inc.
func incOnEveryIteration(app, inc *ssa.BasicBlock) bool {
	if !app.Dominates(inc) {
		return false
	}
	fn := app.Parent()
	found := false
	for _, p := range fn.Blocks {
		for _, h := range p.Succs {
			if !(h == p || h.Dominates(p)) {
				continue // not a back edge
			}
			if !(h.Dominates(app)) || !(app == p || app.Dominates(p)) {
				continue // a different loop, or a back edge not after the append
			}
			found = true
			if !(inc == p || inc.Dominates(p)) {
				return false
			}
		}
	}
	return found
}

// checkTimeSearch decides the search shape of extractDocTime wherever its two
// loops live (in the function itself or in helpers it calls):
//   - the loop over consts.TimeFields contains the parse attempts (directly or
//     through a helper), so a later field is tried when an earlier one does not parse;
//   - the loop over consts.TimeFormats contains a parse attempt and is nested in
//     (or called from) the fields loop;
//   - neither loop can be left early on a path that still ends in the fallback
//     answer (a nil/false result): leaving early is only for a successful parse.
func checkTimeSearch(c *Ctx, fn *ssa.Function) {
	loadsGlobal := func(name string) Sel {
		return func(in ssa.Instruction) bool {
			u, ok := in.(*ssa.UnOp)
			if !ok {
				return false
			}
			g, ok := u.X.(*ssa.Global)
			return ok && g.Name() == name
		}
	}
	parse := c.P.MayCall(Or(Callee("time.Parse"), Callee("proxy/bulk.parseESTime")))
	F := c.P.Locate(fn, loadsGlobal("TimeFields"))
	G := c.P.Locate(fn, loadsGlobal("TimeFormats"))
	if F == nil || G == nil {
		c.Violation("prov:extractDocTime:tables", fn.Pos(), "extractDocTime (and its helpers) no longer iterates consts.TimeFields x consts.TimeFormats")
		return
	}
	lf := RangeLoopOfGlobal(F, "TimeFields")
	lg := RangeLoopOfGlobal(G, "TimeFormats")
	if lf == nil || lg == nil {
		c.Undecided("extractDocTime:loops", fn.Pos(), "cannot find the range loops over consts.TimeFields / consts.TimeFormats")
		return
	}
	c.Site(lf.Header.Instrs[0].Pos(), "loop over consts.TimeFields in %s", FuncName(F))
	inLoop := func(l *Loop, f *ssa.Function, m Matcher) []ssa.CallInstruction {
		var out []ssa.CallInstruction
		for _, call := range CallsIn(f, m) {
			if l.Blocks[call.Block()] {
				out = append(out, call)
			}
		}
		return out
	}
	// parse attempts inside the fields loop
	if len(inLoop(lf, F, parse)) == 0 {
		c.Violation("order:extractDocTime:nested", F.Pos(), "no parse attempt inside the loop over consts.TimeFields (%s): the search stops at the first present field and the receive time is used although a later field holds a valid time", FuncName(F))
	} else {
		c.Site(F.Pos(), "every time field is parsed inside the fields loop")
	}
	// the formats loop parses, and sits inside the fields loop
	if len(inLoop(lg, G, parse)) == 0 {
		c.Violation("order:extractDocTime:formats", G.Pos(), "no parse attempt inside the loop over consts.TimeFormats (%s)", FuncName(G))
	}
	nested := false
	if F == G {
		nested = lf != lg && lf.Contains(lg)
	} else {
		reachG := func(call ssa.CallInstruction) bool {
			cal := StaticCallee(call)
			return cal != nil && c.P.Locate(cal, loadsGlobal("TimeFormats")) == G
		}
		nested = len(inLoop(lf, F, reachG)) > 0
	}
	if nested {
		c.Site(lg.Header.Instrs[0].Pos(), "fields x formats is a nested search")
	} else {
		c.Violation("order:extractDocTime:nested", F.Pos(), "the loop over consts.TimeFormats is not inside the loop over consts.TimeFields: not every format is tried for every time field")
	}
	// early exits only for success
	fallback := func(r *ssa.Return) bool {
		for i := range r.Results {
			v := RetOperand(r, i)
			if IsNilConst(v) {
				return true
			}
			if b, ok := ConstBool(v); ok && !b {
				return true
			}
		}
		return false
	}
	for _, lp := range []struct {
		l    *Loop
		f    *ssa.Function
		name string
	}{{lf, F, "fields"}, {lg, G, "formats"}} {
		for _, e := range lp.l.EarlyExits() {
			bad := false
			for _, r := range ReturnsFrom(e[1]) {
				if fallback(r) {
					bad = true
				}
			}
			if !bad {
				c.Site(e[0].Instrs[len(e[0].Instrs)-1].Pos(), "the %s loop is left early only with a parsed time", lp.name)
				continue
			}
			// flag-style code: accept when the edge is taken only on a successful parse
			okGuard := false
			for _, f := range FactsOnEdge(e[0], e[1]) {
				if parseSucceeded(f, parse) {
					okGuard = true
				}
			}
			if okGuard {
				c.Site(e[0].Instrs[len(e[0].Instrs)-1].Pos(), "the %s loop is left early under a successful parse", lp.name)
			} else {
				c.Violation("order:extractDocTime:early-fallback", e[0].Instrs[len(e[0].Instrs)-1].Pos(), "the %s loop of the time search can be left early on a path that ends with the fallback answer: a field or format that does not parse ends the search", lp.name)
			}
		}
	}
	// the fallback of extractDocTime itself is the request time
	for _, b := range fn.Blocks {
		ret, ok := b.Instrs[len(b.Instrs)-1].(*ssa.Return)
		if !ok || !IsNilConst(RetOperand(ret, 1)) {
			continue
		}
		if DerivesFrom(RetOperand(ret, 0), func(v ssa.Value) bool {
			p, isP := v.(*ssa.Parameter)
			return isP && ParamName(p) == "requestTime"
		}) {
			c.Site(ret.Pos(), "falls back to the request time")
		} else {
			c.Violation("prov:extractDocTime:fallback", ret.Pos(), "the fallback answer of extractDocTime is not the request time")
		}
	}
}

// parseSucceeded: the branch fact says a parse attempt succeeded (ok == true, or err == nil).
func parseSucceeded(f Fact, parse Matcher) bool {
	fromParse := func(v ssa.Value) bool {
		return DerivesFromNoCall(v, func(x ssa.Value) bool {
			cl, ok := x.(ssa.CallInstruction)
			return ok && parse(cl)
		})
	}
	cond, val := f.Cond, f.Val
	if b, ok := cond.(*ssa.BinOp); ok && (b.Op == token.EQL || b.Op == token.NEQ) {
		var other ssa.Value
		if IsNilConst(b.Y) {
			other = b.X
		} else if IsNilConst(b.X) {
			other = b.Y
		}
		if other != nil && fromParse(other) {
			return (b.Op == token.EQL) == val
		}
		return false
	}
	if ph, ok := cond.(*ssa.Phi); ok {
		for _, e := range ph.Edges {
			if !parseSucceeded(Fact{Cond: e, Val: val}, parse) {
				return false
			}
		}
		return len(ph.Edges) > 0
	}
	if types.Identical(cond.Type().Underlying(), types.Typ[types.Bool]) && fromParse(cond) {
		return val
	}
	return false
}

// retKeyOf numbers the pool reads of a function in source order (stable under renames).
func retKeyOf(call *ssa.Call) string {
	n := 0
	for _, b := range call.Parent().Blocks {
		for _, in := range b.Instrs {
			if cl, ok := in.(*ssa.Call); ok && CallName(cl) == CallName(call) {
				n++
				if cl == call {
					return fmt.Sprintf("%s#%d", CallName(call), n)
				}
			}
		}
	}
	return CallName(call)
}

// readerLineIsAppendedTo: some consumer of the bulk reader's line appends to (a re-slice of) it.
func readerLineIsAppendedTo(c *Ctx) bool {
	fn := c.P.Func("(*proxy/bulk.Ingestor).processDocsToCompressor")
	if fn == nil {
		return true // cannot tell: keep the requirement
	}
	for _, rn := range CallsIn(fn, func(cl ssa.CallInstruction) bool { return CallName(cl) == "dynamic:readNext" }) {
		od := ResultN(rn, 0)
		if od == nil {
			continue
		}
		for _, s := range c.P.MutatingSinks(od, 3) {
			if cl, ok := s.Instr.(*ssa.Call); ok && CallName(cl) == "builtin.append" {
				return true
			}
			if strings.Contains(s.How, "append") {
				return true
			}
		}
	}
	return false
}
