package kit

import (
	"fmt"
	"go/token"
	"go/types"

	"golang.org/x/tools/go/ssa"
)

// ALIAS: a protected byte slice must not reach a mutating sink.

// MutSink describes how a protected value can be written through.
type MutSink struct {
	Instr ssa.Instruction
	How   string
}

// safeByteConsumers: dependency functions that only read their []byte argument
// (or copy it before use). One line of reason each.
var safeByteConsumers = map[string]string{
	"(*github.com/ozontech/insane-json.Root).DecodeBytes":           "decoder.decode appends the input to its own buffer before parsing",
	"(*github.com/ozontech/insane-json.Root).DecodeBytesAdditional": "copies the input",
	"bytes.Equal": "read only", "bytes.Compare": "read only", "bytes.Contains": "read only", "bytes.Index": "read only", "bytes.IndexByte": "read only",
	"bytes.HasPrefix": "read only", "bytes.HasSuffix": "read only", "bytes.Count": "read only", "bytes.ContainsAny": "read only", "bytes.ContainsRune": "read only",
	"encoding/binary.Varint": "read only", "encoding/binary.Uvarint": "read only",
	"(encoding/binary.littleEndian).Uint16": "read only", "(encoding/binary.littleEndian).Uint32": "read only", "(encoding/binary.littleEndian).Uint64": "read only",
	"unicode/utf8.DecodeRune": "read only", "unicode/utf8.Valid": "read only", "unicode/utf8.RuneCount": "read only", "unicode/utf8.DecodeLastRune": "read only", "unicode/utf8.FullRune": "read only",
	"go.uber.org/zap.ByteString": "logging copy", "go.uber.org/zap.Binary": "logging", "go.uber.org/zap.String": "string",
	"hash/crc32.ChecksumIEEE": "read only", "unsafe.String": "read-only view",
	"(io.Writer).Write":       "io.Writer contract: must not modify the slice",
	"(*os.File).Write":        "read only",
	"(*os.File).WriteAt":      "read only",
	"(*bytes.Buffer).Write":   "copies",
	"(*bytes.Reader).Reset":   "read only",
	"bytes.NewReader":         "read only",
	"encoding/json.Unmarshal": "read only",
	"encoding/json.Valid":     "read only",
	"builtin.len":             "length", "builtin.cap": "capacity", "builtin.print": "debug", "builtin.println": "debug",
}

// MutatingSinks follows v (a []byte the caller must not modify) through
// slicing, conversions, phis, closures' free variables and repo callees
// (to the given depth) and returns every place where the underlying array
// can be written: element stores, copy() destination, append() into spare
// capacity, in-place helpers, and unknown external consumers.
func (p *Prog) MutatingSinks(v ssa.Value, depth int) []MutSink {
	var out []MutSink
	seen := map[ssa.Value]bool{}
	var visit func(v ssa.Value, depth int)
	visit = func(v ssa.Value, depth int) {
		if v == nil || seen[v] {
			return
		}
		seen[v] = true
		refs := v.Referrers()
		if refs == nil {
			return
		}
		for _, r := range *refs {
			switch x := r.(type) {
			case *ssa.Slice:
				if x.X == v {
					visit(x, depth)
				}
			case *ssa.ChangeType:
				visit(x, depth)
			case *ssa.Phi:
				visit(x, depth)
			case *ssa.Extract:
				if x.Tuple == v {
					visit(x, depth)
				}
			case *ssa.MakeInterface:
				// boxed: only the in-place sorters of the standard library are followed
				// (interfaces to loggers etc. stop here)
				var follow func(iv ssa.Value)
				follow = func(iv ssa.Value) {
					for _, rr := range *iv.Referrers() {
						cl, ok := rr.(ssa.CallInstruction)
						if !ok {
							continue
						}
						switch CallName(cl) {
						case "sort.Sort", "sort.Stable", "sort.Slice", "sort.SliceStable":
							out = append(out, MutSink{Instr: cl, How: "sorted in place by " + CallName(cl)})
						case "sort.Reverse":
							if rv := cl.Value(); rv != nil {
								follow(rv)
							}
						}
					}
				}
				follow(x)
			case *ssa.Convert:
				// string(b) copies; []byte(string) not applicable
			case *ssa.IndexAddr:
				if x.X != v {
					continue
				}
				for _, rr := range *x.Referrers() {
					if st, ok := rr.(*ssa.Store); ok && st.Addr == ssa.Value(x) {
						out = append(out, MutSink{Instr: st, How: "element store"})
					}
				}
			case *ssa.Store:
				if x.Val != v {
					continue
				}
				// stored into a variable / field: follow loads of a local alloc or closure-captured variable
				if al, ok := x.Addr.(*ssa.Alloc); ok {
					for _, rr := range *al.Referrers() {
						if ld, ok := rr.(*ssa.UnOp); ok && ld.Op == token.MUL {
							visit(ld, depth)
						}
						if mc, ok := rr.(*ssa.MakeClosure); ok {
							visitClosureVar(p, mc, al, visit, depth)
						}
					}
				}
			case *ssa.MakeClosure:
				for i, b := range x.Bindings {
					if b == v {
						if fn, ok := x.Fn.(*ssa.Function); ok && i < len(fn.FreeVars) {
							visit(fn.FreeVars[i], depth)
						}
					}
				}
			case ssa.CallInstruction:
				cc := x.Common()
				name := CallName(x)
				argIdx := -1
				for i, a := range cc.Args {
					if a == v {
						argIdx = i
					}
				}
				if argIdx < 0 {
					continue
				}
				if b, ok := cc.Value.(*ssa.Builtin); ok {
					switch b.Name() {
					case "copy":
						if argIdx == 0 {
							out = append(out, MutSink{Instr: x, How: "copy() destination"})
						}
					case "append":
						if argIdx == 0 {
							// append(v, ...) may write into v's spare capacity unless v was capacity-limited
							if !capLimited(v) {
								out = append(out, MutSink{Instr: x, How: "append() into the slice's spare capacity"})
							}
						}
					}
					continue
				}
				if _, ok := safeByteConsumers[name]; ok {
					continue
				}
				callee := StaticCallee(x)
				if callee != nil && callee.Blocks != nil && p.InRepo(callee) {
					if depth > 0 && argIdx < len(callee.Params) {
						before := len(out)
						visit(callee.Params[argIdx], depth-1)
						for i := before; i < len(out); i++ {
							out[i].How = out[i].How + " (via " + FuncName(callee) + ")"
						}
						// a callee returning (a slice of) its argument
						if val := x.Value(); val != nil && returnsParam(callee, argIdx) {
							visit(val, depth)
						}
					}
					continue
				}
				if cc.IsInvoke() {
					// interface call on repo interfaces: resolve to implementations
					for _, impl := range p.Implementations(x) {
						if depth > 0 && argIdx+1 < len(impl.Params) {
							visit(impl.Params[argIdx+1], depth-1)
						}
					}
					if len(p.Implementations(x)) > 0 {
						continue
					}
				}
				if name == "dynamic" || len(name) > 8 && name[:8] == "dynamic:" {
					out = append(out, MutSink{Instr: x, How: "passed to a function value (" + name + ") that is not analysed"})
					continue
				}
				if !isBytesLike(v.Type()) {
					continue
				}
				out = append(out, MutSink{Instr: x, How: fmt.Sprintf("passed to %s, which is not known to leave its argument unmodified", name)})
			}
		}
	}
	visit(v, depth)
	return out
}

func visitClosureVar(p *Prog, mc *ssa.MakeClosure, al *ssa.Alloc, visit func(ssa.Value, int), depth int) {
	fn, ok := mc.Fn.(*ssa.Function)
	if !ok {
		return
	}
	for i, b := range mc.Bindings {
		if b == ssa.Value(al) && i < len(fn.FreeVars) {
			fv := fn.FreeVars[i]
			for _, r := range *fv.Referrers() {
				if ld, ok := r.(*ssa.UnOp); ok && ld.Op == token.MUL {
					visit(ld, depth)
				}
			}
		}
	}
}

func isBytesLike(t types.Type) bool {
	s, ok := t.Underlying().(*types.Slice)
	if !ok {
		return false
	}
	b, ok := s.Elem().Underlying().(*types.Basic)
	return ok && b.Kind() == types.Byte
}

// capLimited: v is a three-index slice x[a:b:c] (append reallocates).
func capLimited(v ssa.Value) bool {
	if s, ok := v.(*ssa.Slice); ok && s.Max != nil {
		return true
	}
	return false
}

// returnsParam: some return path of fn yields (a slice of) parameter idx.
func returnsParam(fn *ssa.Function, idx int) bool {
	if idx >= len(fn.Params) {
		return false
	}
	prm := fn.Params[idx]
	for _, b := range fn.Blocks {
		ret, ok := b.Instrs[len(b.Instrs)-1].(*ssa.Return)
		if !ok {
			continue
		}
		for i := range ret.Results {
			// a number or a struct of numbers read out of the parameter does not alias it
			switch ret.Results[i].Type().Underlying().(type) {
			case *types.Slice, *types.Pointer, *types.Map, *types.Interface:
			default:
				continue
			}
			if DerivesFromNoCall(RetOperand(ret, i), func(v ssa.Value) bool { return v == ssa.Value(prm) }) {
				return true
			}
		}
	}
	return false
}
