package props

import (
	"fmt"
	"go/token"
	"os"
	"sort"
	"strings"

	"golang.org/x/tools/go/ssa"

	. "seqverif/internal/kit"
)

// fileModel is the FILESTATE engine instantiated for seq-db: suffix table and
// decision table extracted from fracmanager.loader, mutator op sequences
// extracted from frac, and the composed crash-prefix states.
type fileModel struct {
	problems   []string
	suffixFlag map[string]string // ".docs" -> "hasDocs"
	ignored    map[string]bool   // temp suffixes skipped by makeInfos
	flags      []string

	create        []OpSeq
	seal          []OpSeq
	release       []OpSeq
	activeSuicide []OpSeq
	sealedSuicide []OpSeq
	loaderDelete  []FileOp

	filterFn, loadFn *ssa.Function
	p                *Prog
	decideMemo       map[string]loaderOutcome
	statesExamined   int
}

type loaderOutcome struct {
	Kind    string   // FATAL | DELETE | SKIP | ACTIVE | SEALED | AMBIG
	Removes []string // suffixes removed by the loader before serving
	Why     string
	Pos     token.Pos
}

var fileModels = map[*Prog]*fileModel{}

func getFileModel(c *Ctx) *fileModel {
	if m, ok := fileModels[c.P]; ok {
		return m
	}
	m := buildFileModel(c.P)
	fileModels[c.P] = m
	return m
}

func (m *fileModel) problem(format string, a ...any) {
	m.problems = append(m.problems, fmt.Sprintf(format, a...))
}

func fracCfgVar(cond ssa.Value) (string, string, string, bool) {
	f := Fact{Cond: cond, Val: true}
	for {
		u, ok := f.Cond.(*ssa.UnOp)
		if !ok || u.Op != token.NOT {
			break
		}
		f.Cond = u.X
		f.Val = !f.Val
	}
	t, fl := "true", "false"
	if !f.Val {
		t, fl = fl, t
	}
	switch x := f.Cond.(type) {
	case *ssa.UnOp:
		if x.Op == token.MUL {
			if typ, field, _, ok := FieldOf(x.X); ok {
				if typ == "frac.Config" && (field == "SkipSortDocs" || field == "KeepMetaFile") {
					return field, t, fl, true
				}
				if typ == "frac.Active" && field == "released" {
					return "released", t, fl, true
				}
			}
		}
	case *ssa.BinOp:
		if x.Op == token.EQL || x.Op == token.NEQ {
			l, isL := x.X.(*ssa.UnOp)
			k, isK := ConstInt(x.Y)
			if isL && isK && l.Op == token.MUL {
				if typ, field, _, ok := FieldOf(l.X); ok && typ == "frac.Sealed" && field == "PartialSuicideMode" {
					if x.Op == token.NEQ {
						t, fl = fl, t
					}
					return fmt.Sprintf("PartialSuicideMode==%d", k), t, fl, true
				}
			}
		}
	}
	return "", "", "", false
}

func buildFileModel(p *Prog) *fileModel {
	m := &fileModel{p: p, suffixFlag: map[string]string{}, ignored: map[string]bool{}, decideMemo: map[string]loaderOutcome{}}
	get := func(name string) *ssa.Function {
		fn := p.Func(name)
		if fn == nil {
			m.problem("anchor %s no longer resolves", name)
		}
		return fn
	}
	x := &FileOpExtractor{P: p, Cfg: fracCfgVar}
	seqs := func(name string) []OpSeq {
		fn := get(name)
		if fn == nil {
			return nil
		}
		s := x.Seqs(fn)
		if len(s) == 0 {
			m.problem("no file-operation sequence could be extracted from %s", name)
		}
		return s
	}
	m.create = seqs("frac.NewActive")
	m.seal = seqs("frac.Seal")
	m.release = seqs("(*frac.Active).Release")
	m.activeSuicide = seqs("(*frac.Active).Suicide")
	m.sealedSuicide = seqs("(*frac.Sealed).Suicide")
	if del := seqs("fracmanager.removeFractionFiles"); len(del) == 1 {
		m.loaderDelete = del[0].Ops
	} else if len(del) > 1 {
		m.problem("fracmanager.removeFractionFiles has %d distinct op sequences; expected one", len(del))
	}
	m.problems = append(m.problems, x.Problems...)
	m.filterFn = get("(*fracmanager.loader).filterInfos")
	m.loadFn = get("(*fracmanager.loader).load")
	if mk := get("(*fracmanager.loader).makeInfos"); mk != nil {
		// the suffix switch may sit in makeInfos or in a private helper it calls
		seen := map[*ssa.Function]bool{}
		var visit func(fn *ssa.Function, d int)
		visit = func(fn *ssa.Function, d int) {
			if fn == nil || fn.Blocks == nil || seen[fn] || !p.InRepo(fn) {
				return
			}
			seen[fn] = true
			m.extractSuffixTable(fn)
			if d == 0 {
				return
			}
			for _, call := range CallsIn(fn, nil) {
				if h := StaticCallee(call); h != nil && PkgOf(h) == "fracmanager" {
					visit(h, d-1)
				}
			}
		}
		visit(mk, 2)
		m.verifySuffixTable(mk)
		if len(m.suffixFlag) == 0 {
			m.problem("could not extract the suffix->flag table from makeInfos")
		}
	}
	for _, f := range m.suffixFlag {
		m.flags = append(m.flags, f)
	}
	sort.Strings(m.flags)
	return m
}

// extractSuffixTable reads makeInfos: `suffix == C` whose true branch stores
// true into a fracInfo flag => C -> flag; `suffix == C` whose true branch
// performs no store and no fatal call (continue) => ignored.
func (m *fileModel) extractSuffixTable(fn *ssa.Function) {
	for _, b := range fn.Blocks {
		if len(b.Instrs) == 0 {
			continue
		}
		ifi, ok := b.Instrs[len(b.Instrs)-1].(*ssa.If)
		if !ok {
			continue
		}
		bo, ok := ifi.Cond.(*ssa.BinOp)
		if !ok || bo.Op != token.EQL {
			continue
		}
		s, ok := ConstString(bo.Y)
		if !ok {
			if s, ok = ConstString(bo.X); !ok {
				continue
			}
		}
		if !strings.HasPrefix(s, ".") {
			continue
		}
		tb := b.Succs[0]
		flag := ""
		fatal := false
		for _, in := range tb.Instrs {
			if st, ok := in.(*ssa.Store); ok {
				if typ, field, _, ok := FieldOf(st.Addr); ok && typ == "fracmanager.fracInfo" {
					if v, isB := ConstBool(st.Val); isB && v {
						flag = field
					}
				}
			}
			if IsFatalInstr(in) {
				fatal = true
			}
		}
		switch {
		case flag != "":
			m.suffixFlag[s] = flag
		case !fatal:
			m.ignored[s] = true
		}
	}
}

// verifySuffixTable re-derives the fate of every suffix the table knows by walking makeInfos (and the private
// helpers that receive the suffix) with the suffix fixed to that constant: comparisons with it are decided, everything
// else is followed both ways. A suffix that reaches a fatal sink is "unknown file"; one that sets a flag is known
// under that flag; one that does neither is ignored. This is what tells `a || b` from `a && b` between two tests.
func (m *fileModel) verifySuffixTable(mk *ssa.Function) {
	universe := map[string]bool{}
	for s := range m.suffixFlag {
		universe[s] = true
	}
	for s := range m.ignored {
		universe[s] = true
	}
	type outcome struct {
		flag  string
		fatal bool
		ret   *bool // the constant boolean every reached return of a helper hands back for this suffix (nil: none or mixed)
	}
	var walkFn func(fn *ssa.Function, start *ssa.BasicBlock, sv ssa.Value, s string, depth int) outcome
	walkFn = func(fn *ssa.Function, start *ssa.BasicBlock, sv ssa.Value, s string, depth int) outcome {
		var out outcome
		seen := map[*ssa.BasicBlock]bool{}
		known := map[ssa.Value]bool{} // results of helper calls that are constant for this suffix
		rets, mixed := 0, false
		var visit func(b *ssa.BasicBlock)
		visit = func(b *ssa.BasicBlock) {
			if seen[b] {
				return
			}
			seen[b] = true
			for _, in := range b.Instrs {
				if ret, ok := in.(*ssa.Return); ok && len(ret.Results) > 0 {
					if v, isB := ConstBool(ret.Results[len(ret.Results)-1]); isB {
						if rets > 0 && out.ret != nil && *out.ret != v {
							mixed = true
						}
						vv := v
						out.ret = &vv
						rets++
					} else {
						mixed = true
					}
				}
				if st, ok := in.(*ssa.Store); ok {
					if typ, field, _, ok := FieldOf(st.Addr); ok && typ == "fracmanager.fracInfo" {
						if v, isB := ConstBool(st.Val); isB && v && strings.HasPrefix(field, "has") {
							out.flag = field
						}
					}
				}
				if IsFatalInstr(in) {
					out.fatal = true
					return
				}
				if cl, ok := in.(ssa.CallInstruction); ok && depth > 0 {
					if h := StaticCallee(cl); h != nil && h.Blocks != nil && PkgOf(h) == "fracmanager" {
						for i, a := range cl.Common().Args {
							if a == sv && i < len(h.Params) {
								o := walkFn(h, h.Blocks[0], h.Params[i], s, depth-1)
								if o.flag != "" {
									out.flag = o.flag
								}
								if o.ret != nil {
									if v, isV := in.(ssa.Value); isV {
										known[v] = *o.ret
									}
								}
								if o.fatal {
									out.fatal = true
									return
								}
							}
						}
					}
				}
			}
			if ifi, ok := b.Instrs[len(b.Instrs)-1].(*ssa.If); ok {
				// a test of what a helper answered for this suffix (`if known := info.markFile(suffix); !known`)
				cond, neg := ifi.Cond, false
				if u, isNot := cond.(*ssa.UnOp); isNot && u.Op == token.NOT {
					cond, neg = u.X, true
				}
				if v, isKnown := known[cond]; isKnown {
					if v != neg {
						visit(b.Succs[0])
					} else {
						visit(b.Succs[1])
					}
					return
				}
				if bo, ok := ifi.Cond.(*ssa.BinOp); ok && (bo.Op == token.EQL || bo.Op == token.NEQ) {
					var k string
					var isK bool
					if bo.X == sv {
						k, isK = ConstString(bo.Y)
					} else if bo.Y == sv {
						k, isK = ConstString(bo.X)
					}
					if isK {
						truth := (k == s) == (bo.Op == token.EQL)
						if truth {
							visit(b.Succs[0])
						} else {
							visit(b.Succs[1])
						}
						return
					}
				}
			}
			for _, succ := range b.Succs {
				if succ == start {
					continue // next file
				}
				visit(succ)
			}
		}
		visit(start)
		if mixed {
			out.ret = nil
		}
		return out
	}
	// the suffix value and the block it is produced in
	var sv ssa.Value
	for _, b := range mk.Blocks {
		for _, in := range b.Instrs {
			if bo, ok := in.(*ssa.BinOp); ok && bo.Op == token.EQL {
				if k, isK := ConstString(bo.Y); isK && universe[k] && sv == nil {
					sv = bo.X
				}
			}
		}
	}
	start := mk.Blocks[0]
	if sv != nil {
		if in, ok := sv.(ssa.Instruction); ok {
			start = in.Block()
		}
	} else {
		// the comparisons sit in a helper: the suffix is the argument makeInfos hands over; start where it is produced
		for _, call := range CallsIn(mk, nil) {
			if h := StaticCallee(call); h != nil && PkgOf(h) == "fracmanager" && h.Blocks != nil {
				for _, a := range call.Common().Args {
					if e, ok := a.(*ssa.Extract); ok && TypeStr(e.Type()) == "string" && sv == nil {
						if hasSuffixCompare(h, universe) {
							sv = e
							start = e.Block()
						}
					}
				}
			}
		}
	}
	if sv == nil {
		return
	}
	for s := range universe {
		o := walkFn(mk, start, sv, s, 2)
		delete(m.suffixFlag, s)
		delete(m.ignored, s)
		switch {
		case o.fatal:
			// unknown file
		case o.flag != "":
			m.suffixFlag[s] = o.flag
		default:
			m.ignored[s] = true
		}
	}
}

func hasSuffixCompare(fn *ssa.Function, universe map[string]bool) bool {
	for _, b := range fn.Blocks {
		for _, in := range b.Instrs {
			if bo, ok := in.(*ssa.BinOp); ok && bo.Op == token.EQL {
				if k, isK := ConstString(bo.Y); isK && universe[k] {
					return true
				}
				if k, isK := ConstString(bo.X); isK && universe[k] {
					return true
				}
			}
		}
	}
	return false
}

func (m *fileModel) flagsOf(fs FileSet) map[string]bool {
	out := map[string]bool{}
	for s := range fs {
		if f, ok := m.suffixFlag[s]; ok {
			out[f] = true
		}
	}
	return out
}

func flagKey(fl map[string]bool) string {
	var ks []string
	for k, v := range fl {
		if v {
			ks = append(ks, k)
		}
	}
	sort.Strings(ks)
	return strings.Join(ks, ",")
}

// effect walk -----------------------------------------------------------------

type effect struct {
	kind string // fatal | delete | append | remove:<suffix> | active | sealed
	pos  token.Pos
}

// walkRegion explores the per-fraction region of fn (blocks dominated by the
// first block that reads a fracInfo flag) under a flag assignment.
func (m *fileModel) walkRegion(fn *ssa.Function, flags map[string]bool) ([][]effect, string) {
	isFlagLoad := func(v ssa.Value) (string, bool) {
		u, ok := v.(*ssa.UnOp)
		if !ok || u.Op != token.MUL {
			return "", false
		}
		typ, field, _, ok := FieldOf(u.X)
		if !ok || typ != "fracmanager.fracInfo" || !strings.HasPrefix(field, "has") {
			return "", false
		}
		return field, true
	}
	var b0 *ssa.BasicBlock
	for _, b := range fn.Blocks {
		has := false
		for _, in := range b.Instrs {
			if v, ok := in.(ssa.Value); ok {
				if _, ok := isFlagLoad(v); ok {
					has = true
				}
			}
		}
		if has && (b0 == nil || b.Dominates(b0)) {
			b0 = b
		}
	}
	if b0 == nil {
		return nil, "no read of a fracInfo flag found in " + FuncName(fn)
	}
	return m.walkFrom(fn, b0, flags, 2), ""
}

// hasLoaderEffects: fn (a private helper of the loader) removes files, loads fractions or reads fracInfo flags.
func (m *fileModel) hasLoaderEffects(fn *ssa.Function) bool {
	if fn == nil || fn.Blocks == nil || PkgOf(fn) != "fracmanager" {
		return false
	}
	switch FuncName(fn) {
	case "fracmanager.removeFractionFiles", "fracmanager.removeFile", "(*fracmanager.fractionProvider).NewActive", "(*fracmanager.loader).loadSealedFrac", "(*fracmanager.fractionProvider).NewSealed":
		return false // modelled as effects themselves
	}
	return m.p.HasCall(fn, Callee("fracmanager.removeFile", "fracmanager.removeFractionFiles", "(*fracmanager.fractionProvider).NewActive", "frac.NewActive", "(*fracmanager.loader).loadSealedFrac", "(*fracmanager.fractionProvider).NewSealed", "frac.NewSealed"))
}

// walkFrom explores fn from block b0 (the blocks b0 dominates) under a flag
// assignment and returns the effect sequence of every path. Private helpers of
// the loader that have effects of their own are walked in place (depth levels).
func (m *fileModel) walkFrom(fn *ssa.Function, b0 *ssa.BasicBlock, flags map[string]bool, depth int) [][]effect {
	isFlagLoad := func(v ssa.Value) (string, bool) {
		u, ok := v.(*ssa.UnOp)
		if !ok || u.Op != token.MUL {
			return "", false
		}
		typ, field, _, ok := FieldOf(u.X)
		if !ok || typ != "fracmanager.fracInfo" || !strings.HasPrefix(field, "has") {
			return "", false
		}
		return field, true
	}
	x := &FileOpExtractor{P: m.p, Cfg: fracCfgVar}
	var out [][]effect
	paths := 0
	// evalCond: value of a branch condition on the current path (1 true, -1 false, 0 unknown):
	// flag loads, negations, constants, and the phi of a short-circuit && / || resolved by the edge taken.
	var evalCond func(v ssa.Value, at, from *ssa.BasicBlock, d int) int
	evalCond = func(v ssa.Value, at, from *ssa.BasicBlock, d int) int {
		if d > 6 {
			return 0
		}
		if field, ok := isFlagLoad(v); ok {
			if flags[field] {
				return 1
			}
			return -1
		}
		switch x := v.(type) {
		case *ssa.Const:
			if b, ok := ConstBool(x); ok {
				if b {
					return 1
				}
				return -1
			}
		case *ssa.UnOp:
			if x.Op == token.NOT {
				return -evalCond(x.X, at, from, d+1)
			}
		case *ssa.Phi:
			if x.Block() == at && from != nil {
				for i, p := range at.Preds {
					if p == from {
						return evalCond(x.Edges[i], at, nil, d+1)
					}
				}
			}
		}
		return 0
	}
	add := func(cur []effect, e ...effect) []effect {
		return append(append([]effect{}, cur...), e...)
	}
	var dfs func(b, from *ssa.BasicBlock, onPath map[*ssa.BasicBlock]bool, cur []effect)
	var step func(b, from *ssa.BasicBlock, i int, onPath map[*ssa.BasicBlock]bool, cur []effect)
	dfs = func(b, from *ssa.BasicBlock, onPath map[*ssa.BasicBlock]bool, cur []effect) {
		paths++
		if paths > 5000 {
			return
		}
		step(b, from, 0, onPath, cur)
	}
	step = func(b, from *ssa.BasicBlock, i int, onPath map[*ssa.BasicBlock]bool, cur []effect) {
		for ; i < len(b.Instrs); i++ {
			in := b.Instrs[i]
			if IsFatalInstr(in) {
				out = append(out, add(cur, effect{"fatal", in.Pos()}))
				return
			}
			call, ok := in.(ssa.CallInstruction)
			if !ok {
				continue
			}
			switch name := CallName(call); name {
			case "fracmanager.removeFractionFiles":
				cur = add(cur, effect{"delete", call.Pos()})
			case "fracmanager.removeFile":
				if s, ok := xSuffix(x, call.Common().Args[0]); ok {
					cur = add(cur, effect{"remove:" + s, call.Pos()})
				} else {
					cur = add(cur, effect{"remove:?", call.Pos()})
				}
			case "(*fracmanager.fractionProvider).NewActive", "frac.NewActive":
				cur = add(cur, effect{"active", call.Pos()})
			case "(*fracmanager.loader).loadSealedFrac", "(*fracmanager.fractionProvider).NewSealed", "frac.NewSealed":
				cur = add(cur, effect{"sealed", call.Pos()})
			case "builtin.append":
				if strings.Contains(call.Common().Args[0].Type().String(), "fracInfo") {
					cur = add(cur, effect{"append", call.Pos()})
				}
			case "os.Remove", "os.Rename", "os.Create":
				cur = add(cur, effect{"rawfileop", call.Pos()})
			default:
				if _, isCall := in.(*ssa.Call); !isCall || depth <= 0 {
					continue
				}
				h := StaticCallee(call)
				if !m.hasLoaderEffects(h) {
					continue
				}
				// a private helper with effects of its own: walk it in place, then go on after the call
				for _, sub := range m.walkFrom(h, h.Blocks[0], flags, depth-1) {
					if len(sub) > 0 && sub[len(sub)-1].kind == "fatal" {
						out = append(out, add(cur, sub...))
						continue
					}
					step(b, from, i+1, onPath, add(cur, sub...))
				}
				return
			}
		}
		next := func(s *ssa.BasicBlock) {
			if s != b0 && !b0.Dominates(s) || onPath[s] || s == b0 {
				out = append(out, cur) // end of this fraction's iteration
				return
			}
			onPath[s] = true
			dfs(s, b, onPath, cur)
			delete(onPath, s)
		}
		if len(b.Instrs) == 0 {
			return
		}
		switch t := b.Instrs[len(b.Instrs)-1].(type) {
		case *ssa.If:
			switch evalCond(t.Cond, b, from, 0) {
			case 1:
				next(b.Succs[0])
			case -1:
				next(b.Succs[1])
			default:
				next(b.Succs[0])
				next(b.Succs[1])
			}
		case *ssa.Return:
			out = append(out, cur)
		default:
			for _, s := range b.Succs {
				next(s)
			}
			if len(b.Succs) == 0 {
				out = append(out, cur)
			}
		}
	}
	dfs(b0, nil, map[*ssa.BasicBlock]bool{b0: true}, nil)
	return out
}

func xSuffix(x *FileOpExtractor, v ssa.Value) (string, bool) {
	// exported shim: resolve "base + consts.X"
	if bo, ok := v.(*ssa.BinOp); ok && bo.Op == token.ADD {
		return ConstString(bo.Y)
	}
	return "", false
}

// decide classifies a flag assignment by walking filterInfos, then load.
func (m *fileModel) decide(flags map[string]bool) loaderOutcome {
	key := flagKey(flags)
	if o, ok := m.decideMemo[key]; ok {
		return o
	}
	o := m.decideUncached(flags)
	m.decideMemo[key] = o
	return o
}

func summarize(paths [][]effect) (kinds map[string]token.Pos, removes map[string]bool) {
	kinds = map[string]token.Pos{}
	removes = map[string]bool{}
	for _, p := range paths {
		k := "none"
		var pos token.Pos
		for _, e := range p {
			switch {
			case e.kind == "fatal":
				k, pos = "fatal", e.pos
			case k == "fatal":
			case e.kind == "delete":
				k, pos = "delete", e.pos
			case e.kind == "append" && k == "none":
				k, pos = "append", e.pos
			case e.kind == "active" || e.kind == "sealed":
				if k == "none" || k == "append" {
					k, pos = e.kind, e.pos
				} else if k != e.kind && k != "delete" {
					k = "both"
				}
			case strings.HasPrefix(e.kind, "remove:"):
				removes[strings.TrimPrefix(e.kind, "remove:")] = true
			}
		}
		kinds[k] = pos
	}
	return
}

func (m *fileModel) decideUncached(flags map[string]bool) loaderOutcome {
	if m.filterFn == nil || m.loadFn == nil {
		return loaderOutcome{Kind: "AMBIG", Why: "loader anchors missing"}
	}
	paths, why := m.walkRegion(m.filterFn, flags)
	if why != "" {
		return loaderOutcome{Kind: "AMBIG", Why: why}
	}
	kinds, _ := summarize(paths)
	if len(kinds) != 1 {
		return loaderOutcome{Kind: "AMBIG", Why: fmt.Sprintf("filterInfos gives %d different outcomes for flags {%s}", len(kinds), flagKey(flags))}
	}
	for k, pos := range kinds {
		switch k {
		case "fatal":
			return loaderOutcome{Kind: "FATAL", Pos: pos, Why: "filterInfos reaches a fatal sink"}
		case "delete":
			return loaderOutcome{Kind: "DELETE", Pos: pos}
		case "none":
			return loaderOutcome{Kind: "SKIP", Pos: pos}
		case "append":
		default:
			return loaderOutcome{Kind: "AMBIG", Why: "unexpected effect " + k + " in filterInfos"}
		}
	}
	paths, why = m.walkRegion(m.loadFn, flags)
	if why != "" {
		return loaderOutcome{Kind: "AMBIG", Why: why}
	}
	kinds, removes := summarize(paths)
	if len(kinds) != 1 {
		if os.Getenv("SEQVERIF_DEBUG") != "" {
			for _, p := range paths {
				fmt.Printf("DEBUG path flags={%s}:", flagKey(flags))
				for _, e := range p {
					fmt.Printf(" %s@%s", e.kind, m.p.Pos(e.pos))
				}
				fmt.Println()
			}
		}
		return loaderOutcome{Kind: "AMBIG", Why: fmt.Sprintf("load gives %d different outcomes for flags {%s}", len(kinds), flagKey(flags))}
	}
	var rem []string
	for s := range removes {
		rem = append(rem, s)
	}
	sort.Strings(rem)
	for k, pos := range kinds {
		switch k {
		case "fatal":
			return loaderOutcome{Kind: "FATAL", Pos: pos, Why: "load reaches a fatal sink"}
		case "active":
			return loaderOutcome{Kind: "ACTIVE", Removes: rem, Pos: pos}
		case "sealed":
			return loaderOutcome{Kind: "SEALED", Removes: rem, Pos: pos}
		default:
			return loaderOutcome{Kind: "AMBIG", Why: "load neither serves nor rejects the fraction (effect " + k + ")"}
		}
	}
	return loaderOutcome{Kind: "AMBIG"}
}

// classify a concrete file set (temp files ignored by the table).
func (m *fileModel) classify(fs FileSet) loaderOutcome {
	m.statesExamined++
	for s := range fs {
		if _, ok := m.suffixFlag[s]; !ok && !m.ignored[s] {
			return loaderOutcome{Kind: "FATAL", Why: "makeInfos does not know suffix " + s + " (unknown file => fatal)"}
		}
	}
	known := FileSet{}
	for s := range fs {
		if _, ok := m.suffixFlag[s]; ok {
			known[s] = true
		}
	}
	if len(known) == 0 {
		return loaderOutcome{Kind: "GONE"}
	}
	return m.decide(m.flagsOf(known))
}

func pick(seqs []OpSeq, want map[string]string) []OpSeq {
	var out []OpSeq
	for _, s := range seqs {
		ok := !s.Died
		for k, v := range want {
			if have, set := s.Assume[k]; set && have != v {
				ok = false
			}
		}
		if ok {
			out = append(out, s)
		}
	}
	return out
}

func opsString(ops []FileOp) string {
	var s []string
	for _, o := range ops {
		s = append(s, o.String())
	}
	return strings.Join(s, " ")
}

// Forget drops what was memoised for a program that is no longer needed.
func Forget(p *Prog) { delete(fileModels, p) }
