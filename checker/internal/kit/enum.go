package kit

import (
	"go/constant"
	"go/token"
	"go/types"
	"sort"

	"golang.org/x/tools/go/ssa"
)

// ENUM: finite-domain reasoning over the declared constants of a named integer type.

// EnumConsts returns name->value for the constants of the named type declared in its package.
func (p *Prog) EnumConsts(rel, typeName string) map[string]int64 {
	out := map[string]int64{}
	tp := p.TypesPkg(rel)
	if tp == nil {
		return out
	}
	for _, n := range tp.Scope().Names() {
		c, ok := tp.Scope().Lookup(n).(*types.Const)
		if !ok {
			continue
		}
		named, ok := c.Type().(*types.Named)
		if !ok || NamedTypeString(named) != rel+"."+typeName || named.Obj().Pkg() != tp {
			continue
		}
		if v, ok := constant.Int64Val(c.Val()); ok {
			out[n] = v
		}
	}
	return out
}

// excludedAt: constants k such that "v != k" holds on every path to block b
// (false edges of `v == k`, true edges of `v != k`); and, if some `v == k`
// holds, the singleton {k} as onlyVal.
func excludedAt(b *ssa.BasicBlock, v ssa.Value) (excl map[int64]bool, only *int64) {
	excl = map[int64]bool{}
	for _, f := range FactsAt(b) {
		bo, ok := f.Cond.(*ssa.BinOp)
		if !ok || (bo.Op != token.EQL && bo.Op != token.NEQ) {
			continue
		}
		var k int64
		var isK bool
		switch {
		case SameValue(bo.X, v):
			k, isK = ConstInt(bo.Y)
		case SameValue(bo.Y, v):
			k, isK = ConstInt(bo.X)
		}
		if !isK {
			continue
		}
		eq := (bo.Op == token.EQL) == f.Val
		if eq {
			kk := k
			only = &kk
		} else {
			excl[k] = true
		}
	}
	return
}

// EnumReaching computes which constants of the universe can be the value of v
// at instruction `at`, following v to the enclosing function's parameter and
// on to every call site (up to depth), where producer results (calls matching
// isProducer) start from the whole universe. unknown=true when the value comes
// from somewhere the engine does not understand.
func (p *Prog) EnumReaching(v ssa.Value, at ssa.Instruction, universe map[string]int64, isProducer Matcher, depth int) (reach map[int64]bool, unknown bool) {
	reach = map[int64]bool{}
	all := map[int64]bool{}
	for _, k := range universe {
		all[k] = true
	}
	excl, only := excludedAt(at.Block(), v)
	restrict := func(in map[int64]bool) map[int64]bool {
		out := map[int64]bool{}
		for k := range in {
			if excl[k] {
				continue
			}
			if only != nil && *only != k {
				continue
			}
			out[k] = true
		}
		return out
	}
	var src map[int64]bool
	switch x := v.(type) {
	case *ssa.Const:
		if k, ok := ConstInt(x); ok {
			src = map[int64]bool{k: true}
		}
	case *ssa.Call:
		if isProducer != nil && isProducer(x) {
			src = all
		}
	case *ssa.Extract:
		if c, ok := x.Tuple.(*ssa.Call); ok && isProducer != nil && isProducer(c) {
			src = all
		}
	case *ssa.Phi:
		src = map[int64]bool{}
		for i, e := range x.Edges {
			pred := x.Block().Preds[i]
			var last ssa.Instruction = pred.Instrs[len(pred.Instrs)-1]
			r, u := p.EnumReaching(e, last, universe, isProducer, depth)
			if u {
				unknown = true
			}
			for k := range r {
				src[k] = true
			}
		}
	case *ssa.Parameter:
		if depth <= 0 {
			return restrict(all), true
		}
		fn := x.Parent()
		idx := -1
		for i, pp := range fn.Params {
			if pp == x {
				idx = i
			}
		}
		callers := p.Callers(fn)
		if len(callers) == 0 || len(p.FuncValueUses(fn)) > 0 {
			return restrict(all), true
		}
		src = map[int64]bool{}
		for _, c := range callers {
			if idx >= len(c.Common().Args) {
				unknown = true
				continue
			}
			r, u := p.EnumReaching(c.Common().Args[idx], c.(ssa.Instruction), universe, isProducer, depth-1)
			if u {
				unknown = true
			}
			for k := range r {
				src[k] = true
			}
		}
	}
	if src == nil {
		return restrict(all), true
	}
	return restrict(src), unknown
}

// EnumNames maps values back to constant names, sorted.
func EnumNames(universe map[string]int64, vals map[int64]bool) []string {
	var out []string
	for n, k := range universe {
		if vals[k] {
			out = append(out, n)
		}
	}
	sort.Strings(out)
	return out
}

// SwitchCoverage: constants compared against v (by `v == k`) anywhere in fn.
func SwitchCoverage(fn *ssa.Function, isSubject func(ssa.Value) bool) map[int64]bool {
	out := map[int64]bool{}
	for _, b := range fn.Blocks {
		for _, in := range b.Instrs {
			bo, ok := in.(*ssa.BinOp)
			if !ok || bo.Op != token.EQL {
				continue
			}
			if k, isK := ConstInt(bo.Y); isK && isSubject(bo.X) {
				out[k] = true
			}
			if k, isK := ConstInt(bo.X); isK && isSubject(bo.Y) {
				out[k] = true
			}
		}
	}
	return out
}

// SCCs returns the strongly connected components (with >1 node or a self
// loop) of the static call graph restricted to funcs.
func SCCs(funcs []*ssa.Function) [][]*ssa.Function {
	// nodes: the functions and their closures, each on its own. Edges: static calls, and from a function to
	// the closures it creates (it may call them, or hand them to something that does). A closure is NOT merged
	// with its parent: a parent calling its own local closure is not recursion unless the closure calls back.
	in := map[*ssa.Function]bool{}
	var nodes []*ssa.Function
	for _, f := range funcs {
		for _, ff := range WithClosures(f) {
			if !in[ff] {
				in[ff] = true
				nodes = append(nodes, ff)
			}
		}
	}
	topOf := func(f *ssa.Function) *ssa.Function {
		for f.Parent() != nil {
			f = f.Parent()
		}
		return f
	}
	succ := func(f *ssa.Function) []*ssa.Function {
		var out []*ssa.Function
		seen := map[*ssa.Function]bool{}
		add := func(g *ssa.Function) {
			if g != nil && in[g] && !seen[g] {
				seen[g] = true
				out = append(out, g)
			}
		}
		for _, c := range CallsIn(f, nil) {
			add(StaticCallee(c))
		}
		for _, an := range f.AnonFuncs {
			add(an)
		}
		return out
	}
	index := 0
	idx := map[*ssa.Function]int{}
	low := map[*ssa.Function]int{}
	on := map[*ssa.Function]bool{}
	var stack []*ssa.Function
	var res [][]*ssa.Function
	var strong func(v *ssa.Function)
	strong = func(v *ssa.Function) {
		index++
		idx[v], low[v] = index, index
		stack = append(stack, v)
		on[v] = true
		self := false
		for _, w := range succ(v) {
			if w == v {
				self = true
			}
			if _, ok := idx[w]; !ok {
				strong(w)
				if low[w] < low[v] {
					low[v] = low[w]
				}
			} else if on[w] && idx[w] < low[v] {
				low[v] = idx[w]
			}
		}
		if low[v] == idx[v] {
			var comp []*ssa.Function
			for {
				w := stack[len(stack)-1]
				stack = stack[:len(stack)-1]
				on[w] = false
				comp = append(comp, w)
				if w == v {
					break
				}
			}
			if len(comp) > 1 || self {
				// report by top-level function (a cycle through a closure is the cycle of its parent)
				seenTop := map[*ssa.Function]bool{}
				var tops []*ssa.Function
				for _, w := range comp {
					if t := topOf(w); !seenTop[t] {
						seenTop[t] = true
						tops = append(tops, t)
					}
				}
				sort.Slice(tops, func(i, j int) bool { return FuncName(tops[i]) < FuncName(tops[j]) })
				res = append(res, tops)
			}
		}
	}
	for _, f := range nodes {
		if _, ok := idx[f]; !ok {
			strong(f)
		}
	}
	sort.Slice(res, func(i, j int) bool { return FuncName(res[i][0]) < FuncName(res[j][0]) })
	return res
}

// DepthBounded: some function of the cycle compares an integer parameter that
// grows along the cycle (passed as param+const in a recursive call) against a
// constant, with an error return / fatal on the bounded side.
func DepthBounded(comp []*ssa.Function) (bool, string) {
	inComp := map[*ssa.Function]bool{}
	for _, f := range comp {
		inComp[f] = true
	}
	for _, f := range comp {
		for _, prm := range f.Params {
			if !isIntegerType(prm.Type()) {
				continue
			}
			// grows: some call into the cycle passes prm + k (k>0), possibly through other members that forward it
			grows := false
			for _, ff := range comp {
				for _, c := range CallsInAll(ff, nil) {
					cal := StaticCallee(c)
					if cal == nil || !inComp[cal] {
						continue
					}
					for _, a := range c.Common().Args {
						if bo, ok := a.(*ssa.BinOp); ok && bo.Op == token.ADD {
							if k, isK := ConstInt(bo.Y); isK && k > 0 {
								if _, isP := bo.X.(*ssa.Parameter); isP {
									grows = true
								}
							}
						}
					}
				}
			}
			if !grows {
				continue
			}
			// compared against a constant with a failing branch
			for _, b := range f.Blocks {
				if len(b.Instrs) == 0 {
					continue
				}
				ifi, ok := b.Instrs[len(b.Instrs)-1].(*ssa.If)
				if !ok {
					continue
				}
				bo, ok := ifi.Cond.(*ssa.BinOp)
				if !ok {
					continue
				}
				switch bo.Op {
				case token.GTR, token.GEQ, token.LSS, token.LEQ:
				default:
					continue
				}
				_, k1 := ConstInt(bo.Y)
				_, k2 := ConstInt(bo.X)
				if !(bo.X == ssa.Value(prm) && k1) && !(bo.Y == ssa.Value(prm) && k2) {
					continue
				}
				for _, s := range b.Succs {
					if len(s.Preds) == 1 && regionFails(s) {
						return true, FuncName(f) + " bounds " + prm.Name()
					}
				}
			}
		}
	}
	return false, ""
}
