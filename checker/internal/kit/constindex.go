package kit

import (
	"go/token"
	"go/types"

	"golang.org/x/tools/go/ssa"
)

// CONSTINDEX: an element read x[k] (k a constant) or slice x[k:] of a string or
// slice needs a dominating fact that x is long enough: len(x) compared with a
// constant, x != "" (strings), or the emptiness test of the loop that carries x.

// ConstIndexSite is one constant-index access.
type ConstIndexSite struct {
	Instr  ssa.Instruction
	X      ssa.Value
	K      int64
	Proof  string // empty when no dominating length fact was found
	IsSlic bool
}

// ConstIndexSites lists the constant-index element reads and low-bound slices of fn.
func ConstIndexSites(fn *ssa.Function) []ConstIndexSite {
	var out []ConstIndexSite
	for _, b := range fn.Blocks {
		for _, in := range b.Instrs {
			var x, idx ssa.Value
			slic := false
			switch v := in.(type) {
			case *ssa.IndexAddr:
				x, idx = v.X, v.Index
			case *ssa.Index:
				x, idx = v.X, v.Index
			case *ssa.Lookup:
				if _, isMap := v.X.Type().Underlying().(*types.Map); isMap {
					continue
				}
				x, idx = v.X, v.Index
			default:
				continue
			}
			k, ok := ConstInt(idx)
			if !ok {
				continue
			}
			switch x.Type().Underlying().(type) {
			case *types.Slice:
			case *types.Basic: // string
			default:
				continue // arrays and pointers to arrays are checked by the compiler
			}
			s := ConstIndexSite{Instr: in, X: x, K: k, IsSlic: slic}
			s.Proof = lenAtLeast(x, k+1, FactsAt(b), in)
			out = append(out, s)
		}
	}
	return out
}

// lenAtLeast: some fact implies len(x) >= n.
func lenAtLeast(x ssa.Value, n int64, facts []Fact, at ssa.Instruction) string {
	isLenOf := func(v ssa.Value) bool {
		c, ok := v.(*ssa.Call)
		if !ok {
			return false
		}
		b, ok := c.Call.Value.(*ssa.Builtin)
		return ok && b.Name() == "len" && len(c.Call.Args) == 1 && SameValue(c.Call.Args[0], x)
	}
	for _, f := range facts {
		bo, ok := f.Cond.(*ssa.BinOp)
		if !ok {
			continue
		}
		// string emptiness: x != "" / x == ""
		if s, isS := ConstString(bo.Y); isS && s == "" && SameValue(bo.X, x) && n <= 1 {
			if (bo.Op == token.NEQ && f.Val) || (bo.Op == token.EQL && !f.Val) {
				return "x != \"\""
			}
		}
		// nil-ness does not bound the length
		var k int64
		var isK bool
		var op token.Token
		switch {
		case isLenOf(bo.X):
			k, isK = ConstInt(bo.Y)
			op = bo.Op
		case isLenOf(bo.Y):
			k, isK = ConstInt(bo.X)
			// mirror the operator
			switch bo.Op {
			case token.LSS:
				op = token.GTR
			case token.GTR:
				op = token.LSS
			case token.LEQ:
				op = token.GEQ
			case token.GEQ:
				op = token.LEQ
			default:
				op = bo.Op
			}
		default:
			continue
		}
		if !isK {
			continue
		}
		// len op k holds (f.Val) or fails (!f.Val): derive a lower bound of len
		lower := int64(-1)
		switch op {
		case token.GTR: // len > k
			if f.Val {
				lower = k + 1
			}
		case token.GEQ:
			if f.Val {
				lower = k
			}
		case token.LSS: // !(len < k)  => len >= k
			if !f.Val {
				lower = k
			}
		case token.LEQ: // !(len <= k) => len > k
			if !f.Val {
				lower = k + 1
			}
		case token.EQL:
			if f.Val {
				lower = k
			} else if k == 0 {
				lower = 1
			}
		case token.NEQ:
			if !f.Val {
				lower = k
			} else if k == 0 {
				lower = 1
			}
		}
		if lower >= n {
			return "dominating length test"
		}
	}
	return ""
}
