package props

import (
	"fmt"
	"go/token"
	"go/types"
	"strings"

	"golang.org/x/tools/go/ssa"

	. "seqverif/internal/kit"
)

func init() {
	register(&PropInfo{
		ID:          "C04",
		Title:       "Fetch returns each stored document verbatim; unknown IDs are just 'not found'",
		Explanation: "Decides structural necessary conditions of 'absent IDs never turn into errors, crashes or hangs': on the fetch path (storeapi docs stream, fracmanager fetcher, frac fetch index, processor, seq doc positions, disk docs reader) every integer division/modulo has a divisor shown non-zero (constant, max(_,c), dominating comparison, predicate, all call sites, or a frozen configuration invariant); the result of the ID binary search is bounds-checked before it indexes the ID table; a fraction's panic is converted into the batch error by a deferred recover and all fraction fetches go through it; absent positions are skipped (not errors) and results are written only at the requested position and only when found; the docs-stream panic is guarded; block-cache keys are not lossy narrowings of file offsets. NOT decided: that the bytes are the ingested ones, hint logic.",
		Assumptions: []string{
			"configuration invariants frozen in the DIV table (e.g. worker counts >= 1) hold at start-up",
			"implicit runtime panics other than the tabled index/division sites are not proved absent",
		},
		Obs: c04,
	})
}

func fetchScopePkg(rel string) bool {
	switch rel {
	case "storeapi", "fracmanager", "frac", "frac/processor", "seq", "disk", "frac/lids", "frac/token", "util", "cache", "node", "pattern":
		return true
	}
	return false
}

// divAllow: divisions whose divisor is non-zero by an invariant the engine cannot see.
var divAllow = map[string]string{
	"(*storeapi.docsStream).calcChunkSize|result of builtin.len":     "batchSize != 0 was checked just above and batchSize is a sum over docs, so the range over docs ran at least once",
	"(*seq.MIDsDistribution).midToIndex|seq.MIDsDistribution.bucket": "callers: IsIntersecting returns before it when isUndefined() (bucket == 0; checked by C14.1); Add is only used on distributions built by NewMIDsDistribution with a non-zero bucket",
	"(*seq.MIDsDistribution).size|seq.MIDsDistribution.bucket":       "callers: NewMIDsDistribution (non-zero bucket) and UnmarshalJSON under !isUndefined()",
}

func c04() []*Ob {
	return []*Ob{
		{Prop: "C04", ID: "C04.14", Engine: "SHARE(first error wins)", Floor: 1,
			Desc:  "a failed fraction fails the batch: in fetchDocsAsync (and searchDocsAsync) a goroutine assigns the error variable it shares with its siblings only inside sync.Once.Do or with a lock held — assigned directly, a fraction that succeeds after another one failed resets it to nil and FetchDocs answers with the failed fraction's documents reported as not found",
			Check: func(c *Ctx) { sharedErrorFirstWins(c) }},
		{Prop: "C04", ID: "C04.13", Engine: "PAIR(two sites)", Floor: 1,
			Desc:  "ids that share a millisecond are all found in a sealed fraction: findLIDs re-justifies its search window at every id (a comparison with the predecessor resets the lower end, the upper end never moves), or sortIDs hands it the ids in full (MID, RID) order",
			Check: func(c *Ctx) { findLIDsWindowJustified(c) }},
		{Prop: "C04", ID: "C04.12", Engine: "PAIR(two sites)", Floor: 1,
			Desc:  "an absent id does not take the batch down: sealedIDsIndex.LessOrEqual answers for a position beyond the ID table, or findLIDs never searches beyond Len()-1 (no search takes an earlier result as its upper end). With both relaxed, an absent id below everything stored followed by another id makes the probe index past the table; the recovered panic fails the whole fetch",
			Check: func(c *Ctx) { lessOrEqualBorder(c) }},
		{Prop: "C04", ID: "C04.11", Engine: "PAIR(parallel arrays)", Floor: 1,
			Desc: "the i-th group of ids is fetched from the i-th fraction: groupIDsByFraction extends its two results together — wherever a group is appended to the id groups, the fraction it belongs to is written into the fraction list in the same step (same basic block) — otherwise a candidate fraction that received no ids shifts every later group onto the wrong fraction, and stored documents come back as not found",
			Check: func(c *Ctx) {
				fn := c.Fn("fracmanager.groupIDsByFraction")
				if fn == nil {
					return
				}
				isGroups := func(t types.Type) bool {
					sl, ok := t.Underlying().(*types.Slice)
					if !ok {
						return false
					}
					in, ok := sl.Elem().Underlying().(*types.Slice)
					return ok && strings.HasSuffix(TypeStr(in.Elem()), "seq.ID")
				}
				isFracs := func(t types.Type) bool {
					sl, ok := t.Underlying().(*types.Slice)
					return ok && strings.HasSuffix(TypeStr(sl.Elem()), "frac.Fraction")
				}
				n := 0
				for _, b := range fn.Blocks {
					for _, in := range b.Instrs {
						cl, ok := in.(*ssa.Call)
						if !ok || CallName(cl) != "builtin.append" || !isGroups(cl.Type()) {
							continue
						}
						n++
						paired := false
						for _, in2 := range b.Instrs {
							switch x := in2.(type) {
							case *ssa.Store:
								if ia, ok := x.Addr.(*ssa.IndexAddr); ok && isFracs(ia.X.Type()) {
									paired = true
								}
							case *ssa.Call:
								if CallName(x) == "builtin.append" && isFracs(x.Type()) {
									paired = true
								}
							}
						}
						if paired {
							c.Site(cl.Pos(), "a group of ids and its fraction are recorded together")
						} else {
							c.Violation("pair:groupIDsByFraction:parallel", cl.Pos(), "groupIDsByFraction appends a group of ids without recording its fraction in the same step: the two results are no longer parallel, and later groups are looked up in the wrong fraction")
						}
					}
				}
				if n == 0 {
					c.Undecided("pair:groupIDsByFraction:noappend", fn.Pos(), "groupIDsByFraction no longer appends to its id groups")
				}
			}},
		{Prop: "C04", ID: "C04.10", Engine: "SIBLING+ORDER+DOM", Floor: 2,
			Desc:  "a stored document is not pruned away before it is looked for: a sealed fraction is asked for an id only if its occupancy map (Info.Distribution) intersects the id's time, so the map has a bit for every document — BuildDistribution adds every id, on every iteration, and Add and IsIntersecting map timestamps with the same function (shared rule with C14.4); an id whose bucket was never set is dropped before groupIDsByFraction and Fetch answers with an empty entry for a document that is there",
			Check: func(c *Ctx) { occupancyMapComplete(c) }},
		{Prop: "C04", ID: "C04.9", Engine: "ORDER+DOM", Floor: 4,
			Desc:  "a failed block read is not remembered: Cache.GetWithError hands the loader's error to the caller and removes the entry it had reserved (shared rule with C18.3) — a docs block whose one read failed would otherwise be served as an empty block to every later fetch until it is evicted",
			Check: shared("C18.3")},
		{Prop: "C04", ID: "C04.1", Engine: "DIV", Floor: 2,
			Desc: "no integer division or modulo by a possibly-zero value in the packages on the fetch/search path (storeapi, fracmanager, frac, frac/processor, frac/lids, frac/token, seq, disk, util, cache, node, pattern)",
			Check: func(c *Ctx) {
				roots, ok := c.Fns("(*storeapi.GrpcV1).Fetch", "storeapi.newDocsStream", "(*storeapi.docsStream).Next", "(*fracmanager.Fetcher).FetchDocs")
				if !ok {
					return
				}
				scope := c.P.ScopeIfaces(roots, fetchScopePkg)
				c.Count("functions_in_fetch_scope", len(scope))
				need := map[string]bool{"(*storeapi.docsStream).calcChunkSize": false, "(*storeapi.docsStream).batchLoader": false, "fracmanager.fracFetch": false,
					"(*frac.sealedFetchIndex).findLIDs": false, "(*frac.sealedDataProvider).Fetch": false, "(*frac.activeDataProvider).Fetch": false, "(*disk.DocsReader).ReadDocsFunc": false}
				for _, fn := range scope {
					if _, ok := need[FuncName(fn)]; ok {
						need[FuncName(fn)] = true
					}
				}
				for n, seen := range need {
					if !seen {
						c.Undecided("scope-missing:"+n, token.NoPos, "%s is not reachable from the fetch entry points any more; the scope of the rule is incomplete", n)
					}
				}
				for _, fn := range scope {
					for _, d := range c.P.DivSites(fn) {
						key := fmt.Sprintf("div:%s#%d", FuncName(fn), d.Ordinal)
						what := fmt.Sprintf("%s: %s", FuncName(fn), Short(d.Op.String()))
						if d.Proof != "" {
							c.Site(d.Op.Pos(), "%s — divisor non-zero: %s", what, d.Proof)
							continue
						}
						if why, ok := divAllow[FuncName(fn)+"|"+divisorName(d.Op.Y)]; ok {
							c.Site(d.Op.Pos(), "%s — divisor non-zero by frozen invariant: %s", what, why)
							continue
						}
						c.Violation(key, d.Op.Pos(), "%s divides by %s, which is not shown to be non-zero on this path (integer divide by zero panics; on the docs-stream goroutine that kills the process)", FuncName(fn), divisorName(d.Op.Y))
					}
				}
			}},
		{Prop: "C04", ID: "C04.2", Engine: "INDEX", Floor: 1,
			Desc:  "the result of a binary search over [lo, hi+1] (util.BinSearchInRange / sort.Search) is compared against a bound before it is used to read an element of the ID table (GetMID/GetRID) on the fetch path",
			Check: func(c *Ctx) { searchResultBoundChecked(c) }},
		{Prop: "C04", ID: "C04.3", Engine: "DOM+OWN", Floor: 1,
			Desc: "a fraction's panic becomes the batch error: fracmanager.fracFetch defers a closure that calls recover and assigns the returned error; it is the only caller of DataProvider.Fetch in fracmanager, and fetchDocsAsync reaches fractions only through it",
			Check: func(c *Ctx) {
				fn := c.Fn("fracmanager.fracFetch")
				if fn == nil {
					return
				}
				okRecover := false
				for _, d := range InstrsIn(fn, func(in ssa.Instruction) bool { _, ok := in.(*ssa.Defer); return ok }) {
					df := d.(*ssa.Defer)
					cl := StaticCallee(df)
					if cl == nil {
						continue
					}
					hasRecover := Current.HasCall(cl, Callee("builtin.recover"))
					storesErr := false
					for _, st := range InstrsIn(cl, func(in ssa.Instruction) bool { s, ok := in.(*ssa.Store); return ok && IsErrorType(s.Val.Type()) }) {
						s := st.(*ssa.Store)
						if _, isFV := s.Addr.(*ssa.FreeVar); isFV && !IsNilConst(s.Val) {
							storesErr = true
						}
					}
					if hasRecover && storesErr {
						okRecover = true
						c.Site(df.Pos(), "fracFetch: deferred recover converts a panic into the returned error")
					}
				}
				if !okRecover {
					c.Violation("dom:fracFetch:recover", fn.Pos(), "fracFetch no longer converts a panic of one fraction into an error: a panic in the fetch goroutine kills the store")
				}
				// the recover must be registered before the data provider is used
				fetchM := Callee("(frac.DataProvider).Fetch")
				for _, f := range CallsIn(fn, fetchM) {
					dom := false
					for _, d := range InstrsIn(fn, func(in ssa.Instruction) bool { _, ok := in.(*ssa.Defer); return ok }) {
						if cl := StaticCallee(d.(*ssa.Defer)); cl != nil && Current.HasCall(cl, Callee("builtin.recover")) && Dominates(d, f.(ssa.Instruction)) {
							dom = true
						}
					}
					if dom {
						c.Site(f.Pos(), "DataProvider.Fetch runs under the deferred recover")
					} else {
						c.Violation("order:fracFetch:recover-before-fetch", f.Pos(), "DataProvider.Fetch can run before the recover is registered")
					}
				}
				for _, f := range c.P.FuncsInPkg("fracmanager") {
					for _, call := range CallsIn(f, Or(fetchM, Callee("(frac.Fraction).DataProvider"))) {
						top := f
						for top.Parent() != nil {
							top = top.Parent()
						}
						name := FuncName(top)
						if CallName(call) == "(frac.DataProvider).Fetch" && name != "fracmanager.fracFetch" {
							c.Violation("own:DataProvider.Fetch:"+FuncName(f), call.Pos(), "%s calls DataProvider.Fetch outside fracFetch (no recover around it)", FuncName(f))
						}
					}
				}
				if fa := c.Fn("(*fracmanager.Fetcher).fetchDocsAsync"); fa != nil {
					n := 0
					for _, f := range WithClosures(fa) {
						for _, call := range CallsIn(f, Callee("fracmanager.fracFetch")) {
							n++
							c.Site(call.Pos(), "fetchDocsAsync reaches fractions through fracFetch")
						}
					}
					if n == 0 {
						c.Violation("own:fetchDocsAsync:fracFetch", fa.Pos(), "fetchDocsAsync no longer goes through fracFetch")
					}
				}
			}},
		{Prop: "C04", ID: "C04.7", Engine: "ALIAS", Floor: 1,
			Desc: "the request's id list is read-only for the fetcher: the ids parameter of Fetcher.FetchDocs (docsStream passes a view of the list that doFetch still walks to label the response blocks) reaches no mutating sink — no element store, in-place sort or compaction — through sortIDs, groupIDsByFraction or any other static callee",
			Check: func(c *Ctx) {
				fn := c.Fn("(*fracmanager.Fetcher).FetchDocs")
				if fn == nil {
					return
				}
				var ids *ssa.Parameter
				for _, p := range fn.Params {
					if ParamName(p) == "ids" {
						ids = p
					}
				}
				if ids == nil {
					for _, p := range fn.Params {
						if strings.HasSuffix(TypeStr(p.Type()), "seq.IDSource") {
							ids = p
						}
					}
				}
				if ids == nil {
					c.Undecided("alias:FetchDocs:ids", fn.Pos(), "FetchDocs has no id-list parameter any more")
					return
				}
				sinks := c.P.MutatingSinks(ids, 4)
				if len(sinks) == 0 {
					c.Site(fn.Pos(), "the caller's id list is only read (copied before sorting and grouping)")
				}
				for _, sk := range sinks {
					c.Violation("alias:FetchDocs:ids:"+FuncName(sk.Instr.Parent()), sk.Instr.Pos(), "the id list passed to FetchDocs is modified in place (%s in %s): the caller still uses it to label the fetched documents, so documents are returned under other ids", sk.How, FuncName(sk.Instr.Parent()))
				}
			}},
		{Prop: "C04", ID: "C04.8", Engine: "DOM(evidence)", Floor: 1,
			Desc:  "the position search of a fetch in a sealed fraction rests on a monotone predicate: sealedIDsIndex.LessOrEqual (used by findLIDs with real RIDs) answers the constant true only when the lid is beyond the table, when the previous block's minimum ID — MID and RID — is <= id, or after comparing the position's own MID with id.MID (shared rule with C14.6; comparing only the MID of the previous block's minimum hides every stored id of a millisecond that straddles a block border)",
			Check: func(c *Ctx) { lessOrEqualEvidence(c) }},
		{Prop: "C04", ID: "C04.4", Engine: "DOM+PROV", Floor: 4,
			Desc: "absent means an empty entry at its own position: GroupDocsOffsets skips DocPosNotFound without touching the groups; FetchDocs writes a fraction's result only at reversPos[id] and only when the document was found; IndexFetch writes res[dst] for grouped positions only; docsStream.Next hands out exactly one element per call",
			Check: func(c *Ctx) {
				if fn := c.Fn("seq.GroupDocsOffsets"); fn != nil {
					isNF := func(v ssa.Value) bool {
						bo, ok := v.(*ssa.BinOp)
						if !ok || bo.Op != token.EQL {
							return false
						}
						k, ok := bo.Y.(*ssa.Const)
						return ok && k.Value != nil && strings.HasSuffix(TypeStr(k.Type()), "seq.DocPos")
					}
					n := 0
					for _, ap := range CallsIn(fn, Callee("builtin.append")) {
						if !InLoop(ap.(ssa.Instruction).Block()) {
							continue
						}
						n++
						v, found := BoolFact(FactsAtInstr(ap.(ssa.Instruction)), isNF)
						if found && !v {
							c.Site(ap.Pos(), "GroupDocsOffsets appends only for positions != DocPosNotFound")
						} else {
							c.Violation("dom:GroupDocsOffsets:skip-notfound", ap.Pos(), "GroupDocsOffsets groups a position without having excluded DocPosNotFound: an absent id would be unpacked into a bogus block/offset")
						}
					}
					if n == 0 {
						c.Undecided("GroupDocsOffsets:noappend", fn.Pos(), "GroupDocsOffsets no longer appends inside its loop")
					}
				}
				if fn := c.Fn("(*fracmanager.Fetcher).FetchDocs"); fn != nil {
					n := 0
					for _, lf := range c.P.FindLifted(fn, func(in ssa.Instruction) bool {
						st, ok := in.(*ssa.Store)
						if !ok {
							return false
						}
						ia, ok := st.Addr.(*ssa.IndexAddr)
						return ok && TypeStr(ia.X.Type()) == "[][]byte"
					}) {
						st := lf.In.(*ssa.Store)
						ia := st.Addr.(*ssa.IndexAddr)
						n++
						viaMap := DerivesFrom(ia.Index, func(v ssa.Value) bool {
							l, ok := v.(*ssa.Lookup)
							return ok && strings.HasPrefix(TypeStr(l.X.Type()), "map[")
						})
						if !viaMap {
							c.Violation("prov:FetchDocs:position", st.Pos(), "FetchDocs stores a document at a position that does not come from the id->request-position map")
							continue
						}
						if KnownNonNil(FactsAtInstr(st), st.Val) {
							c.Site(st.Pos(), "FetchDocs overwrites a result slot only with a found (non-nil) document, at reversPos[id]")
						} else {
							c.Violation("dom:FetchDocs:only-found", st.Pos(), "FetchDocs can overwrite a result slot with a not-found (nil) entry: a document found in one fraction is erased by another candidate fraction that does not have it")
						}
					}
					// what FetchDocs returns is the slice arranged in request order, never a fraction's own result
					async := Callee("(*fracmanager.Fetcher).fetchDocsAsync")
					for _, b := range fn.Blocks {
						ret, ok := b.Instrs[len(b.Instrs)-1].(*ssa.Return)
						if !ok {
							continue
						}
						v := RetOperand(ret, 0)
						if IsNilConst(v) {
							continue
						}
						if DerivesFromNoCall(v, func(x ssa.Value) bool {
							e, isE := x.(*ssa.Extract)
							if !isE {
								return false
							}
							cl, isC := e.Tuple.(ssa.CallInstruction)
							return isC && async(cl)
						}) {
							c.Violation("prov:FetchDocs:returns-fraction-order", ret.Pos(), "FetchDocs returns a fraction's own result slice: it is in the sorted order the ids were grouped in, not in the order of the request, so every caller pairs documents with the wrong ids unless the request happened to be sorted")
						} else {
							c.Site(ret.Pos(), "FetchDocs returns the slice arranged in request order")
						}
					}
					if n == 0 {
						c.Undecided("FetchDocs:nostore", fn.Pos(), "no store into the result slice found in FetchDocs")
					}
					// the error of fetchDocsAsync is what FetchDocs returns
					AckCheck(c, fn, []Must{{Name: "fetchDocsAsync", M: Callee("(*fracmanager.Fetcher).fetchDocsAsync")}}, nil)
				}
				if fn := c.Fn("frac/processor.IndexFetch"); fn != nil {
					for _, in := range InstrsIn(fn, func(in ssa.Instruction) bool {
						st, ok := in.(*ssa.Store)
						if !ok {
							return false
						}
						ia, ok := st.Addr.(*ssa.IndexAddr)
						return ok && TypeStr(ia.X.Type()) == "[][]byte"
					}) {
						st := in.(*ssa.Store)
						ia := st.Addr.(*ssa.IndexAddr)
						grp := Callee("seq.GroupDocsOffsets")
						fromIndex := DerivesFrom(ia.Index, func(v ssa.Value) bool {
							e, ok := v.(*ssa.Extract)
							if !ok || e.Index != 2 {
								return false
							}
							cl, ok := e.Tuple.(ssa.CallInstruction)
							return ok && grp(cl)
						})
						if fromIndex {
							c.Site(st.Pos(), "IndexFetch writes res[dst] with dst from GroupDocsOffsets' original-position table")
						} else {
							c.Violation("prov:IndexFetch:dst", st.Pos(), "IndexFetch writes a document at a position that is not the original position recorded by GroupDocsOffsets")
						}
					}
				}
				if fn := c.Fn("(*storeapi.docsStream).Next"); fn != nil {
					okIdx, okAdv := false, false
					for _, b := range fn.Blocks {
						for _, in := range b.Instrs {
							if ia, ok := in.(*ssa.IndexAddr); ok && ValueIsField(ia.X, "storeapi.docsStream", "docsBuf") {
								if k, isK := ConstInt(ia.Index); isK && k == 0 {
									okIdx = true
								}
							}
							if sl, ok := in.(*ssa.Slice); ok && ValueIsField(sl.X, "storeapi.docsStream", "docsBuf") && sl.Low != nil && sl.High == nil {
								if k, isK := ConstInt(sl.Low); isK && k == 1 {
									okAdv = true
								}
							}
						}
					}
					if okIdx && okAdv {
						c.Site(fn.Pos(), "docsStream.Next returns docsBuf[0] and advances by exactly one")
					} else {
						c.Violation("prov:docsStream.Next:one-per-call", fn.Pos(), "docsStream.Next no longer returns element 0 and advances the buffer by exactly one: the i-th response would not be the i-th id's")
					}
				}
			}},
		{Prop: "C04", ID: "C04.5", Engine: "DOM+ENUM(panic)", Floor: 2,
			Desc: "no explicit fatal sink on the fetch path is reachable by request content: the panic of docsStream.nextBatch is guarded by channel-closed and ctx.Err()==nil; every other explicit panic/fatal in the fetch scope is in the frozen table of internal-invariant (BUG) sinks",
			Check: func(c *Ctx) {
				if fn := c.Fn("(*storeapi.docsStream).nextBatch"); fn != nil {
					for _, p := range FatalSites(fn) {
						facts := FactsAtInstr(p)
						closed, f1 := BoolFact(facts, func(v ssa.Value) bool {
							e, ok := v.(*ssa.Extract)
							if !ok || e.Index != 1 {
								return false
							}
							u, ok := e.Tuple.(*ssa.UnOp)
							return ok && u.Op == token.ARROW
						})
						ctxErrNil := false
						for _, f := range facts {
							if bo, ok := f.Cond.(*ssa.BinOp); ok && (bo.Op == token.NEQ || bo.Op == token.EQL) {
								if cl, ok := bo.X.(ssa.CallInstruction); ok && CallName(cl) == "(context.Context).Err" && IsNilConst(bo.Y) {
									if (bo.Op == token.NEQ) != f.Val {
										ctxErrNil = true
									}
								}
							}
						}
						if f1 && !closed && ctxErrNil {
							c.Site(p.Pos(), "nextBatch panics only when the channel is closed and the context is alive (caller misuse)")
						} else {
							c.Violation("dom:nextBatch:panic-guard", p.Pos(), "the panic in docsStream.nextBatch is reachable without the channel-closed / ctx.Err()==nil guard")
						}
					}
				}
				// functions that process request content (ids, positions, chunks): no explicit fatal sink at all
				names := []string{"(*storeapi.docsStream).batchLoader", "(*storeapi.docsStream).calcChunkSize", "(*storeapi.docsStream).Next",
					"(*fracmanager.Fetcher).FetchDocs", "(*fracmanager.Fetcher).fetchDocsAsync", "fracmanager.fracFetch", "fracmanager.sortIDs", "fracmanager.groupIDsByFraction",
					"frac/processor.IndexFetch", "seq.GroupDocsOffsets", "(seq.DocPos).Unpack",
					"(*frac.sealedFetchIndex).findLIDs", "(*frac.sealedFetchIndex).getDocPosByLIDs", "(*frac.sealedFetchIndex).GetDocPos",
					"(*frac.activeFetchIndex).GetDocPos", "(*frac.DocsPositions).Get", "(*frac.activeDataProvider).Fetch", "(*frac.sealedDataProvider).Fetch",
					"(*disk.DocsReader).ReadDocs", "(*disk.DocsReader).ReadDocsFunc", "disk.extractDocsFromBlockFunc", "storeapi.extractIDs"}
				for _, n := range names {
					fn := c.Fn(n)
					if fn == nil {
						continue
					}
					for _, f := range WithClosures(fn) {
						bad := false
						for _, p := range FatalSites(f) {
							if !p.Pos().IsValid() {
								continue // compiler-generated (blocking select)
							}
							bad = true
							c.Violation("fatal:"+FuncName(f), p.Pos(), "%s processes request content (ids/positions) and contains an explicit panic/fatal sink", FuncName(f))
						}
						if !bad {
							c.Site(f.Pos(), "%s: no explicit fatal sink", FuncName(f))
						}
					}
				}
			}},
		{Prop: "C04", ID: "C04.6", Engine: "KEY(PROV)", Floor: 3,
			Desc:  "block-cache keys are lossless: the key passed to cache.Cache Get/GetWithError is not a narrowing integer conversion of a wider quantity (a file offset) without a dominating bound check",
			Check: func(c *Ctx) { cacheKeyObligation(c) }},
	}
}

func cacheKeyObligation(c *Ctx) {
	m := Callee("(*cache.Cache).Get", "(*cache.Cache).GetWithError")
	for _, fn := range c.P.Funcs {
		if PkgOf(fn) == "cache" {
			continue
		}
		for _, call := range CallsIn(fn, m) {
			key := Arg(call, 0)
			cv, ok := key.(*ssa.Convert)
			if !ok {
				c.Site(call.Pos(), "%s: cache key %s is used at its own width", FuncName(fn), Short(key.String()))
				continue
			}
			from, okF := cv.X.Type().Underlying().(*types.Basic)
			to, okT := cv.Type().Underlying().(*types.Basic)
			if !okF || !okT {
				continue
			}
			if sizeOfBasic(from) <= sizeOfBasic(to) {
				c.Site(call.Pos(), "%s: cache key conversion %s -> %s does not narrow", FuncName(fn), from.Name(), to.Name())
				continue
			}
			// narrowing: accept when the source is itself a widening of something <= target (e.g. int index from uint32 table)
			if inner, ok := cv.X.(*ssa.Convert); ok {
				if ib, ok := inner.X.Type().Underlying().(*types.Basic); ok && sizeOfBasic(ib) <= sizeOfBasic(to) {
					c.Site(call.Pos(), "%s: cache key round-trips through a wider type", FuncName(fn))
					continue
				}
			}
			if boundedBy(cv.X, sizeOfBasic(to), 0) {
				c.Site(call.Pos(), "%s: cache key is computed (+const, /const) from a value that is at most %d bits wide", FuncName(fn), sizeOfBasic(to)*8)
				continue
			}
			// the construct is the cache that is keyed (owner type and field), not the function the call sits in
			where := FuncName(fn)
			if of := ownerField(Receiver(call)); of != "" {
				where = of
			}
			c.Violation("key:"+where+":"+CallName(call), call.Pos(), "%s uses %s(%s) as cache key: two values that differ only above bit %d share a cache entry (for a docs file larger than 4 GiB another block's bytes are returned)", FuncName(fn), to.Name(), divisorName(cv.X), sizeOfBasic(to)*8)
		}
	}
}

// boundedBy: v is computed from a source of at most `size` bytes through
// widening conversions, +const and /const (so it fits the narrower type again).
func boundedBy(v ssa.Value, size int, d int) bool {
	if d > 6 {
		return false
	}
	switch x := v.(type) {
	case *ssa.Convert:
		if b, ok := x.X.Type().Underlying().(*types.Basic); ok && sizeOfBasic(b) <= size && b.Info()&types.IsInteger != 0 {
			return true
		}
		return boundedBy(x.X, size, d+1)
	case *ssa.BinOp:
		if _, ok := ConstInt(x.Y); ok && (x.Op == token.ADD || x.Op == token.QUO || x.Op == token.REM || x.Op == token.SUB) {
			return boundedBy(x.X, size, d+1)
		}
	case *ssa.Call:
		if callee := StaticCallee(x); callee != nil && len(callee.Blocks) == 1 {
			if ret, ok := callee.Blocks[0].Instrs[len(callee.Blocks[0].Instrs)-1].(*ssa.Return); ok && len(ret.Results) == 1 {
				return boundedBy(ret.Results[0], size, d+1)
			}
		}
	case *ssa.Parameter:
		if b, ok := x.Type().Underlying().(*types.Basic); ok && sizeOfBasic(b) <= size {
			return true
		}
	case *ssa.UnOp:
		if al, ok := x.X.(*ssa.Alloc); ok && x.Op == token.MUL {
			n := 0
			for _, r := range *al.Referrers() {
				if st, ok := r.(*ssa.Store); ok && st.Addr == al {
					n++
					if !boundedBy(st.Val, size, d+1) {
						return false
					}
				}
			}
			return n > 0
		}
	}
	return false
}

func sizeOfBasic(b *types.Basic) int {
	switch b.Kind() {
	case types.Int8, types.Uint8:
		return 1
	case types.Int16, types.Uint16:
		return 2
	case types.Int32, types.Uint32:
		return 4
	default:
		return 8
	}
}

func divisorName(v ssa.Value) string {
	for i := 0; i < 6; i++ {
		switch x := v.(type) {
		case *ssa.Convert:
			v = x.X
			continue
		case *ssa.UnOp:
			if t, f, _, ok := FieldOf(x.X); ok {
				return t + "." + f
			}
			if g, ok := x.X.(*ssa.Global); ok {
				return strings.TrimPrefix(g.Pkg.Pkg.Path(), ModPath+"/") + "." + g.Name()
			}
			if fv, ok := x.X.(*ssa.FreeVar); ok {
				return "captured " + fv.Name()
			}
		case *ssa.Parameter:
			return "parameter " + x.Name()
		case *ssa.FreeVar:
			return "captured " + x.Name()
		case *ssa.Call:
			return "result of " + CallName(x)
		case *ssa.Phi:
			return "variable " + x.Comment
		case *ssa.BinOp:
			return "expression " + x.Op.String() + " (" + divisorName(x.X) + ", " + divisorName(x.Y) + ")"
		}
		break
	}
	return Short(v.Name() + "=" + v.String())
}

func stripConvs(v ssa.Value) ssa.Value {
	for {
		switch x := v.(type) {
		case *ssa.Convert:
			v = x.X
		case *ssa.ChangeType:
			v = x.X
		default:
			return v
		}
	}
}

// ownerField names the struct field a value was loaded from ("disk.DocsReader.cache"), or "".
func ownerField(v ssa.Value) string {
	for i := 0; v != nil && i < 6; i++ {
		switch x := v.(type) {
		case *ssa.UnOp:
			v = x.X
		case *ssa.FieldAddr:
			t, f, _, ok := FieldOf(x)
			if ok {
				return t + "." + f
			}
			return ""
		case *ssa.Field:
			t, f, _, ok := FieldOf(x)
			if ok {
				return t + "." + f
			}
			return ""
		case *ssa.ChangeType:
			v = x.X
		default:
			return ""
		}
	}
	return ""
}

// searchResultBoundChecked: rule body of C04.2, shared with other properties.
func searchResultBoundChecked(c *Ctx) {
	roots, ok := c.Fns("(*fracmanager.Fetcher).FetchDocs")
	if !ok {
		return
	}
	scope := c.P.ScopeIfaces(roots, fetchScopePkg)
	access := Or(MethodNamed("", "GetMID"), MethodNamed("", "GetRID"))
	n := 0
	for _, fn := range scope {
		for _, bs := range CallsIn(fn, Callee("util.BinSearchInRange", "sort.Search")) {
			n++
			r := bs.Value()
			bad := UncheckedIndexUses(fn, r, access)
			for i, u := range bad {
				c.Violation(fmt.Sprintf("index:%s:%s#%d", FuncName(fn), CallName(u), i+1), u.Pos(), "in %s the result of %s (which is hi+1 when nothing matches) reaches %s without a dominating bound check: an absent id below every stored id indexes past the table", FuncName(fn), CallName(bs), CallName(u))
			}
			if len(bad) == 0 {
				c.Site(bs.Pos(), "%s: every element access with the result of %s is dominated by a comparison of that result", FuncName(fn), CallName(bs))
			}
			// range refinement: a lower bound carried to the next search must not exceed this search's result
			// (the result is the first position <= id; for an absent id it is the next smaller stored id, which a later id may equal)
			if lo, ok := bs.Common().Args[0].(*ssa.Phi); ok {
				seenPhi := map[*ssa.Phi]bool{}
				var edges []ssa.Value
				var collect func(p *ssa.Phi)
				collect = func(p *ssa.Phi) {
					if seenPhi[p] {
						return
					}
					seenPhi[p] = true
					for _, e := range p.Edges {
						if pp, isPhi := e.(*ssa.Phi); isPhi {
							collect(pp)
						} else {
							edges = append(edges, e)
						}
					}
				}
				collect(lo)
				for _, e := range edges {
					if bo, isAdd := stripConvs(e).(*ssa.BinOp); isAdd && bo.Op == token.ADD {
						if k, isK := ConstInt(bo.Y); isK && k > 0 && DerivesFrom(bo.X, func(v ssa.Value) bool { return v == r }) {
							c.Violation("index:"+FuncName(fn)+":lower-bound-past-result", bo.Pos(), "in %s the lower bound of the next search is the previous result + %d: when the previous id was absent its result position holds the next smaller stored id, which is then excluded (a present document is reported not found)", FuncName(fn), k)
						}
					}
				}
			}
		}
	}
	// any other position findLIDs reads the ID table at (a neighbour of a previous hit, a remembered position) is
	// compared against a bound first: the table ends at the fraction's last LID, and the LID after the oldest
	// document's does not exist
	if fn := c.P.Func("(*frac.sealedFetchIndex).findLIDs"); fn != nil {
		for _, call := range CallsIn(fn, access) {
			args := call.Common().Args
			idx := stripConvs(args[len(args)-1])
			fromSearch := DerivesFrom(idx, func(v ssa.Value) bool {
				cl, ok := v.(ssa.CallInstruction)
				return ok && (CallName(cl) == "util.BinSearchInRange" || CallName(cl) == "sort.Search")
			})
			if fromSearch {
				continue // judged above
			}
			checked := false
			for _, f := range FactsAtInstr(call.(ssa.Instruction)) {
				bo, ok := f.Cond.(*ssa.BinOp)
				if !ok {
					continue
				}
				switch bo.Op {
				case token.LSS, token.LEQ, token.GTR, token.GEQ:
					if DerivesFrom(bo.X, func(v ssa.Value) bool { return v == idx }) || DerivesFrom(bo.Y, func(v ssa.Value) bool { return v == idx }) {
						checked = true
					}
				}
			}
			if checked {
				c.Site(call.Pos(), "findLIDs reads the ID table at a computed position only after comparing it with a bound")
			} else {
				c.Violation("index:findLIDs:"+CallName(call)+":unbounded-position", call.Pos(), "findLIDs reads the ID table at %s, a position that does not come from the bounded binary search and is not compared with the table's last LID: probing the LID next to the previous hit indexes past the table when that hit was the fraction's oldest document — the panic fails the whole fetch", Short(idx.String()))
			}
		}
	}
	if fn := c.P.Func("(*frac.sealedFetchIndex).findLIDs"); fn == nil || !Current.HasCall(fn, Callee("util.BinSearchInRange", "sort.Search")) {
		c.Undecided("index:findLIDs-anchor", token.NoPos, "(*frac.sealedFetchIndex).findLIDs no longer performs the binary search this rule is about")
	}
	c.Count("search_sites", n)
}
