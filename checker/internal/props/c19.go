package props

import (
	"go/constant"
	"go/token"
	"go/types"
	"reflect"
	"strings"

	"golang.org/x/tools/go/ssa"

	. "seqverif/internal/kit"
)

func init() {
	register(&PropInfo{
		ID:          "C19",
		Title:       "A finished asynchronous search equals the synchronous one and survives restarts",
		Explanation: "Decided: (1) mustWriteFileAtomic creates a temp file, writes, syncs, renames and syncs the directory in that order and every error reaches a fatal sink; (2) the aggregation-bin key codec is symmetric — one separator constant, Itoa<->Atoi, split at the FIRST separator only (tokens may contain it), and the JSON shadow struct carries every field; (3) Done=true is stored after the loop over all fractions, which returns on the first failing fraction; processed fractions are recognised by the same file-name scheme processFrac writes; (4) unfinished requests are restarted at boot and the resumed search re-parses the stored query with the same parser and the same mapping provider as StartSearch; (5) FetchSearchResult merges partial results with the histogram interval and order of the stored request, as the synchronous searcher does. NOT decided: JSON float fidelity, equality of results, retention of fractions while a search is pending.",
		Assumptions: []string{"strings.Cut / SplitN(..,2) / Index split at the first separator"},
		Obs:         c19,
	})
}

func c19() []*Ob {
	return []*Ob{
		{Prop: "C19", ID: "C19.14", Engine: "ORDER(snapshot)", Floor: 1,
			Desc:  "Done describes what was merged: every read of the requests table in FetchSearchResult precedes the listing of the partial-result files — a status re-read after the merge is newer than the list, and a fetch that overlaps the worker's last step answers Done=true with the earlier fractions only",
			Check: func(c *Ctx) { statusBelongsToTheList(c) }},
		{Prop: "C19", ID: "C19.12", Engine: "PAIR(two sites)", Floor: 1,
			Desc:  "every partial result is merged once: FetchSearchResult decodes each .qpr file into a new QPR, or AggregatableSamples.UnmarshalJSON replaces its map on every decode",
			Check: func(c *Ctx) { partialResultDecodedFresh(c) }},
		{Prop: "C19", ID: "C19.13", Engine: "PAIR(two sites)", Floor: 1,
			Desc:  "the partial results of a resumed search are found: doSearch leaves the request's fraction list (shared with the stored state and persisted with it) as it is, or loadQPRPaths finds the files by listing the directory, not by that list",
			Check: func(c *Ctx) { requestFractionsStable(c) }},
		{Prop: "C19", ID: "C19.11", Engine: "DOM(loop exit)", Floor: 1,
			Desc: "a resumed search goes through all of its fractions: the loop of AsyncSearcher.doSearch that calls processFrac is left early only on the way to a return — never on to the statement that marks the request done; skipping an already processed fraction is a `continue` (a `break` there ends a search that is resumed after a restart at the first fraction that was done before the restart, and reports it finished)",
			Check: func(c *Ctx) {
				fn := c.Fn("(*fracmanager.AsyncSearcher).doSearch")
				if fn == nil {
					return
				}
				var loop *Loop
				for _, lc := range c.P.FindLifted(fn, CallSel(Callee("(*fracmanager.AsyncSearcher).processFrac"))) {
					if l := InnermostLoop(lc.Top().Block()); l != nil {
						loop = l
					}
				}
				if loop == nil {
					c.Undecided("dom:doSearch:noloop", fn.Pos(), "doSearch no longer calls processFrac from a loop")
					return
				}
				var done []ssa.Instruction
				for _, st := range InstrsIn(fn, func(in ssa.Instruction) bool {
					s, ok := in.(*ssa.Store)
					if !ok {
						return false
					}
					_, f, _, okF := FieldOf(s.Addr)
					v, isB := ConstBool(s.Val)
					return okF && f == "Done" && isB && v
				}) {
					done = append(done, st)
				}
				bad := 0
				for _, e := range loop.EarlyExits() {
					for _, d := range done {
						if e[1] == d.Block() || Reachable(e[1], d.Block()) {
							bad++
							c.Violation("dom:doSearch:early-exit", e[0].Instrs[len(e[0].Instrs)-1].Pos(), "doSearch can leave the loop over the request's fractions early and still mark the request done: the remaining fractions are never searched")
						}
					}
				}
				if bad == 0 {
					c.Site(loop.Header.Instrs[0].Pos(), "the fraction loop is left early only towards a return (%d early exit(s))", len(loop.EarlyExits()))
				}
			}},
		{Prop: "C19", ID: "C19.9", Engine: "CODEC(json types)", Floor: 1,
			Desc: "what is persisted can be read back: every type reachable through exported, JSON-visible fields from a value the asynchronous searcher hands to json.Unmarshal is one encoding/json can decode — no interface type with methods (only interface{} and types with their own UnmarshalJSON are decodable), no channel or function type; otherwise the whole .info file fails to load at the next start and the search, finished or not, is gone",
			Check: func(c *Ctx) {
				n := 0
				for _, fn := range c.P.FuncsInPkg("fracmanager") {
					for _, call := range CallsIn(fn, Callee("encoding/json.Unmarshal")) {
						arg := Arg(call, 1)
						if mi, ok := arg.(*ssa.MakeInterface); ok {
							arg = mi.X
						}
						pt, ok := arg.Type().Underlying().(*types.Pointer)
						if !ok {
							continue
						}
						n++
						if path, why := jsonUndecodable(pt.Elem(), "", map[types.Type]bool{}); why != "" {
							c.Violation("codec:json:"+FuncName(fn)+":"+TypeStr(pt.Elem()), call.Pos(), "%s decodes JSON into %s, but %s is %s: encoding/json returns an error for the whole value", FuncName(fn), TypeStr(pt.Elem()), strings.TrimPrefix(path, "."), why)
						} else {
							c.Site(call.Pos(), "%s: every JSON-visible field of %s is decodable", FuncName(fn), TypeStr(pt.Elem()))
						}
					}
				}
				if n == 0 {
					c.Undecided("codec:json:none", 0, "package fracmanager no longer decodes JSON")
				}
			}},
		{Prop: "C19", ID: "C19.10", Engine: "ACK", Floor: 1,
			Desc: "every searched fraction leaves its partial result: AsyncSearcher.processFrac returns success only after the fraction's .qpr file has been written (mustWriteFileAtomic) — also when the fraction contributed no ids: a request that asks for no documents still has histogram and aggregation samples in every fraction's result, and FetchSearchResult merges exactly the files it finds",
			Check: func(c *Ctx) {
				fn := c.Fn("(*fracmanager.AsyncSearcher).processFrac")
				if fn == nil {
					return
				}
				AckCheck(c, fn, []Must{{Name: "mustWriteFileAtomic", M: Callee("fracmanager.mustWriteFileAtomic")}}, nil)
			}},
		{Prop: "C19", ID: "C19.1", Engine: "ORDER+ERRFLOW", Floor: 8,
			Desc: "atomic persistence: mustWriteFileAtomic does create(tmp) < write < sync < rename(tmp -> final) < directory sync, and every error in it and in mustFsyncFile reaches a fatal sink",
			Check: func(c *Ctx) {
				fn := c.Fn("fracmanager.mustWriteFileAtomic")
				if fn == nil {
					return
				}
				cr, wr, sy, rn, ds := Callee("os.Create"), Callee("(*os.File).Write"), Callee("(*os.File).Sync"), Callee("os.Rename"), Callee("fracmanager.mustFsyncFile")
				MustPrecede(c, fn, cr, "os.Create(tmp)", wr, "f.Write")
				MustPrecede(c, fn, wr, "f.Write", sy, "f.Sync")
				MustPrecede(c, fn, sy, "f.Sync", rn, "os.Rename")
				MustPrecede(c, fn, rn, "os.Rename", ds, "directory sync")
				for _, r := range CallsIn(fn, rn) {
					src, dst := r.Common().Args[0], r.Common().Args[1]
					var created ssa.Value
					for _, cc := range CallsIn(fn, cr) {
						created = cc.Common().Args[0]
					}
					if created != nil && SameValue(src, created) && !SameValue(dst, created) {
						c.Site(r.Pos(), "the temp file that was written and synced is what gets renamed to the final name")
					} else {
						c.Violation("prov:mustWriteFileAtomic:rename-args", r.Pos(), "the rename does not move the written temp file onto the final path")
					}
				}
				scope := append(WithClosures(fn), WithClosures(c.P.Func("fracmanager.mustFsyncFile"))...)
				ErrFlowCheck(c, scope, nil)
				// processFrac persists through it
				if pf := c.Fn("(*fracmanager.AsyncSearcher).processFrac"); pf != nil {
					if Current.HasCall(pf, Callee("fracmanager.mustWriteFileAtomic")) {
						c.Site(pf.Pos(), "partial results are persisted with mustWriteFileAtomic")
					} else {
						c.Violation("own:processFrac:atomic-write", pf.Pos(), "processFrac no longer persists the partial result with mustWriteFileAtomic")
					}
				}
				if ws := c.Fn("(*fracmanager.AsyncSearcher).mustWriteSearchInfo"); ws != nil {
					if Current.HasCall(ws, Callee("fracmanager.mustWriteFileAtomic")) {
						c.Site(ws.Pos(), "request state is persisted with mustWriteFileAtomic")
					} else {
						c.Violation("own:mustWriteSearchInfo:atomic-write", ws.Pos(), "the request state is no longer persisted with mustWriteFileAtomic")
					}
				}
			}},
		{Prop: "C19", ID: "C19.2", Engine: "CODEC+FIELDS", Floor: 3,
			Desc: "bin key codec: AggBin.toKey and fromKey use the same separator constant, Itoa <-> Atoi, and fromKey splits at the first separator only; AggregatableSamples' JSON shadow struct is filled with SamplesByBin and NotExists in both directions",
			Check: func(c *Ctx) {
				to, from := c.Fn("(*seq.AggBin).toKey"), c.Fn("(*seq.AggBin).fromKey")
				if to == nil || from == nil {
					return
				}
				sepOf := func(fn *ssa.Function) map[string]bool {
					out := map[string]bool{}
					for _, b := range fn.Blocks {
						for _, in := range b.Instrs {
							for _, op := range in.Operands(nil) {
								if s, ok := ConstString(*op); ok && len(s) > 0 && len(s) <= 3 {
									out[s] = true
								}
							}
						}
					}
					return out
				}
				ts, fs := sepOf(to), sepOf(from)
				common := ""
				for s := range ts {
					if fs[s] {
						common = s
					}
				}
				if common != "" {
					c.Site(to.Pos(), "toKey and fromKey use the same separator %q", common)
				} else {
					c.Violation("codec:AggBin:separator", from.Pos(), "toKey joins with %v but fromKey splits with %v", keysOf(ts), keysOf(fs))
				}
				if Current.HasCall(to, Callee("strconv.Itoa", "strconv.FormatInt", "strconv.FormatUint")) && Current.HasCall(from, Callee("strconv.Atoi", "strconv.ParseInt", "strconv.ParseUint")) {
					c.Site(from.Pos(), "MID is rendered and parsed in decimal")
				} else {
					c.Violation("codec:AggBin:number", from.Pos(), "toKey/fromKey no longer use a matching integer rendering/parsing pair")
				}
				first := CallsIn(from, Callee("strings.Cut", "strings.Index", "strings.IndexByte"))
				splitN := CallsIn(from, Callee("strings.SplitN"))
				all := CallsIn(from, Callee("strings.Split", "strings.LastIndex", "strings.LastIndexByte", "strings.Fields", "strings.FieldsFunc"))
				okFirst := len(first) > 0
				for _, s := range splitN {
					if k, isK := ConstInt(Arg(s, 2)); isK && k == 2 {
						okFirst = true
					}
				}
				if okFirst && len(all) == 0 {
					c.Site(from.Pos(), "fromKey splits at the first separator: a token that contains the separator survives")
				} else {
					c.Violation("codec:AggBin:first-separator", from.Pos(), "fromKey does not split at the FIRST separator only (it uses %d split-everywhere call(s)): group-by values that contain the separator are cut and collide after a restart / in async results", len(all))
				}
				for _, it := range []struct {
					fn    string
					store bool
				}{{"(*seq.AggregatableSamples).MarshalJSON", true}, {"(*seq.AggregatableSamples).UnmarshalJSON", true}} {
					fn := c.Fn(it.fn)
					if fn == nil {
						continue
					}
					typ := "seq.aggregatableSamples"
					if it.fn == "(*seq.AggregatableSamples).UnmarshalJSON" {
						typ = "seq.AggregatableSamples"
					}
					for _, f := range []string{"SamplesByBin", "NotExists"} {
						wrote := Current.Has(fn, FieldStore(typ, f))
						if !wrote && f == "SamplesByBin" {
							// filled by map updates through the field
							for _, a := range FieldAccesses(fn, func(t, ff string) bool { return t == typ && ff == f }) {
								if a.Write {
									wrote = true
								}
							}
						}
						if wrote {
							c.Site(fn.Pos(), "%s fills %s.%s", it.fn, typ, f)
						} else {
							c.Violation("fields:"+it.fn+":"+f, fn.Pos(), "%s does not carry %s over", it.fn, f)
						}
					}
				}
			}},
		{Prop: "C19", ID: "C19.3", Engine: "ORDER+PAIR", Floor: 3,
			Desc: "done means all fractions: doSearch stores Done=true only after the loop over the request's fractions, a failing fraction returns an error before that; the processed-fraction set is derived from files named by the same scheme processFrac writes",
			Check: func(c *Ctx) {
				fn := c.Fn("(*fracmanager.AsyncSearcher).doSearch")
				if fn == nil {
					return
				}
				ErrPathCheck(c, []*ssa.Function{fn}, nil)
				pf := Callee("(*fracmanager.AsyncSearcher).processFrac")
				calls := CallsIn(fn, pf)
				if len(calls) == 0 {
					c.Violation("order:doSearch:no-processFrac", fn.Pos(), "doSearch no longer processes fractions")
					return
				}
				for _, st := range InstrsIn(fn, func(in ssa.Instruction) bool {
					s, ok := in.(*ssa.Store)
					if !ok {
						return false
					}
					_, f, _, okF := FieldOf(s.Addr)
					v, isB := ConstBool(s.Val)
					return okF && f == "Done" && isB && v
				}) {
					inLoop := InLoop(st.Block())
					after := false
					for _, pc := range calls {
						if Reachable(pc.(ssa.Instruction).Block(), st.Block()) && !Reachable(st.Block(), pc.(ssa.Instruction).Block()) {
							after = true
						}
					}
					if !inLoop && after {
						c.Site(st.Pos(), "Done=true is stored after the fraction loop has finished")
					} else {
						c.Violation("order:doSearch:done-after-loop", st.Pos(), "Done=true can be stored before every fraction of the request was processed")
					}
				}
				// name scheme: the extension constant used for writing is the one globbed for
				ext := constString(c.P.TypesPkg("fracmanager"), "qprExtension")
				usedW, usedR := false, false
				if p := c.P.Func("(*fracmanager.AsyncSearcher).processFrac"); p != nil {
					usedW = usesConstString(p, ext)
				}
				if p := c.P.Func("(*fracmanager.AsyncSearcher).loadQPRPaths"); p != nil {
					usedR = usesConstString(p, ext)
				}
				if ext != "" && usedW && usedR {
					c.Site(fn.Pos(), "partial results are written and listed with the same extension %q", ext)
				} else {
					c.Violation("pair:qpr-extension", fn.Pos(), "processFrac and loadQPRPaths no longer agree on the partial-result file extension")
				}
				if fr := c.Fn("fracmanager.fracNameFromQPRPath"); fr != nil {
					// processFrac builds id + "." + frac + ext : three dot-separated parts, name is part 1
					okIdx := false
					for _, b := range fr.Blocks {
						for _, in := range b.Instrs {
							if ia, ok := in.(*ssa.IndexAddr); ok {
								if k, isK := ConstInt(ia.Index); isK && k == 1 {
									okIdx = true
								}
							}
						}
					}
					if okIdx {
						c.Site(fr.Pos(), "fracNameFromQPRPath takes the middle part of <id>.<frac>.qpr")
					} else {
						c.Violation("pair:fracNameFromQPRPath", fr.Pos(), "fracNameFromQPRPath no longer extracts the middle part of <id>.<frac>.qpr")
					}
				}
			}},
		{Prop: "C19", ID: "C19.4", Engine: "DOM+SIBLING", Floor: 2,
			Desc: "resume: MustStartAsync starts processRequest for every loaded request that is not Done; StartSearch and the resume path of doSearch parse the stored query with the same parser and with the mapping of the same provider",
			Check: func(c *Ctx) {
				if fn := c.Fn("fracmanager.MustStartAsync"); fn != nil {
					gos := InstrsIn(fn, func(in ssa.Instruction) bool {
						g, ok := in.(*ssa.Go)
						return ok && CallName(g) == "(*fracmanager.AsyncSearcher).processRequest"
					})
					np := CallsIn(fn, Callee("fracmanager.notProcessedTasks"))
					if len(gos) > 0 && len(np) > 0 && DerivesFrom(gos[0].(*ssa.Go).Call.Args[1], func(v ssa.Value) bool { return v == np[0].Value() }) {
						c.Site(gos[0].Pos(), "unfinished requests found at start-up are resumed")
					} else {
						c.Violation("dom:MustStartAsync:resume", fn.Pos(), "MustStartAsync no longer restarts the requests returned by notProcessedTasks")
					}
				}
				if fn := c.Fn("fracmanager.notProcessedTasks"); fn != nil {
					ok := false
					for _, ap := range CallsIn(fn, Callee("builtin.append")) {
						for _, f := range FactsAtInstr(ap.(ssa.Instruction)) {
							if fl, isF := f.Cond.(*ssa.Field); isF {
								if _, name, _, okF := FieldOf(fl); okF && name == "Done" && !f.Val {
									ok = true
								}
							}
							if u, isU := f.Cond.(*ssa.UnOp); isU {
								if _, name, _, okF := FieldOf(u.X); okF && name == "Done" && !f.Val {
									ok = true
								}
							}
						}
					}
					if ok {
						c.Site(fn.Pos(), "notProcessedTasks selects exactly the requests with Done == false")
					} else {
						c.Violation("dom:notProcessedTasks:not-done", fn.Pos(), "notProcessedTasks does not select requests by Done == false")
					}
				}
				parse := Callee("parser.ParseSeqQL")
				for _, name := range []string{"(*fracmanager.AsyncSearcher).StartSearch", "(*fracmanager.AsyncSearcher).doSearch"} {
					fn := c.Fn(name)
					if fn == nil {
						continue
					}
					calls := CallsIn(fn, parse)
					if len(calls) == 0 {
						c.Violation("sibling:"+name+":parser", fn.Pos(), "%s no longer parses the query with parser.ParseSeqQL (the other path does)", name)
					}
					for _, p := range calls {
						fromProvider := DerivesFrom(Arg(p, 1), func(v ssa.Value) bool {
							cl, ok := v.(ssa.CallInstruction)
							return ok && CallName(cl) == "(fracmanager.MappingProvider).GetMapping" && ValueIsField(Receiver(cl), "fracmanager.AsyncSearcher", "mp")
						})
						if fromProvider {
							c.Site(p.Pos(), "%s parses with the mapping of as.mp", name)
						} else {
							c.Violation("sibling:"+name+":mapping", p.Pos(), "%s parses the query with a mapping that does not come from as.mp.GetMapping(): fractions searched before and after a restart would use different query trees", name)
						}
					}
				}
			}},
		{Prop: "C19", ID: "C19.6", Engine: "DOM", Floor: 1,
			Desc: "a partial result is persisted whole: AggregatableSamples.MarshalJSON copies every bin of SamplesByBin into the JSON shadow (the store into the shadow map is under no condition besides the range loop) — a bin with Total == 0 still carries its NotExists count and its bucket",
			Check: func(c *Ctx) {
				fn := c.Fn("(*seq.AggregatableSamples).MarshalJSON")
				if fn == nil {
					return
				}
				n := 0
				for _, f := range WithClosures(fn) {
					for _, b := range f.Blocks {
						for _, in := range b.Instrs {
							mu, ok := in.(*ssa.MapUpdate)
							if !ok || !strings.Contains(TypeStr(mu.Map.Type()), "SamplesContainer") {
								continue
							}
							n++
							extra := 0
							for _, fact := range FactsAt(b) {
								if e, isE := fact.Cond.(*ssa.Extract); isE {
									if _, isNext := e.Tuple.(*ssa.Next); isNext {
										continue
									}
								}
								extra++
							}
							if extra == 0 && InLoop(b) {
								c.Site(mu.Pos(), "every bin is written to the persisted form")
							} else {
								c.Violation("dom:AggregatableSamples.MarshalJSON:every-bin", mu.Pos(), "MarshalJSON writes a bin only under %d extra condition(s): bins that are skipped (for example those whose documents all lack the aggregated field: Total == 0, NotExists > 0) are missing from the finished asynchronous result but present in the synchronous one", extra)
							}
						}
					}
				}
				if n == 0 {
					c.Undecided("dom:AggregatableSamples.MarshalJSON:no-copy", fn.Pos(), "MarshalJSON no longer copies SamplesByBin into a map")
				}
			}},
		{Prop: "C19", ID: "C19.7", Engine: "ERRFLOW(classify)", Floor: 1,
			Desc: "a failing replica is not mistaken for 'this shard does not have the request': in the proxy's FetchAsyncSearchResult every way out of the failure branch of the per-replica call (on to the next replica, out of the loop) is taken under status.Code(err) == NotFound, otherwise the error is returned — skipping a shard whose owner answered Unavailable reports a finished result that lacks that shard",
			Check: func(c *Ctx) {
				fn := c.Fn("(*proxy/search.Ingestor).FetchAsyncSearchResult")
				if fn == nil {
					return
				}
				isReplicaCall := func(cl ssa.CallInstruction) bool {
					return strings.HasSuffix(CallName(cl), "FetchAsyncSearchResult") && cl.Common().IsInvoke()
				}
				// a repo helper that asks the replicas and hands their error on is judged like the call itself, at its
				// own call site; inside it the same rule holds, and it may leave its failure branch by returning the error
				isHelperCall := func(cl ssa.CallInstruction) bool {
					h := StaticCallee(cl)
					return h != nil && c.P.InRepo(h) && h.Blocks != nil && ErrorResultIndex(h) >= 0 && c.P.HasCall(h, isReplicaCall)
				}
				n := 0
				var checkIn func(fn *ssa.Function, entry bool, depth int)
				checkIn = func(fn *ssa.Function, entry bool, depth int) {
					for _, call := range CallsIn(fn, func(cl ssa.CallInstruction) bool { return isReplicaCall(cl) || (depth > 0 && isHelperCall(cl)) }) {
						if !isReplicaCall(call) {
							checkIn(StaticCallee(call), false, depth-1)
						}
						e := ErrorResult(call)
						if e == nil {
							continue
						}
						n++
						isErrNonNil := func(f Fact) bool {
							bo, ok := f.Cond.(*ssa.BinOp)
							if !ok || !(IsNilConst(bo.X) || IsNilConst(bo.Y)) {
								return false
							}
							other := bo.X
							if IsNilConst(bo.X) {
								other = bo.Y
							}
							return SameValue(other, e) && (bo.Op == token.NEQ) == f.Val
						}
						isNotFound := func(f Fact) bool {
							bo, ok := f.Cond.(*ssa.BinOp)
							if !ok || (bo.Op != token.EQL && bo.Op != token.NEQ) || (bo.Op == token.EQL) != f.Val {
								return false
							}
							// status.Code(err) compared with codes.NotFound itself, not with any other code
							notFound := int64(5)
							if pk, ok := c.P.AllPkgs["google.golang.org/grpc/codes"]; ok && pk.Types != nil {
								if k, ok := pk.Types.Scope().Lookup("NotFound").(*types.Const); ok {
									if v, exact := constant.Int64Val(k.Val()); exact {
										notFound = v
									}
								}
							}
							for i, side := range []ssa.Value{bo.X, bo.Y} {
								if cl, ok := side.(*ssa.Call); ok && strings.HasSuffix(CallName(cl), "status.Code") {
									other := []ssa.Value{bo.Y, bo.X}[i]
									if k, isK := ConstInt(other); isK && k == notFound {
										return true
									}
								}
							}
							return false
						}
						inFail := func(b *ssa.BasicBlock) bool {
							for _, f := range FactsAt(b) {
								if isErrNonNil(f) {
									return true
								}
							}
							return false
						}
						bad := 0
						for _, b := range fn.Blocks {
							if !inFail(b) {
								continue
							}
							for _, s := range b.Succs {
								if inFail(s) {
									continue
								}
								okEdge := false
								for _, f := range FactsOnEdge(b, s) {
									if isNotFound(f) {
										okEdge = true
									}
								}
								if okEdge {
									c.Site(b.Instrs[len(b.Instrs)-1].Pos(), "the failure branch is left only for a NotFound answer")
								} else {
									bad++
									c.Violation("errflow:FetchAsyncSearchResult:replica-error-skipped", b.Instrs[len(b.Instrs)-1].Pos(), "the proxy goes on after a replica error without having classified it as NotFound: when the replica that owns the search is unavailable and another one answers NotFound, the shard is skipped and the result is reported done without it")
								}
							}
						}
						if !entry {
							ei := ErrorResultIndex(fn)
							for _, b := range fn.Blocks {
								ret, ok := b.Instrs[len(b.Instrs)-1].(*ssa.Return)
								if !ok || !inFail(b) || ei < 0 {
									continue
								}
								v := RetOperand(ret, ei)
								nf := false
								for _, f := range FactsAt(b) {
									if isNotFound(f) {
										nf = true
									}
								}
								if SameValue(v, e) || nf {
									c.Site(ret.Pos(), "%s hands the replica's error on", FuncName(fn))
								} else {
									c.Violation("errflow:FetchAsyncSearchResult:replica-error-replaced", ret.Pos(), "%s leaves the failure branch of the per-replica call returning something else than that error", FuncName(fn))
								}
							}
						}
					}
				}
				checkIn(fn, true, 2)
				if n == 0 {
					c.Undecided("errflow:FetchAsyncSearchResult:no-call", fn.Pos(), "no per-replica FetchAsyncSearchResult call found")
				}
			}},
		{Prop: "C19", ID: "C19.8", Engine: "ORDER", Floor: 1,
			Desc: "Done is never newer than the partial results it is returned with: AsyncSearcher.FetchSearchResult reads the request's state (the requests map, which carries Done) before it lists the partial-result files — read afterwards, a search that finishes in between is reported done with the files of only some fractions",
			Check: func(c *Ctx) {
				fn := c.Fn("(*fracmanager.AsyncSearcher).FetchSearchResult")
				if fn == nil {
					return
				}
				PrecedeI(c, fn, FieldLoad("fracmanager.AsyncSearcher", "requests"), "the read of the request state (as.requests[id])", CallSel(Callee("(*fracmanager.AsyncSearcher).loadQPRPaths")), "listing the partial-result files (loadQPRPaths)")
			}},
		{Prop: "C19", ID: "C19.5", Engine: "PROV+SIBLING", Floor: 1,
			Desc: "same merge as the synchronous path: every seq.MergeQPRs call in fracmanager and frac/processor passes a histogram interval and an order derived from the request's SearchParams (no constants)",
			Check: func(c *Ctx) {
				m := Callee("seq.MergeQPRs")
				for _, fn := range c.P.Funcs {
					pk := PkgOf(fn)
					if pk != "fracmanager" && pk != "frac/processor" {
						continue
					}
					for _, call := range CallsIn(fn, m) {
						hist, ord := Arg(call, 3), Arg(call, 4)
						okH := DerivesFrom(hist, func(v ssa.Value) bool { return ValueIsField(v, "frac/processor.SearchParams", "HistInterval") })
						okO := DerivesFrom(ord, func(v ssa.Value) bool { return ValueIsField(v, "frac/processor.SearchParams", "Order") })
						if _, isK := ConstInt(hist); isK {
							okH = false
						}
						if okH && okO {
							c.Site(call.Pos(), "%s merges with the request's HistInterval and Order", FuncName(fn))
						} else {
							c.Violation("prov:MergeQPRs:"+FuncName(fn), call.Pos(), "%s calls seq.MergeQPRs with a histogram interval / order that is not the request's (interval from request: %v, order from request: %v): de-duplication then corrects the wrong histogram bucket", FuncName(fn), okH, okO)
						}
					}
				}
			}},
	}
}

func usesConstString(fn *ssa.Function, s string) bool {
	return usesConstStringD(fn, s, 2, map[*ssa.Function]bool{})
}

// usesConstStringD also looks into the repo helpers fn calls (the path may be built by a private helper).
func usesConstStringD(fn *ssa.Function, s string, depth int, seen map[*ssa.Function]bool) bool {
	if s == "" || fn == nil || seen[fn] {
		return false
	}
	seen[fn] = true
	if depth > 0 {
		for _, call := range CallsInAll(fn, nil) {
			if h := StaticCallee(call); h != nil && h.Blocks != nil && Current != nil && Current.InRepo(h) && usesConstStringD(h, s, depth-1, seen) {
				return true
			}
		}
	}
	for _, f := range WithClosures(fn) {
		for _, b := range f.Blocks {
			for _, in := range b.Instrs {
				for _, op := range in.Operands(nil) {
					if v, ok := ConstString(*op); ok && (v == s || len(v) > len(s) && v[len(v)-len(s):] == s) {
						return true
					}
				}
			}
		}
	}
	return false
}

var _ = token.NoPos

// jsonUndecodable walks the JSON-visible part of a type and returns the path and the reason of the first
// component encoding/json cannot decode ("" when there is none).
func jsonUndecodable(t types.Type, path string, seen map[types.Type]bool) (string, string) {
	if seen[t] {
		return "", ""
	}
	seen[t] = true
	// a type with its own UnmarshalJSON / UnmarshalText decides for itself
	for _, tt := range []types.Type{t, types.NewPointer(t)} {
		ms := types.NewMethodSet(tt)
		for i := 0; i < ms.Len(); i++ {
			if n := ms.At(i).Obj().Name(); n == "UnmarshalJSON" || n == "UnmarshalText" {
				return "", ""
			}
		}
	}
	switch u := t.Underlying().(type) {
	case *types.Interface:
		if u.NumMethods() > 0 {
			return path, "an interface type with methods (" + TypeStr(t) + ")"
		}
	case *types.Chan:
		return path, "a channel"
	case *types.Signature:
		return path, "a function"
	case *types.Pointer:
		return jsonUndecodable(u.Elem(), path, seen)
	case *types.Slice:
		return jsonUndecodable(u.Elem(), path+"[]", seen)
	case *types.Array:
		return jsonUndecodable(u.Elem(), path+"[]", seen)
	case *types.Map:
		return jsonUndecodable(u.Elem(), path+"[]", seen)
	case *types.Struct:
		for i := 0; i < u.NumFields(); i++ {
			f := u.Field(i)
			if !f.Exported() {
				continue
			}
			if tag := reflect.StructTag(u.Tag(i)).Get("json"); tag == "-" {
				continue
			}
			if p, why := jsonUndecodable(f.Type(), path+"."+f.Name(), seen); why != "" {
				return p, why
			}
		}
	}
	return "", ""
}
