package kit

import (
	"fmt"
	"go/token"
	"go/types"
	"sort"
	"strings"

	"golang.org/x/tools/go/ssa"
)

// LOCK: guarded-by lockset analysis.

// AccessPath renders the object a value denotes as a position-free path
// ("f.MIDs", "l", "dp.positions") so that two loads of the same field compare equal.
func AccessPath(v ssa.Value) string {
	for i := 0; i < 12; i++ {
		switch x := v.(type) {
		case *ssa.Parameter:
			return x.Name()
		case *ssa.FreeVar:
			return x.Name()
		case *ssa.Global:
			return "global:" + x.Name()
		case *ssa.UnOp:
			if x.Op == token.MUL {
				// load: the object is what the address denotes
				switch a := x.X.(type) {
				case *ssa.FieldAddr:
					return AccessPath(a)
				case *ssa.Alloc:
					return allocName(a)
				case *ssa.FreeVar:
					return a.Name()
				case *ssa.Global:
					return "global:" + a.Name()
				case *ssa.IndexAddr:
					return AccessPath(a.X) + "[]"
				}
			}
			return "?" + x.Name()
		case *ssa.FieldAddr:
			_, f, _, _ := FieldOf(x)
			return AccessPath(x.X) + "." + f
		case *ssa.Field:
			_, f, _, _ := FieldOf(x)
			return AccessPath(x.X) + "." + f
		case *ssa.Alloc:
			return allocName(x)
		case *ssa.ChangeType:
			v = x.X
			continue
		case *ssa.MakeInterface:
			v = x.X
			continue
		case *ssa.Phi:
			return "phi:" + x.Comment
		default:
			if v == nil {
				return "?"
			}
			return "?" + v.Name()
		}
	}
	return "?"
}

func allocName(a *ssa.Alloc) string {
	if a.Comment != "" {
		return a.Comment
	}
	return "local:" + a.Name()
}

// LockOp describes a mutex operation.
type LockOp struct {
	Path    string // path of the mutex ("l.mu")
	Acquire bool
	Write   bool
}

func lockOpOf(c ssa.CallInstruction) (LockOp, bool) {
	if _, isCall := c.(*ssa.Call); !isCall {
		return LockOp{}, false // defer: released at exit; go: another goroutine
	}
	name := CallName(c)
	var acq, wr bool
	switch name {
	case "(*sync.Mutex).Lock":
		acq, wr = true, true
	case "(*sync.Mutex).Unlock":
		acq, wr = false, true
	case "(*sync.RWMutex).Lock":
		acq, wr = true, true
	case "(*sync.RWMutex).Unlock":
		acq, wr = false, true
	case "(*sync.RWMutex).RLock":
		acq, wr = true, false
	case "(*sync.RWMutex).RUnlock":
		acq, wr = false, false
	default:
		return LockOp{}, false
	}
	return LockOp{Path: AccessPath(Receiver(c)), Acquire: acq, Write: wr}, true
}

// lockset: path -> 2 (write) / 1 (read)
type lockset map[string]int

func (l lockset) clone() lockset {
	n := lockset{}
	for k, v := range l {
		n[k] = v
	}
	return n
}

func (l lockset) String() string {
	var ks []string
	for k, v := range l {
		m := "R"
		if v == 2 {
			m = "W"
		}
		ks = append(ks, k+":"+m)
	}
	sort.Strings(ks)
	return "{" + strings.Join(ks, " ") + "}"
}

func meet(a, b lockset) lockset {
	n := lockset{}
	for k, v := range a {
		if w, ok := b[k]; ok {
			if w < v {
				v = w
			}
			n[k] = v
		}
	}
	return n
}

// LockInfo holds the must-lockset before every instruction of a function.
type LockInfo struct {
	Fn *ssa.Function
	at map[ssa.Instruction]lockset
}

// Locksets computes must-held locks; entry is the lockset assumed at function
// entry (for helpers that require the caller to hold a lock).
func Locksets(fn *ssa.Function, entry lockset) *LockInfo {
	li := &LockInfo{Fn: fn, at: map[ssa.Instruction]lockset{}}
	if len(fn.Blocks) == 0 {
		return li
	}
	in := map[*ssa.BasicBlock]lockset{}
	out := map[*ssa.BasicBlock]lockset{}
	if entry == nil {
		entry = lockset{}
	}
	transfer := func(b *ssa.BasicBlock, s lockset, record bool) lockset {
		cur := s.clone()
		for _, ins := range b.Instrs {
			if record {
				li.at[ins] = cur.clone()
			}
			if c, ok := ins.(ssa.CallInstruction); ok {
				if op, ok := lockOpOf(c); ok {
					if op.Acquire {
						m := 1
						if op.Write {
							m = 2
						}
						cur[op.Path] = m
					} else {
						delete(cur, op.Path)
					}
				}
			}
		}
		return cur
	}
	changed := true
	iter := 0
	for changed && iter < 50 {
		changed = false
		iter++
		for _, b := range fn.Blocks {
			var s lockset
			if b == fn.Blocks[0] {
				s = entry.clone()
			} else {
				first := true
				for _, p := range b.Preds {
					o, ok := out[p]
					if !ok {
						continue // not yet computed: optimistic
					}
					o = tryLockEdge(p, b, o)
					if first {
						s = o.clone()
						first = false
					} else {
						s = meet(s, o)
					}
				}
				if s == nil {
					s = lockset{}
					if len(b.Preds) > 0 {
						continue
					}
				}
			}
			o := transfer(b, s, false)
			if prev, ok := out[b]; !ok || prev.String() != o.String() || in[b].String() != s.String() {
				in[b], out[b] = s, o
				changed = true
			}
		}
	}
	for _, b := range fn.Blocks {
		if s, ok := in[b]; ok {
			transfer(b, s, true)
		}
	}
	return li
}

// Held returns the mode (0 none, 1 read, 2 write) in which path is held before in.
func (li *LockInfo) Held(in ssa.Instruction, path string) int {
	return li.at[in][path]
}

// HeldSet renders the lockset before in.
func (li *LockInfo) HeldSet(in ssa.Instruction) string { return li.at[in].String() }

// FieldAccess is one access to a struct field.
type FieldAccess struct {
	Instr    ssa.Instruction
	Fn       *ssa.Function
	Type     string // "frac.UInt64s"
	Field    string
	BasePath string
	Base     ssa.Value
	Write    bool
	How      string
}

// FieldAccesses lists loads/stores/map updates/element stores through typ.field in fn.
func FieldAccesses(fn *ssa.Function, want func(typ, field string) bool) []FieldAccess {
	var out []FieldAccess
	for _, b := range fn.Blocks {
		for _, in := range b.Instrs {
			fa, ok := in.(*ssa.FieldAddr)
			if !ok {
				continue
			}
			typ, field, base, ok := FieldOf(fa)
			if !ok || !want(typ, field) {
				continue
			}
			bp := AccessPath(base)
			for _, r := range *fa.Referrers() {
				switch u := r.(type) {
				case *ssa.Store:
					if u.Addr == ssa.Value(fa) {
						out = append(out, FieldAccess{Instr: u, Fn: fn, Type: typ, Field: field, BasePath: bp, Base: base, Write: true, How: "store"})
					}
				case *ssa.UnOp:
					if u.Op != token.MUL {
						continue
					}
					acc := FieldAccess{Instr: u, Fn: fn, Type: typ, Field: field, BasePath: bp, Base: base, Write: false, How: "load"}
					out = append(out, acc)
					// writes through the loaded reference (map update, element store, delete)
					for _, rr := range *u.Referrers() {
						switch w := rr.(type) {
						case *ssa.MapUpdate:
							if w.Map == ssa.Value(u) {
								out = append(out, FieldAccess{Instr: w, Fn: fn, Type: typ, Field: field, BasePath: bp, Base: base, Write: true, How: "map update"})
							}
						case *ssa.IndexAddr:
							if w.X == ssa.Value(u) {
								for _, r3 := range *w.Referrers() {
									if st, ok := r3.(*ssa.Store); ok && st.Addr == ssa.Value(w) {
										out = append(out, FieldAccess{Instr: st, Fn: fn, Type: typ, Field: field, BasePath: bp, Base: base, Write: true, How: "element store"})
									}
								}
							}
						case *ssa.Call:
							if b, ok := w.Call.Value.(*ssa.Builtin); ok && (b.Name() == "delete" || b.Name() == "clear") && len(w.Call.Args) > 0 && w.Call.Args[0] == ssa.Value(u) {
								out = append(out, FieldAccess{Instr: w, Fn: fn, Type: typ, Field: field, BasePath: bp, Base: base, Write: true, How: b.Name()})
							}
						}
					}
				}
			}
		}
	}
	return out
}

// FreshBase: the accessed object was allocated in this function (constructor).
func FreshBase(v ssa.Value) bool {
	for i := 0; i < 6; i++ {
		switch x := v.(type) {
		case *ssa.Alloc:
			return true
		case *ssa.UnOp:
			if a, ok := x.X.(*ssa.Alloc); ok && x.Op == token.MUL {
				// local variable holding a pointer: fresh if every store into it is an Alloc
				all := true
				n := 0
				for _, r := range *a.Referrers() {
					if st, ok := r.(*ssa.Store); ok && st.Addr == a {
						n++
						if _, ok := st.Val.(*ssa.Alloc); !ok {
							all = false
						}
					}
				}
				return all && n > 0
			}
			return false
		case *ssa.ChangeType:
			v = x.X
		case *ssa.Phi:
			return false
		default:
			return false
		}
	}
	return false
}

// GuardRow: field Type.Field is protected by mutex field Mutex of the same object.
type GuardRow struct {
	Type, Field, Mutex string
	// ReadsUnlocked: reads need no lock (only writes are guarded), with the reason.
	ReadsUnlocked string
}

// LockRequire: function Func runs with the caller holding Mutex of its
// receiver/first parameter in mode Write?2:1.
type LockRequire struct {
	Func  string
	Mutex string // path relative to the function's own names, e.g. "l.mu"
	Mode  int
}

// LockExempt: function (with closures) may access the listed type's guarded
// fields without the lock, for the stated reason (phase exemption).
type LockExempt struct {
	Func, Type, Reason string
}

// LockCheck applies the guarded-by table to funcs.
func LockCheck(c *Ctx, funcs []*ssa.Function, rows []GuardRow, requires []LockRequire, exempt []LockExempt) {
	rowOf := map[string]GuardRow{}
	for _, r := range rows {
		rowOf[r.Type+"."+r.Field] = r
	}
	req := map[string][]LockRequire{}
	for _, r := range requires {
		req[r.Func] = append(req[r.Func], r)
	}
	ex := map[string]string{}
	for _, e := range exempt {
		ex[e.Func+"|"+e.Type] = e.Reason
	}
	want := func(t, f string) bool { _, ok := rowOf[t+"."+f]; return ok }
	for _, fn := range funcs {
		accs := FieldAccesses(fn, want)
		if len(accs) == 0 && len(req[FuncName(fn)]) == 0 {
			continue
		}
		entry := lockset{}
		for _, r := range req[FuncName(fn)] {
			entry[r.Mutex] = r.Mode
		}
		li := Locksets(fn, entry)
		top := fn
		for top.Parent() != nil {
			top = top.Parent()
		}
		occ := map[string]int{}
		for _, a := range accs {
			row := rowOf[a.Type+"."+a.Field]
			if FreshBase(a.Base) {
				c.Count("constructor_accesses", 1)
				continue
			}
			if why, ok := ex[FuncName(top)+"|"+a.Type]; ok {
				c.Count("phase_exempt_accesses", 1)
				_ = why
				continue
			}
			if exemptByCallers(c.P, ex, top, a.Type, 2) {
				c.Count("phase_exempt_accesses", 1)
				continue
			}
			if !a.Write && row.ReadsUnlocked != "" {
				c.Count("unguarded_reads_by_design", 1)
				continue
			}
			need := 1
			if a.Write {
				need = 2
			}
			mpath := a.BasePath + "." + row.Mutex
			held := li.Held(a.Instr, mpath)
			k := fmt.Sprintf("%s.%s:%s", a.Type, a.Field, a.How)
			occ[k]++
			if held >= need {
				c.Site(InstrPos(a.Instr), "%s: %s of %s.%s under %s (%s)", FuncName(fn), a.How, a.Type, a.Field, mpath, modeName(held))
				continue
			}
			if heldByCallers(c.P, req, fn, a.BasePath, row.Mutex, need, 2) {
				c.Site(InstrPos(a.Instr), "%s: %s of %s.%s — every caller of this unexported helper holds %s (%s)", FuncName(fn), a.How, a.Type, a.Field, mpath, modeName(need))
				continue
			}
			c.Violation(fmt.Sprintf("lock:%s:%s#%d", FuncName(fn), k, occ[k]), InstrPos(a.Instr),
				"%s: %s of %s.%s requires %s held for %s, lockset here is %s", FuncName(fn), a.How, a.Type, a.Field, mpath, modeName(need), li.HeldSet(a.Instr))
		}
	}
	// read-modify-write of a guarded field happens inside one hold
	for _, fn := range funcs {
		lockRMW(c, fn, rowOf, req, ex)
	}
	// call sites of helpers that require a lock
	for _, r := range requires {
		fn := c.P.Func(r.Func)
		if fn == nil {
			c.Undecided("lock-requires-anchor:"+r.Func, token.NoPos, "helper %s (requires %s) no longer resolves", r.Func, r.Mutex)
			continue
		}
		// r.Mutex is "<recvname>.<mutex>": translate to the caller's receiver path
		parts := strings.SplitN(r.Mutex, ".", 2)
		for _, call := range c.P.Callers(fn) {
			caller := call.Parent()
			recv := call.Common().Args[0]
			mpath := AccessPath(recv)
			if len(parts) == 2 {
				mpath += "." + parts[1]
			}
			entry := lockset{}
			for _, rr := range req[FuncName(caller)] {
				entry[rr.Mutex] = rr.Mode
			}
			li := Locksets(caller, entry)
			held := li.Held(call.(ssa.Instruction), mpath)
			top := caller
			for top.Parent() != nil {
				top = top.Parent()
			}
			typ := NamedTypeString(recv.Type())
			if _, ok := ex[FuncName(top)+"|"+typ]; ok {
				c.Count("phase_exempt_accesses", 1)
				continue
			}
			if held >= r.Mode {
				c.Site(call.Pos(), "%s calls %s with %s held (%s)", FuncName(caller), r.Func, mpath, modeName(held))
			} else {
				c.Violation("lock-requires:"+FuncName(caller)+"->"+r.Func, call.Pos(), "%s calls %s, which requires %s held for %s; lockset here is %s", FuncName(caller), r.Func, mpath, modeName(r.Mode), li.HeldSet(call.(ssa.Instruction)))
			}
		}
	}
}

func modeName(m int) string {
	switch m {
	case 2:
		return "writing"
	case 1:
		return "reading"
	}
	return "nothing"
}

// MutexFields lists the sync.Mutex / sync.RWMutex fields of a named struct.
func MutexFields(t *types.Named) []string {
	st, ok := t.Underlying().(*types.Struct)
	if !ok {
		return nil
	}
	var out []string
	for i := 0; i < st.NumFields(); i++ {
		ft := st.Field(i).Type()
		if p, ok := ft.(*types.Pointer); ok {
			ft = p.Elem()
		}
		s := ft.String()
		if s == "sync.Mutex" || s == "sync.RWMutex" {
			out = append(out, st.Field(i).Name())
		}
	}
	return out
}

// HeldPaths returns the lock paths held before in.
func (li *LockInfo) HeldPaths(in ssa.Instruction) map[string]int { return li.at[in] }

// tryLockEdge: if pred ends in `if mu.TryLock()` the lock is held on the true edge.
func tryLockEdge(pred, succ *ssa.BasicBlock, o lockset) lockset {
	if len(pred.Instrs) == 0 {
		return o
	}
	ifi, ok := pred.Instrs[len(pred.Instrs)-1].(*ssa.If)
	if !ok || pred.Succs[0] == pred.Succs[1] {
		return o
	}
	f := normFact(Fact{Cond: ifi.Cond, Val: succ == pred.Succs[0]})
	call, ok := f.Cond.(*ssa.Call)
	if !ok || !f.Val {
		return o
	}
	mode := 0
	switch CallName(call) {
	case "(*sync.Mutex).TryLock", "(*sync.RWMutex).TryLock":
		mode = 2
	case "(*sync.RWMutex).TryRLock":
		mode = 1
	}
	if mode == 0 {
		return o
	}
	n := o.clone()
	n[AccessPath(Receiver(call))] = mode
	return n
}

// heldByCallers: fn is an unexported, top-level repo function that is only
// ever called statically (never go/defer, never used as a value, not an
// interface method), base is one of its parameters, and at every call site the
// caller holds <argument path>.<mutex> in at least mode need (or is itself such
// a helper, to the given depth). Extracting a locked region's body into a
// private helper therefore does not change the verdict, while dropping the lock
// in any one caller does.
func heldByCallers(p *Prog, req map[string][]LockRequire, fn *ssa.Function, base, mutex string, need, depth int) bool {
	if depth <= 0 || fn == nil || fn.Parent() != nil || fn.Object() == nil || fn.Object().Exported() || !p.InRepo(fn) {
		return false
	}
	idx := -1
	for i, q := range fn.Params {
		if q.Name() == base {
			idx = i
		}
	}
	if idx < 0 {
		return false
	}
	if len(p.FuncValueUses(fn)) > 0 || p.isIfaceMethod(fn) {
		return false
	}
	callers := p.Callers(fn)
	if len(callers) == 0 {
		return false
	}
	for _, call := range callers {
		if _, ok := call.(*ssa.Call); !ok {
			return false
		}
		args := call.Common().Args
		if idx >= len(args) {
			return false
		}
		caller := call.Parent()
		entry := lockset{}
		for _, rr := range req[FuncName(caller)] {
			entry[rr.Mutex] = rr.Mode
		}
		path := AccessPath(args[idx])
		li := Locksets(caller, entry)
		if li.Held(call.(ssa.Instruction), path+"."+mutex) >= need {
			continue
		}
		if !heldByCallers(p, req, caller, path, mutex, need, depth-1) {
			return false
		}
	}
	return true
}

// isIfaceMethod: fn is a method whose name is declared by some interface type of the repo
// (it could then be reached by dynamic dispatch, which Callers does not see).
func (p *Prog) isIfaceMethod(fn *ssa.Function) bool {
	if fn.Signature.Recv() == nil {
		return false
	}
	if p.ifaceMethodNames == nil {
		p.ifaceMethodNames = map[string]bool{}
		for _, pkg := range p.SSA.AllPackages() {
			if pkg.Pkg == nil || !(pkg.Pkg.Path() == ModPath || strings.HasPrefix(pkg.Pkg.Path(), ModPath+"/")) {
				continue
			}
			sc := pkg.Pkg.Scope()
			for _, n := range sc.Names() {
				tn, ok := sc.Lookup(n).(*types.TypeName)
				if !ok {
					continue
				}
				it, ok := tn.Type().Underlying().(*types.Interface)
				if !ok {
					continue
				}
				for i := 0; i < it.NumMethods(); i++ {
					p.ifaceMethodNames[it.Method(i).Name()] = true
				}
			}
		}
	}
	return p.ifaceMethodNames[fn.Name()]
}

// lockRMW: a store into a guarded slice/map/pointer field whose new value is
// computed from the field's old value (append, re-slice, compaction) must read
// that old value inside the same hold of the mutex as the store. An old value
// obtained before the lock was taken — an earlier load, or a getter that takes
// and releases the lock itself — is a stale snapshot: whatever another
// goroutine stored in between is lost.
func lockRMW(c *Ctx, fn *ssa.Function, rowOf map[string]GuardRow, req map[string][]LockRequire, ex map[string]string) {
	want := func(t, f string) bool { _, ok := rowOf[t+"."+f]; return ok }
	accs := FieldAccesses(fn, want)
	if len(accs) == 0 {
		return
	}
	entry := lockset{}
	for _, r := range req[FuncName(fn)] {
		entry[r.Mutex] = r.Mode
	}
	var li *LockInfo
	top := fn
	for top.Parent() != nil {
		top = top.Parent()
	}
	for _, a := range accs {
		st, isStore := a.Instr.(*ssa.Store)
		if !isStore || a.How != "store" || FreshBase(a.Base) {
			continue
		}
		if _, exempt := ex[FuncName(top)+"|"+a.Type]; exempt {
			continue
		}
		if !isRefLike(st.Val.Type()) {
			continue
		}
		row := rowOf[a.Type+"."+a.Field]
		// origins of the stored value that are reads of the same field
		var origins []ssa.Instruction
		var collect func(v ssa.Value, d int)
		collect = func(v ssa.Value, d int) {
			DerivesFrom(v, func(x ssa.Value) bool {
				if u, ok := x.(*ssa.UnOp); ok && u.Op == token.MUL && IsFieldAddr(u.X, a.Type, a.Field) {
					origins = append(origins, u)
				}
				// the bounds of a re-slice are part of the new value: a length taken from a stale snapshot truncates the live list
				if sl, ok := x.(*ssa.Slice); ok && d < 3 {
					for _, bnd := range []ssa.Value{sl.Low, sl.High, sl.Max} {
						if bnd != nil {
							collect(bnd, d+1)
						}
					}
				}
				return false
			})
		}
		collect(st.Val, 0)
		if len(origins) == 0 {
			continue
		}
		if li == nil {
			li = Locksets(fn, entry)
		}
		mpath := a.BasePath + "." + row.Mutex
		for _, o := range origins {
			bad := ""
			switch {
			case o.Parent() != fn:
				bad = "the old value comes from " + FuncName(o.Parent()) + ", which reads it in a lock hold of its own"
			case li.Held(o, mpath) < 2 && !heldByCallers(c.P, req, fn, a.BasePath, row.Mutex, 2, 2):
				bad = "the old value is read at " + c.P.Fset.Position(o.Pos()).String() + " without the write lock"
			default:
				for _, u := range CallsIn(fn, nil) {
					if _, isDefer := u.(*ssa.Defer); isDefer {
						continue
					}
					n := CallName(u)
					if (n == "(*sync.Mutex).Unlock" || n == "(*sync.RWMutex).Unlock") && AccessPath(Receiver(u)) == mpath {
						ui := u.(ssa.Instruction)
						if Dominates(o, ui) && Dominates(ui, st) {
							bad = "the lock is released between the read and the store"
						}
					}
				}
			}
			if bad == "" {
				c.Site(st.Pos(), "%s: %s.%s is recomputed from a value read in the same hold of %s", FuncName(fn), a.Type, a.Field, mpath)
			} else {
				c.Violation(fmt.Sprintf("lock-rmw:%s:%s.%s", FuncName(fn), a.Type, a.Field), st.Pos(), "%s stores a new %s.%s computed from a stale snapshot (%s): an update made by another goroutine in between is overwritten", FuncName(fn), a.Type, a.Field, bad)
			}
		}
	}
}

func isRefLike(t types.Type) bool {
	switch t.Underlying().(type) {
	case *types.Slice, *types.Map, *types.Pointer:
		return true
	}
	return false
}

// exemptByCallers: an unexported helper that is only ever called (statically, never used as a value) from functions
// that are exempt for the type acts in their phase: a block extracted from an exempt function stays exempt.
func exemptByCallers(p *Prog, ex map[string]string, fn *ssa.Function, typ string, depth int) bool {
	if fn == nil || depth <= 0 || fn.Object() == nil || fn.Object().Exported() || len(p.FuncValueUses(fn)) > 0 {
		return false
	}
	callers := p.Callers(fn)
	if len(callers) == 0 {
		return false
	}
	for _, call := range callers {
		caller := call.Parent()
		for caller.Parent() != nil {
			caller = caller.Parent()
		}
		if _, ok := ex[FuncName(caller)+"|"+typ]; ok {
			continue
		}
		if !exemptByCallers(p, ex, caller, typ, depth-1) {
			return false
		}
	}
	return true
}
