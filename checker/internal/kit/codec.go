package kit

import (
	"go/ast"
	"go/types"
	"strconv"
	"strings"

	"golang.org/x/tools/go/ssa"
)

// CODEC: wire signatures extracted from the type-checked syntax tree.

// WireTok is one element of a wire signature.
type WireTok struct {
	Kind  string // U8 U16 U32 U64 VARINT BYTES LOOP
	Field string // struct field named by the operand / assignment target, if any
	Sub   []WireTok
}

func (t WireTok) String() string {
	if t.Kind == "LOOP" {
		return "LOOP(" + SigString(t.Sub) + ")"
	}
	if t.Field != "" {
		return t.Kind + ":" + t.Field
	}
	return t.Kind
}

// SigString renders a signature.
func SigString(s []WireTok) string {
	var parts []string
	for _, t := range s {
		parts = append(parts, t.String())
	}
	return strings.Join(parts, " ")
}

var encPrims = map[string][]string{
	"(*packer.BytesPacker).PutUint32":             {"U32"},
	"(*packer.BytesPacker).PutUint64":             {"U64"},
	"(*packer.BytesPacker).PutVarint":             {"VARINT"},
	"(*packer.BytesPacker).PutBytes":              {"BYTES"},
	"(*packer.BytesPacker).PutStringWithSize":     {"U32", "BYTES"},
	"(encoding/binary.littleEndian).PutUint16":    {"U16"},
	"(encoding/binary.littleEndian).PutUint32":    {"U32"},
	"(encoding/binary.littleEndian).PutUint64":    {"U64"},
	"(encoding/binary.littleEndian).AppendUint16": {"U16"},
	"(encoding/binary.littleEndian).AppendUint32": {"U32"},
	"(encoding/binary.littleEndian).AppendUint64": {"U64"},
	"encoding/binary.PutVarint":                   {"VARINT"},
	"encoding/binary.AppendVarint":                {"VARINT"},
	"encoding/binary.PutUvarint":                  {"VARINT"},
	"encoding/binary.AppendUvarint":               {"VARINT"},
}

var decPrims = map[string][]string{
	"(*packer.BytesUnpacker).GetUint32":     {"U32"},
	"(*packer.BytesUnpacker).GetVarint":     {"VARINT"},
	"(*packer.BytesUnpacker).GetBinary":     {"U32", "BYTES"},
	"(encoding/binary.littleEndian).Uint16": {"U16"},
	"(encoding/binary.littleEndian).Uint32": {"U32"},
	"(encoding/binary.littleEndian).Uint64": {"U64"},
	"encoding/binary.Varint":                {"VARINT"},
	"encoding/binary.Uvarint":               {"VARINT"},
}

// WireSig extracts the signature of fn's body. side is "enc" or "dec".
// Calls to repo functions that have a signature of their own are inlined (depth 2).
func (p *Prog) WireSig(fn *ssa.Function, side string) []WireTok {
	return p.wireSig(fn, side, 2)
}

func (p *Prog) wireSig(fn *ssa.Function, side string, depth int) []WireTok {
	if fn == nil || fn.Syntax() == nil {
		return nil
	}
	pk := p.pkgOfFn(fn)
	if pk == nil {
		return nil
	}
	info := pk.TypesInfo
	prims := encPrims
	if side == "dec" {
		prims = decPrims
	}
	var body *ast.BlockStmt
	switch n := fn.Syntax().(type) {
	case *ast.FuncDecl:
		body = n.Body
	case *ast.FuncLit:
		body = n.Body
	}
	if body == nil {
		return nil
	}
	var walkStmts func(list []ast.Stmt) []WireTok
	var walkNode func(n ast.Node, target string) []WireTok
	calleeName := func(call *ast.CallExpr) (string, *types.Func) {
		var id *ast.Ident
		switch f := call.Fun.(type) {
		case *ast.SelectorExpr:
			id = f.Sel
		case *ast.Ident:
			id = f
		}
		if id == nil {
			return "", nil
		}
		if obj, ok := info.Uses[id].(*types.Func); ok {
			return CleanName(obj.FullName()), obj
		}
		return "", nil
	}
	fieldOfExpr := func(e ast.Expr) string {
		for {
			switch x := e.(type) {
			case *ast.CallExpr:
				// conversion uint32(x.f) / string(...)
				if len(x.Args) == 1 {
					if tv, ok := info.Types[x.Fun]; ok && tv.IsType() {
						e = x.Args[0]
						continue
					}
					if id, ok := x.Fun.(*ast.Ident); ok && (id.Name == "len") {
						e = x.Args[0]
						continue
					}
				}
				return ""
			case *ast.ParenExpr:
				e = x.X
				continue
			case *ast.SelectorExpr:
				if sel, ok := info.Selections[x]; ok && sel.Kind() == types.FieldVal {
					return NamedTypeString(sel.Recv()) + "." + x.Sel.Name
				}
				return ""
			}
			return ""
		}
	}
	walkNode = func(n ast.Node, target string) []WireTok {
		var out []WireTok
		if n == nil {
			return nil
		}
		ast.Inspect(n, func(x ast.Node) bool {
			switch e := x.(type) {
			case *ast.FuncLit:
				return false // separate function
			case *ast.CallExpr:
				// a conversion keeps the assignment target of its operand
				if tv, ok := info.Types[e.Fun]; ok && tv.IsType() && len(e.Args) == 1 {
					out = append(out, walkNode(e.Args[0], target)...)
					return false
				}
				// arguments first (evaluation order)
				for _, a := range e.Args {
					out = append(out, walkNode(a, "")...)
				}
				if sel, ok := e.Fun.(*ast.SelectorExpr); ok {
					out = append(out, walkNode(sel.X, "")...)
				}
				name, obj := calleeName(e)
				if kinds, ok := prims[name]; ok {
					field := target
					if side == "enc" && len(e.Args) > 0 {
						// the value written is the last argument for Append*/Put* on buffers, the only one for packer
						field = fieldOfExpr(e.Args[len(e.Args)-1])
					}
					for i, k := range kinds {
						f := ""
						if i == len(kinds)-1 || len(kinds) == 1 {
							f = field
						}
						if len(kinds) == 2 && i == 0 {
							f = field
						}
						out = append(out, WireTok{Kind: k, Field: f})
					}
				} else if obj != nil && depth > 0 && (passesStream(info, e) || p.privateHelperOnBytes(info, fn, obj, e)) {
					if callee := p.funcOfObj(obj); callee != nil && p.InRepo(callee) {
						out = append(out, p.wireSig(callee, side, depth-1)...)
					}
				}
				return false
			}
			return true
		})
		return out
	}
	var walkStmt func(s ast.Stmt) []WireTok
	walkStmt = func(s ast.Stmt) []WireTok {
		switch st := s.(type) {
		case *ast.ForStmt:
			var sub []WireTok
			if st.Init != nil {
				sub = append(sub, walkStmt(st.Init)...)
			}
			sub = append(sub, walkNode(st.Cond, "")...)
			sub = append(sub, walkStmts(st.Body.List)...)
			if st.Post != nil {
				sub = append(sub, walkStmt(st.Post)...)
			}
			if len(sub) == 0 {
				return nil
			}
			return []WireTok{{Kind: "LOOP", Sub: sub}}
		case *ast.RangeStmt:
			pre := walkNode(st.X, "")
			sub := walkStmts(st.Body.List)
			if len(sub) == 0 {
				return pre
			}
			return append(pre, WireTok{Kind: "LOOP", Sub: sub})
		case *ast.BlockStmt:
			return walkStmts(st.List)
		case *ast.IfStmt:
			var out []WireTok
			if st.Init != nil {
				out = append(out, walkStmt(st.Init)...)
			}
			out = append(out, walkNode(st.Cond, "")...)
			out = append(out, walkStmts(st.Body.List)...)
			if st.Else != nil {
				out = append(out, walkStmt(st.Else)...)
			}
			return out
		case *ast.SwitchStmt:
			var out []WireTok
			if st.Init != nil {
				out = append(out, walkStmt(st.Init)...)
			}
			out = append(out, walkNode(st.Tag, "")...)
			for _, cc := range st.Body.List {
				out = append(out, walkStmts(cc.(*ast.CaseClause).Body)...)
			}
			return out
		case *ast.AssignStmt:
			target := ""
			if len(st.Lhs) >= 1 {
				target = fieldOfExpr(st.Lhs[0])
			}
			var out []WireTok
			for _, r := range st.Rhs {
				out = append(out, walkNode(r, target)...)
			}
			return out
		case *ast.DeclStmt, *ast.ExprStmt, *ast.ReturnStmt, *ast.IncDecStmt, *ast.DeferStmt, *ast.GoStmt:
			return walkNode(s, "")
		case *ast.LabeledStmt:
			return walkStmt(st.Stmt)
		}
		return walkNode(s, "")
	}
	walkStmts = func(list []ast.Stmt) []WireTok {
		var out []WireTok
		for _, s := range list {
			out = append(out, walkStmt(s)...)
		}
		return out
	}
	return walkStmts(body.List)
}

// passesStream: the call hands the packer / unpacker on (argument or receiver),
// so the callee continues the same byte stream.
func passesStream(info *types.Info, call *ast.CallExpr) bool {
	isStream := func(e ast.Expr) bool {
		tv, ok := info.Types[e]
		if !ok {
			return false
		}
		s := tv.Type.String()
		return strings.HasSuffix(s, "packer.BytesPacker") || strings.HasSuffix(s, "packer.BytesUnpacker")
	}
	for _, a := range call.Args {
		if isStream(a) {
			return true
		}
	}
	if sel, ok := call.Fun.(*ast.SelectorExpr); ok && isStream(sel.X) {
		return true
	}
	return false
}

func (p *Prog) pkgOfFn(fn *ssa.Function) *pkgT {
	pk := fnPkg(fn)
	if pk == nil {
		return nil
	}
	if lp, ok := p.AllPkgs[pk.Path()]; ok {
		return lp
	}
	return nil
}

func (p *Prog) funcOfObj(obj *types.Func) *ssa.Function {
	return p.SSA.FuncValue(obj)
}

// NormalizeSig: drop BYTES, flatten nested loops, collapse repeated runs inside
// loops, unwrap loops that are the only element, absorb a sentinel that
// follows a loop and has the kind of the loop's first element.
func NormalizeSig(s []WireTok, keepFields bool) []WireTok {
	var out []WireTok
	for _, t := range s {
		switch t.Kind {
		case "BYTES":
			continue
		case "LOOP":
			sub := NormalizeSig(t.Sub, keepFields)
			// flatten nested loops into this loop
			var flat []WireTok
			for _, x := range sub {
				if x.Kind == "LOOP" && !hasFields(x.Sub) {
					flat = append(flat, x.Sub...)
				} else {
					flat = append(flat, x)
				}
			}
			// a loop made only of one repeated primitive is that primitive repeated
			col := flat
			same := len(flat) > 1
			for _, x := range flat {
				if x.Kind == "LOOP" || x.Kind != flat[0].Kind || x.Field != "" {
					same = false
				}
			}
			if same {
				col = flat[:1]
			}
			if len(col) == 0 {
				continue
			}
			out = append(out, WireTok{Kind: "LOOP", Sub: col})
		default:
			f := t.Field
			if !keepFields {
				f = ""
			}
			out = append(out, WireTok{Kind: t.Kind, Field: f})
		}
	}
	// sentinel absorption
	var res []WireTok
	for i, t := range out {
		if i > 0 && out[i-1].Kind == "LOOP" && len(out[i-1].Sub) > 0 && t.Kind == out[i-1].Sub[0].Kind && t.Field == "" {
			continue
		}
		res = append(res, t)
	}
	// unwrap single loops
	for len(res) == 1 && res[0].Kind == "LOOP" && len(res[0].Sub) >= 1 {
		inner := res[0].Sub
		if len(inner) == 1 && inner[0].Kind != "LOOP" {
			break
		}
		hasLoop := false
		for _, x := range inner {
			if x.Kind == "LOOP" {
				hasLoop = true
			}
		}
		if !hasLoop && len(inner) > 1 {
			break
		}
		res = inner
	}
	return res
}

func hasFields(s []WireTok) bool {
	for _, t := range s {
		if t.Field != "" || t.Kind == "LOOP" && hasFields(t.Sub) {
			return true
		}
	}
	return false
}

// SigEqual compares kinds and nesting; field names only where both name one.
func SigEqual(a, b []WireTok) (bool, string) {
	if len(a) != len(b) {
		return false, "different length: [" + SigString(a) + "] vs [" + SigString(b) + "]"
	}
	for i := range a {
		if a[i].Kind != b[i].Kind {
			return false, "element " + itoa(i) + ": " + a[i].String() + " vs " + b[i].String()
		}
		if a[i].Kind == "LOOP" {
			if ok, why := SigEqual(a[i].Sub, b[i].Sub); !ok {
				return false, "inside loop: " + why
			}
			continue
		}
		if a[i].Field != "" && b[i].Field != "" && sameOwner(a[i].Field, b[i].Field) && a[i].Field != b[i].Field {
			return false, "element " + itoa(i) + " carries field " + a[i].Field + " on one side and " + b[i].Field + " on the other"
		}
	}
	return true, ""
}

func itoa(i int) string { return strconv.Itoa(i) }

// sameOwner: both qualified field names belong to the same struct type.
func sameOwner(a, b string) bool {
	ia, ib := strings.LastIndex(a, "."), strings.LastIndex(b, ".")
	return ia > 0 && ib > 0 && a[:ia] == b[:ib]
}

// privateHelperOnBytes: the callee is an unexported function of the caller's
// package that either is a method called on the caller's own receiver or
// receives a plain []byte: a piece of the encoder/decoder moved into a private
// helper continues the same byte stream. (Exported accessors of named header
// types are not inlined: they address fixed offsets, not the stream.)
func (p *Prog) privateHelperOnBytes(info *types.Info, caller *ssa.Function, obj *types.Func, call *ast.CallExpr) bool {
	if obj.Exported() || obj.Pkg() == nil || fnPkg(caller) == nil || obj.Pkg().Path() != fnPkg(caller).Path() {
		return false
	}
	if sel, ok := call.Fun.(*ast.SelectorExpr); ok {
		if id, ok := sel.X.(*ast.Ident); ok && caller.Signature.Recv() != nil {
			if v, ok := info.Uses[id].(*types.Var); ok && v.Name() == caller.Signature.Recv().Name() && types.Identical(v.Type(), caller.Signature.Recv().Type()) {
				return true
			}
		}
	}
	for _, a := range call.Args {
		tv, ok := info.Types[a]
		if !ok {
			continue
		}
		if sl, ok := tv.Type.(*types.Slice); ok {
			if b, ok := sl.Elem().(*types.Basic); ok && b.Kind() == types.Uint8 {
				return true
			}
		}
	}
	return false
}
