package kit

import (
	"go/types"

	"golang.org/x/tools/go/ssa"
)

// Lifting of events through helper functions, so that extracting a block into
// an unexported helper (or inlining one) does not change a verdict.
//
//   may-lift : a call of a repo helper stands for event E if the helper (or what
//              it calls, to a small depth) contains E on some path.  Used for the
//              event that must be PRECEDED / GUARDED (the "B" side).
//   must-lift: a call of a repo helper stands for event E if every normal return
//              of the helper is dominated by E (or by a must-lifted call of it).
//              Used for the event that must HAVE HAPPENED (the "A" side).
//   ack-lift : for must-succeed callees — the helper's success return implies the
//              inner call's success (AckOne holds for every maybe-nil return).

// Current is the program being analysed (set by Load); lifting needs it to
// decide whether a callee is a repo function.
var Current *Prog

const liftDepth = 3

type liftKey struct {
	fn   *ssa.Function
	kind string
	id   uintptr
}

// maySel: instruction in matches sel, or is a call of a helper that may do sel.
func (p *Prog) maySel(sel Sel, depth int) Sel {
	memo := map[*ssa.Function]int{} // 0 unknown, 1 yes, 2 no, 3 in progress
	var has func(fn *ssa.Function, d int) bool
	has = func(fn *ssa.Function, d int) bool {
		if fn == nil || fn.Blocks == nil || !p.InRepo(fn) {
			return false
		}
		switch memo[fn] {
		case 1:
			return true
		case 2, 3:
			return false
		}
		memo[fn] = 3
		res := false
		for _, f := range WithClosures(fn) {
			for _, b := range f.Blocks {
				for _, in := range b.Instrs {
					if sel(in) {
						res = true
					} else if c, ok := in.(ssa.CallInstruction); ok && d > 0 {
						if _, isGo := in.(*ssa.Go); !isGo && has(StaticCallee(c), d-1) {
							res = true
						}
					}
					if res {
						break
					}
				}
				if res {
					break
				}
			}
			if res {
				break
			}
		}
		if res {
			memo[fn] = 1
		} else {
			memo[fn] = 2
		}
		return res
	}
	return func(in ssa.Instruction) bool {
		if sel(in) {
			return true
		}
		c, ok := in.(ssa.CallInstruction)
		if !ok {
			return false
		}
		if _, isGo := in.(*ssa.Go); isGo {
			return false
		}
		return has(StaticCallee(c), depth-1)
	}
}

// mustSel: instruction in matches sel, or is a call (not go/defer) of a helper
// every normal return of which is dominated by a must-site of sel.
func (p *Prog) mustSel(sel Sel, depth int) Sel {
	memo := map[*ssa.Function]int{}
	var must func(fn *ssa.Function, d int) bool
	var isSite func(in ssa.Instruction, d int) bool
	isSite = func(in ssa.Instruction, d int) bool {
		if sel(in) {
			return true
		}
		c, ok := in.(*ssa.Call)
		if !ok || d <= 0 {
			return false
		}
		return must(StaticCallee(c), d-1)
	}
	must = func(fn *ssa.Function, d int) bool {
		if fn == nil || fn.Blocks == nil || !p.InRepo(fn) {
			return false
		}
		switch memo[fn] {
		case 1:
			return true
		case 2, 3:
			return false
		}
		memo[fn] = 3
		var sites []ssa.Instruction
		for _, b := range fn.Blocks {
			for _, in := range b.Instrs {
				if isSite(in, d) {
					sites = append(sites, in)
				}
			}
		}
		ok := len(sites) > 0
		if ok {
			nret := 0
			for _, b := range fn.Blocks {
				if len(b.Instrs) == 0 || b == fn.Recover {
					continue
				}
				ret, isRet := b.Instrs[len(b.Instrs)-1].(*ssa.Return)
				if !isRet {
					continue
				}
				// error returns do not count: the caller's own error handling covers them
				if idx := ErrorResultIndex(fn); idx >= 0 {
					v := RetOperand(ret, idx)
					if DefinitelyNonNil(v, FactsAt(b)) {
						continue
					}
				}
				nret++
				dom := false
				for _, s := range sites {
					if Dominates(s, ret) {
						dom = true
					}
				}
				if !dom {
					ok = false
				}
			}
			if nret == 0 {
				ok = false
			}
		}
		if ok {
			memo[fn] = 1
		} else {
			memo[fn] = 2
		}
		return ok
	}
	return func(in ssa.Instruction) bool { return isSite(in, depth) }
}

// MayCall lifts a call matcher through helpers (may).
func (p *Prog) MayCall(m Matcher) Matcher {
	s := p.maySel(CallSel(m), liftDepth)
	return func(c ssa.CallInstruction) bool { return s(c.(ssa.Instruction)) }
}

// MustCall lifts a call matcher through helpers (must).
func (p *Prog) MustCall(m Matcher) Matcher {
	s := p.mustSel(CallSel(m), liftDepth)
	return func(c ssa.CallInstruction) bool { return s(c.(ssa.Instruction)) }
}

// AckCall lifts a must-succeed callee through helpers: a call of helper H
// counts when H returns an error, H contains a (lifted) call of m, and every
// maybe-nil return path of H is acknowledged by such a call.
func (p *Prog) AckCall(m Matcher) Matcher {
	memo := map[*ssa.Function]int{}
	var lifted Matcher
	var acks func(fn *ssa.Function, d int) bool
	acks = func(fn *ssa.Function, d int) bool {
		if fn == nil || fn.Blocks == nil || !p.InRepo(fn) || d < 0 {
			return false
		}
		switch memo[fn] {
		case 1:
			return true
		case 2, 3:
			return false
		}
		memo[fn] = 3
		res := false
		idx := ErrorResultIndex(fn)
		if idx >= 0 {
			inner := CallsIn(fn, func(c ssa.CallInstruction) bool {
				if m(c) {
					return true
				}
				if _, ok := c.(*ssa.Call); !ok {
					return false
				}
				return acks(StaticCallee(c), d-1)
			})
			if len(inner) > 0 {
				res = true
				for _, rp := range ReturnPaths(fn, idx) {
					if DefinitelyNonNil(rp.Val, rp.Facts) {
						continue
					}
					if !ackOne(rp, inner) {
						res = false
					}
				}
			}
		}
		if res {
			memo[fn] = 1
		} else {
			memo[fn] = 2
		}
		return res
	}
	lifted = func(c ssa.CallInstruction) bool {
		if m(c) {
			return true
		}
		if _, ok := c.(*ssa.Call); !ok {
			return false
		}
		return acks(StaticCallee(c), liftDepth-1)
	}
	return lifted
}

// Locate returns the function, starting from fn and following static callees
// to the lifting depth, that directly contains an instruction matching sel
// (fn itself if it does). nil when none does.
func (p *Prog) Locate(fn *ssa.Function, sel Sel) *ssa.Function {
	seen := map[*ssa.Function]bool{}
	var find func(f *ssa.Function, d int) *ssa.Function
	find = func(f *ssa.Function, d int) *ssa.Function {
		if f == nil || f.Blocks == nil || seen[f] || !p.InRepo(f) {
			return nil
		}
		seen[f] = true
		if len(InstrsIn(f, sel)) > 0 {
			return f
		}
		if d == 0 {
			return nil
		}
		for _, c := range CallsIn(f, nil) {
			if r := find(StaticCallee(c), d-1); r != nil {
				return r
			}
		}
		for _, a := range f.AnonFuncs {
			if r := find(a, d); r != nil {
				return r
			}
		}
		return nil
	}
	return find(fn, liftDepth)
}

// DerivesFromIP is DerivesFrom extended over parameters: a parameter of an
// unexported repo function (or of a closure's enclosing helper) derives from
// src when the function has static callers and at EVERY one the corresponding
// argument derives from src (recursively, to the lifting depth). This keeps a
// positive provenance verdict unchanged when the consuming code is moved into
// a helper that receives the value as an argument.
func (p *Prog) DerivesFromIP(v ssa.Value, src func(ssa.Value) bool) bool {
	var at func(v ssa.Value, d int) bool
	at = func(v ssa.Value, d int) bool {
		return DerivesFrom(v, func(x ssa.Value) bool {
			if src(x) {
				return true
			}
			par, ok := x.(*ssa.Parameter)
			if !ok || d <= 0 {
				return false
			}
			g := par.Parent()
			if g == nil || g.Parent() != nil || !p.InRepo(g) || g.Object() == nil || g.Object().Exported() {
				return false
			}
			idx := -1
			for i, q := range g.Params {
				if q == par {
					idx = i
				}
			}
			callers := p.Callers(g)
			if idx < 0 || len(callers) == 0 {
				return false
			}
			for _, call := range callers {
				args := call.Common().Args
				if idx >= len(args) || !at(args[idx], d-1) {
					return false
				}
			}
			return true
		})
	}
	return at(v, liftDepth)
}

// WithRunePredicates extends WithClosures(fn) by the repo functions of shape
// func(rune|byte) bool that fn (or one of these) calls or references as a
// value: a character-class test may be written inline, as a closure, or as a
// small named predicate.
func (p *Prog) WithRunePredicates(fn *ssa.Function) []*ssa.Function {
	isPred := func(f *ssa.Function) bool {
		if f == nil || f.Blocks == nil || !p.InRepo(f) {
			return false
		}
		sig := f.Signature
		if sig.Params().Len() != 1 || sig.Results().Len() != 1 {
			return false
		}
		pb, ok := sig.Params().At(0).Type().Underlying().(*types.Basic)
		if !ok || (pb.Kind() != types.Int32 && pb.Kind() != types.Uint8) {
			return false
		}
		rb, ok := sig.Results().At(0).Type().Underlying().(*types.Basic)
		return ok && rb.Kind() == types.Bool
	}
	seen := map[*ssa.Function]bool{}
	via := map[*ssa.Function]bool{}
	var out []*ssa.Function
	var add func(f *ssa.Function, d int)
	add = func(f *ssa.Function, d int) {
		for _, g := range WithClosures(f) {
			if seen[g] {
				continue
			}
			seen[g] = true
			out = append(out, g)
			if d == 0 {
				continue
			}
			for _, b := range g.Blocks {
				for _, in := range b.Instrs {
					for _, op := range in.Operands(nil) {
						if h, ok := (*op).(*ssa.Function); ok && isPred(h) {
							add(h, d-1)
						}
						// a character class may be precomputed: a package-level table of bools that is read here
						// stands for the code that fills it
						if gl, ok := (*op).(*ssa.Global); ok && boolTable(gl) && p.InRepo(g) {
							for _, w := range p.tableWriters(gl) {
								add(w, d-1)
							}
						}
					}
					// a predicate may be handed over by a private helper of the same package (a constructor
					// that stores it into the builder): its references count, the helper's own code does not
					if c, ok := in.(ssa.CallInstruction); ok {
						if h := StaticCallee(c); h != nil && h.Blocks != nil && p.InRepo(h) && !isPred(h) && PkgOf(h) == PkgOf(fn) && !via[h] && d > 1 {
							via[h] = true
							for _, hf := range WithClosures(h) {
								for _, hb := range hf.Blocks {
									for _, hin := range hb.Instrs {
										for _, op := range hin.Operands(nil) {
											if ph, ok := (*op).(*ssa.Function); ok && isPred(ph) {
												add(ph, d-2)
											}
										}
									}
								}
								if hf != h && isPred(hf) {
									add(hf, d-2)
								}
							}
						}
					}
				}
			}
		}
	}
	add(fn, liftDepth)
	return out
}

// boolTable: a package-level array, slice or map whose elements are bools.
func boolTable(g *ssa.Global) bool {
	pt, ok := g.Type().Underlying().(*types.Pointer)
	if !ok {
		return false
	}
	var el types.Type
	switch t := pt.Elem().Underlying().(type) {
	case *types.Array:
		el = t.Elem()
	case *types.Slice:
		el = t.Elem()
	case *types.Map:
		el = t.Elem()
	default:
		return false
	}
	b, ok := el.Underlying().(*types.Basic)
	return ok && b.Kind() == types.Bool
}

// tableWriters: the functions of the global's package that store into an element of it.
func (p *Prog) tableWriters(g *ssa.Global) []*ssa.Function {
	if g.Pkg == nil {
		return nil
	}
	var out []*ssa.Function
	for _, f := range p.FuncsMatching(func(_ string, f *ssa.Function) bool { return f.Pkg == g.Pkg }) {
		writes := false
		for _, b := range f.Blocks {
			for _, in := range b.Instrs {
				switch x := in.(type) {
				case *ssa.Store:
					if ia, ok := x.Addr.(*ssa.IndexAddr); ok && DerivesFrom(ia.X, func(v ssa.Value) bool { return v == g }) {
						writes = true
					}
				case *ssa.MapUpdate:
					if DerivesFrom(x.Map, func(v ssa.Value) bool { return v == g }) {
						writes = true
					}
				}
			}
		}
		if writes {
			out = append(out, f)
		}
	}
	return out
}

// Has: fn, its closures, or a repo helper it calls (to the lifting depth)
// contains an instruction matching sel.
func (p *Prog) Has(fn *ssa.Function, sel Sel) bool {
	return fn != nil && p.Locate(fn, sel) != nil
}

// HasCall: like Has, for a call matcher.
func (p *Prog) HasCall(fn *ssa.Function, m Matcher) bool {
	return fn != nil && p.Locate(fn, CallSel(m)) != nil
}

// SwitchCoverageLifted is SwitchCoverage that also looks into repo helpers
// (to the lifting depth) that receive the subject as an argument: the
// comparisons of the corresponding parameter inside the helper count.
func (p *Prog) SwitchCoverageLifted(fn *ssa.Function, isSubject func(ssa.Value) bool) map[int64]bool {
	out := map[int64]bool{}
	var visit func(f *ssa.Function, subj func(ssa.Value) bool, d int)
	visit = func(f *ssa.Function, subj func(ssa.Value) bool, d int) {
		for k := range SwitchCoverage(f, subj) {
			out[k] = true
		}
		if d == 0 {
			return
		}
		for _, call := range CallsIn(f, nil) {
			h := StaticCallee(call)
			if h == nil || h.Blocks == nil || !p.InRepo(h) || h == f {
				continue
			}
			args := call.Common().Args
			for i, a := range args {
				if i < len(h.Params) && subj(a) {
					par := h.Params[i]
					visit(h, func(v ssa.Value) bool {
						if isSubject(v) {
							return true
						}
						for j := 0; j < 4; j++ {
							if v == ssa.Value(par) {
								return true
							}
							switch x := v.(type) {
							case *ssa.Convert:
								v = x.X
							case *ssa.ChangeType:
								v = x.X
							default:
								return false
							}
						}
						return false
					}, d-1)
				}
			}
		}
	}
	visit(fn, isSubject, liftDepth)
	return out
}

// Lifted is an instruction found in fn or, through the chain of call sites
// Via (outermost first), in a repo helper fn calls.
type Lifted struct {
	In  ssa.Instruction
	Via []ssa.CallInstruction
}

// Facts: the branch facts at the instruction plus those at every call site on the way to it.
func (l Lifted) Facts() []Fact {
	out := FactsAtInstr(l.In)
	for _, v := range l.Via {
		out = append(out, FactsAtInstr(v.(ssa.Instruction))...)
	}
	return out
}

// Top is the instruction in the function the search started from: the outermost call site, or the
// instruction itself when it was found there.
func (l Lifted) Top() ssa.Instruction {
	if len(l.Via) > 0 {
		return l.Via[0].(ssa.Instruction)
	}
	return l.In
}

func (l Lifted) chain() []ssa.Instruction {
	var out []ssa.Instruction
	for _, v := range l.Via {
		out = append(out, v.(ssa.Instruction))
	}
	return append(out, l.In)
}

// LiftedDominates: a runs before b on every path to b. The two call chains are compared at the first
// level where they part (when both are reached through the same call sites, that is inside the shared helper).
func LiftedDominates(a, b Lifted) bool {
	ca, cb := a.chain(), b.chain()
	for i := 0; i < len(ca) && i < len(cb); i++ {
		if ca[i] == cb[i] {
			continue
		}
		return ca[i].Parent() == cb[i].Parent() && Dominates(ca[i], cb[i])
	}
	return false
}

// Call returns the instruction as a call (nil if it is not one).
func (l Lifted) Call() ssa.CallInstruction {
	c, _ := l.In.(ssa.CallInstruction)
	return c
}

// FindLifted returns the instructions matching sel in fn; when fn itself has
// none, those in the repo helpers it calls (static callees, to the lifting
// depth), one entry per call chain.
func (p *Prog) FindLifted(fn *ssa.Function, sel Sel) []Lifted {
	var out []Lifted
	for _, in := range InstrsIn(fn, sel) {
		out = append(out, Lifted{In: in})
	}
	if len(out) > 0 || fn == nil {
		return out
	}
	var walk func(f *ssa.Function, via []ssa.CallInstruction, d int, onPath map[*ssa.Function]bool)
	walk = func(f *ssa.Function, via []ssa.CallInstruction, d int, onPath map[*ssa.Function]bool) {
		for _, call := range CallsIn(f, nil) {
			if _, isGo := call.(*ssa.Go); isGo {
				continue
			}
			h := StaticCallee(call)
			if h == nil || h.Blocks == nil || !p.InRepo(h) || onPath[h] {
				continue
			}
			chain := append(append([]ssa.CallInstruction{}, via...), call)
			found := InstrsIn(h, sel)
			for _, in := range found {
				out = append(out, Lifted{In: in, Via: chain})
			}
			if len(found) == 0 && d > 1 {
				onPath[h] = true
				walk(h, chain, d-1, onPath)
				delete(onPath, h)
			}
		}
	}
	walk(fn, nil, liftDepth, map[*ssa.Function]bool{fn: true})
	return out
}

// FindLiftedAll is FindLifted that looks into the helpers even when fn itself has matches: the matches of fn and
// of every repo function it calls statically (to the lifting depth), each helper once.
func (p *Prog) FindLiftedAll(fn *ssa.Function, sel Sel) []Lifted {
	var out []Lifted
	if fn == nil {
		return nil
	}
	seen := map[*ssa.Function]bool{fn: true}
	var walk func(f *ssa.Function, via []ssa.CallInstruction, d int)
	walk = func(f *ssa.Function, via []ssa.CallInstruction, d int) {
		for _, in := range InstrsIn(f, sel) {
			out = append(out, Lifted{In: in, Via: via})
		}
		if d == 0 {
			return
		}
		for _, call := range CallsIn(f, nil) {
			if _, isGo := call.(*ssa.Go); isGo {
				continue
			}
			h := StaticCallee(call)
			if h == nil || h.Blocks == nil || !p.InRepo(h) || seen[h] {
				continue
			}
			seen[h] = true
			walk(h, append(append([]ssa.CallInstruction{}, via...), call), d-1)
		}
	}
	walk(fn, nil, liftDepth)
	return out
}

// OwnedBy: fn is one of the owner functions, a closure of one, or an
// unexported repo helper that is only ever called statically (never used as a
// value, not reachable through an interface) and all of whose callers are
// owned in the same sense (to the lifting depth). It returns the owner the
// function acts for. Who-may-do-X rules use it so that moving an owner's
// statements into a private helper does not change the verdict, while a
// second, foreign caller of that helper does.
func (p *Prog) OwnedBy(fn *ssa.Function, isOwner func(name string) bool) (string, bool) {
	return p.ownedBy(fn, isOwner, liftDepth, map[*ssa.Function]bool{})
}

func (p *Prog) ownedBy(fn *ssa.Function, isOwner func(name string) bool, depth int, onPath map[*ssa.Function]bool) (string, bool) {
	top := fn
	for top.Parent() != nil {
		top = top.Parent()
	}
	if isOwner(FuncName(top)) {
		return FuncName(top), true
	}
	if depth <= 0 || onPath[top] || top.Object() == nil || top.Object().Exported() || !p.InRepo(top) {
		return "", false
	}
	if len(p.FuncValueUses(top)) > 0 || p.isIfaceMethod(top) {
		return "", false
	}
	callers := p.Callers(top)
	if len(callers) == 0 {
		return "", false
	}
	onPath[top] = true
	defer delete(onPath, top)
	owner := ""
	for _, call := range callers {
		o, ok := p.ownedBy(call.Parent(), isOwner, depth-1, onPath)
		if !ok {
			return "", false
		}
		if owner == "" {
			owner = o
		}
	}
	return owner, true
}

// Origin is one value a use may see, with the branch facts of the way it takes to the use.
type Origin struct {
	Val   ssa.Value
	Facts []Fact
}

// Origins splits v over phis and over the return paths of the repo helpers that produce it (a helper's
// parameter is replaced by the argument of the call), collecting the branch facts on the way: "which of
// several values is chosen, and under which condition" reads the same whether the choice is written as an
// if/else in place or as the early returns of an extracted helper.
// Calls for which stop answers true are not entered (their result is a leaf).
func (p *Prog) Origins(v ssa.Value, facts []Fact, depth int, stop func(ssa.CallInstruction) bool) []Origin {
	return p.origins(v, facts, depth, map[ssa.Value]bool{}, stop)
}

func (p *Prog) origins(v ssa.Value, facts []Fact, depth int, seen map[ssa.Value]bool, stop func(ssa.CallInstruction) bool) []Origin {
	leaf := []Origin{{Val: v, Facts: facts}}
	if depth <= 0 || seen[v] {
		return leaf
	}
	seen[v] = true
	defer delete(seen, v)
	switch x := v.(type) {
	case *ssa.Phi:
		var out []Origin
		for i, e := range x.Edges {
			f := append(append([]Fact{}, facts...), FactsOnEdge(x.Block().Preds[i], x.Block())...)
			out = append(out, p.origins(e, f, depth, seen, stop)...)
		}
		return out
	case *ssa.Call, *ssa.Extract:
		var call *ssa.Call
		idx := 0
		if e, ok := x.(*ssa.Extract); ok {
			c, ok := e.Tuple.(*ssa.Call)
			if !ok {
				return leaf
			}
			call, idx = c, e.Index
		} else {
			call = x.(*ssa.Call)
		}
		callee := StaticCallee(call)
		if stop != nil && stop(call) {
			return leaf
		}
		if callee == nil || callee.Blocks == nil || !p.InRepo(callee) || callee.Object() == nil || callee.Object().Exported() || idx >= callee.Signature.Results().Len() {
			return leaf
		}
		var out []Origin
		for _, rp := range ReturnPaths(callee, idx) {
			for _, o := range p.origins(rp.Val, rp.Facts, depth-1, seen, stop) {
				f := append(append([]Fact{}, facts...), o.Facts...)
				if par, ok := o.Val.(*ssa.Parameter); ok && par.Parent() == callee {
					bound := false
					for i, q := range callee.Params {
						if q == par && i < len(call.Call.Args) {
							out = append(out, p.origins(call.Call.Args[i], f, depth-1, seen, stop)...)
							bound = true
						}
					}
					if bound {
						continue
					}
				}
				out = append(out, Origin{Val: o.Val, Facts: f})
			}
		}
		if len(out) == 0 {
			return leaf
		}
		return out
	}
	return leaf
}
