package props

import (
	"go/token"
	"go/types"
	"strings"

	"golang.org/x/tools/go/ssa"

	. "seqverif/internal/kit"
)

func init() {
	register(&PropInfo{
		ID:          "C13",
		Title:       "Token matching equals glob/range semantics, with or without dictionary narrowing",
		Explanation: "Decided: (1) narrowing by binary search happens only on providers that declare themselves ordered (the sealed dictionary returns the constant true, the active one false), and the 'narrowed' shortcuts read a flag only Narrow sets; (2) the comparator used to sort a field's tokens when sealing and the one used for narrowing are both bytewise; (3) the narrowed literal reads GetToken(first) only after first <= last; (4) newSearcher handles every token type the parser produces, and a numeric range search is built only when every given end parsed (path-sensitive: no non-nil searcher is returned after a failed ParseFloat); (5) structural necessities of the wildcard matcher: middle fragments are searched in the part of the token between prefix and suffix, and the KMP fallback in findSubstring / calcPrefFunc is a loop. NOT decided: glob and range semantics themselves, entry pre-selection in the token table.",
		Assumptions: []string{"PATHSIM bounds", "bytes.Compare/bytes.Equal and Go string comparison are the bytewise order"},
		Obs:         c13,
	})
}

func c13() []*Ob {
	return []*Ob{
		{Prop: "C13", ID: "C13.15", Engine: "UNIT(bytes)", Floor: 1,
			Desc:  "block bounds are cut in the unit they are compared in: the length handed to frac/token.cut (which slices bytes) never derives from a rune count — with utf8.RuneCountInString(hint) the bounds of the candidate blocks are cut shorter than a multi-byte hint and compare below it, so the blocks that hold the matches are narrowed away on sealed fractions for non-ASCII terms",
			Check: func(c *Ctx) { cutLengthIsBytes(c) }},
		{Prop: "C13", ID: "C13.14", Engine: "ORDER(publish/snapshot)", Floor: 2,
			Desc:  "a pattern search on an active fraction never sees a tid without its value: TokenList.getTokenProvider reads the field's tid list before it takes the tidToVal snapshot (the writer publishes values first, the field list second), so every tid the matcher is handed has a value in the snapshot — with the two reads swapped a token registered in between makes the glob / range matcher index past the value table (shared rule with C07.9)",
			Check: shared("C07.9")},
		{Prop: "C13", ID: "C13.13", Engine: "SINK(map key)", Floor: 1,
			Desc:  "narrowing never identifies: the value of parser.GetHint (the leading fragment of a pattern, used to pick candidate token blocks) is never used as, or concatenated into, the key of a map access — in the calling function or in a repo function it is handed to. A per-request memo of resolved TIDs keyed by field + hint answers the second of two expressions with the same leading text with the first one's tokens",
			Check: func(c *Ctx) { hintOnlyNarrows(c) }},
		{Prop: "C13", ID: "C13.11", Engine: "PAIR(two sites)", Floor: 1,
			Desc:  "an exact value is looked for in every block that may hold it: GetTIDsByTokenExpr hands all selected table entries to the provider, or — if it keeps only the first — SelectEntries selects by the whole value (no shortened hint)",
			Check: func(c *Ctx) { exactValueBlocksComplete(c) }},
		{Prop: "C13", ID: "C13.12", Engine: "PAIR(two sites)", Floor: 1,
			Desc:  "a field's lowest token survives the write/load round trip of the token table (shared rule with C03.11)",
			Check: func(c *Ctx) { fieldMinValIsFirstEntrys(c) }},
		{Prop: "C13", ID: "C13.10", Engine: "PAIR(parse/validate)", Floor: 2,
			Desc: "each end of a numeric range is validated itself: in NewRangeNumberSearch every number obtained from strconv.ParseFloat is the one handed to the not-a-number/infinity test (the parsed value, or the field it was stored in) before the searcher is returned — testing the lower end twice lets `[* to Inf]` or `[1 to NaN]` be evaluated numerically instead of falling back to the text range: text tokens the range denotes are missed",
			Check: func(c *Ctx) {
				root := c.Fn("pattern.NewRangeNumberSearch")
				if root == nil {
					return
				}
				parse := Callee("strconv.ParseFloat")
				test := Callee("pattern.isNaNOrInf")
				// the constructor itself and the private helpers it parses its bounds with
				hosts := []*ssa.Function{root}
				for _, call := range CallsIn(root, nil) {
					if h := StaticCallee(call); h != nil && h.Blocks != nil && c.P.InRepo(h) && len(CallsIn(h, parse)) > 0 {
						hosts = append(hosts, h)
					}
				}
				n := 0
				for _, fn := range hosts {
					tests := c.P.FindLifted(fn, CallSel(test))
					for _, pc := range CallsIn(fn, parse) {
						v := ResultN(pc, 0)
						if v == nil {
							continue
						}
						n++
						// where the parsed value is kept
						var fields []string
						typ := ""
						if v.Referrers() != nil {
							for _, r := range *v.Referrers() {
								if st, ok := r.(*ssa.Store); ok && st.Val == v {
									if t, f, _, okf := FieldOf(st.Addr); okf {
										typ = t
										fields = append(fields, f)
									}
								}
							}
						}
						ok := false
						for _, t := range tests {
							if t.In.Parent() != fn || !Dominates(pc.(ssa.Instruction), t.In) {
								continue
							}
							a := Arg(t.Call(), 0)
							if a == v {
								ok = true
							}
							for _, f := range fields {
								if ValueIsField(a, typ, f) {
									ok = true
								}
							}
						}
						if ok {
							c.Site(pc.Pos(), "the parsed bound is the one tested for NaN/Inf")
						} else {
							c.Violation("pair:NewRangeNumberSearch:validate-own-bound:"+strings.Join(fields, ","), pc.Pos(), "a bound parsed with strconv.ParseFloat (kept in %v) is not the value that is tested for NaN/Inf afterwards: a non-finite end of the range is taken for a number", fields)
						}
					}
				}
				fn := root
				if n == 0 {
					c.Undecided("pair:NewRangeNumberSearch:noparse", fn.Pos(), "NewRangeNumberSearch no longer parses its bounds with strconv.ParseFloat")
				}
			}},
		{Prop: "C13", ID: "C13.1", Engine: "DOM+OWN", Floor: 3,
			Desc: "narrow only what is sorted: every Narrow call is dominated by tp.Ordered() == true; token.Provider.Ordered returns the constant true and frac.activeTokenProvider.Ordered the constant false; the narrowed flags are written only by the Narrow methods",
			Check: func(c *Ctx) {
				for _, fn := range c.P.FuncsInPkg("pattern") {
					for _, call := range CallsIn(fn, Or(Callee("(*pattern.literalSearch).Narrow"), Callee("(*pattern.wildcardSearch).Narrow"))) {
						v, found := BoolFact(FactsAtInstr(call.(ssa.Instruction)), func(x ssa.Value) bool {
							cl, ok := x.(ssa.CallInstruction)
							return ok && CallName(cl) == "(pattern.tokenProvider).Ordered"
						})
						if found && v {
							c.Site(call.Pos(), "%s narrows only when the provider is ordered", FuncName(fn))
						} else {
							c.Violation("dom:Narrow:ordered:"+FuncName(fn)+":"+CallName(call), call.Pos(), "%s narrows by binary search without the provider being ordered: on the unsorted active dictionary matching tokens are skipped", FuncName(fn))
						}
					}
				}
				for name, want := range map[string]bool{"(*frac/token.Provider).Ordered": true, "(*frac.activeTokenProvider).Ordered": false} {
					fn := c.Fn(name)
					if fn == nil {
						continue
					}
					ok := false
					if len(fn.Blocks) == 1 {
						if ret, isR := fn.Blocks[0].Instrs[len(fn.Blocks[0].Instrs)-1].(*ssa.Return); isR {
							if k, isK := ConstBool(ret.Results[0]); isK && k == want {
								ok = true
							}
						}
					}
					if ok {
						c.Site(fn.Pos(), "%s returns %v", name, want)
					} else {
						c.Violation("own:Ordered:"+name, fn.Pos(), "%s no longer returns the constant %v", name, want)
					}
				}
				for _, typ := range []string{"pattern.literalSearch", "pattern.wildcardSearch"} {
					for _, fn := range c.P.Funcs {
						for _, st := range InstrsIn(fn, FieldStore(typ, "narrowed")) {
							_, owned := c.P.OwnedBy(fn, func(n string) bool { return strings.HasSuffix(n, ").Narrow") })
							if owned || FreshBase(st.(*ssa.Store).Addr.(*ssa.FieldAddr).X) {
								c.Site(st.Pos(), "%s.narrowed set in %s", typ, FuncName(fn))
							} else {
								c.Violation("own:narrowed:"+FuncName(fn), st.Pos(), "%s sets %s.narrowed outside Narrow: the length-only / prefix-skipping shortcuts would be used on a range that was not narrowed", FuncName(fn), typ)
							}
						}
					}
				}
			}},
		{Prop: "C13", ID: "C13.2", Engine: "PAIR(comparator)+INDEX", Floor: 2,
			Desc: "one order: sealing sorts a field's tokens with bytes.Compare and Narrow compares with bytes.Compare / bytes.Equal; literalSearch.Narrow reads GetToken(first) only under first <= last",
			Check: func(c *Ctx) {
				if fn := c.Fn("(*frac.DiskBlocksProducer).getTIDsSortedByToken"); fn != nil {
					if Current.HasCall(fn, Callee("bytes.Compare")) {
						c.Site(fn.Pos(), "sealed dictionary is sorted with bytes.Compare")
					} else {
						c.Violation("pair:comparator:seal", fn.Pos(), "the sealed dictionary is no longer sorted with bytes.Compare while narrowing binary-searches it bytewise")
					}
				}
				for _, name := range []string{"(*pattern.literalSearch).Narrow", "(*pattern.wildcardSearch).Narrow"} {
					fn := c.Fn(name)
					if fn == nil {
						continue
					}
					if Current.HasCall(fn, Callee("bytes.Compare")) {
						c.Site(fn.Pos(), "%s compares bytewise", name)
					} else {
						c.Violation("pair:comparator:"+name, fn.Pos(), "%s does not compare with bytes.Compare", name)
					}
				}
				if fn := c.Fn("(*pattern.literalSearch).Narrow"); fn != nil {
					for _, g := range CallsIn(fn, Callee("(pattern.tokenProvider).GetToken")) {
						ok := false
						for _, f := range FactsAtInstr(g.(ssa.Instruction)) {
							if bo, isB := f.Cond.(*ssa.BinOp); isB && (bo.Op == token.LEQ || bo.Op == token.GEQ || bo.Op == token.LSS || bo.Op == token.GTR) {
								ok = true
							}
						}
						if ok {
							c.Site(g.Pos(), "GetToken(first) only after first was compared with last")
						} else {
							c.Violation("index:literalSearch.Narrow:first<=last", g.Pos(), "the token at the search result is read without checking that the result is inside [first, last]: for a value greater than every token this reads past the field's last token")
						}
					}
				}
			}},
		{Prop: "C13", ID: "C13.4", Engine: "ENUM+PATHSIM", Floor: 2,
			Desc: "searcher coverage and numeric/text decision: newSearcher's type switch covers every token type; NewRangeNumberSearch never returns a searcher on a path where one of its ParseFloat calls failed (so the text range search is used instead)",
			Check: func(c *Ctx) {
				if fn := c.Fn("pattern.newSearcher"); fn != nil {
					done := false
					for _, p := range FatalSites(fn) {
						if covered, missing, ok := typeSwitchCoverage(c.P, p); ok {
							done = true
							// *parser.Logical is the operator node: buildEvalTree handles it itself and passes only leaves on
							var rest []string
							for _, m := range missing {
								if m != "*parser.Logical" {
									rest = append(rest, m)
								}
							}
							missing = rest
							covered = len(missing) == 0
							if covered {
								c.Site(p.Pos(), "newSearcher handles every parser.Token implementation that is constructed")
							} else {
								c.Violation("enum:newSearcher:types", p.Pos(), "newSearcher does not handle token type(s) %v", missing)
							}
						}
					}
					if !done {
						c.Undecided("enum:newSearcher:shape", fn.Pos(), "newSearcher is no longer a type switch with a panicking default")
					}
					// numeric first, text as fallback under nil
					num := CallsIn(fn, Callee("pattern.NewRangeNumberSearch"))
					txt := CallsIn(fn, Callee("pattern.newRangeTextSearch"))
					if len(num) == 1 && len(txt) == 1 && KnownNil(FactsAtInstr(txt[0].(ssa.Instruction)), num[0].Value()) {
						c.Site(txt[0].Pos(), "text range search is used exactly when the numeric one could not be built")
					} else {
						c.Violation("dom:newSearcher:text-fallback", fn.Pos(), "the text range search is no longer the fallback for NewRangeNumberSearch() == nil")
					}
				}
				if fn := c.Fn("pattern.NewRangeNumberSearch"); fn != nil {
					// a bound that does not parse ends in the nil result. The parsing may sit in NewRangeNumberSearch itself, or in a
					// private helper that reports failure through a boolean result which the constructor then turns into nil.
					parse := Callee("strconv.ParseFloat")
					failsToNil := func(f *ssa.Function, from ssa.Instruction, init func(SimState), failed func(ret *ssa.Return) bool) (bad bool, paths int) {
						res := Simulate(from, true, init, func(st SimState, in ssa.Instruction) bool {
							ret, ok := in.(*ssa.Return)
							if !ok {
								return true
							}
							if !failed(ret) {
								bad = true
							}
							return false
						})
						return bad, res.Paths
					}
					retNil := func(ret *ssa.Return) bool { return IsNilConst(RetOperand(ret, 0)) }
					n := 0
					// (a) in place
					for i, call := range CallsIn(fn, parse) {
						n++
						ev := ErrorResult(call)
						if ev == nil {
							c.Violation(keyN("pathsim:NewRangeNumberSearch:unchecked", i), call.Pos(), "the error of ParseFloat is not inspected")
							continue
						}
						bad, paths := failsToNil(fn, call.(ssa.Instruction), func(st SimState) { st.SetNil(ev, -1) }, retNil)
						c.Count("paths_simulated", paths)
						if bad {
							c.Violation(keyN("pathsim:NewRangeNumberSearch:failed-end", i), call.Pos(), "a numeric range searcher can be returned although this end did not parse as a number: the range is then evaluated numerically with a zero bound instead of as a text range")
						} else {
							c.Site(call.Pos(), "a failed ParseFloat always leads to the nil (text search) result")
						}
					}
					// (b) through a helper with a boolean "ok" result
					for i, hc := range CallsIn(fn, nil) {
						h := StaticCallee(hc)
						if h == nil || h.Blocks == nil || !c.P.InRepo(h) || len(CallsIn(h, parse)) == 0 {
							continue
						}
						res := h.Signature.Results()
						okIdx := -1
						for k := 0; k < res.Len(); k++ {
							if b, isB := res.At(k).Type().Underlying().(*types.Basic); isB && b.Kind() == types.Bool {
								okIdx = k
							}
						}
						if okIdx < 0 {
							continue
						}
						retFalse := func(ret *ssa.Return) bool { v, isK := ConstBool(RetOperand(ret, okIdx)); return isK && !v }
						for _, call := range CallsIn(h, parse) {
							n++
							ev := ErrorResult(call)
							if ev == nil {
								c.Violation(keyN("pathsim:NewRangeNumberSearch:unchecked", i), call.Pos(), "the error of ParseFloat is not inspected")
								continue
							}
							bad, paths := failsToNil(h, call.(ssa.Instruction), func(st SimState) { st.SetNil(ev, -1) }, retFalse)
							c.Count("paths_simulated", paths)
							if bad {
								c.Violation(keyN("pathsim:NewRangeNumberSearch:failed-end", i), call.Pos(), "%s can report success although the bound did not parse as a number", FuncName(h))
							}
						}
						okVal := ResultN(hc, okIdx)
						if okVal == nil {
							c.Violation(keyN("pathsim:NewRangeNumberSearch:unchecked", i), hc.Pos(), "the ok result of %s is not inspected", FuncName(h))
							continue
						}
						bad, paths := failsToNil(fn, hc.(ssa.Instruction), func(st SimState) { st.Assume(okVal, false) }, retNil)
						c.Count("paths_simulated", paths)
						if bad {
							c.Violation(keyN("pathsim:NewRangeNumberSearch:failed-end", i), hc.Pos(), "a numeric range searcher can be returned although %s reported that this end is not a number", FuncName(h))
						} else {
							c.Site(hc.Pos(), "a bound that %s rejects always leads to the nil (text search) result", FuncName(h))
						}
					}
					if n < 1 {
						c.Undecided("NewRangeNumberSearch:parse", fn.Pos(), "NewRangeNumberSearch no longer parses its ends with strconv.ParseFloat")
					}
				}
			}},
		{Prop: "C13", ID: "C13.6", Engine: "DOM(typeswitch)", Floor: 1,
			Desc: "dictionary pre-selection by prefix only where matching is by spelling: parser.GetHint (which a sealed fraction uses to select token-dictionary blocks) returns a non-empty hint only under the *Literal case of its type switch — for a Range, membership is decided by value ('1e2' is in [100 TO 100]) and any prefix hint drops blocks that hold matching tokens",
			Check: func(c *Ctx) {
				fn := c.Fn("parser.GetHint")
				if fn == nil {
					return
				}
				for _, b := range fn.Blocks {
					ret, ok := b.Instrs[len(b.Instrs)-1].(*ssa.Return)
					if !ok {
						continue
					}
					v := RetOperand(ret, 0)
					if s, isS := ConstString(v); isS && s == "" {
						continue
					}
					underLiteral := false
					for _, f := range FactsAt(b) {
						e, isE := f.Cond.(*ssa.Extract)
						if !isE || e.Index != 1 || !f.Val {
							continue
						}
						if ta, isTA := e.Tuple.(*ssa.TypeAssert); isTA && strings.HasSuffix(ta.AssertedType.String(), "parser.Literal") {
							underLiteral = true
						}
					}
					verbatim := DerivesFromNoCall(v, func(x ssa.Value) bool {
						_, f, _, ok := FieldOf(x)
						return ok && f == "Data"
					})
					if underLiteral && !verbatim {
						c.Violation("prov:GetHint:not-verbatim", ret.Pos(), "GetHint returns something other than the literal's first term as it was parsed: the term already carries the case the index uses (the parser lower-cases it unless the field is case-sensitive, and _exists_ always is), so a hint that is transformed again is no longer a prefix of the tokens the pattern matches and the sealed fraction selects the wrong dictionary blocks")
						continue
					}
					if underLiteral {
						c.Site(ret.Pos(), "a hint is returned only for a literal")
					} else {
						c.Violation("dom:GetHint:non-literal-hint", ret.Pos(), "GetHint returns a hint for a token that is not a *Literal: sealed fractions pre-select dictionary blocks by that prefix, so a range (matched by value) or any other token loses the matching tokens that are spelled differently — active and sealed fractions answer differently")
					}
				}
				// the hint is consumed by the sealed token index only
				c.Site(fn.Pos(), "GetHint checked")
			}},
		{Prop: "C13", ID: "C13.7", Engine: "SHAPE", Floor: 1,
			Desc: "block pre-selection compares byte prefixes of exactly the hint's length: token.cut returns its argument or its first l bytes, l being the parameter itself (a cut that stops short — at a rune boundary, say — makes `hint <= cut(MaxVal)` false for a block whose last token starts with the hint, and the block with matching tokens is skipped)",
			Check: func(c *Ctx) {
				sel := c.Fn("(frac/token.Table).SelectEntries")
				cut := c.Fn("frac/token.cut")
				if sel == nil {
					return
				}
				if cut == nil {
					// inlined: nothing to check here (the comparisons are on slices in SelectEntries itself)
					c.Site(sel.Pos(), "SelectEntries compares prefixes inline")
					return
				}
				if len(cut.Params) < 2 {
					c.Undecided("shape:cut:params", cut.Pos(), "token.cut no longer takes (string, length)")
					return
				}
				str, l := cut.Params[0], cut.Params[1]
				for _, b := range cut.Blocks {
					ret, ok := b.Instrs[len(b.Instrs)-1].(*ssa.Return)
					if !ok {
						continue
					}
					v := RetOperand(ret, 0)
					if v == ssa.Value(str) {
						c.Site(ret.Pos(), "cut returns the whole string when it is not longer than the prefix")
						continue
					}
					if sl, ok := v.(*ssa.Slice); ok && sl.X == ssa.Value(str) && sl.Low == nil && sl.High == ssa.Value(l) {
						c.Site(ret.Pos(), "cut returns exactly the first l bytes")
						continue
					}
					c.Violation("shape:cut:not-exact", ret.Pos(), "token.cut returns something other than the string or its first l bytes: the pre-selection of dictionary blocks compares the hint with a prefix of a different length, and a block that holds tokens starting with the hint can be left out")
				}
			}},
		{Prop: "C13", ID: "C13.8", Engine: "ORDER", Floor: 1,
			Desc: "membership in a numeric range is decided by the number the token denotes: in rangeNumberSearch.check every answer is given after strconv.ParseFloat has been asked (no cheaper test on the spelling rejects a token first — '.5' and '1e2' are numbers)",
			Check: func(c *Ctx) {
				fn := c.Fn("(*pattern.rangeNumberSearch).check")
				if fn == nil {
					return
				}
				parse := c.P.MustCall(Callee("strconv.ParseFloat"))
				pcs := CallsIn(fn, parse)
				if len(pcs) == 0 {
					c.Violation("order:rangeNumberSearch.check:no-parse", fn.Pos(), "rangeNumberSearch.check no longer parses the token with strconv.ParseFloat")
					return
				}
				for _, b := range fn.Blocks {
					ret, ok := b.Instrs[len(b.Instrs)-1].(*ssa.Return)
					if !ok {
						continue
					}
					dom := false
					for _, pc := range pcs {
						if Dominates(pc.(ssa.Instruction), ret) {
							dom = true
						}
					}
					if dom {
						c.Site(ret.Pos(), "answers after parsing the token as a number")
					} else {
						c.Violation("order:rangeNumberSearch.check:answer-before-parse", ret.Pos(), "rangeNumberSearch.check answers without having parsed the token: a spelling test that runs first rejects numbers it does not recognise (a leading '.', an exponent form) although their value lies in the range")
					}
				}
			}},
		{Prop: "C13", ID: "C13.9", Engine: "PROV(no-truncation)+ALIAS", Floor: 3,
			Desc:  "the bounds a dictionary block is pre-selected by are its whole first and last token, owned by the table: every value stored into token.TableEntry.MinVal / MaxVal and token.FieldData.MinVal, and what TableEntry.Pack writes for them, reaches its place without a re-slice that carries a bound, without token.cut, and without util.ByteToStringUnsafe (a copy, not a view of a read buffer that is reused for the next block) — a bound cut to some fixed length compares lower than a longer hint that starts with it, so the block that holds the token is skipped in the reloaded table only",
			Check: func(c *Ctx) { tableBoundsWhole(c) }},
		{Prop: "C13", ID: "C13.5", Engine: "PROV+SHAPE", Floor: 1,
			Desc:  "structural necessities of the wildcard matcher: checkMiddle searches the middle fragments in val[len(prefix) : len(val)-len(suffix)] (not overlapping prefix or suffix); the prefix-function fallback in findSubstring and calcPrefFunc is iterated (a loop), not a single step",
			Check: func(c *Ctx) { matcherShape(c) }},
	}
}

// tableBoundsWhole: rule body of C13.9, shared with C03.
func tableBoundsWhole(c *Ctx) {
	// what the codec's primitive reads return is where a bound comes from: not looked behind
	isOrigin := func(v ssa.Value) bool {
		cl, ok := v.(*ssa.Call)
		if !ok {
			return false
		}
		n := CallName(cl)
		return strings.HasPrefix(n, "(*packer.BytesUnpacker).") || strings.HasPrefix(n, "(*packer.BytesPacker).")
	}
	why := ""
	isCutOrView := func(v ssa.Value) bool {
		switch x := v.(type) {
		case *ssa.Slice:
			if x.Low == nil && x.High == nil {
				return false
			}
			switch u := x.X.Type().Underlying().(type) {
			case *types.Basic:
				if u.Info()&types.IsString != 0 {
					why = "a re-slice of the string"
					return true
				}
			case *types.Slice:
				if b, ok := u.Elem().Underlying().(*types.Basic); ok && b.Kind() == types.Uint8 {
					why = "a re-slice of the bytes"
					return true
				}
			}
		case *ssa.Call:
			switch CallName(x) {
			case "frac/token.cut":
				why = "token.cut"
				return true
			case "util.ByteToStringUnsafe":
				why = "util.ByteToStringUnsafe (a view of the caller's buffer, not a copy)"
				return true
			}
		}
		return false
	}
	check := func(at ssa.Instruction, v ssa.Value, what string) {
		why = ""
		if DerivesFromStop(v, isCutOrView, isOrigin) {
			c.Violation("prov:table-bound:"+what, at.Pos(), "%s does not receive the whole token as a value of its own: it passes through %s — in the table that is read back from the index file the block that holds a token can then be skipped (or the bound changes under the table when the read buffer is reused)", what, why)
		} else {
			c.Site(at.Pos(), "%s is the whole token, copied", what)
		}
	}
	for _, fn := range c.P.Funcs {
		if !c.P.InRepo(fn) {
			continue
		}
		for _, tf := range [][2]string{{"frac/token.TableEntry", "MinVal"}, {"frac/token.TableEntry", "MaxVal"}, {"frac/token.FieldData", "MinVal"}} {
			for _, in := range InstrsIn(fn, FieldStore(tf[0], tf[1])) {
				check(in, in.(*ssa.Store).Val, tf[0][len("frac/token."):]+"."+tf[1])
			}
		}
	}
	if fn := c.Fn("(*frac/token.TableEntry).Pack"); fn != nil {
		n := 0
		for _, call := range CallsIn(fn, Callee("(*packer.BytesPacker).PutStringWithSize")) {
			for _, f := range []string{"MinVal", "MaxVal"} {
				f := f
				if DerivesFromStop(Arg(call, 0), func(v ssa.Value) bool { return ValueIsField(v, "frac/token.TableEntry", f) }, isOrigin) {
					n++
					check(call.(ssa.Instruction), Arg(call, 0), "the packed "+f)
				}
			}
		}
		if n < 2 {
			c.Undecided("prov:table-bound:pack", fn.Pos(), "TableEntry.Pack no longer writes MinVal and MaxVal with PutStringWithSize")
		}
	}
}

func matcherShape(c *Ctx) {
	if fn := c.Fn("(*pattern.wildcardSearch).checkMiddle"); fn != nil {
		for _, fs := range CallsIn(fn, Callee("pattern.findSequence")) {
			sl, ok := Arg(fs, 0).(*ssa.Slice)
			lowOK := ok && sl.Low != nil && DerivesFrom(sl.Low, func(v ssa.Value) bool { return ValueIsField(v, "pattern.wildcardSearch", "prefix") })
			highOK := ok && sl.High != nil && DerivesFrom(sl.High, func(v ssa.Value) bool { return ValueIsField(v, "pattern.wildcardSearch", "suffix") })
			if lowOK && highOK {
				c.Site(fs.Pos(), "middle fragments are searched strictly between prefix and suffix")
			} else {
				c.Violation("prov:checkMiddle:window", fs.Pos(), "middle fragments are searched in a window that is not cut at both len(prefix) and len(val)-len(suffix) (low cut: %v, high cut: %v): a fragment can match inside the suffix/prefix and tokens that contain the text only once are accepted", lowOK, highOK)
			}
		}
	}
	for _, name := range []string{"pattern.findSubstring", "(*pattern.substring).calcPrefFunc"} {
		fn := c.Fn(name)
		if fn == nil {
			continue
		}
		found, inner := false, false
		// the read of the prefix function, in the function itself or in a private helper it calls per byte (advance):
		// the loop nesting is counted along the call chain
		isPrefRead := func(in ssa.Instruction) bool {
			ld, ok := in.(*ssa.UnOp)
			if !ok || ld.Op != token.MUL {
				return false
			}
			ia, ok := ld.X.(*ssa.IndexAddr)
			return ok && ValueIsField(ia.X, "pattern.substring", "prefFunc")
		}
		for _, l := range c.P.FindLifted(fn, isPrefRead) {
			found = true
			depth := loopDepth(l.In.Block())
			for _, via := range l.Via {
				depth += loopDepth(via.(ssa.Instruction).Block())
			}
			if depth >= 2 {
				inner = true
			}
		}
		switch {
		case !found:
			c.Undecided("shape:"+name+":fallback", fn.Pos(), "%s no longer reads the prefix function", name)
		case inner:
			c.Site(fn.Pos(), "%s: the prefix-function fallback is repeated in an inner loop", name)
		default:
			c.Violation("shape:"+name+":fallback-loop", fn.Pos(), "%s falls back through the prefix function at most once per byte: after a mismatch that needs two fallbacks the match length stays too large and a fragment is reported found although it is absent", name)
		}
	}
}
