#!/bin/bash
# usage: seedverify.sh <PROP> <mK> [dest-name]  — confirms a sub-agent's change in the scratch worktree /tmp/mut/<PROP>
# and stores it as /verif/seeded/<PROP>-<mK>/ when everything holds.
set -u
P=$1; K=$2
WT=/tmp/mut/$P; SRC=/tmp/mut/out/$P/$K; DST=/verif/seeded/${3:-$P-$K}
export GOPROXY=off GOFLAGS=-mod=mod
cd "$WT" || exit 2
git checkout -q -- . && git clean -fdq
demo_cmd=$(python3 -c "import json;print(json.load(open('$SRC/meta.json'))['demo_cmd'])")
# place demo files
placed=(); srcs=()
while read -r line; do
  [ -z "$line" ] && continue
  # "<repo-relative path>" or "<file in the deliverable> -> <repo-relative path>"
  rel=$(echo "$line" | grep -oE '[A-Za-z0-9_./-]+\.go' | tail -1)
  src=$(echo "$line" | grep -oE '[A-Za-z0-9_./-]+\.go' | head -1)
  [ -z "$rel" ] && continue
  base=$(basename "$rel")
  from=""
  if [ -f "$SRC/$rel" ]; then from="$SRC/$rel"; elif [ -f "$SRC/$base" ]; then from="$SRC/$base"; elif [ -f "$SRC/$(basename "$src")" ]; then from="$SRC/$(basename "$src")"; fi
  if [ -n "$from" ]; then mkdir -p "$(dirname "$rel")"; cp "$from" "$rel"; placed+=("$rel"); srcs+=("$from"); fi
done < "$SRC/demo_path.txt"
echo "placed: ${placed[*]}"
run_demo() { (cd "$WT" && eval "$(echo "$demo_cmd" | sed -E 's#^cd [^&]+&& *##')" >/tmp/mut/out/$P/$K/demo.$1.log 2>&1); echo $?; }
r_clean=$(run_demo clean)
git apply "$SRC/patch.diff" || { echo "PATCH DOES NOT APPLY"; exit 1; }
go build ./... >/tmp/mut/out/$P/$K/build.log 2>&1; r_build=$?
r_patch=$(run_demo patched)
# existing tests of touched packages (demo excluded)
pkgs=$(git diff --name-only | grep "\.go$" | xargs -n1 dirname | sort -u | sed 's#^#./#' | tr '\n' ' ')
go test -vet=off -count=1 -skip 'Demo' $pkgs >/tmp/mut/out/$P/$K/pkgtests.log 2>&1; r_tests=$?
git checkout -q -- . 
for f in "${placed[@]}"; do rm -f "$f"; done
git clean -fdq
echo "RESULT $P-$K: build=$r_build demo_clean=$r_clean demo_patched=$r_patch pkgtests($pkgs)=$r_tests"
if [ "$r_build" = 0 ] && [ "$r_clean" = 0 ] && [ "$r_patch" != 0 ] && [ "$r_tests" = 0 ]; then
  mkdir -p "$DST"; cp "$SRC/patch.diff" "$DST/"; for f in "${srcs[@]}"; do r="${f#$SRC/}"; mkdir -p "$DST/$(dirname "$r")"; cp "$f" "$DST/$r"; done; cp "$SRC/demo_path.txt" "$DST/"
  python3 - "$SRC/meta.json" "$DST/meta.json" "$pkgs" <<'PY'
import json,sys
m=json.load(open(sys.argv[1]))
m["confirmed_by_me"]={"worktree":"scratch worktree under /tmp/mut","build":"go build ./... ok","demo_on_clean_tree":"pass","demo_with_patch":"fail","existing_tests_of_touched_packages":"pass: "+sys.argv[3]}
json.dump(m,open(sys.argv[2],"w"),indent=1)
PY
  echo "KEPT $DST"
else
  echo "NOT KEPT"
fi
