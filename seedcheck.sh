#!/bin/bash
# Runs every seeded change against the quick check of its property (applied to /repo, reverted afterwards)
# and prints which obligations report it. Usage: seedcheck.sh [seed-dir-name ...]
cd /verif
seeds=${@:-$(ls seeded)}
for s in $seeds; do
  prop=${s%%-*}
  out=$(./mutcheck.sh /verif/seeded/$s/patch.diff $prop 2>&1)
  rc=$(echo "$out" | grep -oE "exit=[0-9]+" | head -1)
  obs=$(echo "$out" | grep -oE "C[0-9]+\.[0-9a-z]+\|[^ ]+" | cut -d'|' -f1 | sort -u | tr '\n' ' ')
  if echo "$out" | grep -q "patch does not apply"; then echo "$s: PATCH-DOES-NOT-APPLY"; continue; fi
  echo "$s: $rc caught_by=[${obs}]"
done
