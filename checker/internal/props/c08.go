package props

import (
	"go/token"
	"os"
	"strings"

	"golang.org/x/tools/go/ssa"

	. "seqverif/internal/kit"
)

func init() {
	register(&PropInfo{
		ID:          "C08",
		Title:       "Sealing is all-or-nothing under crashes and I/O errors",
		Explanation: "Decides on every path: (1) no error produced under frac.Seal (writers, seeks, syncs, renames, block formers, generator callbacks) is swallowed — each is returned, wrapped, stored in a carrier or reaches a fatal sink; (2) publish order sync < rename < dir-sync < success, registry block last, each step dominated by the previous step's err==nil; (3) the active files are released only after frac.Seal succeeded and the sealed fraction was published; (4) only the owner functions remove/rename fraction files; (5) every crash prefix of the seal/release file-operation sequence classifies as ACTIVE or SEALED in the loader's decision table (FILESTATE). NOT decided: contents of torn temp files, equality of sealed and active data.",
		Assumptions: []string{
			"every file effect of sealing goes through os.Create/os.Rename/os.Remove/(*os.File).Sync and io.Writer/io.Seeker",
			"an error that is returned, wrapped, stored, sent or passed to a fatal sink is considered handled; unknown non-logging callees that receive the error are assumed to handle it",
		},
		Obs: c08,
	})
}

func sealScopePkgs(rel string) bool {
	switch rel {
	case "frac", "disk", "bytespool", "packer", "frac/lids", "frac/token", "zstd", "util":
		return true
	}
	return false
}

func c08() []*Ob {
	return []*Ob{
		{Prop: "C08", ID: "C08.9", Engine: "SENTINEL(empty block)", Floor: 1,
			Desc:  "an empty block means end of section and nothing else: BlockFormer.FlushForced calls WriteBlock only under len(packer.Data) != 0 (or every caller of FlushForced has established it) — a forced flush of an empty packer writes a zero-length registry entry, the readers stop there, every later section of the published index is misread after the restart, and the originals are gone",
			Check: func(c *Ctx) { dataBlocksAreNotEmpty(c) }},
		{Prop: "C08", ID: "C08.6", Engine: "OWN(who-may-create)", Floor: 2,
			Desc: "a published name is only ever the target of a rename: no os.Create / os.OpenFile(O_CREATE) in packages frac, fracmanager and disk builds its path from consts.IndexFileSuffix or consts.SdocsFileSuffix — the names the loader takes for \"sealing has completed\"; the sealed files are written under their temporary suffixes and renamed after the sync. An index written in place under .index is published before its first byte: a crash or a failed write leaves a torn index that the next start serves, after deleting .meta",
			Check: func(c *Ctx) {
				pub := map[string]string{}
				for _, n := range []string{"IndexFileSuffix", "SdocsFileSuffix"} {
					if v := constString(c.P.TypesPkg("consts"), n); v != "" {
						pub[v] = n
					}
				}
				if len(pub) == 0 {
					c.Undecided("own:create-published:consts", 0, "consts.IndexFileSuffix / SdocsFileSuffix not found")
					return
				}
				n := 0
				for _, pk := range []string{"frac", "fracmanager", "disk"} {
					for _, fn := range c.P.FuncsInPkg(pk) {
						for _, call := range CallsIn(fn, Callee("os.Create", "os.OpenFile", "os.CreateTemp")) {
							if CallName(call) == "os.OpenFile" {
								if k, isK := ConstInt(Arg(call, 1)); isK && k&int64(os.O_CREATE) == 0 {
									continue
								}
							}
							n++
							bad := ""
							DerivesFrom(Arg(call, 0), func(v ssa.Value) bool {
								if sv, ok := ConstString(v); ok {
									if name, isPub := pub[sv]; isPub {
										bad = name
										return true
									}
								}
								return false
							})
							if bad == "" {
								c.Site(call.Pos(), "%s creates a file under a non-published name", FuncName(fn))
							} else {
								c.Violation("own:create-published:"+FuncName(fn)+":"+bad, call.Pos(), "%s creates a file directly under consts.%s: the loader takes that name for a completed seal, so the file is published before it is written and synced", FuncName(fn), bad)
							}
						}
					}
				}
				if n == 0 {
					c.Undecided("own:create-published:none", 0, "no file creation found in frac, fracmanager, disk")
				}
			}},
		{Prop: "C08", ID: "C08.1", Engine: "ERRFLOW", Floor: 40,
			Desc: "no error is swallowed in any function reachable from frac.Seal (static callees, closures, generator callbacks) inside frac, disk, bytespool, packer, zstd, util",
			Check: func(c *Ctx) {
				root := c.Fn("frac.Seal")
				if root == nil {
					return
				}
				scope := c.P.Scope([]*ssa.Function{root}, sealScopePkgs)
				ErrFlowCheck(c, scope, []ErrFlowAllow{
					{Func: "util.MustSyncPath", Callee: "(*os.File).Close", Reason: "best-effort close on the failure path immediately before logger.Panic; the other Close is checked"},
				})
				ErrPathCheck(c, scope, nil)
				// the generator closures and push callbacks must be in scope
				need := []string{"frac.writeSealedFraction", "(*frac.DiskBlocksWriter).writeIDsBlocks", "(*frac.DiskBlocksWriter).writeLIDsBlocks",
					"(*frac.DiskBlocksProducer).getIDsBlocksGenerator", "(*frac.DiskBlocksProducer).getLIDsBlockGenerator", "(*disk.BlocksWriter).WriteBlock",
					"(*disk.BlockFormer).FlushForced", "frac.syncRename", "(*bytespool.Writer).Flush"}
				in := map[string]bool{}
				for _, f := range scope {
					in[FuncName(f)] = true
				}
				for _, n := range need {
					if !in[n] {
						c.Undecided("scope-missing:"+n, root.Pos(), "%s is no longer reachable from frac.Seal by static calls; the scope of the error discipline is incomplete", n)
					}
				}
			}},
		{Prop: "C08", ID: "C08.2", Engine: "ORDER+ACK", Floor: 10,
			Desc: "publish order: syncRename syncs before it renames; Seal returns success only after writeSealedFraction, syncRename(index) and the directory sync; writeSortedDocs only after writeDocsInOrder (ending in Flush) and syncRename(sdocs); the registry block is written after every section and every section's success dominates the success return",
			Check: func(c *Ctx) {
				if fn := c.Fn("frac.syncRename"); fn != nil {
					sync := Callee("(*os.File).Sync")
					ren := Callee("os.Rename")
					MustPrecede(c, fn, sync, "f.Sync()", ren, "os.Rename")
					for _, r := range CallsIn(fn, ren) {
						if GuardedByNilErr(r.(ssa.Instruction), sync) {
							c.Site(r.Pos(), "rename only after Sync returned nil")
						} else {
							c.Violation("dom:frac.syncRename:rename-needs-sync-ok", r.Pos(), "the temp file can be renamed into place although Sync failed")
						}
					}
					AckCheck(c, fn, []Must{{Name: "f.Sync", M: sync}, {Name: "os.Rename", M: ren}}, nil)
				}
				if fn := c.Fn("frac.Seal"); fn != nil {
					wsf := Callee("frac.writeSealedFraction")
					sr := Callee("frac.syncRename")
					dsync := Callee("util.MustSyncPath")
					AckCheck(c, fn, []Must{{Name: "writeSealedFraction", M: wsf}, {Name: "syncRename", M: sr}, {Name: "util.MustSyncPath", M: dsync}}, nil)
					MustPrecede(c, fn, wsf, "writeSealedFraction", sr, "syncRename(index)")
					MustPrecede(c, fn, sr, "syncRename(index)", dsync, "MustSyncPath(dir)")
					for _, r := range CallsIn(fn, sr) {
						if GuardedByNilErr(r.(ssa.Instruction), wsf) {
							c.Site(r.Pos(), "index is published only after writeSealedFraction returned nil")
						} else {
							c.Violation("dom:frac.Seal:publish-needs-write-ok", r.Pos(), "the index temp file can be renamed into place although writing it failed")
						}
					}
				}
				if fn := c.Fn("frac.writeSortedDocs"); fn != nil {
					wd := Callee("frac.writeDocsInOrder")
					sr := Callee("frac.syncRename")
					AckCheck(c, fn, []Must{{Name: "writeDocsInOrder", M: wd}, {Name: "syncRename", M: sr}}, nil)
					for _, r := range CallsIn(fn, sr) {
						if GuardedByNilErr(r.(ssa.Instruction), wd) {
							c.Site(r.Pos(), "sdocs is published only after all documents were written")
						} else {
							c.Violation("dom:frac.writeSortedDocs:publish-needs-write-ok", r.Pos(), "the sorted-docs temp file can be renamed into place although writing it failed")
						}
					}
				}
				if fn := c.Fn("frac.writeDocsInOrder"); fn != nil {
					AckCheck(c, fn, []Must{{Name: "writeDocBlocksInOrder", M: Callee("frac.writeDocBlocksInOrder")}}, nil)
				}
				if fn := c.Fn("frac.writeDocBlocksInOrder"); fn != nil {
					AckCheck(c, fn, []Must{{Name: "bw.Flush", M: Callee("(*frac.docBlocksWriter).Flush")}}, nil)
				}
				if fn := c.Fn("(*frac.docBlocksWriter).Flush"); fn != nil {
					AckCheck(c, fn, []Must{{Name: "w.w.Flush", M: Callee("(*bytespool.Writer).Flush")}}, nil)
				}
				if fn := c.Fn("frac.writeSealedFraction"); fn != nil {
					sections := []string{"writeInfoBlock", "writeTokensBlocks", "writeTokenTableBlocks", "writePositionsBlock", "writeIDsBlocks", "writeLIDsBlocks"}
					reg := Callee("(*frac.DiskBlocksWriter).WriteRegistryBlock")
					var musts []Must
					for _, s := range sections {
						m := Callee("(*frac.DiskBlocksWriter)." + s)
						musts = append(musts, Must{Name: s, M: m})
						MustPrecede(c, fn, m, s, reg, "WriteRegistryBlock")
						for _, r := range CallsIn(fn, reg) {
							if !GuardedByNilErr(r.(ssa.Instruction), m) {
								c.Violation("dom:frac.writeSealedFraction:registry-needs-"+s, r.Pos(), "the registry (which makes the index look complete) can be written although %s failed", s)
							}
						}
					}
					musts = append(musts, Must{Name: "WriteRegistryBlock", M: reg})
					AckCheck(c, fn, musts, nil)
					// sorted docs are written under !SkipSortDocs and their failure aborts
					wsd := Callee("frac.writeSortedDocs")
					for _, w := range CallsIn(fn, wsd) {
						ev := ErrorResult(w)
						if ev == nil {
							c.Violation("errflow:frac.writeSealedFraction:writeSortedDocs", w.Pos(), "error of writeSortedDocs is not inspected")
							continue
						}
						for _, r := range CallsIn(fn, reg) {
							if KnownNil(FactsAtInstr(r.(ssa.Instruction)), ev) || !Dominates(w.(ssa.Instruction), r.(ssa.Instruction)) {
								c.Site(w.Pos(), "writeSortedDocs failure aborts before the registry is written")
							} else {
								c.Violation("dom:frac.writeSealedFraction:registry-needs-sdocs", r.Pos(), "index can be completed although the sorted docs file could not be written")
							}
						}
					}
				}
				if fn := c.Fn("(*disk.BlocksWriter).WriteBlocksRegistry"); fn != nil {
					// all four effects succeed before success
					AckCheck(c, fn, []Must{{Name: "Seek", M: Callee("(io.Seeker).Seek")}, {Name: "Write", M: Callee("(io.Writer).Write")}}, nil)
				}
			}},
		{Prop: "C08", ID: "C08.8", Engine: "FIELDS+ALIAS", Floor: 2,
			Desc:  "the index is written from this sealing's own tables: what writeSortedDocs hands on from the pooled docBlocksWriter (block offsets, the map of new document positions) is a copy — the writer goes back to the pool when writeSortedDocs returns, before the positions are written into the ID blocks, so an overlapping Seal of the next fraction (maintenance starts one per rotation) clears and refills the map: the index is published with 'position not found' for every document, the seal reports success and the originals are removed (shared rule with C03.4)",
			Check: shared("C03.4")},
		{Prop: "C08", ID: "C08.7", Engine: "ACK+PROV(position)", Floor: 2,
			Desc: "a block is where the registry says it is: BlocksWriter.WriteBlock returns success only after the Write of the block on the underlying writer has succeeded (nothing is left in a buffer of its own that a later, larger block could overtake), and the position it registers for the block, when it is taken from Seek, is that result unchanged — a registered position computed from the file position plus what is pending is wrong as soon as one block bypasses the buffer: Seal publishes an index whose blocks cannot be read, after the originals are gone",
			Check: func(c *Ctx) {
				fn := c.Fn("(*disk.BlocksWriter).WriteBlock")
				if fn == nil {
					return
				}
				AckCheck(c, fn, []Must{{Name: "Write", M: Callee("(io.Writer).Write")}}, nil)
				hdrs := CallsIn(fn, Callee("disk.NewIndexBlockHeader"))
				if len(hdrs) == 0 {
					c.Note("WriteBlock no longer builds the block header through NewIndexBlockHeader; the position rule is not applied")
				}
				isSeek := func(v ssa.Value) bool {
					cl, ok := v.(ssa.CallInstruction)
					return ok && CallName(cl) == "(io.Seeker).Seek"
				}
				for _, h := range hdrs {
					pos := Arg(h, 0)
					if !DerivesFrom(pos, isSeek) {
						c.Note("WriteBlock registers a position that is not taken from Seek; the position rule is not applied")
						continue
					}
					arith := DerivesFrom(pos, func(v ssa.Value) bool {
						bo, ok := v.(*ssa.BinOp)
						return ok && (bo.Op == token.ADD || bo.Op == token.SUB) && DerivesFrom(bo, isSeek)
					})
					if arith {
						c.Violation("prov:WriteBlock:position", h.Pos(), "the position WriteBlock registers for a block is computed from the file position instead of being the file position at which the block is written")
					} else {
						c.Site(h.Pos(), "the registered position is the result of Seek, unchanged")
					}
				}
			}},
		{Prop: "C08", ID: "C08.3", Engine: "DOM+ORDER", Floor: 2,
			Desc: "proxyFrac.Seal releases the active fraction only after frac.Seal returned nil and after the sealed fraction was stored; FracManager.seal reaches a fatal sink on every other sealing error",
			Check: func(c *Ctx) {
				if fn := c.Fn("(*fracmanager.proxyFrac).Seal"); fn != nil {
					seal := Callee("frac.Seal")
					rel := Callee("(*frac.Active).Release")
					rels := c.P.FindLifted(fn, CallSel(rel))
					if len(rels) == 0 {
						c.Undecided("norelease", fn.Pos(), "proxyFrac.Seal no longer calls Active.Release; cannot tell where the originals are removed")
					}
					for _, rl := range rels {
						r := rl.Top()
						if GuardedByNilErr(r, seal) {
							c.Site(r.Pos(), "Active.Release is only reached when frac.Seal returned nil")
						} else {
							c.Violation("dom:proxyFrac.Seal:release-needs-seal-ok", r.Pos(), "the active fraction's files can be released although sealing failed")
						}
					}
					PrecedeI(c, fn, FieldStore("fracmanager.proxyFrac", "sealed"), "store of f.sealed", CallSel(rel), "active.Release()")
					AckCheck(c, fn, []Must{{Name: "frac.Seal", M: seal}}, nil)
				}
				if fn := c.Fn("(*fracmanager.FracManager).seal"); fn != nil {
					sealM := Callee("(*fracmanager.proxyFrac).Seal")
					for _, s := range CallsIn(fn, sealM) {
						ev := ErrorResult(s)
						if ev == nil {
							c.Violation("errflow:FracManager.seal", s.Pos(), "the sealing error is not inspected")
							continue
						}
						// every instruction after the error check that publishes the sealed instance must be under err==nil or behind a fatal sink
						for _, st := range InstrsIn(fn, FieldStore("fracmanager.fracRef", "instance")) {
							if KnownNil(FactsAtInstr(st), ev) || fatalDominates(fn, st, ev) {
								c.Site(st.Pos(), "sealed instance is published only when sealing succeeded (or the process died)")
							} else {
								c.Violation("dom:FracManager.seal:publish-needs-ok", st.Pos(), "FracManager.seal can continue with a fraction whose sealing failed")
							}
						}
					}
				}
			}},
		{Prop: "C08", ID: "C08.5", Engine: "FILESTATE", Floor: 10,
			Desc:  "every crash prefix of the seal and release file operations, for all four (SkipSortDocs, KeepMetaFile) settings, is classified ACTIVE or SEALED by the loader with the files that outcome needs; temp suffixes are ignored",
			Check: func(c *Ctx) { fileStateObligations(c, "C08") }},
		{Prop: "C08", ID: "C08.4", Engine: "OWN", Floor: 6,
			Desc: "only the owner functions remove, rename or truncate files: os.Remove/os.RemoveAll/os.Rename/os.Truncate/(*os.File).Truncate call sites in non-test repo code lie in the frozen owner set; Active.removeDocsFiles/removeMetaFile are called only from Active.Release/Suicide",
			Check: func(c *Ctx) {
				owners := map[string]string{
					"(*frac.Active).removeDocsFiles":                 "active docs file removal (Release/Suicide)",
					"(*frac.Active).removeMetaFile":                  "active meta file removal (Release/Suicide)",
					"(*frac.Sealed).Suicide":                         "two-phase deletion of a sealed fraction",
					"frac.truncateFile":                              "cuts the unacknowledged tail of .docs/.meta after replay",
					"frac.syncRename":                                "publish step of sealing",
					"fracmanager.removeFile":                         "loader clean-up",
					"(*fracmanager.sealedFracCache).SaveCacheToDisk": "cache file temp->rename",
					"fracmanager.mustWriteFileAtomic":                "async-search atomic write",
					"(*fracmanager.AsyncSearcher).removeExpired":     "async-search expiry",
					"fracmanager.removeFiles":                        "async-search clean-up",
					"(*fracmanager.FracManager).setMature":           "removes the data-dir immature flag file, not a fraction file",
				}
				m := Callee("os.Remove", "os.RemoveAll", "os.Rename", "os.Truncate", "(*os.File).Truncate")
				for _, fn := range c.P.Funcs {
					pk := PkgOf(fn)
					if strings.HasPrefix(pk, "tests") || strings.HasPrefix(pk, "cmd/") && pk != "cmd/seq-db" || strings.HasPrefix(pk, "tools") || strings.HasPrefix(pk, "benchmarks") {
						continue
					}
					for _, call := range CallsIn(fn, m) {
						if owner, ok := c.P.OwnedBy(fn, func(n string) bool { _, is := owners[n]; return is }); ok {
							c.Site(call.Pos(), "%s: %s (%s)", FuncName(fn), CallName(call), owners[owner])
						} else {
							c.Violation("own:"+FuncName(fn)+":"+CallName(call), call.Pos(), "%s calls %s but is not one of the functions that own fraction/cache files", FuncName(fn), CallName(call))
						}
					}
				}
				for _, name := range []string{"(*frac.Active).removeDocsFiles", "(*frac.Active).removeMetaFile"} {
					fn := c.Fn(name)
					if fn == nil {
						continue
					}
					for _, call := range c.P.Callers(fn) {
						caller := FuncName(call.Parent())
						if _, ok := c.P.OwnedBy(call.Parent(), func(n string) bool { return n == "(*frac.Active).Release" || n == "(*frac.Active).Suicide" }); ok {
							c.Site(call.Pos(), "%s called from %s", name, caller)
						} else {
							c.Violation("own:caller:"+caller+"->"+name, call.Pos(), "%s removes active files but is neither Release nor Suicide", caller)
						}
					}
				}
			}},
	}
}

// fatalDominates: in is only reachable, when ev != nil, through a fatal sink:
// some If on ev's nil-ness has a failure branch whose blocks all end in fatal
// sinks or returns, and in is not inside that branch.
func fatalDominates(fn *ssa.Function, in ssa.Instruction, ev ssa.Value) bool {
	for _, b := range fn.Blocks {
		if len(b.Instrs) == 0 {
			continue
		}
		ifi, ok := b.Instrs[len(b.Instrs)-1].(*ssa.If)
		if !ok {
			continue
		}
		f := Fact{Cond: ifi.Cond, Val: true}
		for {
			u, ok := f.Cond.(*ssa.UnOp)
			if !ok {
				break
			}
			f.Cond = u.X
			f.Val = !f.Val
		}
		pol := NilFact(f, ev)
		if pol == 0 {
			continue
		}
		// pol==1: true-branch is "ev == nil" => fail branch is Succs[1]
		fail := b.Succs[0]
		if pol == 1 {
			fail = b.Succs[1]
		}
		if !b.Dominates(in.Block()) {
			continue
		}
		// every path from fail must end in a fatal sink or a return before reaching in's block
		if !ReachesWithoutFatal(fail, in.Block()) {
			return true
		}
	}
	return false
}
