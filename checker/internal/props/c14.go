package props

import (
	"go/token"
	"go/types"
	"strings"

	"golang.org/x/tools/go/ssa"

	. "seqverif/internal/kit"
)

func init() {
	register(&PropInfo{
		ID:          "C14",
		Title:       "Time-range pruning never hides a document that lies in the requested range",
		Explanation: "Decided: (1) the pruning predicates default to 'may intersect': Info.IsIntersecting answers false only for an empty fraction or from the border comparison, true when there is no distribution, and MIDsDistribution.IsIntersecting answers true when undefined; a distribution that fails to decode stays undefined; (2) the persisted distribution uses one time unit per field in both directions (UnixMilli<->time.UnixMilli, Seconds()<->time.Second*, bitmask sized from the restored borders) and every JSON field is written and read; (3) search (List.FilterInRange) and fetch (Fraction.Contains) use the same predicate IsIntersecting in Active, Sealed and the proxy fraction; (4) Add and IsIntersecting map a timestamp with the same function; the occupancy map is built from EVERY id of the fraction, before the info block is packed; (5) the fetch window handed to FilterInRange is taken from the ends of the SORTED id list. NOT decided: HasBitsIn mask arithmetic, LID border binary searches, border equality cases.",
		Assumptions: []string{"time unit functions are classified by name"},
		Obs:         c14,
	})
}

func c14() []*Ob {
	return []*Ob{
		{Prop: "C14", ID: "C14.14", Engine: "LOCK(read-modify-write)", Floor: 2,
			Desc:  "the time borders of an active fraction only widen: Active.UpdateStats computes a new From / To from the fraction's own info only while it holds infoMu for writing (no f.Info() snapshot or field read taken before the lock) — with the read outside, two index workers that finish bulks at the same time overwrite each other's widening, the fraction holds documents outside [From, To] and is pruned for their timestamps by search and fetch",
			Check: func(c *Ctx) { bordersWidenAtomically(c) }},
		{Prop: "C14", ID: "C14.12", Engine: "PAIR(two sites)", Floor: 1,
			Desc:  "the window a sealed fraction is searched in for a fetch never excludes a stored id (shared rule with C04.13)",
			Check: func(c *Ctx) { findLIDsWindowJustified(c) }},
		{Prop: "C14", ID: "C14.11", Engine: "PAIR(two sites)", Floor: 1,
			Desc:  "a fraction list that is cut by its time borders is in sorted order: List.FilterInRange keeps the order of the list, or every function that filters a list and then applies calcEnsuredIDsCount sorts it in between",
			Check: func(c *Ctx) { filteredListKeepsOrder(c) }},
		{Prop: "C14", ID: "C14.10", Engine: "SIBLING(mirror)", Floor: 3,
			Desc:  "a time range that lies before a token's first LIDs block still reaches the blocks behind it: the sealed posting-list iterators end their walk only on the bound ahead of them (shared rule with C03.7)",
			Check: shared("C03.7")},
		{Prop: "C14", ID: "C14.9", Engine: "PAIR(mask/byte)", Floor: 2,
			Desc: "the occupancy test looks at whole minutes in between: in util.Bitmask.HasBitsIn a mask computed from a position's bit offset (position %% 8) is applied only to the byte at that position's own index (position / 8) — or to a byte whose index is known equal to it — never to the bytes of the loop in between; a middle byte ANDed with the left border's mask loses its low bits, and a fraction whose only documents of the range sit in those minutes is pruned",
			Check: func(c *Ctx) {
				fn := c.Fn("(*util.Bitmask).HasBitsIn")
				if fn == nil {
					return
				}
				strip := func(v ssa.Value) ssa.Value {
					for {
						switch x := v.(type) {
						case *ssa.Convert:
							v = x.X
						case *ssa.ChangeType:
							v = x.X
						default:
							return v
						}
					}
				}
				// a bit offset (p % k) or a byte index (p / k) of some position p, computed in place or by a small helper
				// (`byteIndex, bitIndex := locateBit(p)`): returns p as seen by this function
				locate := func(v ssa.Value) (ssa.Value, string, bool) {
					kindOf := func(op token.Token) string {
						switch op {
						case token.REM:
							return "offset"
						case token.QUO:
							return "index"
						}
						return ""
					}
					switch x := strip(v).(type) {
					case *ssa.BinOp:
						if k := kindOf(x.Op); k != "" {
							return strip(x.X), k, true
						}
					case *ssa.Extract:
						call, ok := x.Tuple.(*ssa.Call)
						if !ok {
							break
						}
						h := StaticCallee(call)
						if h == nil || h.Blocks == nil || !c.P.InRepo(h) {
							break
						}
						for _, hb := range h.Blocks {
							ret, ok := hb.Instrs[len(hb.Instrs)-1].(*ssa.Return)
							if !ok || x.Index >= len(ret.Results) {
								continue
							}
							if bo, ok := strip(ret.Results[x.Index]).(*ssa.BinOp); ok && kindOf(bo.Op) != "" {
								for pi, prm := range h.Params {
									if strip(bo.X) == ssa.Value(prm) && pi < len(call.Call.Args) {
										return strip(call.Call.Args[pi]), kindOf(bo.Op), true
									}
								}
							}
						}
					}
					return nil, "", false
				}
				maskParam := func(v ssa.Value) ssa.Value {
					var src ssa.Value
					DerivesFromStop(v, func(x ssa.Value) bool {
						if p, k, ok := locate(x); ok && k == "offset" {
							src = p
							return true
						}
						return false
					}, func(x ssa.Value) bool { _, _, ok := locate(x); return ok })
					return src
				}
				n := 0
				for _, b := range fn.Blocks {
					for _, in := range b.Instrs {
						bo, ok := in.(*ssa.BinOp)
						if !ok || bo.Op != token.AND {
							continue
						}
						for _, pair := range [][2]ssa.Value{{bo.X, bo.Y}, {bo.Y, bo.X}} {
							mp := maskParam(pair[0])
							if mp == nil || maskParam(pair[1]) == mp {
								continue
							}
							// the byte on the other side
							var idx ssa.Value
							DerivesFrom(pair[1], func(x ssa.Value) bool {
								if ia, ok := x.(*ssa.IndexAddr); ok && idx == nil {
									idx = ia.Index
									return true
								}
								return false
							})
							if idx == nil {
								continue
							}
							n++
							own := func(v ssa.Value) bool {
								p, k, ok := locate(v)
								return ok && k == "index" && p == mp
							}
							ok := own(idx)
							if !ok {
								// or an index known equal to the position's own
								for _, f := range FactsAtInstr(bo) {
									if eq, isEq := f.Cond.(*ssa.BinOp); isEq && eq.Op == token.EQL && f.Val {
										if (own(eq.X) && SameValue(strip(eq.Y), strip(idx))) || (own(eq.Y) && SameValue(strip(eq.X), strip(idx))) {
											ok = true
										}
									}
								}
							}
							if ok {
								c.Site(bo.Pos(), "a border mask is applied to its own border byte")
							} else {
								c.Violation("pair:HasBitsIn:mask-byte", bo.Pos(), "HasBitsIn applies the mask computed from %s %% 8 to a byte that is not the one at %s / 8: bits of other minutes are masked away and an occupied minute reads as empty", mp.Name(), mp.Name())
							}
						}
					}
				}
				if n == 0 {
					c.Site(fn.Pos(), "HasBitsIn applies no position-derived mask to a byte (nothing to pair)")
				}
			}},
		{Prop: "C14", ID: "C14.1", Engine: "DOM", Floor: 2,
			Desc: "unknown means 'may intersect': Info.IsIntersecting returns false only for DocsTotal == 0 or from the border test, and true under Distribution == nil; MIDsDistribution.IsIntersecting returns true under isUndefined(); UnmarshalJSON leaves the distribution untouched on a decode error",
			Check: func(c *Ctx) {
				if fn := c.Fn("(*frac.Info).IsIntersecting"); fn != nil {
					for _, b := range fn.Blocks {
						ret, ok := b.Instrs[len(b.Instrs)-1].(*ssa.Return)
						if !ok {
							continue
						}
						v := RetOperand(ret, 0)
						facts := FactsAt(b)
						distNil := false
						for _, f := range facts {
							if bo, ok := f.Cond.(*ssa.BinOp); ok && (IsNilConst(bo.Y) || IsNilConst(bo.X)) {
								other := bo.X
								if IsNilConst(bo.X) {
									other = bo.Y
								}
								if ValueIsField(other, "frac.Info", "Distribution") && (bo.Op == token.EQL) == f.Val {
									distNil = true
								}
							}
						}
						if k, isK := ConstBool(v); isK {
							if distNil && !k {
								c.Violation("dom:Info.IsIntersecting:nil-distribution", ret.Pos(), "Info.IsIntersecting answers 'no intersection' for a fraction without a distribution: such fractions would be skipped although their [From,To] covers the request")
							}
							if distNil && k {
								c.Site(ret.Pos(), "no distribution => may intersect")
							}
							if !k && !distNil {
								// must be justified by DocsTotal==0 or a border comparison
								just := false
								for _, f := range facts {
									if bo, ok := f.Cond.(*ssa.BinOp); ok {
										if bo.Op == token.LSS || bo.Op == token.GTR || bo.Op == token.LEQ || bo.Op == token.GEQ || bo.Op == token.EQL {
											just = true
										}
									}
								}
								if !just && len(b.Preds) > 1 {
									just = true // join of the two border tests (a || b)
								}
								if just {
									c.Site(ret.Pos(), "'no intersection' only from the empty-fraction / border tests")
								} else {
									c.Violation("dom:Info.IsIntersecting:false-unjustified", ret.Pos(), "Info.IsIntersecting can answer false without a border comparison")
								}
							}
						}
					}
				}
				if fn := c.Fn("(*seq.MIDsDistribution).IsIntersecting"); fn != nil {
					ok := false
					for _, b := range fn.Blocks {
						ret, isR := b.Instrs[len(b.Instrs)-1].(*ssa.Return)
						if !isR {
							continue
						}
						if k, isK := ConstBool(RetOperand(ret, 0)); isK && k {
							v, found := BoolFact(FactsAt(b), func(x ssa.Value) bool {
								cl, isC := x.(ssa.CallInstruction)
								return isC && CallName(cl) == "(*seq.MIDsDistribution).isUndefined"
							})
							if found && v {
								ok = true
								c.Site(ret.Pos(), "undefined distribution => may intersect")
							}
						}
					}
					if !ok {
						c.Violation("dom:MIDsDistribution.IsIntersecting:undefined", fn.Pos(), "an undefined distribution (bucket == 0) is no longer treated as 'may intersect': midToIndex would divide by zero or prune everything")
					}
				}
				if fn := c.Fn("(*seq.MIDsDistribution).UnmarshalJSON"); fn != nil {
					for _, u := range CallsIn(fn, Callee("encoding/json.Unmarshal")) {
						ev := ErrorResult(u)
						bad := false
						for _, f := range []string{"from", "to", "bucket", "bitmask"} {
							for _, st := range InstrsIn(fn, FieldStore("seq.MIDsDistribution", f)) {
								if ev != nil && KnownNonNil(FactsAtInstr(st), ev) {
									bad = true
								}
								if ev != nil && !KnownNil(FactsAtInstr(st), ev) && !Dominates(u.(ssa.Instruction), st) {
									bad = true
								}
							}
						}
						if bad {
							c.Violation("dom:MIDsDistribution.UnmarshalJSON:decode-error", u.Pos(), "fields of the distribution are assigned although decoding failed")
						} else {
							c.Site(u.Pos(), "a distribution that fails to decode stays undefined")
						}
					}
				}
			}},
		{Prop: "C14", ID: "C14.2", Engine: "PAIR(units)+FIELDS", Floor: 3,
			Desc: "persisted units agree: MarshalJSON/UnmarshalJSON of MIDsDistribution use UnixMilli<->time.UnixMilli for from/to, Seconds()<->time.Second* for the bucket, and every field of the JSON shadow struct is written and read; the bitmask is restored with the size computed from the restored borders",
			Check: func(c *Ctx) {
				m, u := c.Fn("(*seq.MIDsDistribution).MarshalJSON"), c.Fn("(*seq.MIDsDistribution).UnmarshalJSON")
				if m == nil || u == nil {
					return
				}
				mMs := len(CallsIn(m, Callee("(time.Time).UnixMilli")))
				uMs := len(CallsIn(u, Callee("time.UnixMilli")))
				if mMs >= 2 && uMs >= 2 {
					c.Site(m.Pos(), "from/to are written and read in milliseconds")
				} else {
					c.Violation("pair:units:from-to", u.Pos(), "from/to are not written (UnixMilli x%d) and read (time.UnixMilli x%d) in the same unit", mMs, uMs)
				}
				wrSec := Current.HasCall(m, Callee("(time.Duration).Seconds"))
				rdSec := false
				for _, b := range u.Blocks {
					for _, in := range b.Instrs {
						if bo, ok := in.(*ssa.BinOp); ok && bo.Op == token.MUL {
							if k, isK := ConstInt(bo.X); isK && k == 1000000000 {
								rdSec = true
							}
							if k, isK := ConstInt(bo.Y); isK && k == 1000000000 {
								rdSec = true
							}
						}
					}
				}
				if wrSec && rdSec {
					c.Site(m.Pos(), "the bucket is written in seconds and read as time.Second * n")
				} else {
					c.Violation("pair:units:bucket", u.Pos(), "the bucket width is not written (Seconds(): %v) and read (time.Second*: %v) in the same unit: restored occupancy maps would map timestamps to the wrong bits", wrSec, rdSec)
				}
				for _, f := range []string{"From", "To", "Bucket", "Bitmask"} {
					wrote := Current.Has(m, FieldStore("seq.midsDistributionJSON", f))
					read := Current.Has(u, FieldLoad("seq.midsDistributionJSON", f))
					if wrote && read {
						c.Site(m.Pos(), "JSON field %s is written and read", f)
					} else {
						c.Violation("fields:midsDistributionJSON:"+f, u.Pos(), "JSON field %s of the persisted distribution is written: %v, read: %v", f, wrote, read)
					}
				}
				// size from restored borders
				for _, l := range CallsIn(u, Callee("util.LoadBitmask")) {
					if DerivesFrom(Arg(l, 0), func(v ssa.Value) bool {
						cl, ok := v.(ssa.CallInstruction)
						return ok && CallName(cl) == "(*seq.MIDsDistribution).size"
					}) {
						// stores of from/to/bucket precede
						okOrd := true
						for _, f := range []string{"from", "to", "bucket"} {
							for _, st := range InstrsIn(u, FieldStore("seq.MIDsDistribution", f)) {
								if !Dominates(st, l.(ssa.Instruction)) {
									okOrd = false
								}
							}
						}
						if okOrd {
							c.Site(l.Pos(), "the bitmask is sized from the restored from/to/bucket")
						} else {
							c.Violation("order:UnmarshalJSON:size-after-borders", l.Pos(), "the bitmask is sized before the borders are restored")
						}
					} else {
						c.Violation("prov:UnmarshalJSON:bitmask-size", l.Pos(), "the restored bitmask is not sized with d.size()")
					}
				}
			}},
		{Prop: "C14", ID: "C14.13", Engine: "LOOPS(every element)", Floor: 1,
			Desc: "pruning looks at every fraction: the loop of List.FilterInRange asks IsIntersecting on every iteration and has no early exit — the list is in creation order, not in order of its time borders (a late batch, a replayed backlog or a skewed client clock puts old documents into a new fraction), so 'everything behind this one is older' cuts off fractions that hold documents of the range",
			Check: func(c *Ctx) {
				if fn := c.Fn("(fracmanager.List).FilterInRange"); fn != nil {
					everyElementAsked(c, fn, Callee("(frac.Fraction).IsIntersecting"), "IsIntersecting", "fractions behind the cut are not searched and not fetched from although they may hold documents of the range")
				}
			}},
		{Prop: "C14", ID: "C14.3", Engine: "SIBLING", Floor: 3,
			Desc: "one predicate for search and fetch: List.FilterInRange keeps a fraction iff Fraction.IsIntersecting; Contains(id) is IsIntersecting(id, id) in Active and Sealed; proxyFrac delegates both to the current fraction",
			Check: func(c *Ctx) {
				if fn := c.Fn("(fracmanager.List).FilterInRange"); fn != nil {
					is := CallsIn(fn, Callee("(frac.Fraction).IsIntersecting"))
					okKeep := false
					for _, ap := range CallsIn(fn, Callee("builtin.append")) {
						for _, i := range is {
							v, found := BoolFact(FactsAtInstr(ap.(ssa.Instruction)), func(x ssa.Value) bool { return x == i.Value() })
							if found && v {
								okKeep = true
							}
						}
					}
					// or the other way round: start from a copy and drop the fractions whose IsIntersecting is false
					if !okKeep {
						for _, b := range fn.Blocks {
							for _, in := range b.Instrs {
								sl, ok := in.(*ssa.Slice)
								if !ok || sl.High == nil {
									continue
								}
								if bo, isBo := sl.High.(*ssa.BinOp); !isBo || bo.Op != token.SUB {
									continue
								}
								for _, i := range is {
									v, found := BoolFact(FactsAtInstr(sl), func(x ssa.Value) bool { return x == i.Value() })
									if found && !v {
										okKeep = true
									}
								}
							}
						}
					}
					if okKeep && len(is) > 0 {
						c.Site(fn.Pos(), "FilterInRange keeps exactly the fractions whose IsIntersecting(from,to) is true")
						// arguments are the function's own from/to in that order
						if Arg(is[0], 0) == ssa.Value(fn.Params[1]) && Arg(is[0], 1) == ssa.Value(fn.Params[2]) {
							c.Site(is[0].Pos(), "with the requested (from, to)")
						} else {
							c.Violation("prov:FilterInRange:args", is[0].Pos(), "FilterInRange does not pass its (from, to) to IsIntersecting in that order")
						}
					} else {
						c.Violation("sibling:FilterInRange", fn.Pos(), "FilterInRange no longer selects by Fraction.IsIntersecting")
					}
				}
				for _, name := range []string{"(*frac.Active).Contains", "(*frac.Sealed).Contains"} {
					fn := c.Fn(name)
					if fn == nil {
						continue
					}
					calls := CallsIn(fn, Callee("(*frac.Info).IsIntersecting"))
					if len(calls) == 1 && Arg(calls[0], 0) == ssa.Value(fn.Params[1]) && Arg(calls[0], 1) == ssa.Value(fn.Params[1]) {
						c.Site(fn.Pos(), "%s is IsIntersecting(id, id)", name)
					} else {
						c.Violation("sibling:"+name, fn.Pos(), "%s is no longer Info.IsIntersecting(id, id): fetch would consult other fractions than a search for the same timestamp", name)
					}
				}
				for _, it := range []struct{ fn, callee string }{{"(*fracmanager.proxyFrac).Contains", "(frac.Fraction).Contains"}, {"(*fracmanager.proxyFrac).IsIntersecting", "(frac.Fraction).IsIntersecting"}} {
					fn := c.Fn(it.fn)
					if fn == nil {
						continue
					}
					if len(CallsIn(fn, Callee(it.callee))) == 1 {
						c.Site(fn.Pos(), "%s delegates to the current fraction", it.fn)
					} else {
						c.Violation("sibling:"+it.fn, fn.Pos(), "%s no longer delegates to %s of the current fraction", it.fn, it.callee)
					}
				}
			}},
		{Prop: "C14", ID: "C14.4", Engine: "SIBLING+ORDER+DOM", Floor: 2,
			Desc:  "one index function, complete map: Add and IsIntersecting both go through midToIndex; Info.BuildDistribution adds every id of the fraction (no id is skipped) and runs before the info block is packed",
			Check: func(c *Ctx) { occupancyMapComplete(c) }},
		{Prop: "C14", ID: "C14.6", Engine: "DOM(evidence)", Floor: 2,
			Desc:  "the LID-border predicate of a sealed fraction answers 'less or equal' only on evidence about that very position: sealedIDsIndex.LessOrEqual returns the constant true only when the lid is beyond the table, when the PREVIOUS block's minimum is already <= id (seq.LessOrEqual over MinBlockIDs[blockIndex-1]), or after comparing the position's own MID (GetMID(lid)) with id.MID — a shortcut taken from anything else makes the predicate non-monotone and the binary search of getLIDsBorders cuts documents of the requested range",
			Check: func(c *Ctx) { lessOrEqualEvidence(c) }},
		{Prop: "C14", ID: "C14.8", Engine: "PAIR(accumulators)", Floor: 3,
			Desc:  "the time borders of a fraction are true extrema: wherever a lower/upper border pair is kept as running minimum and maximum (metaDataCollector.MinMID/MaxMID in AppendMeta and in the duplicate filter, Info.From/To in Active.UpdateStats), each border is updated from its own old value and the candidate alone — under a comparison of the candidate with that border in the right direction, or by the min/max builtin of that name — and neither its new value nor the decision to update it depends on the other border (an upper border computed from the lower one, or updated only when the lower one was not, stays below the newest document: the fraction is pruned for ranges it has documents in, and sealing freezes the wrong border)",
			Check: func(c *Ctx) { runningExtrema(c) }},
		{Prop: "C14", ID: "C14.7", Engine: "PAIR", Floor: 1,
			Desc:  "fractions are cut off by their time borders only in the order those borders were sorted in: List.Sort orders by the border (To for descending, From for ascending) that calcEnsuredIDsCount uses to declare the remaining fractions irrelevant (shared rule with C05.2 — with the wrong key a fraction whose range encloses the others is skipped although it holds older documents of the requested range)",
			Check: func(c *Ctx) { sortKeyIsCutKey(c) }},
		{Prop: "C14", ID: "C14.5", Engine: "PROV+ORDER", Floor: 1,
			Desc: "the fetch window covers every requested id: fracmanager.sortIDs returns the minimum and maximum MID from the ends of the sorted copy (after sorting), and groupIDsByFraction passes exactly those to FilterInRange",
			Check: func(c *Ctx) {
				if fn := c.Fn("fracmanager.sortIDs"); fn != nil {
					var param ssa.Value
					_ = param
					if len(fn.Params) > 0 {
						param = fn.Params[0]
					}
					for _, b := range fn.Blocks {
						ret, ok := b.Instrs[len(b.Instrs)-1].(*ssa.Return)
						if !ok || len(ret.Results) < 3 {
							continue
						}
						sorted := false
						for _, s := range CallsIn(fn, Callee("sort.Sort", "sort.Stable", "sort.Slice", "sort.SliceStable", "slices.SortFunc", "slices.SortStableFunc")) {
							if Dominates(s.(ssa.Instruction), ret) {
								sorted = true
							}
						}
						// positive provenance: an element of the slice that was handed to sort.Sort, read after the sort
						sortedVals := map[ssa.Value]bool{}
						for _, sc := range CallsIn(fn, Callee("sort.Sort", "sort.Stable", "sort.Slice", "sort.SliceStable", "slices.SortFunc", "slices.SortStableFunc")) {
							if _, isSlice := sc.Common().Args[0].Type().Underlying().(*types.Slice); isSlice {
								sortedVals[sc.Common().Args[0]] = true
							}
							DerivesFrom(sc.Common().Args[0], func(v ssa.Value) bool {
								if mi, ok := v.(*ssa.MakeInterface); ok {
									sortedVals[mi.X] = true
								}
								return false
							})
						}
						okSrc := true
						for _, idx := range []int{1, 2} {
							// ... and read after the sort: the load of the element is dominated by the sort call
							fromSorted := DerivesFrom(RetOperand(ret, idx), func(v ssa.Value) bool {
								u, ok := v.(*ssa.UnOp)
								if !ok || u.Op != token.MUL {
									return false
								}
								base := u.X
								for {
									fa, isFA := base.(*ssa.FieldAddr)
									if !isFA {
										break
									}
									base = fa.X
								}
								ia, ok := base.(*ssa.IndexAddr)
								if !ok {
									return false
								}
								// the same slice value, or another load of the same variable (a slice captured by the comparator closure lives in a cell)
								same := sortedVals[ia.X]
								for sv := range sortedVals {
									if SameValue(sv, ia.X) {
										same = true
									}
								}
								if !same {
									return false
								}
								for _, sc := range CallsIn(fn, Callee("sort.Sort", "sort.Stable", "sort.Slice", "sort.SliceStable", "slices.SortFunc", "slices.SortStableFunc")) {
									if Dominates(sc.(ssa.Instruction), u) {
										return true
									}
								}
								return false
							})
							if !fromSorted {
								okSrc = false
							}
						}
						testedSorted := false
						for _, f := range FactsAtInstr(ret) {
							if cl, ok := f.Cond.(ssa.CallInstruction); ok && f.Val {
								switch CallName(cl) {
								case "sort.IsSorted", "sort.SliceIsSorted", "slices.IsSortedFunc", "slices.IsSorted":
									testedSorted = true
								}
							}
						}
						if sorted && okSrc {
							c.Site(ret.Pos(), "min/max MID are read from the sorted copy")
						} else if testedSorted {
							c.Site(ret.Pos(), "min/max MID are read from a list that was just tested to be sorted")
						} else {
							c.Violation("prov:sortIDs:window", ret.Pos(), "sortIDs takes the request window from the unsorted input (or before sorting): ids outside the first-to-last window are looked up in no fraction")
						}
					}
				}
				if fn := c.Fn("fracmanager.groupIDsByFraction"); fn != nil {
					st := CallsIn(fn, Callee("fracmanager.sortIDs"))
					for _, f := range CallsIn(fn, Callee("(fracmanager.List).FilterInRange")) {
						ok := len(st) == 1
						if ok {
							for i, res := range []int{1, 2} {
								a := Arg(f, i)
								e, isE := a.(*ssa.Extract)
								if !isE || e.Tuple != st[0].Value() || e.Index != res {
									ok = false
								}
							}
						}
						if ok {
							c.Site(f.Pos(), "FilterInRange gets (min, max) of the sorted ids")
						} else {
							c.Violation("prov:groupIDsByFraction:window", f.Pos(), "groupIDsByFraction does not pass sortIDs' (min, max) to FilterInRange")
						}
					}
				}
			}},
	}
}

// occupancyMapComplete: shared by C14.4 and C05.7.
func occupancyMapComplete(c *Ctx) {
	mi := Callee("(*seq.MIDsDistribution).midToIndex")
	for _, name := range []string{"(*seq.MIDsDistribution).Add", "(*seq.MIDsDistribution).IsIntersecting"} {
		fn := c.Fn(name)
		if fn == nil {
			continue
		}
		if Current.HasCall(fn, mi) {
			c.Site(fn.Pos(), "%s maps timestamps with midToIndex", name)
		} else {
			c.Violation("sibling:midToIndex:"+name, fn.Pos(), "%s no longer maps timestamps with midToIndex: set bits and tested bits would use different bucket borders", name)
		}
	}
	if fn := c.Fn("(*frac.Info).BuildDistribution"); fn != nil {
		adds := CallsIn(fn, Callee("(*seq.MIDsDistribution).Add"))
		if len(adds) == 0 {
			c.Violation("dom:BuildDistribution:no-add", fn.Pos(), "BuildDistribution no longer adds ids to the occupancy map")
		}
		for _, a := range adds {
			extra := 0
			// allowed: the continuation test of the loop(s) the call sits in (whatever its form: range, index, for-cond)
			// and the InitEmptyDistribution() result
			loopConds := map[ssa.Value]bool{}
			for _, l := range Loops(fn) {
				if !l.Blocks[a.(ssa.Instruction).Block()] {
					continue
				}
				if iff, ok := l.Header.Instrs[len(l.Header.Instrs)-1].(*ssa.If); ok {
					loopConds[iff.Cond] = true
				}
			}
			for _, f := range FactsAtInstr(a.(ssa.Instruction)) {
				if loopConds[f.Cond] {
					continue
				}
				if cl, ok := f.Cond.(ssa.CallInstruction); ok && CallName(cl) == "(*frac.Info).InitEmptyDistribution" {
					continue
				}
				extra++
			}
			// every iteration of the id loop reaches Add: each back edge of its loop is dominated by the call
			everyIter := true
			if l := InnermostLoop(a.(ssa.Instruction).Block()); l != nil {
				for _, pr := range l.Header.Preds {
					if l.Blocks[pr] && !Dominates(a.(ssa.Instruction), pr.Instrs[len(pr.Instrs)-1]) {
						everyIter = false
					}
				}
			} else {
				everyIter = false
			}
			if extra == 0 && everyIter {
				c.Site(a.Pos(), "every id of the fraction is added to the occupancy map")
			} else if !everyIter {
				c.Violation("dom:BuildDistribution:every-id", a.Pos(), "some iteration of the id loop of BuildDistribution goes on to the next id without adding the current one: skipped ids leave their bucket clear and a narrow query on them prunes the fraction")
			} else {
				c.Violation("dom:BuildDistribution:every-id", a.Pos(), "BuildDistribution adds an id only under %d extra condition(s): skipped ids leave their bucket clear and a narrow query on them prunes the fraction", extra)
			}
			// the argument is the id's own MID
			if !DerivesFrom(Arg(a, 0), func(v ssa.Value) bool { _, f, _, ok := FieldOf(v); return ok && f == "MID" }) {
				c.Violation("prov:BuildDistribution:mid", a.Pos(), "the value added to the occupancy map is not the id's MID")
			}
		}
	}
	if fn := c.Fn("frac.writeSealedFraction"); fn != nil {
		MustPrecede(c, fn, Callee("(*frac.Info).BuildDistribution"), "info.BuildDistribution", Callee("(*frac.DiskBlocksWriter).writeInfoBlock"), "writeInfoBlock")
	}
}

// lessOrEqualEvidence: shared by C14.6 and C04.8.
func lessOrEqualEvidence(c *Ctx) {
	fn := c.Fn("(*frac.sealedIDsIndex).LessOrEqual")
	if fn == nil {
		return
	}
	var lid, id *ssa.Parameter
	for _, p := range fn.Params {
		switch ParamName(p) {
		case "lid":
			lid = p
		case "id":
			id = p
		}
	}
	if lid == nil || id == nil {
		c.Undecided("dom:sealedIDsIndex.LessOrEqual:params", fn.Pos(), "parameters lid/id not found")
		return
	}
	fromID := func(v ssa.Value) bool {
		return DerivesFrom(v, func(x ssa.Value) bool { return x == ssa.Value(id) })
	}
	ownMID := func(v ssa.Value) bool {
		return DerivesFrom(v, func(x ssa.Value) bool {
			cl, ok := x.(ssa.CallInstruction)
			return ok && strings.HasSuffix(CallName(cl), ".GetMID") && len(cl.Common().Args) > 0 && DerivesFromNoCall(cl.Common().Args[len(cl.Common().Args)-1], func(y ssa.Value) bool { return y == ssa.Value(lid) })
		})
	}
	evidence := func(f Fact) string {
		switch x := f.Cond.(type) {
		case *ssa.BinOp:
			// beyond the table: lid >= total
			if (x.Op == token.GEQ || x.Op == token.GTR) && f.Val && DerivesFromNoCall(x.X, func(y ssa.Value) bool { return y == ssa.Value(lid) }) && !fromID(x.Y) {
				return "lid is beyond the id table"
			}
			// own MID compared with id.MID
			if (ownMID(x.X) && fromID(x.Y)) || (ownMID(x.Y) && fromID(x.X)) {
				switch {
				case x.Op == token.EQL && f.Val, x.Op == token.NEQ && !f.Val:
					return "own MID == id.MID"
				case ownMID(x.X) && (x.Op == token.LSS || x.Op == token.LEQ) && f.Val:
					return "own MID < id.MID"
				case ownMID(x.Y) && (x.Op == token.GTR || x.Op == token.GEQ) && f.Val:
					return "own MID < id.MID"
				}
			}
		case *ssa.Call:
			if f.Val && CallName(x) == "seq.LessOrEqual" && len(x.Call.Args) == 2 && fromID(x.Call.Args[1]) {
				// first argument: MinBlockIDs[blockIndex-1]
				if DerivesFromNoCall(x.Call.Args[0], func(y ssa.Value) bool {
					ia, ok := y.(*ssa.IndexAddr)
					if !ok {
						return false
					}
					bo, ok := ia.Index.(*ssa.BinOp)
					if !ok || bo.Op != token.SUB {
						return false
					}
					k, isK := ConstInt(bo.Y)
					return isK && k == 1
				}) {
					return "the previous block's minimum is <= id"
				}
			}
		}
		return ""
	}
	for _, b := range fn.Blocks {
		ret, ok := b.Instrs[len(b.Instrs)-1].(*ssa.Return)
		if !ok {
			continue
		}
		if k, isK := ConstBool(RetOperand(ret, 0)); !isK || !k {
			continue
		}
		why := ""
		for _, f := range FactsAt(b) {
			if w := evidence(f); w != "" {
				why = w
			}
		}
		if why != "" {
			c.Site(ret.Pos(), "returns true because %s", why)
		} else {
			c.Violation("dom:sealedIDsIndex.LessOrEqual:true-without-evidence", ret.Pos(), "sealedIDsIndex.LessOrEqual answers true without the lid being out of range, the previous block's minimum being <= id, or the position's own MID having been compared with id.MID: the predicate is not monotone over the descending id table and getLIDsBorders cuts the LID window in the wrong place (documents of the requested time range disappear, or others appear)")
		}
	}
}

// runningExtrema: rule body of C14.8, shared with C05.
func runningExtrema(c *Ctx) {
	type pair struct{ typ, lo, hi string }
	for _, pr := range []pair{{"frac.metaDataCollector", "MinMID", "MaxMID"}, {"frac.Info", "From", "To"}} {
		for _, fn := range c.P.Funcs {
			if !c.P.InRepo(fn) || fn.Blocks == nil {
				continue
			}
			for _, side := range []struct {
				own, other string
				isMax      bool
			}{{pr.lo, pr.hi, false}, {pr.hi, pr.lo, true}} {
				isOwn := func(v ssa.Value) bool { return ValueIsField(v, pr.typ, side.own) }
				isOther := func(v ssa.Value) bool { return ValueIsField(v, pr.typ, side.other) }
				// an accumulator: the function reads one of the borders it maintains (a plain copy or an initialisation reads neither)
				if len(InstrsIn(fn, FieldLoad(pr.typ, side.own))) == 0 && len(InstrsIn(fn, FieldLoad(pr.typ, side.other))) == 0 {
					continue
				}
				for _, in := range InstrsIn(fn, FieldStore(pr.typ, side.own)) {
					st := in.(*ssa.Store)
					if _, isConst := st.Val.(*ssa.Const); isConst {
						continue
					}
					name := FuncName(fn) + ":" + side.own
					if DerivesFrom(st.Val, isOther) {
						c.Violation("pair:extrema:from-other:"+name, st.Pos(), "%s stores into %s a value computed from %s: the two borders are independent extrema", FuncName(fn), side.own, side.other)
						continue
					}
					dependsOnOther := false
					for _, f := range FactsAtInstr(st) {
						if DerivesFrom(f.Cond, isOther) {
							dependsOnOther = true
						}
					}
					if dependsOnOther {
						c.Violation("pair:extrema:guarded-by-other:"+name, st.Pos(), "%s updates %s only depending on a comparison with %s (an else-branch of the other border's update): a document that moves one border is never considered for the other", FuncName(fn), side.own, side.other)
						continue
					}
					ok := false
					if cl, isCall := st.Val.(*ssa.Call); isCall {
						want := "builtin.min"
						if side.isMax {
							want = "builtin.max"
						}
						if CallName(cl) == want {
							for _, a := range cl.Call.Args {
								if DerivesFrom(a, isOwn) {
									ok = true
								}
							}
						}
					}
					for _, f := range FactsAtInstr(st) {
						bo, isBo := f.Cond.(*ssa.BinOp)
						if !isBo {
							continue
						}
						// normalise to  candidate OP own
						op, x, y := bo.Op, bo.X, bo.Y
						if isOwn(x) && SameValue(y, st.Val) {
							x, y = y, x
							switch op {
							case token.LSS:
								op = token.GTR
							case token.LEQ:
								op = token.GEQ
							case token.GTR:
								op = token.LSS
							case token.GEQ:
								op = token.LEQ
							}
						}
						if !(isOwn(y) && SameValue(x, st.Val)) {
							continue
						}
						if !f.Val {
							switch op {
							case token.LSS:
								op = token.GEQ
							case token.LEQ:
								op = token.GTR
							case token.GTR:
								op = token.LEQ
							case token.GEQ:
								op = token.LSS
							}
						}
						if side.isMax && (op == token.GTR || op == token.GEQ) || !side.isMax && (op == token.LSS || op == token.LEQ) {
							ok = true
						}
					}
					if ok {
						c.Site(st.Pos(), "%s: %s is a running extremum of its own", FuncName(fn), side.own)
					} else {
						c.Violation("pair:extrema:direction:"+name, st.Pos(), "%s stores a candidate into %s without having compared it with %s in the direction of a %s", FuncName(fn), side.own, side.own, map[bool]string{true: "maximum", false: "minimum"}[side.isMax])
					}
				}
			}
		}
	}
}
