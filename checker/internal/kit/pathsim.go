package kit

import (
	"go/token"
	"math"
	"sort"
	"strings"

	"golang.org/x/tools/go/ssa"
)

// PATHSIM: a bounded path-sensitive forward walk over one function's SSA.
// Along a path it resolves phis to the value that flowed in, keeps nil-ness
// facts for error/pointer values and integer intervals for loop counters and
// lengths, and prunes branches whose condition is decided by those facts.
// It is used where a path-insensitive dominance argument would see an
// infeasible fall-through (retry loops, "try each shard" loops).

type simState struct {
	rep  map[ssa.Value]ssa.Value // phi -> value that flowed in on this path
	nl   map[ssa.Value]int8      // +1 nil, -1 non-nil
	lo   map[ssa.Value]int64
	hi   map[ssa.Value]int64
	bl   map[ssa.Value]int8 // boolean values: +1 true, -1 false
	tags map[string]bool    // caller-defined path marks
	lens map[lenKey]ssa.Value
}

func newSimState() *simState {
	return &simState{rep: map[ssa.Value]ssa.Value{}, nl: map[ssa.Value]int8{}, lo: map[ssa.Value]int64{}, hi: map[ssa.Value]int64{}, bl: map[ssa.Value]int8{}, tags: map[string]bool{}, lens: map[lenKey]ssa.Value{}}
}

func (s *simState) clone() *simState {
	n := newSimState()
	for k, v := range s.rep {
		n.rep[k] = v
	}
	for k, v := range s.nl {
		n.nl[k] = v
	}
	for k, v := range s.lo {
		n.lo[k] = v
	}
	for k, v := range s.hi {
		n.hi[k] = v
	}
	for k, v := range s.bl {
		n.bl[k] = v
	}
	for k, v := range s.tags {
		n.tags[k] = v
	}
	for k, v := range s.lens {
		n.lens[k] = v
	}
	return n
}

// Resolve follows phi bindings and value-preserving conversions.
func (s *simState) Resolve(v ssa.Value) ssa.Value {
	for i := 0; i < 20; i++ {
		switch x := v.(type) {
		case *ssa.Phi:
			if r, ok := s.rep[x]; ok {
				v = r
				continue
			}
			return v
		case *ssa.ChangeType:
			v = x.X
			continue
		case *ssa.ChangeInterface:
			v = x.X
			continue
		case *ssa.Call:
			// len(x)/cap(x) of the same SSA value is one quantity
			if b, ok := x.Call.Value.(*ssa.Builtin); ok && (b.Name() == "len" || b.Name() == "cap") && len(x.Call.Args) == 1 {
				arg := s.Resolve(x.Call.Args[0])
				key := lenKey{b.Name(), arg}
				if c, ok := s.lens[key]; ok {
					return c
				}
				s.lens[key] = x
			}
			return v
		}
		return v
	}
	return v
}

type lenKey struct {
	fn  string
	arg ssa.Value
}

// Nilness: +1 nil, -1 non-nil, 0 unknown.
func (s *simState) Nilness(v ssa.Value) int8 {
	v = s.Resolve(v)
	if IsNilConst(v) {
		return 1
	}
	if n, ok := s.nl[v]; ok {
		return n
	}
	if DefinitelyNonNil(v, nil) {
		return -1
	}
	if mi, ok := v.(*ssa.MakeInterface); ok {
		_ = mi
		return -1
	}
	return 0
}

// SetNil records nil-ness of v on this path.
func (s *simState) SetNil(v ssa.Value, n int8) { s.nl[s.Resolve(v)] = n }

// Assume records that the boolean value c holds (or does not hold) from here on.
func (s *simState) Assume(c ssa.Value, val bool) { s.refine(c, val) }

// Tag / HasTag: caller-defined marks carried along the path.
func (s *simState) Tag(t string)         { s.tags[t] = true }
func (s *simState) Untag(t string)       { delete(s.tags, t) }
func (s *simState) HasTag(t string) bool { return s.tags[t] }

func (s *simState) bounds(v ssa.Value) (lo, hi int64) {
	v = s.Resolve(v)
	lo, hi = math.MinInt64/4, math.MaxInt64/4
	if k, ok := ConstInt(v); ok {
		return k, k
	}
	if l, ok := s.lo[v]; ok {
		lo = l
	}
	if h, ok := s.hi[v]; ok {
		hi = h
	}
	switch x := v.(type) {
	case *ssa.Call:
		if b, ok := x.Call.Value.(*ssa.Builtin); ok && (b.Name() == "len" || b.Name() == "cap") && lo < 0 {
			lo = 0
		}
	case *ssa.BinOp:
		if k, ok := ConstInt(x.Y); ok && (x.Op == token.ADD || x.Op == token.SUB) {
			l2, h2 := s.bounds(x.X)
			if x.Op == token.SUB {
				k = -k
			}
			if l2+k > lo {
				lo = l2 + k
			}
			if h2+k < hi {
				hi = h2 + k
			}
		}
	case *ssa.Convert:
		l2, h2 := s.bounds(x.X)
		if l2 > lo {
			lo = l2
		}
		if h2 < hi {
			hi = h2
		}
	}
	return
}

func (s *simState) setLo(v ssa.Value, k int64) {
	v = s.Resolve(v)
	if cur, ok := s.lo[v]; !ok || k > cur {
		s.lo[v] = k
	}
}

func (s *simState) setHi(v ssa.Value, k int64) {
	v = s.Resolve(v)
	if cur, ok := s.hi[v]; !ok || k < cur {
		s.hi[v] = k
	}
}

// evalCond: +1 true, -1 false, 0 unknown.
func (s *simState) evalCond(c ssa.Value) int8 {
	c = s.Resolve(c)
	if b, ok := ConstBool(c); ok {
		if b {
			return 1
		}
		return -1
	}
	if v, ok := s.bl[c]; ok {
		return v
	}
	switch x := c.(type) {
	case *ssa.UnOp:
		if x.Op == token.NOT {
			return -s.evalCond(x.X)
		}
	case *ssa.BinOp:
		if x.Op == token.EQL || x.Op == token.NEQ {
			if IsNilConst(s.Resolve(x.X)) || IsNilConst(s.Resolve(x.Y)) {
				other := x.X
				if IsNilConst(s.Resolve(x.X)) {
					other = x.Y
				}
				n := s.Nilness(other)
				if n == 0 {
					return 0
				}
				if (n == 1) == (x.Op == token.EQL) {
					return 1
				}
				return -1
			}
		}
		if isIntType(x.X.Type()) {
			l1, h1 := s.bounds(x.X)
			l2, h2 := s.bounds(x.Y)
			switch x.Op {
			case token.LSS:
				if h1 < l2 {
					return 1
				}
				if l1 >= h2 {
					return -1
				}
			case token.LEQ:
				if h1 <= l2 {
					return 1
				}
				if l1 > h2 {
					return -1
				}
			case token.GTR:
				if l1 > h2 {
					return 1
				}
				if h1 <= l2 {
					return -1
				}
			case token.GEQ:
				if l1 >= h2 {
					return 1
				}
				if h1 < l2 {
					return -1
				}
			case token.EQL:
				if l1 == h1 && l2 == h2 && l1 == l2 {
					return 1
				}
				if h1 < l2 || l1 > h2 {
					return -1
				}
			case token.NEQ:
				if l1 == h1 && l2 == h2 && l1 == l2 {
					return -1
				}
				if h1 < l2 || l1 > h2 {
					return 1
				}
			}
		}
	}
	return 0
}

func isIntType(t interface{ String() string }) bool {
	s := t.String()
	return strings.HasPrefix(s, "int") || strings.HasPrefix(s, "uint") || s == "untyped int"
}

// refine records what taking the branch (cond == val) implies.
func (s *simState) refine(c ssa.Value, val bool) {
	c = s.Resolve(c)
	if u, ok := c.(*ssa.UnOp); ok && u.Op == token.NOT {
		s.refine(u.X, !val)
		return
	}
	if val {
		s.bl[c] = 1
	} else {
		s.bl[c] = -1
	}
	x, ok := c.(*ssa.BinOp)
	if !ok {
		return
	}
	if x.Op == token.EQL || x.Op == token.NEQ {
		if IsNilConst(s.Resolve(x.X)) || IsNilConst(s.Resolve(x.Y)) {
			other := x.X
			if IsNilConst(s.Resolve(x.X)) {
				other = x.Y
			}
			if (x.Op == token.EQL) == val {
				s.SetNil(other, 1)
			} else {
				s.SetNil(other, -1)
			}
			return
		}
	}
	if !isIntType(x.X.Type()) {
		return
	}
	op := x.Op
	if !val {
		switch op {
		case token.LSS:
			op = token.GEQ
		case token.LEQ:
			op = token.GTR
		case token.GTR:
			op = token.LEQ
		case token.GEQ:
			op = token.LSS
		case token.EQL:
			op = token.NEQ
		case token.NEQ:
			op = token.EQL
		}
	}
	l1, h1 := s.bounds(x.X)
	l2, h2 := s.bounds(x.Y)
	switch op {
	case token.LSS:
		s.setHi(x.X, h2-1)
		s.setLo(x.Y, l1+1)
	case token.LEQ:
		s.setHi(x.X, h2)
		s.setLo(x.Y, l1)
	case token.GTR:
		s.setLo(x.X, l2+1)
		s.setHi(x.Y, h1-1)
	case token.GEQ:
		s.setLo(x.X, l2)
		s.setHi(x.Y, h1)
	case token.EQL:
		s.setLo(x.X, l2)
		s.setHi(x.X, h2)
		s.setLo(x.Y, l1)
		s.setHi(x.Y, h1)
	case token.NEQ:
		if l2 == h2 {
			if l1 == l2 {
				s.setLo(x.X, l1+1)
			}
			if h1 == l2 {
				s.setHi(x.X, h1-1)
			}
		}
		if l1 == h1 {
			if l2 == l1 {
				s.setLo(x.Y, l2+1)
			}
			if h2 == l1 {
				s.setHi(x.Y, h2-1)
			}
		}
	}
}

// SimEvent is delivered to the visitor for every instruction on a path.
// Return false from the visitor to end the path there.
type SimVisitor func(st *simState, in ssa.Instruction) bool

// SimResult summarises a walk.
type SimResult struct {
	Paths     int
	Truncated bool
}

// Simulate walks forward from instruction `from` (exclusive when skipFirst)
// in its function, calling visit on every instruction; Return instructions
// are delivered to visit as well and end the path.
func Simulate(from ssa.Instruction, skipFirst bool, init func(*simState), visit SimVisitor) SimResult {
	fn := from.Parent()
	res := SimResult{}
	const maxVisits = 3
	const maxPaths = 40000
	st0 := newSimState()
	if init != nil {
		init(st0)
	}
	var walk func(b *ssa.BasicBlock, idx int, st *simState, visits map[*ssa.BasicBlock]int)
	walk = func(b *ssa.BasicBlock, idx int, st *simState, visits map[*ssa.BasicBlock]int) {
		if res.Paths > maxPaths {
			res.Truncated = true
			return
		}
		for i := idx; i < len(b.Instrs); i++ {
			in := b.Instrs[i]
			if _, isPhi := in.(*ssa.Phi); isPhi {
				continue
			}
			if IsFatalInstr(in) {
				res.Paths++
				return
			}
			if v, ok := in.(ssa.Value); ok && !isLenCall(v) && visits[b] > 1 {
				// (re)computed on this path: facts from an earlier loop iteration are stale
				delete(st.nl, v)
				delete(st.lo, v)
				delete(st.hi, v)
				delete(st.bl, v)
			}
			if !visit(st, in) {
				res.Paths++
				return
			}
			if _, ok := in.(*ssa.Return); ok {
				res.Paths++
				return
			}
		}
		enter := func(s *ssa.BasicBlock, st2 *simState) {
			if visits[s] >= maxVisits {
				res.Paths++
				return
			}
			// bind phis of s for the edge b->s (parallel assignment)
			pi := -1
			for k, p := range s.Preds {
				if p == b {
					pi = k
				}
			}
			type bind struct {
				v      ssa.Value
				lo, hi int64
				num    bool
			}
			newRep := map[*ssa.Phi]bind{}
			for _, in := range s.Instrs {
				phi, ok := in.(*ssa.Phi)
				if !ok {
					break
				}
				if pi >= 0 {
					v := st2.Resolve(phi.Edges[pi])
					bd := bind{v: v}
					if _, isBin := v.(*ssa.BinOp); isBin && isIntType(v.Type()) {
						bd.lo, bd.hi = st2.bounds(v)
						bd.num = true
					}
					newRep[phi] = bd
				}
			}
			for phi, bd := range newRep {
				if bd.v == ssa.Value(phi) {
					continue
				}
				// forget facts about the phi itself from an earlier iteration
				delete(st2.nl, phi)
				delete(st2.lo, phi)
				delete(st2.hi, phi)
				delete(st2.rep, phi)
				if bd.num {
					// a value computed from the phi (n+1): keep only its numeric bounds
					st2.lo[phi], st2.hi[phi] = bd.lo, bd.hi
					continue
				}
				st2.rep[phi] = bd.v
			}
			visits[s]++
			walk(s, 0, st2, visits)
			visits[s]--
		}
		if len(b.Instrs) == 0 {
			return
		}
		switch t := b.Instrs[len(b.Instrs)-1].(type) {
		case *ssa.If:
			switch st.evalCond(t.Cond) {
			case 1:
				st2 := st.clone()
				st2.refine(t.Cond, true)
				enter(b.Succs[0], st2)
			case -1:
				st2 := st.clone()
				st2.refine(t.Cond, false)
				enter(b.Succs[1], st2)
			default:
				st2 := st.clone()
				st2.refine(t.Cond, true)
				enter(b.Succs[0], st2)
				st3 := st.clone()
				st3.refine(t.Cond, false)
				enter(b.Succs[1], st3)
			}
		case *ssa.Return, *ssa.Panic:
			return
		default:
			for _, s := range b.Succs {
				enter(s, st.clone())
			}
			if len(b.Succs) == 0 {
				res.Paths++
			}
		}
	}
	idx := InstrIndex(from)
	if skipFirst {
		idx++
	}
	visits := map[*ssa.BasicBlock]int{from.Block(): 1}
	_ = fn
	walk(from.Block(), idx, st0, visits)
	return res
}

// SimAck is the path-sensitive success-return rule: on every path from the
// function entry to a return whose error operand is nil (or not known
// non-nil), some call matching must has run and its error is known nil on the
// path — after the LAST such call. allow may accept a path by its state.
// Returns the distinct violating returns as (key, instruction, why).
type SimAckViolation struct {
	Ret *ssa.Return
	Why string
}

func SimAck(fn *ssa.Function, must Matcher, allow func(st *simState) string) (viol []SimAckViolation, okReturns map[*ssa.Return]bool, res SimResult) {
	idx := ErrorResultIndex(fn)
	okReturns = map[*ssa.Return]bool{}
	seen := map[*ssa.Return]bool{}
	if idx < 0 || len(fn.Blocks) == 0 || len(fn.Blocks[0].Instrs) == 0 {
		return
	}
	var pending = map[*simState]ssa.Value{}
	_ = pending
	last := "last-call" // tag prefix
	// headers of loops whose body contains an attempt: a path that runs such a
	// loop zero times has "nothing to try" (e.g. ranging over an empty list)
	attemptLoop := map[*ssa.BasicBlock]bool{}
	// blocks of the body of such a loop: a path that has entered the body has had something to try,
	// so leaving the loop without an attempt (a break or continue in front of the call) is not "nothing to try"
	attemptBody := map[*ssa.BasicBlock]bool{}
	for _, c := range CallsIn(fn, must) {
		cb := c.(ssa.Instruction).Block()
		for _, h := range fn.Blocks {
			if h != cb && h.Dominates(cb) && Reachable(cb, h) {
				attemptLoop[h] = true
				for _, b := range fn.Blocks {
					if b != h && h.Dominates(b) && Reachable(b, h) && b.Dominates(cb) {
						attemptBody[b] = true
					}
				}
			}
		}
	}
	res = Simulate(fn.Blocks[0].Instrs[0], false, nil, func(st *simState, in ssa.Instruction) bool {
		if attemptLoop[in.Block()] {
			st.Tag("attempt-loop-seen")
		}
		if attemptBody[in.Block()] {
			st.Tag("attempt-body-entered")
		}
		if c, ok := in.(ssa.CallInstruction); ok && must(c) {
			// a new attempt: its error value decides from here on
			for k := range st.tags {
				if strings.HasPrefix(k, last) {
					delete(st.tags, k)
				}
			}
			st.Tag(last)
			if ev := ErrorResult(c); ev != nil {
				st.rep[lastCallKey] = ev
			} else {
				delete(st.rep, lastCallKey)
				st.Tag(last + ":void")
			}
			return true
		}
		ret, ok := in.(*ssa.Return)
		if !ok {
			return true
		}
		v := RetOperand(ret, idx)
		if st.Nilness(v) == -1 {
			return false // error return
		}
		if allow != nil {
			if why := allow(st); why != "" {
				okReturns[ret] = true
				return false
			}
		}
		if !st.HasTag(last) && st.HasTag("attempt-loop-seen") && !st.HasTag("attempt-body-entered") {
			okReturns[ret] = true // the attempt loop ran zero times: nothing to try
			return false
		}
		if !st.HasTag(last) {
			if !seen[ret] {
				seen[ret] = true
				viol = append(viol, SimAckViolation{Ret: ret, Why: "no attempt was made on this path"})
			}
			return false
		}
		if st.HasTag(last + ":void") {
			okReturns[ret] = true
			return false
		}
		ev := st.rep[lastCallKey]
		if st.Nilness(ev) == 1 || st.Resolve(v) == st.Resolve(ev) {
			okReturns[ret] = true
			return false
		}
		// the returned error is computed from the failed attempt's error (collected, joined, wrapped)
		if rev := st.Resolve(ev); st.Nilness(ev) == -1 && DerivesFrom(v, func(x ssa.Value) bool { return x == ev || x == rev }) {
			return false
		}
		if !seen[ret] {
			seen[ret] = true
			why := "the last attempt's error is not known to be nil on this path"
			if st.Nilness(ev) == -1 {
				why = "the last attempt FAILED on this path"
			}
			viol = append(viol, SimAckViolation{Ret: ret, Why: why})
		}
		return false
	})
	sort.Slice(viol, func(i, j int) bool { return viol[i].Ret.Pos() < viol[j].Ret.Pos() })
	return
}

// lastCallKey is a sentinel phi used as a key in simState.rep for the error
// value of the last must-call on the path.
var lastCallKey = &ssa.Phi{}

// CondFact reports whether the path took the given outcome of a branch whose
// condition satisfies pred.
func (s *simState) CondFact(pred func(ssa.Value) bool) (val bool, found bool) {
	for c, v := range s.bl {
		if pred(c) {
			return v == 1, true
		}
	}
	return false, false
}

// SimState is the exported name of the per-path state.
type SimState = *simState

func isLenCall(v ssa.Value) bool {
	c, ok := v.(*ssa.Call)
	if !ok {
		return false
	}
	b, ok := c.Call.Value.(*ssa.Builtin)
	return ok && (b.Name() == "len" || b.Name() == "cap")
}
