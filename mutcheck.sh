#!/bin/bash
# usage: mutcheck.sh <patch.diff> <prop>...   applies the patch to /repo, runs the quick checks, reverts.
set -u
PATCH=$1; shift
cd /repo || exit 2
if [ -n "$(git status --porcelain --untracked-files=no)" ]; then echo "/repo not clean"; exit 2; fi
git apply "$PATCH" || { echo "patch does not apply"; exit 2; }
trap 'git -C /repo checkout -- . ; git -C /repo clean -fdq' EXIT
cd /verif
for p in "$@"; do
  out=$(VERIF_NOWRITE=1 ./check "$p" quick 2>&1); rc=$?
  echo "== $p exit=$rc"
  echo "$out" | grep -E "^\s+(VIOLATED|UNDECIDED)" | cut -c1-260
done
