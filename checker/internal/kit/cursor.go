package kit

import (
	"go/token"
	"sort"

	"golang.org/x/tools/go/ssa"
)

// CURSOR: typestate of a hand-written scanner cursor.
//
// A scanner keeps an index into its input and an end test. Reading the current
// element, or advancing the index, is only allowed when the end test has
// answered "not at the end" since the index last changed. The analysis is a
// forward must-dataflow over each method of the scanner type:
//
//	state = (checked, fresh)   checked: the end test was false and the index has not changed since
//	                           fresh:   the index has not changed since the method was entered
//
//	`if eof()`   false edge: checked=true      true edge: checked=false
//	index store  advance (pos = pos + k): needs checked, then checked=false, fresh=false
//	             restore (pos = a value loaded from pos earlier): state of that load
//	             anything else: checked=false, fresh=false
//	read         (the element read method, or a method that needs the check at entry): needs checked
//	call         of a method that (transitively) stores the index: checked=false, fresh=false
//
// A method whose read happens while the index is still fresh and unchecked is
// not wrong by itself: it *requires* the check from its callers (summary,
// computed to a fixed point); the requirement is then checked at every call
// site. A read or advance that is unchecked after the method itself moved the
// index is a violation: some input makes it run at or past the end.

// CursorSpec names the scanner.
type CursorSpec struct {
	Type     string   // struct type owning the index, e.g. "parser.tokenParser"
	Field    string   // index field, e.g. "pos"
	EOF      string   // end-test method, e.g. "(*parser.tokenParser).eof"
	Reads    []string // methods that read the current element directly, e.g. "(*parser.tokenParser).cur"
	Receiver []string // receiver types whose methods are analysed (the type itself and types embedding it)
	// EmptyScan: scan methods returning a string for which "the result is empty" means "nothing was
	// consumed": on the branch where the result equals "", the cursor is where it was before the call.
	EmptyScan []string
}

// CursorFinding is one unchecked use.
type CursorFinding struct {
	Fn    *ssa.Function
	Instr ssa.Instruction
	What  string // "reads the current element" / "advances the index" / "calls X, which needs ..."
}

// CursorResult of the analysis.
type CursorResult struct {
	Methods  int
	Uses     int               // checked uses (sites)
	Requires []string          // methods that rely on the caller's check
	Findings []CursorFinding   // unchecked uses
	Sites    []ssa.Instruction // uses that were found checked
	Entry    []CursorFinding   // entry points (called from outside the scanner's methods) that still require a check
}

type curState struct{ checked, fresh, reached bool }

func joinCur(a, b curState) curState {
	if !a.reached {
		return b
	}
	if !b.reached {
		return a
	}
	return curState{checked: a.checked && b.checked, fresh: a.fresh && b.fresh, reached: true}
}

// CursorCheck runs the analysis over the methods of spec.Receiver types.
func (p *Prog) CursorCheck(spec CursorSpec) *CursorResult {
	res := &CursorResult{}
	isRecv := func(fn *ssa.Function) bool {
		if fn.Signature.Recv() == nil {
			return false
		}
		t := NamedTypeString(fn.Signature.Recv().Type())
		for _, r := range spec.Receiver {
			if t == r {
				return true
			}
		}
		return false
	}
	var methods []*ssa.Function
	for _, fn := range p.Funcs {
		if fn.Parent() == nil && isRecv(fn) && fn.Blocks != nil {
			methods = append(methods, fn)
		}
	}
	// plain functions that drive a scanner of their own (entry points) are analysed as well;
	// nobody can establish the check for them, so an unchecked use at a fresh cursor is a finding there
	isMethod := map[*ssa.Function]bool{}
	for _, m := range methods {
		isMethod[m] = true
	}
	for _, fn := range p.Funcs {
		if fn.Parent() != nil || isMethod[fn] || fn.Blocks == nil {
			continue
		}
		uses := false
		for _, call := range CallsIn(fn, nil) {
			if cal := StaticCallee(call); cal != nil && isMethod[cal] {
				uses = true
			}
		}
		if uses {
			methods = append(methods, fn)
		}
	}
	res.Methods = len(methods)
	isPosAddr := func(v ssa.Value) bool {
		fa, ok := v.(*ssa.FieldAddr)
		return ok && IsFieldAddr(fa, spec.Type, spec.Field)
	}
	// which functions (transitively) store the index
	modifies := map[*ssa.Function]bool{}
	var computeMod func(fn *ssa.Function, seen map[*ssa.Function]bool) bool
	computeMod = func(fn *ssa.Function, seen map[*ssa.Function]bool) bool {
		if fn == nil || fn.Blocks == nil || !p.InRepo(fn) {
			return false
		}
		if v, ok := modifies[fn]; ok {
			return v
		}
		if seen[fn] {
			return false
		}
		seen[fn] = true
		r := false
		for _, f := range WithClosures(fn) {
			for _, b := range f.Blocks {
				for _, in := range b.Instrs {
					if st, ok := in.(*ssa.Store); ok && isPosAddr(st.Addr) {
						r = true
					}
					if c, ok := in.(ssa.CallInstruction); ok && !r {
						if computeMod(StaticCallee(c), seen) {
							r = true
						}
					}
				}
			}
		}
		modifies[fn] = r
		return r
	}
	for _, m := range methods {
		computeMod(m, map[*ssa.Function]bool{})
	}
	requires := map[string]bool{}
	for _, r := range spec.Reads {
		requires[r] = true
	}
	analyse := func(fn *ssa.Function, report func(in ssa.Instruction, st curState, what string)) {
		entry := curState{checked: requires[FuncName(fn)], fresh: true, reached: true}
		in := map[*ssa.BasicBlock]curState{fn.Blocks[0]: entry}
		loadState := map[ssa.Value]curState{}
		scanState := map[ssa.Value]curState{}
		// transfer runs the block from state st; rep is nil while the fixed point is computed
		transfer := func(b *ssa.BasicBlock, st curState, rep func(in ssa.Instruction, st curState, what string)) (curState, ssa.Value) {
			var eofCall ssa.Value
			for _, ins := range b.Instrs {
				switch x := ins.(type) {
				case *ssa.UnOp:
					if x.Op == token.MUL && isPosAddr(x.X) {
						loadState[x] = st
					}
				case *ssa.Store:
					if !isPosAddr(x.Addr) {
						continue
					}
					if ls, ok := loadState[x.Val]; ok {
						// restore of a saved index: the state of the point it was saved at; and a position
						// visited earlier lies before the end if the current one does (the scanner only moves forward)
						if st.checked {
							ls.checked = true
						}
						st = curState{checked: ls.checked, fresh: ls.fresh, reached: true}
						continue
					}
					adv := false
					if bo, ok := x.Val.(*ssa.BinOp); ok && bo.Op == token.ADD {
						if u, ok := bo.X.(*ssa.UnOp); ok && u.Op == token.MUL && isPosAddr(u.X) {
							adv = true
						}
					}
					if adv && rep != nil {
						rep(ins, st, "advances the index")
					}
					st.checked, st.fresh = false, false
				case ssa.CallInstruction:
					name := CallName(x)
					if name == spec.EOF {
						if v, ok := ins.(ssa.Value); ok {
							eofCall = v
						}
						continue
					}
					callee := StaticCallee(x)
					for _, es := range spec.EmptyScan {
						if es == name {
							if v, ok := ins.(ssa.Value); ok {
								scanState[v] = st
							}
						}
					}
					if requires[name] && rep != nil {
						what := "reads the current element"
						isRead := false
						for _, r := range spec.Reads {
							if r == name {
								isRead = true
							}
						}
						if !isRead {
							what = "calls " + name + ", which reads the current element before testing for the end"
						}
						rep(ins, st, what)
					}
					if callee != nil && modifies[callee] {
						st.checked, st.fresh = false, false
					}
				}
			}
			return st, eofCall
		}
		work := []*ssa.BasicBlock{fn.Blocks[0]}
		out := map[[2]*ssa.BasicBlock]curState{}
		for iter := 0; len(work) > 0 && iter < 20000; iter++ {
			b := work[0]
			work = work[1:]
			st, eofCall := transfer(b, in[b], nil)
			for i, s := range b.Succs {
				ns := st
				if len(b.Instrs) > 0 {
					if ifi, ok := b.Instrs[len(b.Instrs)-1].(*ssa.If); ok {
						f := normFact(Fact{Cond: ifi.Cond, Val: i == 0})
						if eofCall != nil && f.Cond == eofCall {
							ns.checked = !f.Val
						}
						// a stored short-circuit condition (`ended := eof() || cur() == ')'`; `if !ended`): the facts of
						// the edge include the end test it was built from, provided the index has not moved since
						if eofCall == nil || f.Cond != eofCall {
							for _, ef := range FactsOnEdge(b, s) {
								call, ok := ef.Cond.(*ssa.Call)
								if !ok || CallName(call) != spec.EOF || ef.Val || call.Parent() != fn {
									continue
								}
								if unmodifiedSince(call, b, isPosAddr, modifies) {
									ns.checked = true
								}
							}
						}
						if bo, ok := f.Cond.(*ssa.BinOp); ok && (bo.Op == token.EQL || bo.Op == token.NEQ) && (bo.Op == token.EQL) == f.Val {
							// the position equals a saved one: the state of the point it was saved at
							for _, pair := range [][2]ssa.Value{{bo.X, bo.Y}, {bo.Y, bo.X}} {
								if ls, ok := loadState[pair[0]]; ok {
									if u, isLoad := pair[1].(*ssa.UnOp); isLoad && u.Op == token.MUL && isPosAddr(u.X) && ls.checked {
										ns.checked = true
									}
								}
								// an empty scan consumed nothing
								if ss, ok := scanState[pair[0]]; ok {
									if str, isS := ConstString(pair[1]); isS && str == "" && ss.checked {
										ns.checked = true
									}
								}
							}
						}
					}
				}
				out[[2]*ssa.BasicBlock{b, s}] = ns
				j := curState{}
				for _, pr := range s.Preds {
					if o, ok := out[[2]*ssa.BasicBlock{pr, s}]; ok {
						j = joinCur(j, o)
					}
				}
				if old, ok := in[s]; !ok || old != j {
					in[s] = j
					work = append(work, s)
				}
			}
		}
		if report != nil {
			for _, b := range fn.Blocks {
				if st, ok := in[b]; ok && st.reached {
					transfer(b, st, report)
				}
			}
		}
	}
	// fixed point of the requires summary
	for round := 0; round < 8; round++ {
		changed := false
		for _, m := range methods {
			if requires[FuncName(m)] || !isMethod[m] {
				continue
			}
			needs := false
			analyse(m, func(in ssa.Instruction, st curState, what string) {
				if !st.checked && st.fresh {
					needs = true
				}
			})
			if needs {
				requires[FuncName(m)] = true
				changed = true
			}
		}
		if !changed {
			break
		}
	}
	for r := range requires {
		res.Requires = append(res.Requires, r)
	}
	sort.Strings(res.Requires)
	// findings
	for _, m := range methods {
		analyse(m, func(in ssa.Instruction, st curState, what string) {
			switch {
			case st.checked:
				res.Uses++
				res.Sites = append(res.Sites, in)
			case st.fresh && isMethod[m]:
				// covered by the method's own requirement, checked at its callers
			default:
				res.Findings = append(res.Findings, CursorFinding{Fn: m, Instr: in, What: what})
			}
		})
	}
	return res
}

// unmodifiedSince: on the dominator chain from block b back to the block of the
// end-test call, nothing stores the index or calls a method that does.
func unmodifiedSince(call *ssa.Call, b *ssa.BasicBlock, isPosAddr func(ssa.Value) bool, modifies map[*ssa.Function]bool) bool {
	changes := func(in ssa.Instruction) bool {
		if st, ok := in.(*ssa.Store); ok && isPosAddr(st.Addr) {
			return true
		}
		if c, ok := in.(ssa.CallInstruction); ok {
			if cal := StaticCallee(c); cal != nil && modifies[cal] {
				return true
			}
		}
		return false
	}
	for x := b; x != nil; x = x.Idom() {
		if x == call.Block() {
			after := false
			for _, in := range x.Instrs {
				if in == ssa.Instruction(call) {
					after = true
					continue
				}
				if after && changes(in) {
					return false
				}
			}
			return true
		}
		for _, in := range x.Instrs {
			if changes(in) {
				return false
			}
		}
	}
	return false
}
