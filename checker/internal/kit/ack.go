package kit

import (
	"go/token"
	"go/types"

	"golang.org/x/tools/go/ssa"
)

// RetPath is one way a function returns a value in result slot Idx: the
// Return instruction, the value (phi operands are split into separate paths),
// and the branch facts known on that path.
type RetPath struct {
	Ret   *ssa.Return
	Val   ssa.Value
	Facts []Fact
	// At is the block at whose end the value is fixed (the Return's block, or
	// the predecessor block of the phi edge that carries the value).
	At *ssa.BasicBlock
}

// ErrorResultIndex returns the index of the trailing error result of fn, or -1.
func ErrorResultIndex(fn *ssa.Function) int {
	res := fn.Signature.Results()
	if res.Len() == 0 || !IsErrorType(res.At(res.Len()-1).Type()) {
		return -1
	}
	return res.Len() - 1
}

// ReturnPaths enumerates the return paths for result slot idx.
func ReturnPaths(fn *ssa.Function, idx int) []RetPath {
	var out []RetPath
	for _, b := range fn.Blocks {
		if len(b.Instrs) == 0 {
			continue
		}
		ret, ok := b.Instrs[len(b.Instrs)-1].(*ssa.Return)
		if !ok || idx >= len(ret.Results) {
			continue
		}
		if b == fn.Recover {
			continue // results after a recovered panic: not a normal return path
		}
		v := ret.Results[idx]
		// functions with defer spill results: "*t0 = x; rundefers; t = *t0; return t"
		if ld, ok := v.(*ssa.UnOp); ok && ld.Op == token.MUL {
			if al, ok := ld.X.(*ssa.Alloc); ok {
				var last *ssa.Store
				for _, in := range b.Instrs {
					if st, ok := in.(*ssa.Store); ok && st.Addr == al {
						last = st
					}
				}
				if last != nil {
					v = last.Val
				} else {
					// named result assigned elsewhere: one path per store in this function
					n := 0
					for _, r := range *al.Referrers() {
						if st, ok := r.(*ssa.Store); ok && st.Addr == al && st.Parent() == fn {
							n++
							splitPhi(ret, st.Val, st.Block(), FactsAt(st.Block()), 0, map[*ssa.Phi]bool{}, &out)
						}
					}
					if n > 0 {
						continue
					}
				}
			}
		}
		splitPhi(ret, v, b, FactsAt(b), 0, map[*ssa.Phi]bool{}, &out)
	}
	return out
}

func splitPhi(ret *ssa.Return, v ssa.Value, at *ssa.BasicBlock, facts []Fact, depth int, seen map[*ssa.Phi]bool, out *[]RetPath) {
	if phi, ok := v.(*ssa.Phi); ok && depth < 6 && !seen[phi] {
		seen[phi] = true
		for i, e := range phi.Edges {
			pred := phi.Block().Preds[i]
			splitPhi(ret, e, pred, FactsOnEdge(pred, phi.Block()), depth+1, seen, out)
		}
		delete(seen, phi)
		return
	}
	// a load from a named-result alloc (functions with defer+recover): split over the stores that reach it
	*out = append(*out, RetPath{Ret: ret, Val: v, Facts: facts, At: at})
}

// wrapFuncs are calls whose result is a non-nil error whenever they are called.
var wrapFuncs = map[string]bool{
	"fmt.Errorf": true, "errors.New": true,
	"google.golang.org/grpc/status.Error":  true,
	"google.golang.org/grpc/status.Errorf": true,
	"github.com/pkg/errors.Wrap":           true, "github.com/pkg/errors.Wrapf": true,
	"github.com/pkg/errors.New": true, "github.com/pkg/errors.Errorf": true,
}

// ctxErrAfterDone: ctx.Err() read where ctx.Done() has been consulted before on every path (the
// `case <-ctx.Done(): return ctx.Err()` idiom): the error is non-nil there. A bare ctx.Err() used as a
// condition is an ordinary maybe-nil value.
func ctxErrAfterDone(call *ssa.Call) bool {
	if CallName(call) != "(context.Context).Err" {
		return false
	}
	for _, d := range CallsIn(call.Parent(), Callee("(context.Context).Done")) {
		if Dominates(d.(ssa.Instruction), call) {
			return true
		}
	}
	// or under the true outcome of a repo predicate that looks at ctx.Done() itself (util.IsCancelled(ctx))
	for _, f := range FactsAtInstr(call) {
		if pc, ok := f.Cond.(*ssa.Call); ok && f.Val && Current != nil {
			if h := StaticCallee(pc); h != nil && Current.InRepo(h) && Current.HasCall(h, Callee("(context.Context).Done")) {
				return true
			}
		}
	}
	return false
}

// DefinitelyNonNil: the value is an error on every execution (wrap helper,
// sentinel global, concrete error value, or a branch established != nil).
func DefinitelyNonNil(v ssa.Value, facts []Fact) bool {
	if KnownNonNil(facts, v) {
		return true
	}
	switch x := v.(type) {
	case *ssa.Call:
		if n := CallName(x); n == "errors.Join" || n == "go.uber.org/multierr.Append" {
			// non-nil as soon as one operand is (the variadic operands are stores into the argument array)
			for _, a := range x.Call.Args {
				if DefinitelyNonNil(a, facts) {
					return true
				}
				if sl, ok := a.(*ssa.Slice); ok {
					if al, ok := sl.X.(*ssa.Alloc); ok {
						for _, r := range *al.Referrers() {
							if ia, ok := r.(*ssa.IndexAddr); ok {
								for _, rr := range *ia.Referrers() {
									if st, ok := rr.(*ssa.Store); ok && st.Addr == ssa.Value(ia) && DefinitelyNonNil(st.Val, nil) {
										return true
									}
								}
							}
						}
					}
				}
			}
		}
		return wrapFuncs[CallName(x)] || ctxErrAfterDone(x)
	case *ssa.UnOp:
		if x.Op == token.MUL {
			if _, ok := x.X.(*ssa.Global); ok {
				return true // sentinel error variable
			}
		}
	case *ssa.MakeInterface:
		// a concrete error value boxed into the interface
		if c, ok := x.X.(*ssa.Const); ok && c.Value == nil {
			if _, isPtr := x.X.Type().Underlying().(*types.Pointer); isPtr {
				return false
			}
		}
		switch x.X.(type) {
		case *ssa.Alloc, *ssa.Call, *ssa.UnOp, *ssa.Const, *ssa.ChangeType:
			return true
		}
	}
	return false
}

// Must describes a callee whose success is required before a success return.
type Must struct {
	Name string  // for messages
	M    Matcher // call sites of the must-succeed callee inside fn
}

// AckCheck: in fn, every return path whose error may be nil must, for each
// must-callee, either return that call's own error or be dominated by a call
// of it whose error was tested == nil on the path. allow may whitelist a path
// (returns the reason); returns the number of maybe-nil paths examined.
func AckCheck(c *Ctx, fn *ssa.Function, musts []Must, allow func(rp RetPath) string) int {
	idx := ErrorResultIndex(fn)
	if idx < 0 {
		c.Undecided("noerr:"+FuncName(fn), fn.Pos(), "%s no longer returns an error; ack provenance cannot be shown", FuncName(fn))
		return 0
	}
	n := 0
	for _, rp := range ReturnPaths(fn, idx) {
		if DefinitelyNonNil(rp.Val, rp.Facts) {
			continue
		}
		n++
		if allow != nil {
			if why := allow(rp); why != "" {
				c.Site(rp.Ret.Pos(), "%s: success return allowed (%s)", FuncName(fn), why)
				continue
			}
		}
		okAll := true
		for _, m := range musts {
			calls := CallsIn(fn, c.P.AckCall(m.M))
			if len(calls) == 0 {
				c.Undecided("nocall:"+FuncName(fn)+":"+m.Name, fn.Pos(), "%s no longer calls %s", FuncName(fn), m.Name)
				okAll = false
				continue
			}
			if !ackOne(rp, calls) {
				okAll = false
				c.Violation("ack:"+FuncName(fn)+":"+m.Name+":"+retKey(rp), rp.Ret.Pos(),
					"%s can return success (error operand %s) on a path where %s has not been called and checked == nil", FuncName(fn), Short(rp.Val.Name()+" = "+rp.Val.String()), m.Name)
			}
		}
		if okAll {
			c.Site(rp.Ret.Pos(), "%s: maybe-nil return (%s) is dominated by success of all required calls", FuncName(fn), Short(rp.Val.String()))
		}
	}
	return n
}

func retKey(rp RetPath) string {
	if IsNilConst(rp.Val) {
		return "nil"
	}
	if c, ok := rp.Val.(ssa.CallInstruction); ok {
		return "result-of-" + CallName(c)
	}
	if e, ok := rp.Val.(*ssa.Extract); ok {
		if c, ok := e.Tuple.(ssa.CallInstruction); ok {
			return "result-of-" + CallName(c)
		}
	}
	return "value"
}

func ackOne(rp RetPath, calls []ssa.CallInstruction) bool {
	for _, call := range calls {
		ci := call.(ssa.Instruction)
		// the call must have run on this path
		dom := ci.Block() == rp.At || ci.Block().Dominates(rp.At)
		if !dom {
			continue
		}
		ev := ErrorResult(call)
		if ev == nil {
			return true // nothing to test; having run is all that can be asked
		}
		if SameValue(ev, rp.Val) {
			return true // returns the call's own error: nil iff the call succeeded
		}
		if KnownNil(rp.Facts, ev) {
			return true
		}
	}
	return false
}

// GuardedByNilErr: instruction in is only reached when the error of some call
// matching m (in the same function) was tested == nil.
func GuardedByNilErr(in ssa.Instruction, m Matcher) bool {
	facts := FactsAtInstr(in)
	if Current != nil {
		m = Current.AckCall(m)
	}
	for _, call := range CallsIn(in.Parent(), m) {
		if !Dominates(call.(ssa.Instruction), in) {
			continue
		}
		ev := ErrorResult(call)
		if ev != nil && KnownNil(facts, ev) {
			return true
		}
	}
	return false
}

// MustPrecede: every site matching B in fn is dominated by a site matching A.
// Returns number of B sites.
func MustPrecede(c *Ctx, fn *ssa.Function, a Matcher, aName string, b Matcher, bName string) int {
	return PrecedeI(c, fn, CallSel(a), aName, CallSel(b), bName)
}

func mustPrecedeOld(c *Ctx, fn *ssa.Function, a Matcher, aName string, b Matcher, bName string) int {
	as := CallsIn(fn, a)
	bs := CallsIn(fn, b)
	if len(bs) == 0 {
		c.Undecided("order-noB:"+FuncName(fn)+":"+bName, fn.Pos(), "%s has no call of %s any more", FuncName(fn), bName)
		return 0
	}
	for _, bi := range bs {
		ok := false
		for _, ai := range as {
			if Dominates(ai.(ssa.Instruction), bi.(ssa.Instruction)) {
				ok = true
				break
			}
		}
		if ok {
			c.Site(bi.Pos(), "%s: %s is preceded by %s on every path", FuncName(fn), bName, aName)
		} else {
			c.Violation("order:"+FuncName(fn)+":"+aName+"<"+bName, bi.Pos(), "in %s, %s can run without %s having run before it", FuncName(fn), bName, aName)
		}
	}
	return len(bs)
}

// NeverAfter: no site matching B can execute after a site matching A in fn.
func NeverAfter(c *Ctx, fn *ssa.Function, a Matcher, aName string, b Matcher, bName string) {
	as := CallsIn(fn, a)
	bs := CallsIn(fn, b)
	if len(as) == 0 || len(bs) == 0 {
		c.Undecided("order-missing:"+FuncName(fn)+":"+aName+"/"+bName, fn.Pos(), "%s no longer contains both %s and %s", FuncName(fn), aName, bName)
		return
	}
	for _, ai := range as {
		for _, bi := range bs {
			if CanFollow(ai.(ssa.Instruction), bi.(ssa.Instruction)) {
				c.Violation("order:"+FuncName(fn)+":"+bName+"-after-"+aName, bi.Pos(), "in %s, %s can run after %s", FuncName(fn), bName, aName)
			} else {
				c.Site(bi.Pos(), "%s: %s never runs after %s", FuncName(fn), bName, aName)
			}
		}
	}
}

// AckOne is the exported form of the per-path test used by AckCheck.
func AckOne(rp RetPath, calls []ssa.CallInstruction) bool { return ackOne(rp, calls) }

// RetOperand returns result idx of a Return with the defer-spill undone
// ("*t0 = x; rundefers; t = *t0; return t" => x).
func RetOperand(ret *ssa.Return, idx int) ssa.Value {
	v := ret.Results[idx]
	if ld, ok := v.(*ssa.UnOp); ok && ld.Op == token.MUL {
		if al, ok := ld.X.(*ssa.Alloc); ok {
			for _, in := range ret.Block().Instrs {
				if st, ok := in.(*ssa.Store); ok && st.Addr == al {
					v = st.Val
				}
			}
		}
	}
	return v
}
