package props

import (
	"go/token"
	"strings"

	"golang.org/x/tools/go/ssa"

	. "seqverif/internal/kit"
)

func init() {
	register(&PropInfo{
		ID:          "C18",
		Title:       "The block cache is coherent, accounted and bounded",
		Explanation: "Decides for cache.Cache and cache.Cleaner on every path: guarded-by lockset for the payload map, sizes, generation pointer and released flag, and for writes to entry state (always under some Cache.mu); the entry state machine order in save (value/size stored, wg cleared, unlock, wg.Done, size accounted), recover (delete under lock, then Done) and getOrCreate (entry published with its WaitGroup before unlocking; re-lookup after a wait that finds the entry abandoned); loader errors and panics do not poison (handlePanic deferred before the loader runs and re-panics after removing the entry; save only under err==nil, recover+error return otherwise); every generation move or drop is paired with its counter update; the cleaner's bucket list is changed only by AddBucket/ReleaseBuckets/Reset and not by the provably wrong ascending swap-remove idiom. NOT decided: size back under the limit (numeric), coherence under all interleavings beyond the lockset, metrics.",
		Assumptions: []string{"generic methods are analysed once on their generic bodies", "Cleaner.Rotate/Cleanup/markStale/CleanEmptyGenerations run on one maintenance goroutine (documented in the code)"},
		Obs:         c18,
	})
}

func c18() []*Ob {
	cacheFuncs := func(c *Ctx) []*ssa.Function { return c.P.FuncsInPkg("cache") }
	holdsCacheMu := func(li *LockInfo, in ssa.Instruction) bool {
		for p, m := range li.HeldPaths(in) {
			if m == 2 && (p == "c.mu" || len(p) > 3 && p[len(p)-3:] == ".mu") {
				return true
			}
		}
		return false
	}
	return []*Ob{
		{Prop: "C18", ID: "C18.10", Engine: "CONFINE(goroutine)", Floor: 1,
			Desc:  "the generation list has one writer goroutine: the methods of cache.Cleaner that write generations / lastGen (unlocked on purpose) are reachable from exactly one of the goroutines the repo starts (the clean loop of the cache maintainer; closures handed to helpers such as util.RunEvery count as running on the caller's goroutine, targets of go statements do not) — moving the garbage collection into a goroutine of its own lets CleanEmptyGenerations cut off a generation that Rotate appended in between: its entries are live but never summed or evicted, the cache grows past its limit",
			Check: func(c *Ctx) { oneMaintenanceGoroutine(c) }},
		{Prop: "C18", ID: "C18.9", Engine: "LOOPS(every element)", Floor: 1,
			Desc: "a cleaning pass reaches every bucket: Cleaner.Cleanup has dropped the stale generations from the accounted size (markStale) before it walks the buckets, so the walk calls Cleanup on every bucket and has no early exit — a pass that stops once enough bytes were released leaves entries of stale generations alive in the buckets behind, which the accounted size no longer contains: the cache stays over its limit while reporting it is under",
			Check: func(c *Ctx) {
				if fn := c.Fn("(*cache.Cleaner).Cleanup"); fn != nil {
					everyElementAsked(c, fn, MethodNamed("", "Cleanup"), "bucket.Cleanup", "entries of the generations already marked stale stay in the buckets that were not visited, unaccounted")
				}
			}},
		{Prop: "C18", ID: "C18.7", Engine: "PAIR(two sites)", Floor: 1,
			Desc:  "a cleaning pass can always get under the limit: markStale retires the last generation whenever the older ones did not free enough, or — if it spares a last generation below maxGenSize — maxGenSize is a plain fraction of the limit (no floor), so a spared generation cannot hold the cache over it",
			Check: func(c *Ctx) { cleaningReachesLastGeneration(c) }},
		{Prop: "C18", ID: "C18.8", Engine: "PAIR(two sites)", Floor: 1,
			Desc:  "an entry evicted while loading adds nothing to the accounted size: Cache.Cleanup marks every entry it removes as deleted (save then stores size 0), or save accounts to the entry's own generation (which the cleaner has dropped) and does not move the entry into the current one first",
			Check: func(c *Ctx) { evictedLoadNotAccounted(c) }},
		{Prop: "C18", ID: "C18.6", Engine: "LOCK(publish)", Floor: 2,
			Desc: "a bucket learns its generation under the cleaner's lock: every call of bucket.SetGeneration in the Cleaner (AddBucket for a new cache, rotate for all of them) is made while Cleaner.mu is held exclusively — AddBucket reading lastGen under the lock and applying it after the unlock lets a rotation slip in between, the older generation then overwrites the newer one in the new cache, and its bytes are accounted to a generation that is dropped as stale: the cleaner sees nothing to clean while the cache grows past the limit",
			Check: func(c *Ctx) {
				n := 0
				for _, fn := range cacheFuncs(c) {
					if !strings.HasPrefix(FuncName(fn), "(*cache.Cleaner).") {
						continue
					}
					calls := CallsIn(fn, func(cl ssa.CallInstruction) bool {
						return cl.Common().IsInvoke() && cl.Common().Method.Name() == "SetGeneration"
					})
					if len(calls) == 0 {
						continue
					}
					li := Locksets(fn, nil)
					for _, call := range calls {
						n++
						held := false
						for path, mode := range li.HeldPaths(call.(ssa.Instruction)) {
							if strings.HasSuffix(path, ".mu") && mode >= 2 {
								held = true
							}
						}
						if held {
							c.Site(call.Pos(), "%s sets a bucket's generation under the cleaner lock", FuncName(fn))
						} else {
							c.Violation("lock:SetGeneration:"+FuncName(fn), call.Pos(), "%s hands a generation to a bucket without holding Cleaner.mu: a rotation can run between reading lastGen and applying it, and the bucket ends up in the older generation", FuncName(fn))
						}
					}
				}
				if n == 0 {
					c.Undecided("lock:SetGeneration:none", 0, "no Cleaner method calls bucket.SetGeneration any more")
				}
			}},
		{Prop: "C18", ID: "C18.1", Engine: "LOCK", Floor: 25,
			Desc: "lockset: Cache.{payload,maxPayloadSize,currentGeneration,released} under Cache.mu; writes to entry.{value,wg,gen,size,deleted} with a Cache.mu held; Cleaner.buckets under Cleaner.mu, Cleaner.lastGen written under Cleaner.mu",
			Check: func(c *Ctx) {
				rows := []GuardRow{
					{Type: "cache.Cache", Field: "payload", Mutex: "mu"},
					{Type: "cache.Cache", Field: "maxPayloadSize", Mutex: "mu"},
					{Type: "cache.Cache", Field: "currentGeneration", Mutex: "mu"},
					{Type: "cache.Cache", Field: "released", Mutex: "mu"},
					{Type: "cache.Cleaner", Field: "buckets", Mutex: "mu"},
					{Type: "cache.Cleaner", Field: "lastGen", Mutex: "mu", ReadsUnlocked: "read by Rotate on the single maintenance goroutine that also writes it (comment in Rotate)"},
				}
				req := []LockRequire{{Func: "(*cache.Cache).recreatePayload", Mutex: "c.mu", Mode: 2}}
				LockCheck(c, cacheFuncs(c), rows, req, nil)
				// entry state is written only with a Cache.mu held
				for _, fn := range cacheFuncs(c) {
					accs := FieldAccesses(fn, func(t, f string) bool {
						return t == "cache.entry" && (f == "value" || f == "wg" || f == "gen" || f == "size" || f == "deleted")
					})
					if len(accs) == 0 {
						continue
					}
					entry := map[string]int{}
					if FuncName(fn) == "(*cache.entry).updateGeneration" {
						continue // checked at its call sites below
					}
					li := Locksets(fn, nil)
					_ = entry
					for _, a := range accs {
						if !a.Write || FreshBase(a.Base) {
							continue
						}
						if holdsCacheMu(li, a.Instr) {
							c.Site(InstrPos(a.Instr), "%s: entry.%s written with Cache.mu held", FuncName(fn), a.Field)
						} else if isFreshEntry(a.Base) {
							c.Site(InstrPos(a.Instr), "%s: entry.%s initialised on a not yet published entry", FuncName(fn), a.Field)
						} else {
							c.Violation("lock:entry."+a.Field+":"+FuncName(fn), InstrPos(a.Instr), "%s writes entry.%s without holding the cache's mutex (lockset %s)", FuncName(fn), a.Field, li.HeldSet(a.Instr))
						}
					}
				}
				if ug := c.Fn("(*cache.entry).updateGeneration"); ug != nil {
					for _, call := range c.P.Callers(ug) {
						li := Locksets(call.Parent(), nil)
						if holdsCacheMu(li, call.(ssa.Instruction)) {
							c.Site(call.Pos(), "%s calls updateGeneration with Cache.mu held", FuncName(call.Parent()))
						} else {
							c.Violation("lock-requires:updateGeneration:"+FuncName(call.Parent()), call.Pos(), "%s calls entry.updateGeneration (moves accounting between generations) without Cache.mu", FuncName(call.Parent()))
						}
					}
				}
			}},
		{Prop: "C18", ID: "C18.2", Engine: "ORDER", Floor: 7,
			Desc: "entry state machine: save stores value and size, clears wg, unlocks, then wg.Done, then adds the size to the generation; recover deletes the key under the lock before wg.Done; getOrCreate publishes the new entry with its WaitGroup (Add(1) done) before unlocking and looks the key up again after waiting on an entry that is still pending",
			Check: func(c *Ctx) {
				if fn := c.Fn("(*cache.Cache).save"); fn != nil {
					stV := FieldStore("cache.entry", "value")
					stS := FieldStore("cache.entry", "size")
					stW := FieldStore("cache.entry", "wg")
					unlock := CallSel(Callee("(*sync.Mutex).Unlock"))
					done := CallSel(Callee("(*sync.WaitGroup).Done"))
					PrecedeI(c, fn, stV, "e.value = value", stW, "e.wg = nil")
					PrecedeI(c, fn, stS, "e.size = size", stW, "e.wg = nil")
					PrecedeI(c, fn, stW, "e.wg = nil", unlock, "mu.Unlock()")
					PrecedeI(c, fn, unlock, "mu.Unlock()", done, "wg.Done()")
					PrecedeI(c, fn, stS, "e.size = size", CallSel(Callee("(*go.uber.org/atomic.Uint64).Add")), "gen.size.Add(size)")
					// what is accounted is what was stored; zero when the entry was deleted meanwhile
					for _, ad := range CallsIn(fn, Callee("(*go.uber.org/atomic.Uint64).Add")) {
						var stored ssa.Value
						for _, st := range InstrsIn(fn, stS) {
							stored = st.(*ssa.Store).Val
						}
						if stored != nil && SameValue(Arg(ad, 0), stored) {
							c.Site(ad.Pos(), "the size added to the generation is the size stored in the entry")
						} else {
							c.Violation("pair:save:accounted-size", ad.Pos(), "save accounts a size different from the one stored in the entry: the cleaner's total drifts from the sum of live entries")
						}
						if phi, ok := stored.(*ssa.Phi); ok {
							zero := false
							for _, e := range phi.Edges {
								if k, isK := ConstInt(e); isK && k == 0 {
									zero = true
								}
							}
							if zero {
								c.Site(ad.Pos(), "a deleted entry is accounted with size 0")
							} else {
								c.Violation("pair:save:deleted-zero", ad.Pos(), "an entry deleted between getOrCreate and save is still accounted with its full size (never released)")
							}
						} else {
							c.Violation("pair:save:deleted-zero", ad.Pos(), "save no longer accounts a deleted entry with size 0")
						}
					}
				}
				if fn := c.Fn("(*cache.Cache).recover"); fn != nil {
					del := CallSel(Callee("builtin.delete"))
					PrecedeI(c, fn, del, "delete(payload, key)", CallSel(Callee("(*sync.WaitGroup).Done")), "wg.Done()")
					li := Locksets(fn, nil)
					for _, d := range InstrsIn(fn, del) {
						if li.Held(d, "c.mu") == 2 {
							c.Site(d.Pos(), "recover deletes the abandoned entry under the lock")
						} else {
							c.Violation("lock:recover:delete", d.Pos(), "recover deletes from the payload map without the lock")
						}
					}
				}
				if fn := c.Fn("(*cache.Cache).getOrCreate"); fn != nil {
					add := CallSel(Callee("(*sync.WaitGroup).Add"))
					stW := FieldStore("cache.entry", "wg")
					pub := func(in ssa.Instruction) bool {
						mu, ok := in.(*ssa.MapUpdate)
						return ok && ValueIsField(mu.Map, "cache.Cache", "payload")
					}
					PrecedeI(c, fn, add, "wg.Add(1)", pub, "payload[key] = e")
					PrecedeI(c, fn, stW, "e.wg = wg", pub, "payload[key] = e")
					li := Locksets(fn, nil)
					for _, p := range InstrsIn(fn, pub) {
						if li.Held(p, "c.mu") == 2 {
							c.Site(p.Pos(), "new entry is published under the lock")
						} else {
							c.Violation("lock:getOrCreate:publish", p.Pos(), "the new entry is put into the payload map without the lock")
						}
					}
					// after a Wait the entry's wg is re-read and, if still set, the key is looked up again under the lock
					waits := CallsIn(fn, Callee("(*sync.WaitGroup).Wait"))
					if len(waits) == 0 {
						c.Violation("order:getOrCreate:no-wait", fn.Pos(), "getOrCreate no longer waits for a pending entry: callers would read a half-built value")
					}
					relook := 0
					for _, in := range InstrsIn(fn, func(in ssa.Instruction) bool {
						l, ok := in.(*ssa.Lookup)
						return ok && ValueIsField(l.X, "cache.Cache", "payload")
					}) {
						relook++
						if li.Held(in, "c.mu") == 2 {
							c.Site(in.Pos(), "payload lookup under the lock")
						} else {
							c.Violation("lock:getOrCreate:lookup", in.Pos(), "payload lookup without the lock")
						}
					}
					if relook < 2 {
						c.Violation("order:getOrCreate:retry-lookup", fn.Pos(), "getOrCreate no longer looks the key up again after finding an abandoned entry")
					}
					// the success return is under e.wg == nil
					for _, b := range fn.Blocks {
						ret, ok := b.Instrs[len(b.Instrs)-1].(*ssa.Return)
						if !ok {
							continue
						}
						if v, isB := ConstBool(RetOperand(ret, 2)); isB && v {
							okNil := false
							for _, f := range FactsAt(b) {
								bo, ok := f.Cond.(*ssa.BinOp)
								if ok && (bo.Op == token.EQL) == f.Val && (IsNilConst(bo.Y) || IsNilConst(bo.X)) {
									other := bo.X
									if IsNilConst(bo.X) {
										other = bo.Y
									}
									if u, ok := other.(*ssa.UnOp); ok && IsFieldAddr(u.X, "cache.entry", "wg") {
										okNil = true
									}
								}
							}
							if okNil {
								c.Site(ret.Pos(), "a cached entry is handed out only when its wg is nil (value complete)")
							} else {
								c.Violation("dom:getOrCreate:hit-needs-complete", ret.Pos(), "getOrCreate can report a hit for an entry whose value is not complete (wg not nil)")
							}
						}
					}
				}
			}},
		{Prop: "C18", ID: "C18.3", Engine: "ORDER+DOM", Floor: 4,
			Desc: "errors and panics do not poison: in Get and GetWithError the deferred handlePanic is registered before the loader runs; handlePanic removes the entry (recover) and re-panics; GetWithError saves only under err == nil and otherwise removes the entry and returns the error",
			Check: func(c *Ctx) {
				for _, name := range []string{"(*cache.Cache).Get", "(*cache.Cache).GetWithError"} {
					fn := c.Fn(name)
					if fn == nil {
						continue
					}
					hp := func(in ssa.Instruction) bool {
						d, ok := in.(*ssa.Defer)
						return ok && CallName(d) == "(*cache.Cache).handlePanic"
					}
					loader := func(in ssa.Instruction) bool {
						cl, ok := in.(*ssa.Call)
						return ok && CallName(cl) == "dynamic:fn"
					}
					PrecedeI(c, fn, hp, "defer handlePanic", loader, "fn()")
					PrecedeI(c, fn, loader, "fn()", CallSel(Callee("(*cache.Cache).save")), "c.save")
					// the returned value on a miss is the loader's
				}
				if fn := c.Fn("(*cache.Cache).handlePanic"); fn != nil {
					rec := CallSel(Callee("(*cache.Cache).recover"))
					pan := func(in ssa.Instruction) bool { _, ok := in.(*ssa.Panic); return ok }
					PrecedeI(c, fn, CallSel(Callee("builtin.recover")), "recover()", rec, "c.recover(key, wg)")
					PrecedeI(c, fn, rec, "c.recover(key, wg)", pan, "re-panic")
				}
				if fn := c.Fn("(*cache.Cache).GetWithError"); fn != nil {
					var loaderErr ssa.Value
					for _, cl := range CallsIn(fn, func(c ssa.CallInstruction) bool { return CallName(c) == "dynamic:fn" }) {
						loaderErr = ErrorResult(cl)
					}
					if loaderErr == nil {
						c.Undecided("GetWithError:loader", fn.Pos(), "cannot find the loader call in GetWithError")
						return
					}
					for _, s := range CallsIn(fn, Callee("(*cache.Cache).save")) {
						if KnownNil(FactsAtInstr(s.(ssa.Instruction)), loaderErr) {
							c.Site(s.Pos(), "save only under the loader's err == nil")
						} else {
							c.Violation("dom:GetWithError:save-needs-ok", s.Pos(), "GetWithError can cache a value although its loader returned an error")
						}
					}
					recs := CallsIn(fn, Callee("(*cache.Cache).recover"))
					okRec := false
					for _, r := range recs {
						if KnownNonNil(FactsAtInstr(r.(ssa.Instruction)), loaderErr) {
							okRec = true
							c.Site(r.Pos(), "a failed loader removes its pending entry")
						}
					}
					if !okRec {
						c.Violation("dom:GetWithError:recover-on-error", fn.Pos(), "a loader error no longer removes the pending entry: later lookups of the key wait forever or see an abandoned entry")
					}
					for _, rp := range ReturnPaths(fn, ErrorResultIndex(fn)) {
						if KnownNonNil(rp.Facts, loaderErr) && !SameValue(rp.Val, loaderErr) && !DefinitelyNonNil(rp.Val, nil) {
							c.Violation("ack:GetWithError:returns-error", rp.Ret.Pos(), "the loader's error is not returned to the caller")
						}
					}
				}
			}},
		{Prop: "C18", ID: "C18.4", Engine: "PAIR(accounting)", Floor: 3,
			Desc: "accounting pairs: updateGeneration subtracts the entry size from the old generation and adds it to the new one before re-pointing; Release subtracts every entry's size from its generation; Cleanup marks removed entries deleted and returns the freed bytes",
			Check: func(c *Ctx) {
				if fn := c.Fn("(*cache.entry).updateGeneration"); fn != nil {
					sub := CallsIn(fn, Callee("(*go.uber.org/atomic.Uint64).Sub"))
					add := CallsIn(fn, Callee("(*go.uber.org/atomic.Uint64).Add"))
					st := InstrsIn(fn, FieldStore("cache.entry", "gen"))
					if len(sub) == 1 && len(add) == 1 && len(st) == 1 && SameValue(Arg(sub[0], 0), Arg(add[0], 0)) {
						c.Site(sub[0].Pos(), "updateGeneration moves exactly e.size from the old to the new generation")
					} else {
						c.Violation("pair:updateGeneration", fn.Pos(), "updateGeneration no longer moves the same amount out of the old and into the new generation (sub=%d add=%d store=%d)", len(sub), len(add), len(st))
					}
				}
				if fn := c.Fn("(*cache.Cache).save"); fn != nil {
					for _, ad := range CallsIn(fn, Callee("(*go.uber.org/atomic.Uint64).Add")) {
						fromEntry := DerivesFrom(Receiver(ad), func(v ssa.Value) bool { return ValueIsField(v, "cache.entry", "gen") })
						fromCache := DerivesFrom(Receiver(ad), func(v ssa.Value) bool { return ValueIsField(v, "cache.Cache", "currentGeneration") })
						if fromEntry && !fromCache {
							c.Site(ad.Pos(), "save accounts the size in the generation the entry belongs to (e.gen)")
						} else {
							c.Violation("pair:save:generation", ad.Pos(), "save adds the entry's size to a generation other than e.gen (the one Cleanup/updateGeneration/Release will subtract it from): after a rotation between getOrCreate and save the accounted total no longer equals the sum of live entries")
						}
					}
				}
				if fn := c.Fn("(*cache.Cleaner).markStale"); fn != nil {
					// the current generation is rotated out and marked stale exactly when the older ones did not free enough
					var target ssa.Value
					for _, p := range fn.Params {
						if ParamName(p) == "sizeToClean" {
							target = p
						}
					}
					for _, r := range CallsIn(fn, Callee("(*cache.Cleaner).rotate")) {
						ok := false
						for _, f := range FactsAtInstr(r.(ssa.Instruction)) {
							bo, isB := f.Cond.(*ssa.BinOp)
							if !isB {
								continue
							}
							usesTarget := target != nil && (DerivesFrom(bo.X, func(v ssa.Value) bool { return v == target }) || DerivesFrom(bo.Y, func(v ssa.Value) bool { return v == target }))
							usesBytes := DerivesFrom(bo.X, isGenSizeLoad) || DerivesFrom(bo.Y, isGenSizeLoad)
							if usesTarget && usesBytes {
								ok = true
							}
						}
						if ok {
							c.Site(r.Pos(), "markStale rotates out the current generation when the bytes of the older generations are below the amount to clean")
						} else {
							c.Violation("dom:markStale:rotate-when-insufficient", r.Pos(), "the decision to also mark the current generation stale no longer compares the bytes collected from older generations with sizeToClean: a cleaning pass can stop above the limit when most data sits in the current generation")
						}
					}
					if !Current.HasCall(fn, Callee("(*cache.Cleaner).rotate")) {
						c.Violation("dom:markStale:no-rotate", fn.Pos(), "markStale can no longer clean the current generation")
					}
				}
				if fn := c.Fn("(*cache.Cache).Release"); fn != nil {
					subs := CallsIn(fn, Callee("(*go.uber.org/atomic.Uint64).Sub"))
					inLoop := false
					for _, s := range subs {
						if InLoop(s.(ssa.Instruction).Block()) {
							inLoop = true
						}
					}
					if inLoop {
						c.Site(subs[0].Pos(), "Release subtracts each entry's size from its generation")
					} else {
						c.Violation("pair:Release:sub", fn.Pos(), "Release drops the entries without subtracting their sizes from the generations: the cleaner keeps counting a released cache")
					}
					PrecedeI(c, fn, CallSel(Callee("(*sync.Mutex).Lock")), "mu.Lock()", FieldStore("cache.Cache", "released"), "released = true")
				}
				if fn := c.Fn("(*cache.Cache).Cleanup"); fn != nil {
					del := CallSel(Callee("builtin.delete"))
					PrecedeI(c, fn, del, "delete(payload, k)", FieldStore("cache.entry", "deleted"), "e.deleted = true")
					// only stale generations are dropped
					for _, d := range InstrsIn(fn, del) {
						stale := false
						for _, f := range FactsAtInstr(d) {
							if u, ok := f.Cond.(*ssa.UnOp); ok && IsFieldAddr(u.X, "cache.Generation", "stale") && f.Val {
								stale = true
							}
						}
						if stale {
							c.Site(d.Pos(), "Cleanup removes only entries of stale generations")
						} else {
							c.Violation("dom:Cleanup:only-stale", d.Pos(), "Cleanup can remove entries whose generation is not marked stale")
						}
					}
				}
			}},
		{Prop: "C18", ID: "C18.5", Engine: "OWN+IDIOM", Floor: 2,
			Desc: "bucket bookkeeping: Cleaner.buckets is stored only by AddBucket and ReleaseBuckets; removal does not use the provably wrong idiom (ascending walk over collected indices, swap with a decrementing last, no liveness re-check of the moved element)",
			Check: func(c *Ctx) {
				owners := map[string]bool{"(*cache.Cleaner).AddBucket": true, "(*cache.Cleaner).ReleaseBuckets": true}
				for _, fn := range c.P.Funcs {
					for _, st := range InstrsIn(fn, FieldStore("cache.Cleaner", "buckets")) {
						if _, ok := c.P.OwnedBy(fn, func(n string) bool { return owners[n] }); ok {
							c.Site(st.Pos(), "%s stores Cleaner.buckets (owner)", FuncName(fn))
						} else {
							c.Violation("own:Cleaner.buckets:"+FuncName(fn), st.Pos(), "%s changes the cleaner's bucket list", FuncName(fn))
						}
					}
				}
				n := 0
				for _, fn := range c.P.Funcs {
					for _, m := range swapRemoveAscending(fn) {
						n++
						c.Violation("idiom:swap-remove-ascending:"+FuncName(fn), m.Pos(), "%s removes collected indices in ascending order by moving the last element into the hole: when the last element is itself to be removed it is kept and a live element is dropped (e.g. [released, live, released])", FuncName(fn))
					}
				}
				if n == 0 {
					c.Site(token.NoPos, "no ascending swap-remove over collected indices in %d repo functions", len(c.P.Funcs))
				}
				if fn := c.Fn("(*cache.Cleaner).ReleaseBuckets"); fn != nil {
					// the removed set is exactly the released buckets: indices collected under Released()
					for _, ap := range CallsIn(fn, Callee("builtin.append")) {
						v, found := BoolFact(FactsAtInstr(ap.(ssa.Instruction)), func(x ssa.Value) bool {
							cl, ok := x.(ssa.CallInstruction)
							return ok && CallName(cl) == "(cache.bucket).Released"
						})
						if found && v {
							c.Site(ap.Pos(), "only buckets reporting Released() are scheduled for removal")
						} else if InLoop(ap.(ssa.Instruction).Block()) {
							c.Violation("dom:ReleaseBuckets:only-released", ap.Pos(), "a bucket is scheduled for removal without Released() being true")
						}
					}
				}
			}},
	}
}

func isFreshEntry(v ssa.Value) bool {
	for i := 0; i < 4; i++ {
		switch x := v.(type) {
		case *ssa.Alloc:
			return true
		case *ssa.UnOp:
			v = x.X
		default:
			return false
		}
	}
	return false
}

// swapRemoveAscending finds: for k ascending over idx slice T { last--; S[T[k]] = S[last] }.
func swapRemoveAscending(fn *ssa.Function) []ssa.Instruction {
	var out []ssa.Instruction
	for _, b := range fn.Blocks {
		for _, in := range b.Instrs {
			st, ok := in.(*ssa.Store)
			if !ok || !InLoop(b) {
				continue
			}
			dst, ok := st.Addr.(*ssa.IndexAddr)
			if !ok {
				continue
			}
			ld, ok := st.Val.(*ssa.UnOp)
			if !ok || ld.Op != token.MUL {
				continue
			}
			src, ok := ld.X.(*ssa.IndexAddr)
			if !ok || !SameValue(dst.X, src.X) && AccessPath(dst.X) != AccessPath(src.X) {
				continue
			}
			// src index: a counter decremented in the loop
			dec := DerivesFrom(src.Index, func(v ssa.Value) bool {
				bo, ok := v.(*ssa.BinOp)
				if !ok || bo.Op != token.SUB {
					return false
				}
				k, isK := ConstInt(bo.Y)
				_, isPhi := bo.X.(*ssa.Phi)
				return isK && k == 1 && isPhi
			})
			if !dec {
				continue
			}
			// dst index: element of an int slice walked by an ascending range index
			asc := false
			DerivesFrom(dst.Index, func(v ssa.Value) bool {
				ia, ok := v.(*ssa.IndexAddr)
				if !ok {
					return false
				}
				if bo, ok := ia.Index.(*ssa.BinOp); ok && bo.Op == token.ADD {
					if k, isK := ConstInt(bo.Y); isK && k == 1 {
						if _, isPhi := bo.X.(*ssa.Phi); isPhi {
							asc = true
						}
					}
				}
				return false
			})
			if asc {
				out = append(out, st)
			}
		}
	}
	return out
}

func isGenSizeLoad(v ssa.Value) bool {
	cl, ok := v.(*ssa.Call)
	if !ok || CallName(cl) != "(*go.uber.org/atomic.Uint64).Load" {
		return false
	}
	return DerivesFrom(cl.Call.Args[0], func(x ssa.Value) bool { return ValueIsField(x, "cache.Generation", "size") })
}
