package props

import (
	"go/token"
	"strings"

	"golang.org/x/tools/go/ssa"

	. "seqverif/internal/kit"
)

func init() {
	register(&PropInfo{
		ID:          "C02",
		Title:       "Search returns exactly the matching documents, ordered, limited and counted",
		Explanation: "Decided (the smaller, structural part of the property): (1) the evaluator handles every AST value type the parser constructs and every logical operator constant, (2) one direction flag — every merge node and posting-list tree built for a search takes its reverse flag from the request order, and the NOT node ranges over the LID window computed from the request's time range (the same window the leaves and aggregations get); (3) the histogram modulo runs only when a histogram interval is set; (4) the active posting-list merge passes every element of the freshly queued (possibly repeating) list through the previous-value check. NOT decided: the merge algorithms of the nodes, border binary searches, limit/total arithmetic, equal-timestamp handling, token selection (C13).",
		Assumptions: []string{"enum values are declared constants"},
		Obs:         c02,
	})
}

func c02() []*Ob {
	return []*Ob{
		{Prop: "C02", ID: "C02.17", Engine: "LOCK(one hold)", Floor: 1,
			Desc:  "a search sees every acknowledged posting: the queued LIDs of a token are taken under the merge mutex (shared rule with C05.13) — a reader that took the queue and is delayed in front of the mutex leaves the next reader with an empty queue and a stale list: `tok` misses documents and `NOT tok` returns documents that have the token",
			Check: shared("C05.13")},
		{Prop: "C02", ID: "C02.18", Engine: "INDEX(guard strictness)", Floor: 30,
			Desc:  "the position table of a search is guarded by its own length: an element read is never protected only by a comparison with the length of a sibling field (shared rule with C07.10) — inverser.Inverse refusing keys above len(values) instead of len(inversion) drops the LIDs of a fully indexed, acknowledged bulk whenever an earlier bulk is still half indexed",
			Check: shared("C07.10")},
		{Prop: "C02", ID: "C02.16", Engine: "SHAPE(dedup on entry)", Floor: 1,
			Desc:  "a document is in a token's list once: in frac.mergeSorted the parameter fed from TokenLIDs.getQueuedLIDs (the queue holds one entry per occurrence of the token, so a LID can be queued twice) is never appended to the result in spread form, and each single element of it is appended behind an (in)equality test — a 'the batch is newer than everything merged, just put it in front' fast path keeps the repeat: matches+1 in totals, aggregations and histograms, and the duplicate is sealed",
			Check: func(c *Ctx) { queuedLIDsEnterOneByOne(c) }},
		{Prop: "C02", ID: "C02.15", Engine: "SINK(map key)", Floor: 1,
			Desc:  "each leaf of the query is resolved by its own expression: the hint of a token expression never keys a map (shared rule with C13.13) — with a leaf cache keyed by field and hint, `k:*c OR k:*d` or `n:[0 TO 2] OR n:[8 TO 10]` evaluate the second leaf with the first leaf's tokens and return the wrong documents",
			Check: shared("C13.13")},
		{Prop: "C02", ID: "C02.13", Engine: "PAIR(two sites)", Floor: 1,
			Desc:  "an empty or inverted time window ends: nodeRange.Next stops on an ordering test, or — if it stops on equality with one value — getLIDsBorders searches the second border from the result of the first (so max >= min-1 always). With both relaxed a NOT query over a window with from > to returns documents for an empty range, and with total it never ends",
			Check: func(c *Ctx) { rangeNodeEndsOnEmptyWindow(c) }},
		{Prop: "C02", ID: "C02.14", Engine: "PAIR(two sites)", Floor: 1,
			Desc:  "a field's lowest token is read back as it was written (shared rule with C03.11): the token table loader takes FieldData.MinVal from entry 0, or the writer gives a MinVal to the first entry of a field only",
			Check: func(c *Ctx) { fieldMinValIsFirstEntrys(c) }},
		{Prop: "C02", ID: "C02.12", Engine: "SIBLING(mirror)", Floor: 3,
			Desc:  "a posting list that continues into the next LIDs block is read to its end: the ascending and descending block iterators of a sealed fraction stop only on the bound that lies ahead of them (shared rule with C03.7) — stopping on the other bound drops the in-range postings of the following blocks, the search returns too few ids and a NOT over that leaf too many",
			Check: shared("C03.7")},
		{Prop: "C02", ID: "C02.1", Engine: "ENUM", Floor: 1,
			Desc: "operator and token coverage: processor.buildEvalTree handles every concrete type the parser stores into ASTNode.Value and every logical operator constant",
			Check: func(c *Ctx) {
				fn := c.Fn("frac/processor.buildEvalTree")
				if fn == nil {
					return
				}
				// asserted types in the function
				asserted := map[string]bool{}
				var subject ssa.Value
				for _, b := range fn.Blocks {
					for _, in := range b.Instrs {
						if ta, ok := in.(*ssa.TypeAssert); ok && ta.CommaOk {
							asserted[CleanName(ta.AssertedType.String())] = true
							subject = ta.X
						}
					}
				}
				if subject == nil {
					c.Undecided("enum:buildEvalTree:shape", fn.Pos(), "buildEvalTree is no longer a type switch over the AST node value")
					return
				}
				universe := map[string]bool{}
				for _, f := range c.P.FuncsInPkg("parser") {
					for _, b := range f.Blocks {
						for _, in := range b.Instrs {
							if st, ok := in.(*ssa.Store); ok && IsFieldAddr(st.Addr, "parser.ASTNode", "Value") {
								if mi, ok := st.Val.(*ssa.MakeInterface); ok {
									universe[CleanName(mi.X.Type().String())] = true
								}
							}
						}
					}
				}
				var missing []string
				for t := range universe {
					if !asserted[t] {
						missing = append(missing, t)
					}
				}
				if len(universe) < 2 {
					c.Undecided("enum:buildEvalTree:universe", fn.Pos(), "found %d concrete types stored into ASTNode.Value", len(universe))
				} else if len(missing) == 0 {
					c.Site(fn.Pos(), "buildEvalTree handles every AST value type the parser builds %v", keysOf(universe))
				} else {
					c.Violation("enum:buildEvalTree:types", fn.Pos(), "buildEvalTree does not handle AST value type(s) %v: a valid query fails with 'unknown token type'", missing)
				}
				ops := c.P.EnumConsts("parser", "logicalKind")
				cov := c.P.SwitchCoverageLifted(fn, func(v ssa.Value) bool { return strings.HasSuffix(TypeStr(v.Type()), "parser.logicalKind") })
				var mo []string
				for n, k := range ops {
					if !cov[k] {
						mo = append(mo, n)
					}
				}
				if len(ops) < 3 {
					c.Undecided("enum:logicalKind", fn.Pos(), "cannot enumerate parser.logicalKind")
				} else if len(mo) == 0 {
					c.Site(fn.Pos(), "buildEvalTree handles all %d logical operators", len(ops))
				} else {
					c.Violation("enum:buildEvalTree:operators", fn.Pos(), "buildEvalTree does not handle operator(s) %v (produced by the parser's NOT propagation)", mo)
				}
			}},
		{Prop: "C02", ID: "C02.2", Engine: "PROV", Floor: 5,
			Desc: "one direction flag and one LID window: in IndexSearch the reverse flag given to buildEvalTree and the order given to the leaves and aggregations derive from params.Order; node.NewAnd/NewOr/NewNAnd/NewNot receive buildEvalTree's reverse parameter; NewNot ranges over buildEvalTree's (minVal, maxVal), which IndexSearch takes from getLIDsBorders — the same pair evalLeaf and evalAgg get",
			Check: func(c *Ctx) {
				fn := c.Fn("frac/processor.IndexSearch")
				bt := c.Fn("frac/processor.buildEvalTree")
				if fn == nil || bt == nil {
					return
				}
				fromOrder := func(v ssa.Value) bool {
					return DerivesFrom(v, func(x ssa.Value) bool { return ValueIsField(x, "frac/processor.SearchParams", "Order") })
				}
				borders := CallsIn(fn, Callee("frac/processor.getLIDsBorders"))
				isBorder := func(v ssa.Value, idx int) bool {
					return len(borders) == 1 && DerivesFrom(v, func(x ssa.Value) bool {
						e, ok := x.(*ssa.Extract)
						return ok && e.Tuple == borders[0].Value() && e.Index == idx
					})
				}
				for _, call := range CallsIn(fn, Callee("frac/processor.buildEvalTree")) {
					if fromOrder(Arg(call, 4)) {
						c.Site(call.Pos(), "eval tree direction derives from params.Order")
					} else {
						c.Violation("prov:IndexSearch:reverse", call.Pos(), "the eval tree's direction flag does not derive from params.Order")
					}
					if isBorder(Arg(call, 1), 0) && isBorder(Arg(call, 2), 1) {
						c.Site(call.Pos(), "eval tree (NOT range) uses the LID window of the request's time range")
					} else {
						c.Violation("prov:IndexSearch:not-window", call.Pos(), "buildEvalTree is not given (minLID, maxLID) from getLIDsBorders: NOT would range over a different set of documents than the leaves")
					}
				}
				for _, f := range WithClosures(fn) {
					for _, call := range CallsIn(f, Callee("frac/processor.evalLeaf", "frac/processor.evalAgg")) {
						okOrd := false
						okWin := 0
						for _, a := range call.Common().Args {
							if fromOrder(a) {
								okOrd = true
							}
							if isBorder(a, 0) || isBorder(a, 1) {
								okWin++
							}
						}
						if okOrd && okWin >= 2 {
							c.Site(call.Pos(), "%s gets the request order and the same LID window", CallName(call))
						} else {
							c.Violation("prov:IndexSearch:"+CallName(call), call.Pos(), "%s is not given the request's order and LID window (order: %v, window args: %d)", CallName(call), okOrd, okWin)
						}
					}
				}
				var rev, minV, maxV *ssa.Parameter
				for _, p := range bt.Params {
					switch ParamName(p) {
					case "reverse":
						rev = p
					case "minVal":
						minV = p
					case "maxVal":
						maxV = p
					}
				}
				for _, call := range CallsIn(bt, Callee("node.NewAnd", "node.NewOr", "node.NewNAnd", "node.NewNot")) {
					args := call.Common().Args
					if args[len(args)-1] == ssa.Value(rev) {
						c.Site(call.Pos(), "%s takes the tree's direction flag", CallName(call))
					} else {
						c.Violation("prov:buildEvalTree:"+CallName(call)+":reverse", call.Pos(), "%s is not given buildEvalTree's reverse flag: one operator would merge in the opposite direction", CallName(call))
					}
					if CallName(call) == "node.NewNot" {
						if args[1] == ssa.Value(minV) && args[2] == ssa.Value(maxV) {
							c.Site(call.Pos(), "NOT ranges over (minVal, maxVal)")
						} else {
							c.Violation("prov:buildEvalTree:not-range", call.Pos(), "NewNot is not given (minVal, maxVal) in that order")
						}
					}
				}
				if el := c.Fn("frac/processor.evalLeaf"); el != nil {
					for _, call := range CallsIn(el, Callee("node.BuildORTree")) {
						if DerivesFrom(Arg(call, 1), func(v ssa.Value) bool {
							cl, ok := v.(ssa.CallInstruction)
							return ok && CallName(cl) == "(seq.DocsOrder).IsReverse"
						}) {
							c.Site(call.Pos(), "posting lists of one token expression are merged in the request's direction")
						} else {
							c.Violation("prov:evalLeaf:or-tree-direction", call.Pos(), "BuildORTree is not given order.IsReverse()")
						}
					}
				}
			}},
		{Prop: "C02", ID: "C02.4", Engine: "DIV", Floor: 1,
			Desc: "histogram modulo is guarded: in iterateEvalTree the bucket computation mid % HistInterval runs only under HasHist() (HistInterval > 0)",
			Check: func(c *Ctx) {
				fn := c.Fn("frac/processor.iterateEvalTree")
				if fn == nil {
					return
				}
				// guarded by the hasHist variable which is HasHist()
				guarded := func(at ssa.Instruction) bool {
					for _, f := range FactsAtInstr(at) {
						if f.Val && DerivesFrom(f.Cond, func(v ssa.Value) bool {
							cl, isC := v.(ssa.CallInstruction)
							return isC && CallName(cl) == "(*frac/processor.SearchParams).HasHist" || isC && CallName(cl) == "(frac/processor.SearchParams).HasHist"
						}) {
							return true
						}
					}
					return false
				}
				n := 0
				for _, d := range c.P.DivSites(fn) {
					n++
					if d.Proof != "" {
						c.Site(d.Op.Pos(), "histogram modulo: %s", d.Proof)
						continue
					}
					if guarded(d.Op) {
						c.Site(d.Op.Pos(), "histogram modulo runs only when params.HasHist()")
					} else {
						c.Violation("div:iterateEvalTree:hist", d.Op.Pos(), "the histogram bucket is computed with mid %% HistInterval without HasHist() being true: a search without histogram divides by zero")
					}
				}
				if n == 0 {
					// the bucket computation may have been moved into a private helper: every call of it must be guarded
					seen := map[*ssa.Function]bool{}
					for _, call := range CallsIn(fn, nil) {
						h := StaticCallee(call)
						if h == nil || h.Blocks == nil || !c.P.InRepo(h) || h.Object() == nil || h.Object().Exported() {
							continue
						}
						sites := c.P.DivSites(h)
						if len(sites) == 0 {
							continue
						}
						n += len(sites)
						allProved := true
						for _, d := range sites {
							if d.Proof == "" {
								allProved = false
							}
						}
						if allProved || guarded(call.(ssa.Instruction)) {
							c.Site(call.Pos(), "histogram modulo (in %s) runs only when params.HasHist()", FuncName(h))
						} else {
							c.Violation("div:iterateEvalTree:hist", call.Pos(), "the histogram bucket is computed (in %s) without HasHist() being true: a search without histogram divides by zero", FuncName(h))
						}
						if !seen[h] {
							seen[h] = true
							for _, other := range c.P.Callers(h) {
								if other.Parent() != fn && !allProved {
									c.Undecided("div:"+FuncName(h)+":other-callers", other.Pos(), "%s divides by its argument and is also called from %s", FuncName(h), FuncName(other.Parent()))
								}
							}
						}
					}
				}
				if n == 0 {
					c.Undecided("div:iterateEvalTree:none", fn.Pos(), "no modulo in iterateEvalTree or its private helpers")
				}
				if hh := c.P.Func("(frac/processor.SearchParams).HasHist"); hh != nil && len(hh.Blocks) == 1 {
					ret := hh.Blocks[0].Instrs[len(hh.Blocks[0].Instrs)-1].(*ssa.Return)
					if bo, ok := ret.Results[0].(*ssa.BinOp); ok && (bo.Op == token.GTR || bo.Op == token.NEQ) {
						c.Site(hh.Pos(), "HasHist() is HistInterval > 0")
					} else {
						c.Violation("div:HasHist", hh.Pos(), "HasHist() no longer implies HistInterval != 0")
					}
				}
			}},
		{Prop: "C02", ID: "C02.6", Engine: "PROV+SHAPE", Floor: 1,
			Desc:  "wildcard matching used by every search leaf: middle fragments are searched strictly between prefix and suffix and the KMP fallback is iterated (shared with C13.5; a break returns documents that do not match, or under NOT hides documents that do)",
			Check: func(c *Ctx) { matcherShape(c) }},
		{Prop: "C02", ID: "C02.7", Engine: "PAIR(comparator)", Floor: 1,
			Desc: "ties on MID are broken by RID wherever posting lists of an active fraction are ordered: a function of the merge (mergeSorted, SeqIDCmp.compare and what they call) that compares elements of the mids column also compares elements of the rids column (two documents of one millisecond are ordered by RID; an order decided by MID alone leaves the list unsorted and AND/OR/NOT nodes then drop or repeat documents)",
			Check: func(c *Ctx) {
				root := c.Fn("frac.mergeSorted")
				if root == nil {
					return
				}
				funcs := c.P.Scope([]*ssa.Function{root}, func(rel string) bool { return rel == "frac" })
				isCol := func(v ssa.Value, names ...string) bool {
					return DerivesFromNoCall(v, func(x ssa.Value) bool {
						if p, ok := x.(*ssa.Parameter); ok {
							for _, n := range names {
								if p.Name() == n {
									return true
								}
							}
						}
						if fa, ok := x.(*ssa.FieldAddr); ok {
							if _, f, _, okf := FieldOf(fa); okf {
								for _, n := range names {
									if f == n {
										return true
									}
								}
							}
						}
						return false
					})
				}
				n := 0
				for _, fn := range funcs {
					cmpMid, cmpRid := 0, 0
					var first ssa.Instruction
					for _, b := range fn.Blocks {
						for _, in := range b.Instrs {
							bo, ok := in.(*ssa.BinOp)
							if !ok {
								continue
							}
							switch bo.Op {
							case token.LSS, token.GTR, token.LEQ, token.GEQ, token.EQL, token.NEQ:
							default:
								continue
							}
							elem := func(v ssa.Value, names ...string) bool {
								u, ok := v.(*ssa.UnOp)
								if !ok || u.Op != token.MUL {
									return false
								}
								ia, ok := u.X.(*ssa.IndexAddr)
								return ok && isCol(ia.X, names...)
							}
							if elem(bo.X, "mids", "mid") || elem(bo.Y, "mids", "mid") {
								cmpMid++
								if first == nil {
									first = in
								}
							}
							if elem(bo.X, "rids", "rid") || elem(bo.Y, "rids", "rid") {
								cmpRid++
							}
						}
					}
					if cmpMid == 0 {
						continue
					}
					n++
					if cmpRid > 0 {
						c.Site(first.Pos(), "%s orders by (MID, RID)", FuncName(fn))
					} else {
						c.Violation("pair:mid-without-rid:"+FuncName(fn), first.Pos(), "%s decides an order from the MID column alone: two documents of the same millisecond are then merged in arrival order instead of RID order, the posting list is no longer sorted and search nodes drop or repeat documents", FuncName(fn))
					}
				}
				if n == 0 {
					c.Undecided("pair:mid-rid:none", root.Pos(), "no function of the posting-list merge compares MIDs any more")
				}
			}},
		{Prop: "C02", ID: "C02.8", Engine: "IDIOM", Floor: 1,
			Desc: "the time window can be empty at every position: in getLIDsBorders the right-border search does not start behind the left border (the element at the left border has only been compared with the upper bound; starting at left+k returns the newest older document for a window that lies in a gap of the data)",
			Check: func(c *Ctx) {
				fn := c.Fn("frac/processor.getLIDsBorders")
				if fn == nil {
					return
				}
				bs := CallsIn(fn, Callee("util.BinSearchInRange", "sort.Search"))
				if len(bs) < 2 {
					c.Undecided("idiom:getLIDsBorders:searches", fn.Pos(), "getLIDsBorders no longer runs two binary searches")
					return
				}
				for _, second := range bs {
					lo := Arg(second, 0)
					bo, ok := lo.(*ssa.BinOp)
					if !ok || bo.Op != token.ADD {
						continue
					}
					for _, first := range bs {
						if first == second {
							continue
						}
						k, isK := ConstInt(bo.Y)
						if isK && k > 0 && DerivesFromNoCall(bo.X, func(v ssa.Value) bool { return v == first.Value() }) {
							c.Violation("idiom:getLIDsBorders:skips-left-border", second.Pos(), "the right border is searched from (left border + %d): the element at the left border is never compared with the lower bound, so a window that contains no document returns the newest older one", k)
						}
					}
				}
				c.Site(fn.Pos(), "the right-border search includes the left border")
			}},
		{Prop: "C02", ID: "C02.9", Engine: "FINITE(SCCP)", Floor: 4,
			Desc:  "the tree that is evaluated means what was parsed: the negation push-down applied to every query before it is searched (propagateNot) rewrites each (operator, left negated, right negated) cell into an equivalent node, buildEvalTree reads NAnd in the child order it was written, and the root NOT is added exactly under the returned flag (shared rule with C12.4)",
			Check: func(c *Ctx) { checkPropagateNot(c) }},
		{Prop: "C02", ID: "C02.10", Engine: "PAIR", Floor: 1,
			Desc:  "the limit is applied to fractions in the order their borders were sorted in: List.Sort orders by the border calcEnsuredIDsCount cuts with (shared rule with C05.2) — otherwise the first `limit` ids of an ascending search omit the oldest documents of a fraction that encloses the others",
			Check: func(c *Ctx) { sortKeyIsCutKey(c) }},
		{Prop: "C02", ID: "C02.11", Engine: "ORDER", Floor: 1,
			Desc: "the LID inversion table of an active search starts from zeroes: the pooled memory behind inverser.inversion is cleared between being acquired and being filled from the _all_ snapshot (a slot the snapshot does not cover must read 'unknown', not whatever an earlier search left there — inverseLIDs drops unknown LIDs, a stale slot maps a new document onto an unrelated position)",
			Check: func(c *Ctx) {
				fn := c.Fn("frac.newInverser")
				if fn == nil {
					return
				}
				acquire := c.P.MustCall(Callee("bytespool.AcquireLen", "bytespool.Acquire"))
				clearCall := c.P.MustCall(Callee("builtin.clear"))
				fills := func(in ssa.Instruction) bool {
					st, ok := in.(*ssa.Store)
					if !ok {
						return false
					}
					ia, ok := st.Addr.(*ssa.IndexAddr)
					return ok && InLoop(st.Block()) && TypeStr(ia.X.Type()) == "[]int"
				}
				if !c.P.HasCall(fn, Callee("bytespool.AcquireLen", "bytespool.Acquire")) {
					c.Site(fn.Pos(), "the inversion table is not taken from pooled memory")
					return
				}
				_ = acquire
				n := PrecedeI(c, fn, CallSel(clearCall), "clear(table)", fills, "filling the table from the snapshot")
				if n == 0 && !c.P.HasCall(fn, Callee("builtin.clear")) {
					// zeroing by a loop over the whole table is accepted as well
					c.Violation("order:newInverser:not-cleared", fn.Pos(), "the pooled memory behind the inversion table is not cleared before it is filled: slots that the _all_ snapshot does not cover keep values of an earlier search")
				}
			}},
		{Prop: "C02", ID: "C02.5", Engine: "DOM", Floor: 1,
			Desc: "no repeated LID in a posting list: in frac.mergeSorted every element taken from the freshly queued list (which repeats a LID when a document carries the token twice) is appended only after the comparison with the previously appended value",
			Check: func(c *Ctx) {
				fn := c.Fn("frac.mergeSorted")
				if fn == nil {
					return
				}
				var left *ssa.Parameter
				for _, p := range fn.Params {
					if ParamName(p) == "left" {
						left = p
					}
				}
				if left == nil {
					c.Undecided("mergeSorted:param", fn.Pos(), "mergeSorted has no parameter named left any more")
					return
				}
				n := 0
				for _, ap := range CallsIn(fn, Callee("builtin.append")) {
					args := ap.Common().Args
					if len(args) < 2 {
						continue
					}
					// bulk append of (a slice of) left
					if DerivesFromNoCall(args[1], func(v ssa.Value) bool { return v == ssa.Value(left) }) {
						if _, isSlice := args[1].(*ssa.Slice); isSlice {
							n++
							c.Violation("dom:mergeSorted:left-tail-unchecked", ap.Pos(), "the tail of the freshly queued list is appended wholesale: a LID that occurs twice in it (document with a repeated token) stays twice in the posting list, and totals count the document twice")
							continue
						}
					}
				}
				// single-element appends are under prev != val
				for _, ap := range CallsIn(fn, Callee("builtin.append")) {
					args := ap.Common().Args
					if len(args) < 2 {
						continue
					}
					if _, isSlice := args[1].(*ssa.Slice); !isSlice {
						continue
					}
					sl := args[1].(*ssa.Slice)
					if _, fromAlloc := sl.X.(*ssa.Alloc); !fromAlloc {
						continue
					}
					n++
					guarded := false
					tracked := true
					for _, f := range FactsAtInstr(ap.(ssa.Instruction)) {
						if bo, ok := f.Cond.(*ssa.BinOp); ok && (bo.Op == token.EQL || bo.Op == token.NEQ) {
							if (bo.Op == token.EQL) != f.Val {
								guarded = true
								// "the previously appended one" is a loop-carried value that takes the appended element on some way
								// round the loop: a side that never changes (the initial constant for ever) compares nothing
								for _, side := range [][2]ssa.Value{{bo.X, bo.Y}, {bo.Y, bo.X}} {
									if _, isK := side[0].(*ssa.Const); isK && InLoop(ap.(ssa.Instruction).Block()) {
										tracked = false // go/ssa folds a loop variable that is never assigned into its initial constant
										continue
									}
									phi, isPhi := side[0].(*ssa.Phi)
									if !isPhi || !InLoop(phi.Block()) {
										continue
									}
									takes := false
									seenPhi := map[*ssa.Phi]bool{}
									var walk func(p *ssa.Phi)
									walk = func(p *ssa.Phi) {
										if seenPhi[p] {
											return
										}
										seenPhi[p] = true
										for _, e := range p.Edges {
											if q, ok := e.(*ssa.Phi); ok {
												walk(q)
											} else if _, isK := e.(*ssa.Const); !isK {
												takes = true
											}
										}
									}
									walk(phi)
									if !takes {
										tracked = false
									}
								}
							}
						}
					}
					if guarded && !tracked {
						c.Violation("dom:mergeSorted:prev-not-updated", ap.Pos(), "the value an element is compared with before it is appended never changes inside the loop (it is not set to the appended element): the check compares with the initial value for ever, and a LID that is queued twice is appended twice")
					} else if guarded {
						c.Site(ap.Pos(), "an element is appended only when it differs from the previously appended one")
					} else {
						c.Violation("dom:mergeSorted:prev-check", ap.Pos(), "an element is appended to the merged posting list without the previous-value check")
					}
				}
				if n == 0 {
					c.Undecided("mergeSorted:noappend", fn.Pos(), "no append found in mergeSorted")
				}
			}},
	}
}
