package kit

import (
	"go/constant"
	"go/token"
	"go/types"

	"golang.org/x/tools/go/ssa"
)

// CONSTEVAL: constant folding of an input-free function. A function without parameters whose control flow
// depends on constants only (the initialiser of a lookup table: loops with constant bounds, comparisons of the
// loop variable with constants, calls of pure predicates of the repo) is folded completely: every SSA value
// gets its constant, and the element stores into package-level arrays are collected. What comes out is the
// table the function builds, whatever the shape of the code that builds it. Anything outside the fragment
// (a load of unknown memory, a call without a body, an interface call) makes the folding fail and the caller
// falls back to its structural rule.

// TableCells is what a function stores into package-level arrays: global -> index -> value (bools as 0/1).
type TableCells map[*ssa.Global]map[int64]int64

type ceAddr struct {
	g   *ssa.Global
	idx int64
	loc *int64
}

type ceFrame struct {
	env   map[ssa.Value]int64
	addrs map[ssa.Value]ceAddr
}

type constEval struct {
	p     *Prog
	cells TableCells
	steps int
	ok    bool
}

// EvalTables folds the parameterless function fn. ok is false when fn leaves the supported fragment.
func (p *Prog) EvalTables(fn *ssa.Function) (TableCells, bool) {
	if fn == nil || len(fn.Blocks) == 0 || len(fn.Params) != 0 {
		return nil, false
	}
	ce := &constEval{p: p, cells: TableCells{}, ok: true}
	ce.call(fn, nil, 0)
	return ce.cells, ce.ok
}

func (ce *constEval) fail() int64 { ce.ok = false; return 0 }

func truncTo(t types.Type, v int64) int64 {
	b, ok := t.Underlying().(*types.Basic)
	if !ok {
		return v
	}
	switch b.Kind() {
	case types.Uint8:
		return int64(uint8(v))
	case types.Int8:
		return int64(int8(v))
	case types.Uint16:
		return int64(uint16(v))
	case types.Int16:
		return int64(int16(v))
	case types.Uint32:
		return int64(uint32(v))
	case types.Int32:
		return int64(int32(v))
	}
	return v
}

func (ce *constEval) val(fr *ceFrame, v ssa.Value) int64 {
	if k, ok := v.(*ssa.Const); ok {
		if k.Value == nil {
			return 0
		}
		switch k.Value.Kind() {
		case constant.Bool:
			if constant.BoolVal(k.Value) {
				return 1
			}
			return 0
		case constant.Int:
			if i, exact := constant.Int64Val(k.Value); exact {
				return i
			}
		}
		return ce.fail()
	}
	if x, ok := fr.env[v]; ok {
		return x
	}
	return ce.fail()
}

func (ce *constEval) call(fn *ssa.Function, args []int64, depth int) []int64 {
	if depth > 6 || fn == nil || len(fn.Blocks) == 0 || len(args) != len(fn.Params) {
		ce.fail()
		return nil
	}
	fr := &ceFrame{env: map[ssa.Value]int64{}, addrs: map[ssa.Value]ceAddr{}}
	for i, prm := range fn.Params {
		fr.env[prm] = args[i]
	}
	var prev *ssa.BasicBlock
	b := fn.Blocks[0]
	for ce.ok {
		var next *ssa.BasicBlock
		// phis read the values of the previous block simultaneously
		phiVals := map[*ssa.Phi]int64{}
		for _, in := range b.Instrs {
			phi, ok := in.(*ssa.Phi)
			if !ok {
				break
			}
			found := false
			for i, pr := range b.Preds {
				if pr == prev {
					phiVals[phi] = ce.val(fr, phi.Edges[i])
					found = true
				}
			}
			if !found {
				ce.fail()
			}
		}
		for phi, v := range phiVals {
			fr.env[phi] = v
		}
		for _, in := range b.Instrs {
			ce.steps++
			if ce.steps > 2_000_000 || !ce.ok {
				ce.fail()
				return nil
			}
			switch x := in.(type) {
			case *ssa.Phi, *ssa.DebugRef:
			case *ssa.BinOp:
				fr.env[x] = ce.binop(x, ce.val(fr, x.X), ce.val(fr, x.Y))
			case *ssa.UnOp:
				switch x.Op {
				case token.NOT:
					fr.env[x] = 1 - ce.val(fr, x.X)
				case token.SUB:
					fr.env[x] = truncTo(x.Type(), -ce.val(fr, x.X))
				case token.MUL:
					a, ok := fr.addrs[x.X]
					switch {
					case !ok:
						ce.fail()
					case a.loc != nil:
						fr.env[x] = *a.loc
					default:
						fr.env[x] = ce.cells[a.g][a.idx] // unset cells of a package-level array are zero
					}
				default:
					ce.fail()
				}
			case *ssa.Convert:
				fr.env[x] = truncTo(x.Type(), ce.val(fr, x.X))
			case *ssa.ChangeType:
				fr.env[x] = ce.val(fr, x.X)
			case *ssa.Alloc:
				if _, isBasic := x.Type().(*types.Pointer).Elem().Underlying().(*types.Basic); !isBasic {
					ce.fail()
					break
				}
				fr.addrs[x] = ceAddr{loc: new(int64)}
			case *ssa.IndexAddr:
				g, ok := x.X.(*ssa.Global)
				if !ok {
					ce.fail()
					break
				}
				fr.addrs[x] = ceAddr{g: g, idx: ce.val(fr, x.Index)}
			case *ssa.Store:
				a, ok := fr.addrs[x.Addr]
				if !ok {
					ce.fail()
					break
				}
				v := truncTo(x.Val.Type(), ce.val(fr, x.Val))
				if a.loc != nil {
					*a.loc = v
				} else {
					if ce.cells[a.g] == nil {
						ce.cells[a.g] = map[int64]int64{}
					}
					ce.cells[a.g][a.idx] = v
				}
			case *ssa.Call:
				h := StaticCallee(x)
				if h == nil || h.Blocks == nil || !ce.p.InRepo(h) {
					ce.fail()
					break
				}
				var as []int64
				for _, a := range x.Call.Args {
					as = append(as, ce.val(fr, a))
				}
				res := ce.call(h, as, depth+1)
				if len(res) == 1 {
					fr.env[x] = res[0]
				} else if len(res) > 1 {
					ce.fail()
				}
			case *ssa.If:
				if ce.val(fr, x.Cond) != 0 {
					next = b.Succs[0]
				} else {
					next = b.Succs[1]
				}
			case *ssa.Jump:
				next = b.Succs[0]
			case *ssa.Return:
				var out []int64
				for _, r := range x.Results {
					out = append(out, ce.val(fr, r))
				}
				return out
			default:
				ce.fail()
			}
		}
		if next == nil {
			ce.fail()
			return nil
		}
		prev, b = b, next
	}
	return nil
}

func b2i(b bool) int64 {
	if b {
		return 1
	}
	return 0
}

func (ce *constEval) binop(x *ssa.BinOp, a, b int64) int64 {
	switch x.Op {
	case token.ADD:
		return truncTo(x.Type(), a+b)
	case token.SUB:
		return truncTo(x.Type(), a-b)
	case token.MUL:
		return truncTo(x.Type(), a*b)
	case token.QUO:
		if b == 0 {
			return ce.fail()
		}
		return truncTo(x.Type(), a/b)
	case token.REM:
		if b == 0 {
			return ce.fail()
		}
		return truncTo(x.Type(), a%b)
	case token.AND:
		return a & b
	case token.OR:
		return a | b
	case token.XOR:
		return truncTo(x.Type(), a^b)
	case token.SHL:
		if b < 0 || b > 62 {
			return ce.fail()
		}
		return truncTo(x.Type(), a<<uint(b))
	case token.SHR:
		if b < 0 || b > 62 {
			return ce.fail()
		}
		return a >> uint(b)
	case token.EQL:
		return b2i(a == b)
	case token.NEQ:
		return b2i(a != b)
	case token.LSS:
		return b2i(a < b)
	case token.LEQ:
		return b2i(a <= b)
	case token.GTR:
		return b2i(a > b)
	case token.GEQ:
		return b2i(a >= b)
	}
	return ce.fail()
}

// TableOf folds every parameterless writer of the package-level table g (see tableWriters) and returns the
// cells they set, in the order the functions are declared. ok is false when a writer cannot be folded or when
// a writer takes parameters.
func (p *Prog) TableOf(g *ssa.Global) (map[int64]int64, bool) {
	ws := p.tableWriters(g)
	if len(ws) == 0 {
		return nil, false
	}
	out := map[int64]int64{}
	for _, w := range ws {
		if w.Parent() != nil {
			return nil, false
		}
		cells, ok := p.EvalTables(w)
		if !ok {
			return nil, false
		}
		for i, v := range cells[g] {
			out[i] = v
		}
	}
	return out, true
}

// GlobalNamed: the package-level variable name of the repo-relative package pkg.
func (p *Prog) GlobalNamed(pkg, name string) *ssa.Global {
	for _, f := range p.FuncsInPkg(pkg) {
		if f.Pkg != nil {
			if g, ok := f.Pkg.Members[name].(*ssa.Global); ok {
				return g
			}
			return nil
		}
	}
	return nil
}
