package cache

import "testing"

// F6: ReleaseBuckets removed the collected indices in ascending order by moving the last bucket into the hole.
// With buckets [released, live, released] the live cache was dropped from the cleaner (its entries are never
// cleaned up again) and a released one was kept.
func TestF6ReleaseBucketsKeepsLiveCaches(t *testing.T) {
	for _, layout := range [][]bool{ // true = released
		{true, false, true},
		{true, true, false, true},
		{false, true, true},
		{true, false, false, true, true},
		{true, true, true},
		{false, false},
	} {
		cleaner := NewCleaner(0, nil)
		caches := make([]*Cache[int], len(layout))
		live := map[bucket]bool{}
		for i, rel := range layout {
			caches[i] = NewCache[int](cleaner, nil)
			if rel {
				caches[i].Release()
			} else {
				live[caches[i]] = true
			}
		}
		want := 0
		for _, rel := range layout {
			if rel {
				want++
			}
		}
		got := cleaner.ReleaseBuckets()
		if got != want {
			t.Fatalf("layout %v: ReleaseBuckets reported %d, want %d", layout, got, want)
		}
		left := cleaner.getBuckets()
		if len(left) != len(live) {
			t.Fatalf("layout %v: %d buckets left, want %d", layout, len(left), len(live))
		}
		for _, b := range left {
			if !live[b] {
				t.Fatalf("layout %v: a released cache is still managed / a live cache was dropped", layout)
			}
		}
	}
}
