package fracmanager

// Demonstration of two suspected crash-safety defects in the SkipSortDocs mode (frac.Config{SkipSortDocs: true},
// KeepMetaFile: false, as cmd/seq-db/seq-db.go starts the store with --sort-docs=false).
//
// Common history of both tests:
//  1. an active fraction F with documents is sealed the way the maintenance does it (fm.rotate + fm.seal);
//     frac.Seal publishes F.index; no F.sdocs is written in this mode, the sealed fraction keeps using F.docs;
//  2. the process dies after F.index was published and before Active.Release() removed F.meta:
//     the disk holds {F.docs, F.meta, F.index};
//  3. restart: the loader sees no .sdocs, sees .meta => F is loaded as an ACTIVE fraction again;
//  4. size based retention (FracManager.shrinkSizes) reaches F and calls Suicide on it; frac.Active.Suicide removes
//     F.meta and then F.docs, it knows nothing about F.index.
//
// F13: step 4 completes; F.index stays on disk and no later restart removes it.
// F12: the process dies inside step 4 between the removal of F.meta and the removal of F.docs; the disk holds
//      {F.docs, F.index}, which is exactly the look of a regular sealed fraction of this mode, so the next restart
//      serves the documents of a fraction whose deletion has begun.
//
// On a tree where the loader treats a published F.index as "sealing has completed" (the repair), step 3 loads F as a
// SEALED fraction instead; the tests then follow that branch: retention deletes F through Sealed.Suicide, a crash in
// the middle of it is emulated with the PartialSuicideMode hooks of frac.Sealed, and the same two questions are asked
// (are the documents served again? is anything left on disk?).
//
// A crash is simulated by abandoning the FracManager (only its index workers are stopped) and by putting back /
// taking away files, every restart is a new FracManager on the same data dir that goes through the real Load().

import (
	"context"
	"fmt"
	"math"
	"os"
	"path/filepath"
	"sort"
	"strings"
	"sync"
	"testing"

	"github.com/stretchr/testify/require"

	"github.com/ozontech/seq-db/consts"
	"github.com/ozontech/seq-db/frac"
	"github.com/ozontech/seq-db/frac/processor"
	"github.com/ozontech/seq-db/parser"
	"github.com/ozontech/seq-db/seq"
	"github.com/ozontech/seq-db/tests/common"
)

const f1213DocsCount = 3

func f1213Config(dataDir string, totalSize uint64) *Config {
	return &Config{
		FracSize:     1000,
		TotalSize:    totalSize,
		ShouldReplay: false,
		DataDir:      dataDir,
		Fraction: frac.Config{
			SkipSortDocs: true,  // --sort-docs=false
			KeepMetaFile: false, // as in production, see cmd/seq-db/seq-db.go
		},
	}
}

// f1213Start is "the process starts": a new FracManager that loads the data dir with the real loader.
// The maintenance loop is not started, the tests call the maintenance steps themselves to be deterministic.
func f1213Start(t *testing.T, cfg *Config) *FracManager {
	t.Helper()
	fm := NewFracManager(cfg)
	require.NoError(t, fm.Load(context.Background()))
	return fm
}

// f1213Crash is "the process dies": nothing is flushed, sealed or released, only the goroutines of the index
// workers are stopped so that they don't leak into the next "process".
func f1213Crash(fm *FracManager) {
	fm.fracProvider.Stop()
}

func f1213Exists(t *testing.T, path string) bool {
	t.Helper()
	_, err := os.Stat(path)
	if err == nil {
		return true
	}
	require.True(t, os.IsNotExist(err), "stat %s: %v", path, err)
	return false
}

// f1213Files lists the files of the fraction (by suffix) that are on disk now
func f1213Files(t *testing.T, base string) []string {
	t.Helper()
	files, err := filepath.Glob(base + ".*")
	require.NoError(t, err)
	res := make([]string, 0, len(files))
	for _, f := range files {
		res = append(res, strings.TrimPrefix(f, base))
	}
	sort.Strings(res)
	return res
}

func f1213IDs() []seq.IDSource {
	ids := make([]seq.IDSource, 0, f1213DocsCount)
	for i := 1; i <= f1213DocsCount; i++ {
		ids = append(ids, seq.IDSource{ID: seq.SimpleID(i)})
	}
	return ids
}

// f1213Fetch returns how many documents of the fraction F the store returns by ID
func f1213Fetch(t *testing.T, fm *FracManager) int {
	t.Helper()
	docs, err := NewFetcher(1).FetchDocs(context.Background(), fm.GetAllFracs(), f1213IDs())
	require.NoError(t, err)
	n := 0
	for _, d := range docs {
		if d != nil {
			require.Equal(t, "document", string(d))
			n++
		}
	}
	return n
}

// f1213Search returns how many documents of the fraction F the store finds
func f1213Search(t *testing.T, fm *FracManager) int {
	t.Helper()
	seqql, err := parser.ParseSeqQL("service:100500", seq.TestMapping)
	require.NoError(t, err)
	qpr, err := NewSearcher(1, SearcherCfg{}).SearchDocs(context.Background(), fm.GetAllFracs(), processor.SearchParams{
		AST:   seqql.Root,
		From:  seq.MID(0),
		To:    seq.MID(math.MaxUint64),
		Limit: 100,
	})
	require.NoError(t, err)
	return len(qpr.IDs)
}

// f1213ReachReactivatedState plays steps 1-3 of the history and returns the FracManager of the second "process",
// in which the fraction F (its base file name is returned too) is active again although F.index is on disk.
func f1213ReachReactivatedState(t *testing.T, dataDir string) (*FracManager, string) {
	t.Helper()

	// ---- process #1: fill the active fraction F
	fm1 := f1213Start(t, f1213Config(dataDir, 100000))

	dp := frac.NewDocProvider()
	for i := 1; i <= f1213DocsCount; i++ {
		addDummyDoc(t, fm1, dp, seq.SimpleID(i))
		dp.TryReset()
	}
	fm1.WaitIdle()

	base := fm1.active.frac.active.BaseFileName
	require.Equal(t, f1213DocsCount, f1213Fetch(t, fm1), "sanity: all docs are served by the active fraction")

	// F.meta is complete at this point (the appends have been acknowledged), frac.Seal does not touch it,
	// so this is byte for byte the F.meta that is on disk when the process dies before Active.Release().
	metaBeforeSeal, err := os.ReadFile(base + consts.MetaFileSuffix)
	require.NoError(t, err)
	require.NotEmpty(t, metaBeforeSeal)

	// step 1: seal as FracManager.maintenance does
	fm1.seal(fm1.rotate())

	require.Equal(t, []string{consts.DocsFileSuffix, consts.IndexFileSuffix}, f1213Files(t, base),
		"sanity: SkipSortDocs sealing leaves exactly .docs and .index (no .sdocs, .meta removed by Release)")

	// step 2: the process died after F.index was published and before Active.Release() removed F.meta
	f1213Crash(fm1)
	require.NoError(t, os.WriteFile(base+consts.MetaFileSuffix, metaBeforeSeal, 0o666))
	require.Equal(t, []string{consts.DocsFileSuffix, consts.IndexFileSuffix, consts.MetaFileSuffix}, f1213Files(t, base))

	// ---- process #2, step 3: restart with the real loader; the retention limit is reached in this process
	// (TotalSize: 1 stands for "the disk quota is used up": shrinkSizes will drop the oldest fractions)
	fm2 := f1213Start(t, f1213Config(dataDir, 1))

	var fRef *fracRef
	for _, ref := range fm2.fracs {
		if ref.instance.Info().Name() == filepath.Base(base) {
			fRef = ref
		}
	}
	require.NotNil(t, fRef, "F must be loaded (as an active or as a sealed fraction)")
	require.Equal(t, f1213DocsCount, f1213Fetch(t, fm2), "sanity: F serves its docs after the restart")
	if proxy, isProxy := fRef.instance.(*proxyFrac); isProxy && proxy.active != nil {
		t.Logf("F is loaded as an ACTIVE fraction again, files %v", f1213Files(t, base))
	} else {
		t.Logf("F is loaded as %T, files %v", fRef.instance, f1213Files(t, base))
	}

	return fm2, base
}

// f1213Retention is step 4: the real size based retention of the maintenance, waits for the suicides as
// runMaintenanceLoop does on stop
func f1213Retention(t *testing.T, fm *FracManager, base string) {
	t.Helper()
	suicideWG := sync.WaitGroup{}
	fm.shrinkSizes(&suicideWG)
	suicideWG.Wait()
	for _, ref := range fm.fracs {
		require.NotEqual(t, filepath.Base(base), ref.instance.Info().Name(), "premise: retention must have pushed F out of the fractions list")
	}
	require.Equal(t, 0, f1213Fetch(t, fm), "F is deleted: the running process doesn't serve its docs any more")
}

// f1213SealedF returns F when it was loaded as a sealed fraction (nil when it was re-activated)
func f1213SealedF(fm *FracManager, base string) *frac.Sealed {
	for _, ref := range fm.fracs {
		if s, ok := ref.instance.(*frac.Sealed); ok && s.BaseFileName == base {
			return s
		}
	}
	return nil
}

func TestF13OrphanIndexAfterSuicideOfReactivatedFraction(t *testing.T) {
	dataDir := common.GetTestTmpDir(t)
	common.RecreateDir(dataDir)
	defer common.RemoveDir(dataDir)

	fm2, base := f1213ReachReactivatedState(t, dataDir)

	// step 4 runs to completion
	f1213Retention(t, fm2, base)
	afterSuicide := f1213Files(t, base)
	t.Logf("files of the deleted fraction right after Suicide has returned: %v", afterSuicide)

	f1213Crash(fm2) // a clean stop would not touch these files either: Stop() only seals the active fraction

	// ---- process #3 and #4: the next restarts must finish the deletion off
	for restart := 1; restart <= 2; restart++ {
		fm := f1213Start(t, f1213Config(dataDir, 100000))
		for _, f := range fm.GetAllFracs() {
			require.NotEqual(t, filepath.Base(base), f.Info().Name(), "the deleted fraction must not be loaded")
		}
		require.Equal(t, 0, f1213Fetch(t, fm))
		f1213Crash(fm)
		t.Logf("files of the deleted fraction after restart #%d: %v", restart, f1213Files(t, base))
	}

	if left := f1213Files(t, base); len(left) != 0 {
		t.Fatalf("F13: fraction %s was deleted by retention (Active.Suicide of a fraction re-activated next to its "+
			"published .index), but its files %v are still on disk after Suicide returned (%v) and after two restarts: "+
			"the loader only logs \"fraction doesn't have .docs/.sdocs file, skipping\" and nothing ever removes %s",
			filepath.Base(base), left, afterSuicide, base+left[0])
	}
}

func TestF12DocsReappearAfterCrashInSuicideOfReactivatedFraction(t *testing.T) {
	dataDir := common.GetTestTmpDir(t)
	common.RecreateDir(dataDir)
	defer common.RemoveDir(dataDir)

	fm2, base := f1213ReachReactivatedState(t, dataDir)

	if sealed := f1213SealedF(fm2, base); sealed != nil {
		// the loader took the published index: the deletion goes through Sealed.Suicide; die in the middle of it
		sealed.PartialSuicideMode = frac.HalfRename
		f1213Retention(t, fm2, base)
		f1213Crash(fm2)
	} else {
		// F.docs as it is when Active.Suicide starts
		docsBeforeSuicide, err := os.ReadFile(base + consts.DocsFileSuffix)
		require.NoError(t, err)

		// step 4 with the real code...
		f1213Retention(t, fm2, base)
		require.False(t, f1213Exists(t, base+consts.MetaFileSuffix), "Active.Suicide removes .meta")
		require.False(t, f1213Exists(t, base+consts.DocsFileSuffix), "Active.Suicide removes .docs")

		// ...but the process died inside Active.Suicide after removeMetaFile() and before removeDocsFiles() has
		// unlinked F.docs: undo the last step of Suicide
		f1213Crash(fm2)
		require.NoError(t, os.WriteFile(base+consts.DocsFileSuffix, docsBeforeSuicide, 0o666))
	}
	onDisk := f1213Files(t, base)
	t.Logf("files of the fraction when the process dies in the middle of the deletion: %v", onDisk)

	// ---- process #3: restart
	fm3 := f1213Start(t, f1213Config(dataDir, 100000))
	defer f1213Crash(fm3)

	loadedAs := "not loaded"
	for _, f := range fm3.GetAllFracs() {
		if f.Info().Name() == filepath.Base(base) {
			loadedAs = fmt.Sprintf("loaded as %T with %d docs", f, f.Info().DocsTotal)
		}
	}
	fetched := f1213Fetch(t, fm3)
	found := f1213Search(t, fm3)
	t.Logf("after the restart: fraction is %s; fetched %d docs, found %d docs; files %v",
		loadedAs, fetched, found, f1213Files(t, base))

	if fetched != 0 || found != 0 || loadedAs != "not loaded" {
		t.Fatalf("F12: the deletion of fraction %s had begun (Active.Suicide removed .meta, the docs were not served any "+
			"more), the process died before .docs was unlinked leaving %v on disk; after the restart the fraction is "+
			"loaded again (%s) and its documents reappeared: %d of %d fetched by ID, %d of %d found by search",
			filepath.Base(base), onDisk, loadedAs, fetched, f1213DocsCount, found, f1213DocsCount)
	}
	if left := f1213Files(t, base); len(left) != 0 {
		t.Fatalf("F12: the fraction is not served, but the restart has not finished its deletion off: %v left", left)
	}
}
