package storeapi

import (
	"context"
	"fmt"
	"testing"

	"github.com/stretchr/testify/require"
	"google.golang.org/grpc"

	"github.com/ozontech/seq-db/disk"
	"github.com/ozontech/seq-db/frac"
	"github.com/ozontech/seq-db/pkg/storeapi"
	"github.com/ozontech/seq-db/seq"
)

type findFEntry struct {
	id  seq.ID
	doc []byte
}

type findFStream struct {
	grpc.ServerStream
	ctx context.Context
	out []findFEntry
}

func (s *findFStream) Context() context.Context { return s.ctx }

func (s *findFStream) Send(m *storeapi.BinaryData) error {
	block := disk.DocBlock(m.Data)
	e := findFEntry{id: seq.ID{MID: seq.MID(block.GetExt1()), RID: seq.RID(block.GetExt2())}}
	if block.Len() > 0 {
		e.doc = append([]byte{}, block.Payload()...)
	}
	s.out = append(s.out, e)
	return nil
}

func findFDoc(id seq.ID) []byte {
	return []byte(fmt.Sprintf(`{"message":"doc-%d-%d"}`, id.MID, id.RID))
}

func findFBulk(t *testing.T, s *GrpcV1, ids []seq.ID) {
	dp := frac.NewDocProvider()
	for _, id := range ids {
		dp.Append(findFDoc(id), nil, id, seq.Tokens("_all_:", "service:demo"))
	}
	req := &storeapi.BulkRequest{Count: int64(len(ids))}
	req.Docs, req.Metas = dp.Provide()
	_, err := s.Bulk(context.Background(), req)
	require.NoError(t, err)
}

func findFFetch(t *testing.T, s *GrpcV1, ids []seq.ID) []findFEntry {
	req := &storeapi.FetchRequest{}
	for _, id := range ids {
		req.Ids = append(req.Ids, id.String())
	}
	stream := &findFStream{ctx: context.Background()}
	require.NoError(t, s.Fetch(req, stream))
	require.Equal(t, len(ids), len(stream.out))
	return stream.out
}


// F3: an absent id that is smaller than every id stored in a sealed fraction but carries the fraction's oldest
// timestamp (so the fraction is a candidate) must be "not found"; before the fix findLIDs indexed one past the id table.
func TestF3AbsentIDBelowEverythingInSealedFraction(t *testing.T) {
	s, waitIdle, release := getTestGrpc(t)
	defer release()
	var ids []seq.ID
	for mid := 10; mid <= 80; mid += 10 {
		ids = append(ids, seq.ID{MID: seq.MID(mid), RID: 7})
	}
	findFBulk(t, s, ids)
	waitIdle()
	s.fracManager.SealForcedForTests()
	waitIdle()

	req := []seq.ID{{MID: 80, RID: 7}, {MID: 10, RID: 3}, {MID: 10, RID: 7}}
	out := findFFetch(t, s, req)
	require.Equal(t, string(findFDoc(req[0])), string(out[0].doc))
	require.Nil(t, out[1].doc, "absent id must be not-found")
	require.Equal(t, string(findFDoc(req[2])), string(out[2].doc))
}

// F2: many absent ids plus a few tiny present documents: the chunk sizing divided by the average found-document size,
// which is 0 when found-bytes < requested-ids; the division happened in a goroutine without recover (process exit).
func TestF2ManyAbsentFewTinyDocs(t *testing.T) {
	s, waitIdle, release := getTestGrpc(t)
	defer release()
	present := seq.ID{MID: 50, RID: 7}
	findFBulk(t, s, []seq.ID{present, {MID: 10, RID: 7}, {MID: 5000, RID: 7}})
	waitIdle()

	var req []seq.ID
	req = append(req, present)
	for i := 0; i < 2500; i++ {
		req = append(req, seq.ID{MID: seq.MID(100 + i), RID: 1}) // inside the fraction's time range, absent
	}
	out := findFFetch(t, s, req)
	require.Equal(t, string(findFDoc(present)), string(out[0].doc))
	for i := 1; i < len(out); i++ {
		require.Nil(t, out[i].doc)
	}
}
