package kit

import (
	"fmt"
	"go/token"
	"go/types"
	"strings"

	"golang.org/x/tools/go/ssa"
)

// Scope computes the set of repo functions reachable from roots through static
// calls and nested closures, restricted to packages accepted by inPkg.
// (CHA is deliberately not used: io.Writer.Write would drag in the whole repo.)
func (p *Prog) Scope(roots []*ssa.Function, inPkg func(rel string) bool) []*ssa.Function {
	return p.scope(roots, inPkg, false)
}

// ScopeIfaces is Scope plus interface calls resolved to the methods of repo
// types (in accepted packages) that implement the interface.
func (p *Prog) ScopeIfaces(roots []*ssa.Function, inPkg func(rel string) bool) []*ssa.Function {
	return p.scope(roots, inPkg, true)
}

// Implementations returns the repo methods an interface call may dispatch to.
func (p *Prog) Implementations(c ssa.CallInstruction) []*ssa.Function {
	cc := c.Common()
	if !cc.IsInvoke() {
		return nil
	}
	iface, ok := cc.Value.Type().Underlying().(*types.Interface)
	if !ok {
		return nil
	}
	var out []*ssa.Function
	for _, fn := range p.Funcs {
		if fn.Signature.Recv() == nil || fn.Name() != cc.Method.Name() {
			continue
		}
		rt := fn.Signature.Recv().Type()
		if types.Implements(rt, iface) {
			out = append(out, fn)
		}
	}
	return out
}

func (p *Prog) scope(roots []*ssa.Function, inPkg func(rel string) bool, ifaces bool) []*ssa.Function {
	seen := map[*ssa.Function]bool{}
	var order []*ssa.Function
	var visit func(fn *ssa.Function)
	visit = func(fn *ssa.Function) {
		if fn == nil || seen[fn] || fn.Blocks == nil || !p.InRepo(fn) || !inPkg(PkgOf(fn)) {
			return
		}
		seen[fn] = true
		order = append(order, fn)
		for _, a := range fn.AnonFuncs {
			visit(a)
		}
		for _, c := range CallsIn(fn, nil) {
			visit(StaticCallee(c))
			if ifaces {
				for _, impl := range p.Implementations(c) {
					visit(impl)
				}
			}
			// function values passed as arguments (method values, named funcs)
			for _, a := range c.Common().Args {
				switch x := a.(type) {
				case *ssa.Function:
					visit(x)
				case *ssa.MakeClosure:
					if f, ok := x.Fn.(*ssa.Function); ok {
						visit(f)
					}
				}
			}
		}
	}
	for _, r := range roots {
		visit(r)
	}
	return order
}

var logOnly = map[string]bool{
	"logger.Error": true, "logger.Warn": true, "logger.Info": true, "logger.Debug": true,
	"logger.Errorf": true, "logger.Warnf": true, "logger.Infof": true,
	"(*go.uber.org/zap.Logger).Error": true, "(*go.uber.org/zap.Logger).Warn": true,
	"(*go.uber.org/zap.Logger).Info": true, "(*go.uber.org/zap.Logger).Debug": true,
	"(*go.uber.org/zap.SugaredLogger).Errorf": true, "(*go.uber.org/zap.SugaredLogger).Warnf": true,
	"(*go.uber.org/zap.SugaredLogger).Infof": true, "(*go.uber.org/zap.SugaredLogger).Error": true,
	"log.Printf": true, "log.Println": true, "log.Print": true,
	"fmt.Printf": true, "fmt.Println": true, "fmt.Print": true,
}

var compareOnly = map[string]bool{
	"errors.Is": true, "errors.As": true, "os.IsNotExist": true, "os.IsExist": true,
	"google.golang.org/grpc/status.Code": true, "google.golang.org/grpc/status.FromError": true,
	"google.golang.org/grpc/status.Convert": true,
}

// ErrUse is the verdict for one error-producing call site.
type ErrUse struct {
	Call       ssa.CallInstruction
	Propagates bool
	Why        string // how it propagates, or why it is considered swallowed
}

// ErrorUses classifies every error-returning call in fn.
func ErrorUses(fn *ssa.Function) []ErrUse {
	var out []ErrUse
	for _, c := range CallsIn(fn, nil) {
		sig := c.Common().Signature()
		res := sig.Results()
		if res.Len() == 0 || !IsErrorType(res.At(res.Len()-1).Type()) {
			continue
		}
		if _, isCall := c.(*ssa.Call); !isCall {
			// defer f() / go f(): the result is unobservable by construction
			out = append(out, ErrUse{Call: c, Propagates: false, Why: "error result of a deferred/go call is discarded"})
			continue
		}
		ev := ErrorResult(c)
		if ev == nil || len(*ev.Referrers()) == 0 {
			out = append(out, ErrUse{Call: c, Propagates: false, Why: "error result is discarded"})
			continue
		}
		ok, why := propagates(ev)
		out = append(out, ErrUse{Call: c, Propagates: ok, Why: why})
	}
	return out
}

func propagates(ev ssa.Value) (bool, string) {
	seen := map[ssa.Value]bool{}
	work := []ssa.Value{ev}
	onlyCompared := true
	for len(work) > 0 {
		v := work[len(work)-1]
		work = work[:len(work)-1]
		if seen[v] {
			continue
		}
		seen[v] = true
		refs := v.Referrers()
		if refs == nil {
			continue
		}
		for _, r := range *refs {
			switch x := r.(type) {
			case *ssa.Return:
				return true, "returned"
			case *ssa.Panic:
				return true, "panics with it"
			case *ssa.Send:
				return true, "sent on a channel"
			case *ssa.MapUpdate:
				return true, "stored in a map"
			case *ssa.MakeClosure:
				return true, "captured by a closure"
			case *ssa.Store:
				if x.Val != v {
					continue
				}
				if base := localTempBase(x.Addr); base != nil {
					work = append(work, base)
					continue
				}
				if al, ok := x.Addr.(*ssa.Alloc); ok && !capturedByClosure(al) {
					// plain local whose address is taken: follow its loads
					for _, rr := range *al.Referrers() {
						if u, ok := rr.(*ssa.UnOp); ok && u.Op == token.MUL {
							work = append(work, u)
						}
						if _, ok := rr.(*ssa.Return); ok {
							return true, "returned"
						}
					}
					// result spill slot "*t0 = err; rundefers; return *t0"
					continue
				}
				return true, "stored in a carrier (" + Short(x.Addr.String()) + ")"
			case *ssa.Phi, *ssa.MakeInterface, *ssa.ChangeInterface, *ssa.ChangeType, *ssa.Convert, *ssa.TypeAssert, *ssa.Extract, *ssa.Slice, *ssa.Field:
				work = append(work, x.(ssa.Value))
			case *ssa.UnOp:
				work = append(work, x)
			case *ssa.IndexAddr, *ssa.FieldAddr:
				work = append(work, x.(ssa.Value))
			case *ssa.BinOp:
				if x.Op == token.EQL || x.Op == token.NEQ {
					if controlPropagates(x, v) {
						return true, "failure branch returns an error / is fatal"
					}
					continue
				}
				work = append(work, x)
			case *ssa.If:
				continue
			case ssa.CallInstruction:
				name := CallName(x)
				if IsFatalCall(x) {
					return true, "passed to fatal sink " + name
				}
				if logOnly[name] {
					continue
				}
				if compareOnly[name] {
					// errors.Is(err, X) used as a branch condition
					if val := x.Value(); val != nil {
						for _, rr := range *val.Referrers() {
							if _, ok := rr.(*ssa.If); ok && branchPropagates(rr.(*ssa.If)) {
								return true, "classified by " + name + ", branch returns an error"
							}
						}
					}
					continue
				}
				if _, isCall := x.(*ssa.Call); !isCall {
					return true, "handed to deferred/go " + name
				}
				if val := x.Value(); val != nil && x.Common().Signature().Results().Len() > 0 {
					onlyCompared = false
					work = append(work, val)
					continue
				}
				return true, "handed to " + name
			}
		}
	}
	_ = onlyCompared
	return false, "error is only compared/logged: no return, store, send, wrap or fatal sink uses it"
}

func capturedByClosure(al *ssa.Alloc) bool {
	for _, r := range *al.Referrers() {
		if _, ok := r.(*ssa.MakeClosure); ok {
			return true
		}
	}
	return false
}

// localTempBase: addr is an element/field address of a function-local
// temporary (varargs array, composite literal): taint continues on the temporary.
func localTempBase(addr ssa.Value) ssa.Value {
	switch a := addr.(type) {
	case *ssa.IndexAddr:
		if al, ok := a.X.(*ssa.Alloc); ok {
			return al
		}
	case *ssa.FieldAddr:
		if al, ok := a.X.(*ssa.Alloc); ok && !capturedByClosure(al) && strings.Contains(al.Comment, "complit") {
			return al
		}
	}
	return nil
}

// controlPropagates: cmp is `ev ==/!= nil`; the branch taken when ev != nil
// ends in an error return (definitely non-nil operand) or a fatal sink on
// every return it dominates.
func controlPropagates(cmp *ssa.BinOp, ev ssa.Value) bool {
	if !IsNilConst(cmp.X) && !IsNilConst(cmp.Y) {
		return false
	}
	for _, r := range *cmp.Referrers() {
		ifi, ok := r.(*ssa.If)
		if !ok {
			continue
		}
		b := ifi.Block()
		var fail *ssa.BasicBlock
		if cmp.Op == token.NEQ {
			fail = b.Succs[0]
		} else {
			fail = b.Succs[1]
		}
		if len(fail.Preds) != 1 {
			continue
		}
		if regionFails(fail) {
			return true
		}
	}
	return false
}

func branchPropagates(ifi *ssa.If) bool {
	b := ifi.Block()
	for _, s := range b.Succs {
		if len(s.Preds) == 1 && regionFails(s) {
			return true
		}
	}
	return false
}

// regionFails: every Return in the region dominated by start carries a
// definitely-non-nil error, or the region ends in a fatal sink; at least one such exit exists.
func regionFails(start *ssa.BasicBlock) bool {
	fn := start.Parent()
	idx := ErrorResultIndex(fn)
	exits, bad := 0, 0
	for _, b := range fn.Blocks {
		if b != start && !start.Dominates(b) {
			continue
		}
		for _, in := range b.Instrs {
			if IsFatalInstr(in) {
				exits++
			}
		}
	}
	if idx >= 0 {
		for _, rp := range ReturnPaths(fn, idx) {
			if rp.At != start && !start.Dominates(rp.At) {
				continue
			}
			if DefinitelyNonNil(rp.Val, rp.Facts) {
				exits++
			} else {
				bad++
			}
		}
	}
	if idx < 0 {
		// comma-ok style: a function without an error result that answers (..., false) on the failure branch
		// reports the failure to its caller, which takes another way
		res := fn.Signature.Results()
		if n := res.Len(); n > 0 {
			if bt, ok := res.At(n - 1).Type().Underlying().(*types.Basic); ok && bt.Kind() == types.Bool {
				for _, b := range fn.Blocks {
					if b != start && !start.Dominates(b) {
						continue
					}
					ret, ok := b.Instrs[len(b.Instrs)-1].(*ssa.Return)
					if !ok || len(ret.Results) != n {
						continue
					}
					if k, isK := ConstBool(ret.Results[n-1]); isK && !k {
						exits++
					} else {
						bad++
					}
				}
			}
		}
	}
	return exits > 0 && bad == 0
}

// ErrFlowAllow is a frozen exception: in function Func, the error of calls to
// Callee may be dropped, for the stated reason.
type ErrFlowAllow struct {
	Func, Callee, Reason string
}

// ErrFlowCheck applies the error discipline to every function in scope.
func ErrFlowCheck(c *Ctx, scope []*ssa.Function, allow []ErrFlowAllow) {
	al := map[string]string{}
	for _, a := range allow {
		al[a.Func+"|"+a.Callee] = a.Reason
	}
	used := map[string]bool{}
	for _, fn := range scope {
		occ := map[string]int{}
		for _, u := range ErrorUses(fn) {
			name := CallName(u.Call)
			occ[name]++
			key := FuncName(fn) + "|" + name
			if u.Propagates {
				c.Site(u.Call.Pos(), "%s: error of %s %s", FuncName(fn), name, u.Why)
				continue
			}
			if why, ok := al[key]; ok {
				used[key] = true
				c.Site(u.Call.Pos(), "%s: error of %s may be dropped (%s)", FuncName(fn), name, why)
				continue
			}
			c.Violation(fmt.Sprintf("errflow:%s:%s#%d", FuncName(fn), name, occ[name]), u.Call.Pos(), "in %s the error of %s is swallowed: %s", FuncName(fn), name, u.Why)
		}
	}
	c.Count("functions_in_scope", len(scope))
}

// ErrPathCheck is the path-sensitive half of the error discipline: in a
// function that handles an error by returning (the error itself is returned
// somewhere, or its failure branch returns an error), no return path that is
// dominated by the call may report success unless the error was tested == nil
// on that path, classified as benign (== sentinel / errors.Is), or is the value returned.
func ErrPathCheck(c *Ctx, scope []*ssa.Function, allow []ErrFlowAllow) {
	al := map[string]string{}
	for _, a := range allow {
		al[a.Func+"|"+a.Callee] = a.Reason
	}
	for _, fn := range scope {
		idx := ErrorResultIndex(fn)
		if idx < 0 {
			continue
		}
		paths := ReturnPaths(fn, idx)
		occ := map[string]int{}
		for _, u := range ErrorUses(fn) {
			name := CallName(u.Call)
			occ[name]++
			if !u.Propagates || !(u.Why == "returned" || strings.HasPrefix(u.Why, "failure branch")) {
				continue
			}
			if _, ok := al[FuncName(fn)+"|"+name]; ok {
				continue
			}
			ev := ErrorResult(u.Call)
			ci := u.Call.(ssa.Instruction)
			bad := false
			for _, rp := range paths {
				if DefinitelyNonNil(rp.Val, rp.Facts) {
					continue
				}
				if !(ci.Block() == rp.At || ci.Block().Dominates(rp.At)) {
					continue
				}
				if ci.Block() == rp.At && rp.Ret.Block() == rp.At && InstrIndex(ci) > InstrIndex(rp.Ret) {
					continue
				}
				if SameValue(rp.Val, ev) || KnownNil(rp.Facts, ev) || benignFact(rp.Facts, ev) || DerivesFrom(rp.Val, func(v ssa.Value) bool { return v == ev }) {
					continue
				}
				// the call is in a loop and the return is outside it: a later iteration's value shadows this one
				if InLoop(ci.Block()) && !InLoop(rp.At) && loopCarried(ci, rp) {
					continue
				}
				bad = true
				c.Violation(fmt.Sprintf("errpath:%s:%s#%d", FuncName(fn), name, occ[name]), rp.Ret.Pos(),
					"%s can return success (operand %s) on a path where %s ran and its error was neither tested == nil nor returned", FuncName(fn), Short(rp.Val.String()), name)
			}
			if !bad {
				c.Site(u.Call.Pos(), "%s: every success return after %s is dominated by its err == nil", FuncName(fn), name)
			}
		}
	}
}

// benignFact: the path established ev == <sentinel> or errors.Is(ev, X) == true.
func benignFact(facts []Fact, ev ssa.Value) bool {
	for _, f := range facts {
		switch x := f.Cond.(type) {
		case *ssa.BinOp:
			if (x.Op == token.EQL && f.Val || x.Op == token.NEQ && !f.Val) && !IsNilConst(x.X) && !IsNilConst(x.Y) {
				if SameValue(x.X, ev) || SameValue(x.Y, ev) {
					return true
				}
			}
		case *ssa.Call:
			if f.Val && compareOnly[CallName(x)] {
				for _, a := range x.Call.Args {
					if SameValue(a, ev) {
						return true
					}
				}
			}
		}
	}
	return false
}

// loopCarried: every edge leaving the loop that contains ci towards rp passes a test of ev.
func loopCarried(ci ssa.Instruction, rp RetPath) bool {
	// conservative: accept when some If inside the call's loop tests ev against nil
	ev := ErrorResult(ci.(ssa.CallInstruction))
	if ev == nil {
		return false
	}
	for _, r := range *ev.Referrers() {
		if bo, ok := r.(*ssa.BinOp); ok && (IsNilConst(bo.X) || IsNilConst(bo.Y)) {
			if controlPropagates(bo, ev) {
				return true
			}
		}
	}
	return false
}
