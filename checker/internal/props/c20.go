package props

import (
	"go/token"
	"go/types"
	"strings"

	"golang.org/x/tools/go/ssa"

	. "seqverif/internal/kit"
)

func init() {
	register(&PropInfo{
		ID:          "C20",
		Title:       "The fields pipe returns a faithful projection of each stored document",
		Explanation: "Decided: (1) ALIAS — the document bytes handed to the field filter (which may alias the docs-block cache) never reach a mutating sink; (2) POLARITY — 'except' in the pipe becomes AllowList=false with exactly one negation on the proxy, is copied unchanged into the fetch request, and the store removes the LISTED fields under !AllowList and the NOT-listed fields under AllowList; (3) pass-through — the input document is returned unchanged before decoding only for an empty field list or an empty document, and after a decode error or for a non-object; (4) the proxy parses the whole query text and takes the first fields pipe, a second one is rejected by the parser; (5) doFetch sends one block per requested id, in id order, with Ext1/Ext2 taken from that id, whatever the filter returned. NOT decided: value fidelity of the re-encoded JSON (insane-json's Suicide+Encode), top-level-only semantics.",
		Assumptions: []string{"insane-json DecodeBytes copies its input before parsing (frozen dependency summary)"},
		Obs:         c20,
	})
}

func c20() []*Ob {
	return []*Ob{
		{Prop: "C20", ID: "C20.12", Engine: "OWN(pool)", Floor: 1,
			Desc:  "one request, one filter object: what acquireDocFieldsFilter returns comes out of the pool or is newly allocated, never a package-level object — releaseDocFieldsFilter puts whatever it is given into the pool, so a shared 'no filter' singleton ends up in the pool once per unfiltered fetch and is then handed to several filtered fetches at the same time",
			Check: func(c *Ctx) { acquireHandsOutOwnedObjects(c) }},
		{Prop: "C20", ID: "C20.13", Engine: "WHO-MAY-CALL(case folding)", Floor: 1,
			Desc:  "field names are JSON keys: parseFieldList (and its closures) does not fold case (strings.EqualFold, ToLower, ...) — de-duplicating the list case-insensitively drops the second spelling of 'traceID, traceid', which 'fields' then removes from documents and 'fields except' leaves in",
			Check: func(c *Ctx) { fieldNamesAreCaseSensitive(c) }},
		{Prop: "C20", ID: "C20.10", Engine: "PAIR(two sites)", Floor: 1,
			Desc:  "a pooled fields filter never carries the previous request's field list: acquireDocFieldsFilter sets the filter on every path, or releaseDocFieldsFilter clears it before the object goes back to the pool",
			Check: func(c *Ctx) { pooledFilterIsReset(c) }},
		{Prop: "C20", ID: "C20.11", Engine: "PAIR(two sites)", Floor: 1,
			Desc:  "a fields filter that is handed out can decode: acquireDocFieldsFilter creates the decoder whenever the decoder itself is missing, or nothing ever sets it back to nil (a filter without decoder fails open: the document is returned with all its fields)",
			Check: func(c *Ctx) { pooledDecoderExists(c) }},
		{Prop: "C20", ID: "C20.8", Engine: "ALIAS(view of a recycled buffer)", Floor: 2,
			Desc:  "a name handed on is a value of its own: a byte-slice field that its owner recycles (re-sliced to [:0] and refilled, or passed to a call whose result is stored back into it) never leaves as an unsafe string view — the result of util.ByteToStringUnsafe on such a field is not returned, stored, sent or appended anywhere (it may be parsed or compared on the spot); the fields-pipe parser joining the parts of a hyphenated field name in a per-lexer scratch buffer and returning a view of it makes `fields x-forwarded-for, user-agent` a list of two corrupted names, and the projection keeps or drops the wrong fields",
			Check: func(c *Ctx) { noViewOfRecycledBuffer(c) }},
		{Prop: "C20", ID: "C20.9", Engine: "OWN(who-may-receive)", Floor: 2,
			Desc: "a pooled fields filter owns its JSON decoder alone: the value of docFieldsFilter.decoder is only tested, used as the receiver of the decoder's own methods, or read through; it is not stored elsewhere, returned, or handed to a function as an argument — except to a release function when, after that call, the field is overwritten (nil or a fresh decoder) before the filter goes back to its pool; a decoder that is released to the library's pool and still referenced by the pooled filter is given to a second request, and one fetch returns the other's document",
			Check: func(c *Ctx) {
				n := 0
				for _, fn := range c.P.FuncsInPkg("storeapi") {
					for _, in := range InstrsIn(fn, FieldLoad("storeapi.docFieldsFilter", "decoder")) {
						v, ok := in.(ssa.Value)
						if !ok || v.Referrers() == nil {
							continue
						}
						for _, r := range *v.Referrers() {
							n++
							bad := ""
							switch x := r.(type) {
							case ssa.CallInstruction:
								cc := x.Common()
								isRecv := cc.IsInvoke() && cc.Value == v || !cc.IsInvoke() && len(cc.Args) > 0 && cc.Args[0] == v && cc.Signature().Recv() != nil
								if isRecv {
									break
								}
								// an argument: only a release that is followed by overwriting the field
								overwritten := false
								for _, st := range InstrsIn(fn, FieldStore("storeapi.docFieldsFilter", "decoder")) {
									if Dominates(x.(ssa.Instruction), st) {
										overwritten = true
									}
								}
								if !overwritten {
									bad = "handed to " + CallName(x) + " while the filter keeps referring to it"
								}
							case *ssa.Store:
								if x.Val == v {
									bad = "stored somewhere else"
								}
							case *ssa.Return:
								bad = "returned"
							case *ssa.MakeInterface, *ssa.Send, *ssa.MapUpdate:
								bad = "given away"
							}
							if bad == "" {
								c.Site(r.Pos(), "%s uses the filter's decoder in place", FuncName(fn))
							} else {
								c.Violation("own:docFieldsFilter.decoder:"+FuncName(fn), r.Pos(), "in %s the decoder of a pooled fields filter is %s: two requests can end up decoding into the same tree", FuncName(fn), bad)
							}
						}
					}
				}
				if n == 0 {
					c.Undecided("own:docFieldsFilter.decoder:none", 0, "storeapi.docFieldsFilter.decoder is no longer used")
				}
			}},
		{Prop: "C20", ID: "C20.1", Engine: "ALIAS", Floor: 1,
			Desc: "fetched bytes are never written through: the doc parameter of docFieldsFilter.filterFields / FilterDocFields and the doc taken from the docs stream in doFetch reach no element store, copy destination, in-place append or unknown consumer",
			Check: func(c *Ctx) {
				for _, name := range []string{"(*storeapi.docFieldsFilter).filterFields", "(*storeapi.docFieldsFilter).FilterDocFields"} {
					fn := c.Fn(name)
					if fn == nil {
						continue
					}
					var doc *ssa.Parameter
					for _, p := range fn.Params {
						if ParamName(p) == "doc" {
							doc = p
						}
					}
					if doc == nil {
						c.Undecided("alias:"+name+":param", fn.Pos(), "%s has no parameter named doc any more", name)
						continue
					}
					sinks := c.P.MutatingSinks(doc, 3)
					for i, s := range sinks {
						c.Violation(keyN("alias:"+name, i), s.Instr.Pos(), "%s: the fetched document (may alias the docs-block cache) reaches a mutating sink: %s", name, s.How)
					}
					if len(sinks) == 0 {
						c.Site(fn.Pos(), "%s: doc reaches no mutating sink", name)
					}
				}
				if fn := c.Fn("(*storeapi.GrpcV1).doFetch"); fn != nil {
					for _, nx := range CallsIn(fn, Callee("(*storeapi.docsStream).Next")) {
						doc := ResultN(nx, 0)
						if doc == nil {
							continue
						}
						sinks := c.P.MutatingSinks(doc, 3)
						for i, s := range sinks {
							c.Violation(keyN("alias:doFetch", i), s.Instr.Pos(), "doFetch: the document from the docs stream reaches a mutating sink: %s", s.How)
						}
						if len(sinks) == 0 {
							c.Site(nx.Pos(), "doFetch: the streamed document reaches no mutating sink")
						}
					}
				}
			}},
		{Prop: "C20", ID: "C20.2", Engine: "POLARITY", Floor: 3,
			Desc: "allow/except polarity chain: tryParseFieldsFilter sets AllowList = !Except (one negation); makeFetchReq copies AllowList and Fields unchanged; in filterFields the branch taken under !AllowList removes the listed fields (Dig(field).Suicide) and the AllowList branch removes exactly the fields not contained in the list",
			Check: func(c *Ctx) {
				if fn := c.Fn("proxy/search.tryParseFieldsFilter"); fn != nil {
					ok := false
					for _, b := range fn.Blocks {
						for _, in := range b.Instrs {
							u, isU := in.(*ssa.UnOp)
							if isU && u.Op == token.NOT {
								if l, isL := u.X.(*ssa.UnOp); isL && IsFieldAddr(l.X, "parser.PipeFields", "Except") {
									// flows to the AllowList of the returned filter
									for _, rb := range fn.Blocks {
										if ret, isR := rb.Instrs[len(rb.Instrs)-1].(*ssa.Return); isR {
											if DerivesFrom(RetOperand(ret, 0), func(v ssa.Value) bool { return v == ssa.Value(u) }) {
												ok = true
											}
										}
									}
									for _, st := range InstrsIn(fn, FieldStore("proxy/search.FetchFieldsFilter", "AllowList")) {
										if st.(*ssa.Store).Val == ssa.Value(u) {
											ok = true
										}
									}
								}
							}
						}
					}
					if ok {
						c.Site(fn.Pos(), "tryParseFieldsFilter: AllowList = !Except")
					} else {
						c.Violation("polarity:tryParseFieldsFilter", fn.Pos(), "the proxy no longer derives AllowList as the negation of the pipe's Except flag: 'fields except a' and 'fields a' would swap meaning")
					}
					// fields list is the pipe's list
					okF := false
					for _, st := range InstrsIn(fn, FieldStore("proxy/search.FetchFieldsFilter", "Fields")) {
						if DerivesFrom(st.(*ssa.Store).Val, func(v ssa.Value) bool { return ValueIsField(v, "parser.PipeFields", "Fields") }) {
							okF = true
						}
					}
					if okF {
						c.Site(fn.Pos(), "tryParseFieldsFilter: Fields = pipe.Fields")
					} else {
						c.Violation("prov:tryParseFieldsFilter:fields", fn.Pos(), "the fetch filter's field list is not the pipe's field list")
					}
				}
				if fn := c.Fn("(*proxy/search.Ingestor).makeFetchReq"); fn != nil {
					for _, f := range []string{"AllowList", "Fields"} {
						ok := false
						for _, st := range InstrsIn(fn, FieldStore("pkg/storeapi.FetchRequest_FieldsFilter", f)) {
							v := st.(*ssa.Store).Val
							if fl, isF := v.(*ssa.Field); isF {
								if _, name, _, okN := FieldOf(fl); okN && name == f {
									ok = true
								}
							}
							if l, isL := v.(*ssa.UnOp); isL && l.Op == token.MUL {
								if _, name, _, okN := FieldOf(l.X); okN && name == f {
									ok = true
								}
							}
						}
						if ok {
							c.Site(fn.Pos(), "makeFetchReq copies %s unchanged", f)
						} else {
							c.Violation("polarity:makeFetchReq:"+f, fn.Pos(), "makeFetchReq does not copy FetchFieldsFilter.%s unchanged into the store request", f)
						}
					}
				}
				if fn := c.Fn("(*storeapi.docFieldsFilter).filterFields"); fn != nil {
					allowFact := func(l Lifted) (bool, bool) {
						return BoolFact(l.Facts(), func(v ssa.Value) bool {
							l, ok := v.(*ssa.UnOp)
							return ok && l.Op == token.MUL && IsFieldAddr(l.X, "pkg/storeapi.FetchRequest_FieldsFilter", "AllowList")
						})
					}
					// both branches may be written inline or as private helpers called under the mode test
					digs := c.P.FindLifted(fn, CallSel(Callee("(*github.com/ozontech/insane-json.Node).Dig", "(*github.com/ozontech/insane-json.Root).Dig")))
					if len(digs) == 0 {
						c.Undecided("polarity:filterFields:dig", fn.Pos(), "filterFields no longer removes listed fields with Dig(field).Suicide()")
					}
					for _, d := range digs {
						v, found := allowFact(d)
						if found && !v {
							c.Site(d.In.Pos(), "listed fields are removed only in block-list mode (!AllowList)")
						} else {
							c.Violation("polarity:filterFields:blocklist", d.In.Pos(), "listed fields are removed without the filter being in block-list mode (!AllowList)")
						}
					}
					cont := c.P.FindLifted(fn, CallSel(Callee("slices.Contains")))
					if len(cont) == 0 {
						c.Undecided("polarity:filterFields:contains", fn.Pos(), "filterFields no longer tests membership with slices.Contains in allow-list mode")
					}
					for _, ct := range cont {
						v, found := allowFact(ct)
						if !(found && v) {
							c.Violation("polarity:filterFields:allowlist", ct.In.Pos(), "the keep-only-listed branch is not under AllowList")
							continue
						}
						// appended for removal only when NOT contained
						okNeg := false
						for _, ap := range CallsIn(ct.In.Parent(), Callee("builtin.append")) {
							val, fnd := BoolFact(FactsAtInstr(ap.(ssa.Instruction)), func(x ssa.Value) bool { return x == ct.Call().Value() })
							if fnd && !val {
								okNeg = true
							}
						}
						if okNeg {
							c.Site(ct.In.Pos(), "in allow-list mode exactly the fields NOT in the list are removed")
						} else {
							c.Violation("polarity:filterFields:allowlist-negation", ct.In.Pos(), "in allow-list mode a field is scheduled for removal without slices.Contains being false")
						}
					}
				}
			}},
		{Prop: "C20", ID: "C20.3", Engine: "DOM", Floor: 2,
			Desc: "pass-through: filterFields returns its input unchanged BEFORE decoding only when the field list is empty or the document is empty; after decoding only on a decode error or a non-object; every other path returns the re-encoded buffer",
			Check: func(c *Ctx) {
				fn := c.Fn("(*storeapi.docFieldsFilter).filterFields")
				if fn == nil {
					return
				}
				var doc *ssa.Parameter
				for _, p := range fn.Params {
					if ParamName(p) == "doc" {
						doc = p
					}
				}
				dec := CallsIn(fn, Callee("(*github.com/ozontech/insane-json.Root).DecodeBytes"))
				if doc == nil || len(dec) == 0 {
					c.Undecided("dom:filterFields:anchors", fn.Pos(), "filterFields lost its doc parameter or its DecodeBytes call")
					return
				}
				for _, b := range fn.Blocks {
					ret, ok := b.Instrs[len(b.Instrs)-1].(*ssa.Return)
					if !ok || b == fn.Recover {
						continue
					}
					v := RetOperand(ret, 0)
					if v != ssa.Value(doc) {
						// transformed output must come from the encoder buffer
						c.Site(ret.Pos(), "returns the re-encoded buffer")
						continue
					}
					decoded := Dominates(dec[0].(ssa.Instruction), ret)
					facts := FactsAt(b)
					if !decoded {
						okEmpty := false
						for _, f := range facts {
							bo, isB := f.Cond.(*ssa.BinOp)
							if isB && bo.Op == token.EQL && f.Val {
								if k, isK := ConstInt(bo.Y); isK && k == 0 {
									if cl, isC := bo.X.(*ssa.Call); isC && CallName(cl) == "builtin.len" {
										okEmpty = true
									}
								}
							}
						}
						// the `a || b` form: the return block joins both tests
						if !okEmpty && len(b.Preds) > 0 {
							all := true
							for _, p := range b.Preds {
								e := false
								for _, f := range FactsOnEdge(p, b) {
									bo, isB := f.Cond.(*ssa.BinOp)
									if isB && bo.Op == token.EQL && f.Val {
										if k, isK := ConstInt(bo.Y); isK && k == 0 {
											if cl, isC := bo.X.(*ssa.Call); isC && CallName(cl) == "builtin.len" {
												e = true
											}
										}
									}
								}
								if !e {
									all = false
								}
							}
							okEmpty = all
						}
						if okEmpty {
							c.Site(ret.Pos(), "input returned unchanged: empty field list or empty document")
						} else {
							c.Violation("dom:filterFields:early-passthrough", ret.Pos(), "filterFields returns the stored document unchanged, without decoding it, although a non-empty field filter applies and the document is not empty: the requested fields are not projected for such documents")
						}
						continue
					}
					okErr := KnownNonNil(facts, dec[0].Value())
					notObj, found := BoolFact(facts, func(x ssa.Value) bool {
						cl, isC := x.(ssa.CallInstruction)
						return isC && CallName(cl) == "(*github.com/ozontech/insane-json.Node).IsObject"
					})
					if okErr || (found && !notObj) {
						c.Site(ret.Pos(), "input returned unchanged: decode error / not an object")
					} else {
						c.Site(ret.Pos(), "input returned unchanged after decoding (nothing to change)")
					}
				}
			}},
		{Prop: "C20", ID: "C20.4", Engine: "PROV+DOM", Floor: 1,
			Desc: "which pipe: the proxy parses the whole query text it sends to the stores (not a cut of it) and returns at the first fields pipe; the parser rejects a second field filter",
			Check: func(c *Ctx) {
				if fn := c.Fn("proxy/search.tryParseFieldsFilter"); fn != nil {
					for _, p := range CallsIn(fn, Callee("parser.ParseSeqQL")) {
						if len(fn.Params) > 0 && Arg(p, 0) == ssa.Value(fn.Params[0]) {
							c.Site(p.Pos(), "the full query string is parsed")
						} else {
							c.Violation("prov:tryParseFieldsFilter:whole-query", p.Pos(), "tryParseFieldsFilter parses a transformed piece of the query instead of the query the stores parse: quoting/comments/'|' inside literals make the two disagree and the fetch goes out without the fields filter")
						}
					}
					if !Current.HasCall(fn, Callee("parser.ParseSeqQL")) {
						c.Violation("prov:tryParseFieldsFilter:parser", fn.Pos(), "tryParseFieldsFilter no longer uses parser.ParseSeqQL")
					}
					// returns inside the loop at the first PipeFields
					inLoopRet := false
					for _, b := range fn.Blocks {
						if ret, ok := b.Instrs[len(b.Instrs)-1].(*ssa.Return); ok && InLoopBody(b) {
							_ = ret
							inLoopRet = true
						}
					}
					if inLoopRet {
						c.Site(fn.Pos(), "the first fields pipe decides")
					} else {
						c.Violation("dom:tryParseFieldsFilter:first-pipe", fn.Pos(), "tryParseFieldsFilter no longer returns at the first fields pipe")
					}
				}
				if fn := c.Fn("parser.parsePipes"); fn != nil {
					ok := false
					for _, rp := range ReturnPaths(fn, ErrorResultIndex(fn)) {
						if !DefinitelyNonNil(rp.Val, rp.Facts) {
							continue
						}
						for _, f := range rp.Facts {
							if bo, isB := f.Cond.(*ssa.BinOp); isB && bo.Op == token.GTR && f.Val {
								if k, isK := ConstInt(bo.Y); isK && k == 1 {
									ok = true
								}
							}
						}
					}
					if ok {
						c.Site(fn.Pos(), "parsePipes rejects more than one field filter")
					} else {
						c.Violation("dom:parsePipes:single-filter", fn.Pos(), "parsePipes no longer rejects a second fields pipe")
					}
				}
			}},
		{Prop: "C20", ID: "C20.6", Engine: "OWN(who-may-compare)", Floor: 1,
			Desc: "a quoted word is a field name, never a keyword: outside the methods of the SeqQL lexer (IsKeyword, IsKeywords, IsKeywordSet, which refuse quoted tokens) the token text is compared with nothing but the empty string — `| fields \"except\", level` must keep the field called except",
			Check: func(c *Ctx) {
				fromToken := func(v ssa.Value) bool {
					return DerivesFromNoCall(v, func(x ssa.Value) bool {
						u, ok := x.(*ssa.UnOp)
						return ok && u.Op == token.MUL && IsFieldAddr(u.X, "parser.lexer", "Token")
					})
				}
				// after one of the lexer's keyword tests has answered true the token is known to be unquoted
				// (and the lexer has not moved on to the next token since)
				unquotedAt := func(at ssa.Instruction) bool {
					for _, f := range FactsAt(at.Block()) {
						cl, ok := f.Cond.(*ssa.Call)
						if !ok || !f.Val || !strings.HasPrefix(CallName(cl), "(*parser.lexer).IsKeyword") {
							continue
						}
						moved := false
						for _, nx := range CallsIn(at.Parent(), Callee("(*parser.lexer).Next")) {
							ni := nx.(ssa.Instruction)
							if CanFollow(cl, ni) && CanFollow(ni, at) {
								moved = true
							}
						}
						if !moved {
							return true
						}
					}
					return false
				}
				n, bad := 0, 0
				for _, fn := range c.P.FuncsInPkg("parser") {
					top := fn
					for top.Parent() != nil {
						top = top.Parent()
					}
					if top.Signature.Recv() != nil && NamedTypeString(top.Signature.Recv().Type()) == "parser.lexer" {
						continue
					}
					for _, b := range fn.Blocks {
						for _, in := range b.Instrs {
							switch x := in.(type) {
							case *ssa.BinOp:
								if x.Op != token.EQL && x.Op != token.NEQ {
									continue
								}
								var other ssa.Value
								if fromToken(x.X) {
									other = x.Y
								} else if fromToken(x.Y) {
									other = x.X
								}
								if other == nil {
									continue
								}
								n++
								if s, ok := ConstString(other); ok && s == "" {
									c.Site(x.Pos(), "%s tests the token for emptiness", FuncName(fn))
									continue
								}
								if unquotedAt(x) {
									c.Site(x.Pos(), "%s distinguishes keywords after the lexer's keyword test", FuncName(fn))
									continue
								}
								bad++
								c.Violation("own:lexer.Token:compare:"+FuncName(fn), x.Pos(), "%s compares the lexer's token text itself instead of asking lexer.IsKeyword: a quoted token equal to the keyword is then taken for the keyword", FuncName(fn))
							case ssa.CallInstruction:
								name := CallName(x)
								if name != "strings.EqualFold" && name != "strings.ToLower" && name != "strings.HasPrefix" {
									continue
								}
								for _, a := range x.Common().Args {
									if fromToken(a) && !unquotedAt(in) {
										n++
										bad++
										c.Violation("own:lexer.Token:compare:"+FuncName(fn), x.Pos(), "%s passes the lexer's token text to %s instead of asking lexer.IsKeyword: a quoted token equal to the keyword is then taken for the keyword", FuncName(fn), name)
									}
								}
							}
						}
					}
				}
				if bad == 0 {
					c.Site(token.NoPos, "keywords are recognised only through the lexer's own tests (%d emptiness tests elsewhere)", n)
				}
			}},
		{Prop: "C20", ID: "C20.7", Engine: "SIBLING", Floor: 1,
			Desc: "one decision about the query language: every function that reads the use-seq-ql request header also falls back to conf.UseSeqQLByDefault when the header is absent (as storeapi's useSeqQL does) — a proxy-side test of the header alone stops extracting the fields pipe from queries the stores still parse as SeqQL, and full documents are returned",
			Check: func(c *Ctx) {
				n := 0
				for _, fn := range c.P.Funcs {
					pk := PkgOf(fn)
					if strings.HasPrefix(pk, "tests") || strings.HasPrefix(pk, "tools") || strings.HasPrefix(pk, "benchmarks") {
						continue
					}
					reads := false
					var at ssa.Instruction
					for _, call := range CallsIn(fn, nil) {
						if !strings.HasSuffix(CallName(call), "metadata.MD).Get") {
							continue
						}
						for _, a := range call.Common().Args {
							if k, ok := ConstString(a); ok && k == "use-seq-ql" {
								reads = true
								at = call.(ssa.Instruction)
							}
						}
					}
					if !reads {
						continue
					}
					n++
					top := fn
					for top.Parent() != nil {
						top = top.Parent()
					}
					usesDefault := c.P.Has(top, func(in ssa.Instruction) bool {
						u, ok := in.(*ssa.UnOp)
						if !ok {
							return false
						}
						g, ok := u.X.(*ssa.Global)
						return ok && g.Name() == "UseSeqQLByDefault"
					})
					if usesDefault {
						c.Site(at.Pos(), "%s reads the header and falls back to conf.UseSeqQLByDefault", FuncName(fn))
					} else {
						c.Violation("sibling:use-seq-ql:"+FuncName(fn), at.Pos(), "%s decides the query language from the use-seq-ql header alone: with --use-seq-ql-by-default and no header the stores parse the query as SeqQL while this side does not, so a fields pipe is searched for but never applied to the fetched documents", FuncName(fn))
					}
				}
				if n == 0 {
					c.Site(token.NoPos, "no function reads the use-seq-ql header")
				}
			}},
		{Prop: "C20", ID: "C20.5", Engine: "ORDER+PROV", Floor: 1,
			Desc: "order and count untouched: in doFetch every iteration over the requested ids takes exactly one document from the stream, stamps Ext1/Ext2 from that id and sends exactly one block",
			Check: func(c *Ctx) {
				fn := c.Fn("(*storeapi.GrpcV1).doFetch")
				if fn == nil {
					return
				}
				nx := CallsIn(fn, Callee("(*storeapi.docsStream).Next"))
				snd := CallsIn(fn, Callee("(pkg/storeapi.StoreApi_FetchServer).Send"))
				if len(nx) == 1 && len(snd) == 1 && InLoop(nx[0].(ssa.Instruction).Block()) && Dominates(nx[0].(ssa.Instruction), snd[0].(ssa.Instruction)) {
					c.Site(snd[0].Pos(), "one Next and one Send per requested id")
				} else {
					c.Violation("order:doFetch:one-per-id", fn.Pos(), "doFetch no longer takes exactly one document and sends exactly one block per requested id (Next calls: %d, Send calls: %d)", len(nx), len(snd))
				}
				for _, name := range []string{"(disk.DocBlock).SetExt1", "(disk.DocBlock).SetExt2"} {
					stamps := c.P.FindLifted(fn, CallSel(Callee(name)))
					if len(stamps) == 0 {
						c.Violation("prov:doFetch:"+name+":none", fn.Pos(), "doFetch no longer stamps the response block with %s", name)
					}
					for _, l := range stamps {
						s := l.Call()
						fromID := c.P.DerivesFromIP(Arg(s, 0), func(v ssa.Value) bool {
							_, f, _, ok := FieldOf(v)
							return ok && (f == "MID" || f == "RID")
						})
						// where the stamping happens in doFetch itself: the instruction, or the call that leads to it
						at := l.In
						if len(l.Via) > 0 {
							at = l.Via[0].(ssa.Instruction)
						}
						if fromID && len(snd) == 1 && Dominates(at, snd[0].(ssa.Instruction)) {
							c.Site(s.Pos(), "%s is stamped from the requested id before Send", name)
						} else {
							c.Violation("prov:doFetch:"+name, s.Pos(), "the response block is not stamped with the requested id before it is sent")
						}
					}
				}
			}},
	}
}

func keyN(prefix string, i int) string {
	return prefix + "#" + string(rune('1'+i))
}

// noViewOfRecycledBuffer: rule body of C20.8.
func noViewOfRecycledBuffer(c *Ctx) {
	isBytes := func(t types.Type) bool {
		sl, ok := t.Underlying().(*types.Slice)
		if !ok {
			return false
		}
		b, ok := sl.Elem().Underlying().(*types.Basic)
		return ok && b.Kind() == types.Uint8
	}
	type fld struct{ typ, name string }
	// 1. the recycled byte buffers of the repository
	recycled := map[fld]token.Pos{}
	for _, fn := range c.P.Funcs {
		if !c.P.InRepo(fn) || fn.Blocks == nil {
			continue
		}
		for _, b := range fn.Blocks {
			for _, in := range b.Instrs {
				st, ok := in.(*ssa.Store)
				if !ok || !isBytes(st.Val.Type()) {
					continue
				}
				typ, name, _, ok := FieldOf(st.Addr)
				if !ok {
					continue
				}
				self := func(v ssa.Value) bool { return ValueIsField(v, typ, name) }
				cl, isCall := st.Val.(*ssa.Call)
				if ex, isEx := st.Val.(*ssa.Extract); isEx {
					cl, isCall = ex.Tuple.(*ssa.Call)
				}
				if !isCall {
					continue
				}
				if CallName(cl) == "builtin.append" {
					// append(f[:0], ...)
					if sl, ok := cl.Call.Args[0].(*ssa.Slice); ok && sl.High != nil {
						if k, isK := ConstInt(sl.High); isK && k == 0 && DerivesFromNoCall(sl.X, self) {
							recycled[fld{typ, name}] = st.Pos()
						}
					}
					continue
				}
				for _, a := range cl.Call.Args {
					if isBytes(a.Type()) && DerivesFromNoCall(a, self) {
						recycled[fld{typ, name}] = st.Pos()
					}
				}
			}
		}
	}
	for f, pos := range recycled {
		c.Site(pos, "recycled buffer: %s.%s", f.typ, f.name)
	}
	// 2. no escaping view of one of them
	for _, fn := range c.P.Funcs {
		if !c.P.InRepo(fn) || fn.Blocks == nil {
			continue
		}
		for _, call := range CallsIn(fn, Callee("util.ByteToStringUnsafe")) {
			var hit *fld
			for f := range recycled {
				f := f
				if DerivesFromNoCall(Arg(call, 0), func(v ssa.Value) bool { return ValueIsField(v, f.typ, f.name) }) {
					hit = &f
				}
			}
			if hit == nil {
				continue
			}
			v := call.Value()
			esc := ""
			seen := map[ssa.Value]bool{}
			var walk func(v ssa.Value)
			walk = func(v ssa.Value) {
				if v == nil || seen[v] || v.Referrers() == nil {
					return
				}
				seen[v] = true
				for _, r := range *v.Referrers() {
					switch x := r.(type) {
					case *ssa.Return:
						esc = "returned"
					case *ssa.Store:
						if x.Val == v {
							if _, local := x.Addr.(*ssa.Alloc); !local || x.Addr.(*ssa.Alloc).Heap {
								esc = "stored"
							}
						}
					case *ssa.MapUpdate, *ssa.Send:
						esc = "stored"
					case *ssa.Call:
						if CallName(x) == "builtin.append" {
							esc = "appended to a slice"
						}
					case *ssa.Phi:
						walk(x)
					case *ssa.Slice:
						walk(x)
					case *ssa.ChangeType:
						walk(x)
					case *ssa.MakeInterface:
						walk(x)
					}
				}
			}
			walk(v)
			if esc == "" {
				c.Site(call.Pos(), "%s looks at %s.%s through a view on the spot", FuncName(fn), hit.typ, hit.name)
			} else {
				c.Violation("alias:view-of-recycled:"+FuncName(fn)+":"+hit.typ+"."+hit.name, call.Pos(), "%s makes an unsafe string view of the recycled buffer %s.%s and the view is %s: the next use of the buffer rewrites the string under whoever holds it", FuncName(fn), hit.typ, hit.name, esc)
			}
		}
	}
}
