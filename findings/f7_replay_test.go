package fracmanager

import (
	"context"
	"fmt"
	"io"
	"math"
	"os"
	"os/exec"
	"path/filepath"
	"strings"
	"testing"

	"github.com/stretchr/testify/require"

	"github.com/ozontech/seq-db/consts"
	"github.com/ozontech/seq-db/frac"
	"github.com/ozontech/seq-db/frac/processor"
	"github.com/ozontech/seq-db/parser"
	"github.com/ozontech/seq-db/seq"
)

const (
	zzF7EnvDir   = "ZZ_F7_DATADIR"
	zzF7BulkDocs = 5
)

func zzF7Config(dir string) *Config {
	return &Config{
		FracSize:  64 * consts.MB,
		TotalSize: 1024 * consts.MB,
		DataDir:   dir,
	}
}

func zzF7Doc(svc string, i int) []byte {
	return []byte(fmt.Sprintf(`{"service":%q,"message":"document %d of the bulk sent by %s"}`, svc, i, svc))
}

func zzF7Ingest(t *testing.T, fm *FracManager, svc string, firstID int) {
	dp := frac.NewDocProvider()
	for i := 0; i < zzF7BulkDocs; i++ {
		dp.Append(zzF7Doc(svc, i), nil, seq.SimpleID(firstID+i), seq.Tokens("_all_:", "service:"+svc))
	}
	docs, metas := dp.Provide()
	require.NoError(t, fm.Append(context.Background(), docs, metas))
	fm.WaitIdle()
}

// zzF7CheckBulk returns "present" / "absent" / a description of the violation.
func zzF7CheckBulk(fm *FracManager, svc string, firstID int) string {
	ctx := context.Background()

	ast, err := parser.ParseSeqQL("service:"+svc, seq.TestMapping)
	if err != nil {
		return "parse error: " + err.Error()
	}
	qpr, err := NewSearcher(1, SearcherCfg{}).SearchDocs(ctx, fm.GetAllFracs(), processor.SearchParams{
		AST:   ast.Root,
		From:  0,
		To:    seq.MID(math.MaxUint64),
		Limit: 1000,
	})
	if err != nil {
		return "search error: " + err.Error()
	}

	ids := make([]seq.IDSource, 0, zzF7BulkDocs)
	for i := 0; i < zzF7BulkDocs; i++ {
		ids = append(ids, seq.IDSource{ID: seq.SimpleID(firstID + i)})
	}
	docs, err := NewFetcher(1).FetchDocs(ctx, fm.GetAllFracs(), ids)
	if err != nil {
		return "fetch error: " + err.Error()
	}
	fetched := 0
	for i, d := range docs {
		if d == nil {
			continue
		}
		fetched++
		if string(d) != string(zzF7Doc(svc, i)) {
			return fmt.Sprintf("doc %d has wrong bytes: %q", i, d)
		}
	}

	switch {
	case len(qpr.IDs) == 0 && fetched == 0:
		return "absent"
	case len(qpr.IDs) == zzF7BulkDocs && fetched == zzF7BulkDocs:
		return "present"
	}
	return fmt.Sprintf("partial: found=%d fetched=%d of %d", len(qpr.IDs), fetched, zzF7BulkDocs)
}


// Child process = one run of the store on the data directory.
// stage "ingest": come up, ingest bulk charlie, report. stage "check": come up, report.
func zzF7Run(dir, stage string) {
	fm := NewFracManager(zzF7Config(dir))
	if err := fm.Load(context.Background()); err != nil {
		fmt.Printf("ZZRESULT load error: %v\n", err)
		os.Exit(3)
	}
	if stage == "ingest" {
		dp := frac.NewDocProvider()
		for i := 0; i < zzF7BulkDocs; i++ {
			dp.Append(zzF7Doc("charlie", i), nil, seq.SimpleID(200+i), seq.Tokens("_all_:", "service:charlie"))
		}
		docs, metas := dp.Provide()
		if err := fm.Append(context.Background(), docs, metas); err != nil {
			fmt.Printf("ZZRESULT append error: %v\n", err)
			os.Exit(4)
		}
		fm.WaitIdle()
	}
	fmt.Printf("ZZRESULT alpha=%s bravo=%s charlie=%s\n", zzF7CheckBulk(fm, "alpha", 1), zzF7CheckBulk(fm, "bravo", 100), zzF7CheckBulk(fm, "charlie", 200))
	os.Exit(0)
}

func zzF7CopyDir(t *testing.T, src, dst string) {
	require.NoError(t, os.MkdirAll(dst, 0o777))
	entries, err := os.ReadDir(src)
	require.NoError(t, err)
	for _, e := range entries {
		in, err := os.Open(filepath.Join(src, e.Name()))
		require.NoError(t, err)
		out, err := os.Create(filepath.Join(dst, e.Name()))
		require.NoError(t, err)
		_, err = io.Copy(out, in)
		require.NoError(t, err)
		require.NoError(t, in.Close())
		require.NoError(t, out.Close())
	}
}

func zzF7MetaFile(t *testing.T, dir string) string {
	m, err := filepath.Glob(filepath.Join(dir, "*"+consts.MetaFileSuffix))
	require.NoError(t, err)
	require.Len(t, m, 1)
	return m[0]
}

func zzF7Child(t *testing.T, dir, stage string) string {
	cmd := exec.Command(os.Args[0], "-test.run", "^TestF7ReplayThenAppendThenReplay$")
	cmd.Env = append(os.Environ(), zzF7EnvDir+"="+dir, "ZZ_F7_STAGE="+stage)
	out, err := cmd.CombinedOutput()
	result := ""
	for _, line := range strings.Split(string(out), "\n") {
		if strings.HasPrefix(line, "ZZRESULT ") {
			result = line
		}
	}
	tail := string(out)
	if len(tail) > 1500 {
		tail = tail[len(tail)-1500:]
	}
	require.NoError(t, err, "store run (%s) did not come up / exit cleanly:\n%s", stage, tail)
	return result
}

// History (three steps, none of which the suite forms): bulk alpha is acknowledged; the store dies while
// bulk bravo is written (docs block on disk, meta block absent or torn); restart #1 + bulk charlie is
// acknowledged; restart #2. alpha and charlie must be intact after restart #2, bravo wholly absent.
func TestF7ReplayThenAppendThenReplay(t *testing.T) {
	if dir := os.Getenv(zzF7EnvDir); dir != "" {
		zzF7Run(dir, os.Getenv("ZZ_F7_STAGE"))
		return
	}
	root := t.TempDir()
	live := filepath.Join(root, "live")
	require.NoError(t, os.MkdirAll(live, 0o777))
	fm := NewFracManager(zzF7Config(live))
	require.NoError(t, fm.Load(context.Background()))
	zzF7Ingest(t, fm, "alpha", 1)
	st, err := os.Stat(zzF7MetaFile(t, live))
	require.NoError(t, err)
	metaAfterAlpha := st.Size()
	zzF7Ingest(t, fm, "bravo", 100)
	st, err = os.Stat(zzF7MetaFile(t, live))
	require.NoError(t, err)
	bravoLen := st.Size() - metaAfterAlpha

	cuts := map[string]int64{
		"orphan-docs-block-no-meta": metaAfterAlpha,                          // F7a
		"torn-meta-inside-header":   metaAfterAlpha + 10,                     // F7b
		"torn-meta-payload-half":    metaAfterAlpha + 33 + (bravoLen-33)/2,   // F7b
	}
	for name, size := range cuts {
		t.Run(name, func(t *testing.T) {
			snap := filepath.Join(root, "snap-"+name)
			zzF7CopyDir(t, live, snap)
			require.NoError(t, os.Truncate(zzF7MetaFile(t, snap), size))
			r1 := zzF7Child(t, snap, "ingest")
			require.Contains(t, r1, "alpha=present", r1)
			require.Contains(t, r1, "bravo=absent", r1)
			require.Contains(t, r1, "charlie=present", r1)
			r2 := zzF7Child(t, snap, "check")
			require.Contains(t, r2, "alpha=present", "acknowledged bulk damaged after the second restart: %s", r2)
			require.Contains(t, r2, "charlie=present", "bulk acknowledged after the first restart is damaged after the second: %s", r2)
			require.Contains(t, r2, "bravo=absent", r2)
		})
	}
}
