// Package kit is the shared program representation and the rule-engine
// primitives used by every property file in internal/props.
package kit

import (
	"fmt"
	"go/token"
	"go/types"
	"os"
	"sort"
	"strings"

	"golang.org/x/tools/go/packages"
	"golang.org/x/tools/go/ssa"
	"golang.org/x/tools/go/ssa/ssautil"
)

const ModPath = "github.com/ozontech/seq-db"

// Prog is the type-checked, SSA-built view of /repo's working tree.
type Prog struct {
	Repo     string
	Pkgs     []*packages.Package // repo packages only (roots of ./...)
	AllPkgs  map[string]*packages.Package
	SSA      *ssa.Program
	Fset     *token.FileSet
	byName   map[string]*ssa.Function
	Funcs    []*ssa.Function // every function with a body in repo packages (incl. closures), sorted by name
	ssaPkgs  map[string]*ssa.Package
	Overlay  map[string][]byte
	postdoms map[*ssa.Function]*postDom

	ifaceMethodNames map[string]bool

	// Renames: recorded anchor names that were resolved to a renamed function (ANCHORS)
	Renames []string
	// recorded: function names of the anchor table (nil without a table)
	recorded map[string]bool
}

// Load type-checks ./... under repo (non-test files, real build flags) and
// builds SSA. Any load or type error is fatal for the caller.
func Load(repo string, overlay map[string][]byte, env []string) (*Prog, error) {
	cfg := &packages.Config{
		Mode:    packages.LoadAllSyntax,
		Dir:     repo,
		Tests:   false,
		Overlay: overlay,
		Env:     append(os.Environ(), env...),
	}
	pkgs, err := packages.Load(cfg, "./...")
	if err != nil {
		return nil, fmt.Errorf("packages.Load: %w", err)
	}
	if len(pkgs) == 0 {
		return nil, fmt.Errorf("packages.Load: zero packages under %s", repo)
	}
	var errs []string
	packages.Visit(pkgs, nil, func(p *packages.Package) {
		for _, e := range p.Errors {
			errs = append(errs, e.Error())
		}
	})
	if len(errs) > 0 {
		sort.Strings(errs)
		if len(errs) > 10 {
			errs = errs[:10]
		}
		return nil, fmt.Errorf("type-check/load errors (%d shown): %s", len(errs), strings.Join(errs, "; "))
	}
	prog, _ := ssautil.AllPackages(pkgs, 0)
	prog.Build()
	p := &Prog{Repo: repo, Pkgs: pkgs, SSA: prog, Fset: prog.Fset, byName: map[string]*ssa.Function{},
		AllPkgs: map[string]*packages.Package{}, ssaPkgs: map[string]*ssa.Package{}, Overlay: overlay,
		postdoms: map[*ssa.Function]*postDom{}}
	packages.Visit(pkgs, nil, func(pk *packages.Package) { p.AllPkgs[pk.PkgPath] = pk })
	for _, sp := range prog.AllPackages() {
		p.ssaPkgs[sp.Pkg.Path()] = sp
	}
	for fn := range ssautil.AllFunctions(prog) {
		if fn.Blocks == nil || fn.Pkg == nil && fn.Origin() == nil {
			// keep synthetic wrappers out, but keep closures (their Pkg is set)
		}
		if !p.InRepo(fn) || fn.Blocks == nil {
			continue
		}
		if fn.Synthetic != "" && fn.Parent() == nil && fn.Origin() == nil && !strings.HasPrefix(fn.Synthetic, "package init") {
			continue // bound-method wrappers, thunks
		}
		if fn.Origin() != nil {
			continue // instantiation of a generic: analyse the origin once
		}
		name := FuncName(fn)
		if old, ok := p.byName[name]; ok && old != fn {
			// same printed name twice (should not happen outside wrappers); keep the one with a position
			if old.Pos() != token.NoPos {
				continue
			}
		}
		p.byName[name] = fn
	}
	for _, fn := range p.byName {
		p.Funcs = append(p.Funcs, fn)
	}
	sort.Slice(p.Funcs, func(i, j int) bool { return FuncName(p.Funcs[i]) < FuncName(p.Funcs[j]) })
	Current = p
	if AnchorTablePath != "" {
		p.applyAnchorTable(AnchorTablePath)
	}
	return p, nil
}

// InRepo reports whether fn is declared in a seq-db package.
func (p *Prog) InRepo(fn *ssa.Function) bool {
	pk := fnPkg(fn)
	return pk != nil && (pk.Path() == ModPath || strings.HasPrefix(pk.Path(), ModPath+"/"))
}

func fnPkg(fn *ssa.Function) *types.Package {
	for f := fn; f != nil; f = f.Parent() {
		if f.Pkg != nil {
			return f.Pkg.Pkg
		}
		if o := f.Origin(); o != nil && o.Pkg != nil {
			return o.Pkg.Pkg
		}
		if f.Object() != nil && f.Object().Pkg() != nil {
			return f.Object().Pkg()
		}
	}
	return nil
}

// PkgOf returns the repo-relative package path of fn ("frac/processor"), or
// the full import path for dependencies.
func PkgOf(fn *ssa.Function) string {
	pk := fnPkg(fn)
	if pk == nil {
		return ""
	}
	return strings.TrimPrefix(strings.TrimPrefix(pk.Path(), ModPath), "/")
}

// FuncName is the canonical, position-free name used as anchor and key:
// "frac.Seal", "(*frac.Active).Replay", "frac.Seal$1"; module prefix and
// generic type arguments removed.
func FuncName(fn *ssa.Function) string {
	if fn == nil {
		return "<nil>"
	}
	if o := fn.Origin(); o != nil {
		fn = o
	}
	if n, ok := renamed[fn]; ok {
		return n
	}
	if par := fn.Parent(); par != nil {
		// closures are named after their (possibly aliased) parent
		ps := par.String()
		if o := par.Origin(); o != nil {
			ps = o.String()
		}
		if strings.HasPrefix(fn.String(), ps) {
			return FuncName(par) + CleanName(strings.TrimPrefix(fn.String(), ps))
		}
	}
	return CleanName(fn.String())
}

// CleanName strips the module path and bracketed type arguments.
func CleanName(s string) string {
	s = strings.ReplaceAll(s, ModPath+"/", "")
	s = strings.ReplaceAll(s, ModPath+".", "seqdb.")
	// strip balanced [...] that directly follow an identifier character
	var b strings.Builder
	depth := 0
	for i := 0; i < len(s); i++ {
		ch := s[i]
		if ch == '[' && (depth > 0 || (i > 0 && isIdent(s[i-1]))) {
			depth++
			continue
		}
		if ch == ']' && depth > 0 {
			depth--
			continue
		}
		if depth == 0 {
			b.WriteByte(ch)
		}
	}
	out := b.String()
	if len(typeAlias) > 0 {
		out = applyTypeAlias(out)
	}
	return out
}

// typeAlias maps the clean name of a renamed named type ("fracmanager.fractionProxy") to the name
// the rules know it by ("fracmanager.proxyFrac"); see ANCHORS.
var typeAlias = map[string]string{}

func applyTypeAlias(s string) string {
	for now, old := range typeAlias {
		for from := 0; ; {
			i := strings.Index(s[from:], now)
			if i < 0 {
				break
			}
			i += from
			end := i + len(now)
			// whole qualified identifier only
			if (i > 0 && (isIdent(s[i-1]) || s[i-1] == '/')) || (end < len(s) && isIdent(s[end])) {
				from = end
				continue
			}
			s = s[:i] + old + s[end:]
			from = i + len(old)
		}
	}
	return s
}

func isIdent(c byte) bool {
	return c == '_' || c >= '0' && c <= '9' || c >= 'a' && c <= 'z' || c >= 'A' && c <= 'Z'
}

// Func resolves an anchor; nil when it no longer exists.
func (p *Prog) Func(name string) *ssa.Function { return p.byName[name] }

// FuncsMatching returns repo functions whose name satisfies pred, sorted.
func (p *Prog) FuncsMatching(pred func(name string, fn *ssa.Function) bool) []*ssa.Function {
	var out []*ssa.Function
	for _, fn := range p.Funcs {
		if pred(FuncName(fn), fn) {
			out = append(out, fn)
		}
	}
	return out
}

// FuncsInPkg returns every repo function (incl. closures) of the repo-relative package.
func (p *Prog) FuncsInPkg(rel string) []*ssa.Function {
	return p.FuncsMatching(func(_ string, fn *ssa.Function) bool { return PkgOf(fn) == rel })
}

// WithClosures returns fn followed by all anonymous functions nested in it.
func WithClosures(fn *ssa.Function) []*ssa.Function {
	out := []*ssa.Function{fn}
	for _, a := range fn.AnonFuncs {
		out = append(out, WithClosures(a)...)
	}
	return out
}

// Pos renders a position relative to the repo root.
func (p *Prog) Pos(pos token.Pos) string {
	if !pos.IsValid() {
		return "?"
	}
	ps := p.Fset.Position(pos)
	f := strings.TrimPrefix(ps.Filename, p.Repo+"/")
	return fmt.Sprintf("%s:%d", f, ps.Line)
}

// TypesPkg returns the go/types package for a repo-relative path.
func (p *Prog) TypesPkg(rel string) *types.Package {
	path := ModPath
	if rel != "" {
		path += "/" + rel
	}
	if pk, ok := p.AllPkgs[path]; ok {
		return pk.Types
	}
	if pk, ok := p.AllPkgs[rel]; ok {
		return pk.Types
	}
	return nil
}

// Package returns the loaded package for a repo-relative path.
func (p *Prog) Package(rel string) *packages.Package {
	path := ModPath
	if rel != "" {
		path += "/" + rel
	}
	if pk, ok := p.AllPkgs[path]; ok {
		return pk
	}
	return p.AllPkgs[rel]
}

// InstrPos returns the best position for an instruction (falls back to the
// nearest positioned instruction in the block, then the function).
func InstrPos(in ssa.Instruction) token.Pos {
	if in == nil {
		return token.NoPos
	}
	if in.Pos().IsValid() {
		return in.Pos()
	}
	if v, ok := in.(ssa.Value); ok {
		for _, r := range *v.Referrers() {
			if r.Pos().IsValid() {
				return r.Pos()
			}
		}
	}
	b := in.Block()
	for _, x := range b.Instrs {
		if x.Pos().IsValid() {
			return x.Pos()
		}
	}
	return in.Parent().Pos()
}

type pkgT = packages.Package
