package kit

import (
	"encoding/json"
	"fmt"
	"go/types"
	"os"
	"path/filepath"
	"sort"
	"strings"

	"golang.org/x/tools/go/ssa"
)

// ANCHORS: rename tolerance.
//
// Every rule addresses functions by their type-qualified name. A rename of an
// anchor (or of a helper a matcher names) changes no behaviour, so it must not
// change a verdict. /verif/anchors.json records, for every top-level function
// of the unchanged tree, a fingerprint (package, receiver type, parameter and
// result types, source file, static callees). When a recorded name is missing
// from the program under analysis, the loader looks for a function that is new
// to the table, has the same package, receiver and signature, and resembles the
// recorded one most (same file, overlap of callees); if there is exactly one
// best candidate the old name becomes an alias of it: FuncName/CallName keep
// answering with the recorded name, so every rule and every key stays as it
// was. The aliases applied are printed and written into the evidence.

// AnchorRec is the fingerprint of one function.
type AnchorRec struct {
	Pkg     string   `json:"pkg"`
	Recv    string   `json:"recv,omitempty"`
	Sig     string   `json:"sig"`
	File    string   `json:"file"`
	Callees []string `json:"callees,omitempty"`
	Params  []string `json:"params,omitempty"` // names of fn.Params in order (receiver first)
}

// anchorFile is the content of anchors.json.
type anchorFile struct {
	Funcs map[string]AnchorRec   `json:"funcs"`
	Types map[string][][2]string `json:"types"` // struct type -> ordered (field name, field type)
	Named map[string]NamedRec    `json:"named"` // every named type of the repo
}

// NamedRec is the fingerprint of a named type.
type NamedRec struct {
	Under   string   `json:"under"` // kind and, for non-structs, the underlying type
	Methods []string `json:"methods,omitempty"`
}

// fieldAlias maps (type, current field name) to the recorded field name.
var fieldAlias = map[[2]string]string{}

// AnchorTablePath is consulted by Load when non-empty.
var AnchorTablePath string

// renamed maps a function of the current program to the recorded name it stands for.
var renamed = map[*ssa.Function]string{}

func sigKey(sig *types.Signature) string {
	var b strings.Builder
	q := func(p *types.Package) string { return p.Path() }
	b.WriteString("(")
	for i := 0; i < sig.Params().Len(); i++ {
		if i > 0 {
			b.WriteString(",")
		}
		b.WriteString(types.TypeString(sig.Params().At(i).Type(), q))
	}
	if sig.Variadic() {
		b.WriteString("...")
	}
	b.WriteString(")(")
	for i := 0; i < sig.Results().Len(); i++ {
		if i > 0 {
			b.WriteString(",")
		}
		b.WriteString(types.TypeString(sig.Results().At(i).Type(), q))
	}
	b.WriteString(")")
	return CleanName(b.String())
}

func (p *Prog) fingerprint(fn *ssa.Function) AnchorRec {
	r := AnchorRec{Pkg: PkgOf(fn), Sig: sigKey(fn.Signature)}
	if rv := fn.Signature.Recv(); rv != nil {
		r.Recv = NamedTypeString(rv.Type())
	}
	if fn.Pos().IsValid() {
		r.File = filepath.Base(p.Fset.Position(fn.Pos()).Filename)
	}
	for _, prm := range fn.Params {
		r.Params = append(r.Params, prm.Name())
	}
	set := map[string]bool{}
	for _, f := range WithClosures(fn) {
		for _, c := range CallsIn(f, nil) {
			n := CallName(c)
			if !strings.HasPrefix(n, "dynamic") && !strings.HasPrefix(n, "builtin.") {
				set[n] = true
			}
		}
	}
	for n := range set {
		r.Callees = append(r.Callees, n)
	}
	sort.Strings(r.Callees)
	return r
}

// structFields lists the named struct types of the repo with their fields in order.
func (p *Prog) structFields() map[string][][2]string {
	out := map[string][][2]string{}
	q := func(pk *types.Package) string { return pk.Path() }
	for _, pk := range p.Pkgs {
		if pk.Types == nil {
			continue
		}
		sc := pk.Types.Scope()
		for _, n := range sc.Names() {
			tn, ok := sc.Lookup(n).(*types.TypeName)
			if !ok {
				continue
			}
			st, ok := tn.Type().Underlying().(*types.Struct)
			if !ok {
				continue
			}
			var fs [][2]string
			for i := 0; i < st.NumFields(); i++ {
				fs = append(fs, [2]string{st.Field(i).Name(), CleanName(types.TypeString(st.Field(i).Type(), q))})
			}
			out[NamedTypeString(tn.Type())] = fs
		}
	}
	return out
}

// namedTypes lists every named type declared in the repo packages.
func (p *Prog) namedTypes() map[string]NamedRec {
	out := map[string]NamedRec{}
	q := func(pk *types.Package) string { return pk.Path() }
	for _, pk := range p.Pkgs {
		if pk.Types == nil {
			continue
		}
		sc := pk.Types.Scope()
		for _, n := range sc.Names() {
			tn, ok := sc.Lookup(n).(*types.TypeName)
			if !ok || tn.IsAlias() {
				continue
			}
			named, ok := tn.Type().(*types.Named)
			if !ok {
				continue
			}
			rec := NamedRec{}
			switch u := named.Underlying().(type) {
			case *types.Struct:
				rec.Under = "struct"
			case *types.Interface:
				rec.Under = "interface"
				for i := 0; i < u.NumMethods(); i++ {
					rec.Methods = append(rec.Methods, u.Method(i).Name())
				}
			default:
				rec.Under = CleanName(types.TypeString(u, q))
			}
			for i := 0; i < named.NumMethods(); i++ {
				rec.Methods = append(rec.Methods, named.Method(i).Name())
			}
			sort.Strings(rec.Methods)
			out[NamedTypeString(named)] = rec
		}
	}
	return out
}

// DumpAnchors writes the fingerprint table of the program.
func (p *Prog) DumpAnchors(path string) error {
	af := anchorFile{Funcs: map[string]AnchorRec{}, Types: p.structFields(), Named: p.namedTypes()}
	for _, fn := range p.Funcs {
		if fn.Parent() != nil || fn.Synthetic != "" {
			continue
		}
		af.Funcs[FuncName(fn)] = p.fingerprint(fn)
	}
	data, err := json.MarshalIndent(af, "", " ")
	if err != nil {
		return err
	}
	return os.WriteFile(path, data, 0o644)
}

// applyAnchorTable installs aliases for recorded names that are missing.
func (p *Prog) applyAnchorTable(path string) {
	data, err := os.ReadFile(path)
	if err != nil {
		return
	}
	var af anchorFile
	if json.Unmarshal(data, &af) != nil || af.Funcs == nil {
		return
	}
	// renamed types: a recorded named type that is gone and a type new to the record, in the same package, of the
	// same kind, with (nearly) the same fields or the same underlying type and methods
	if af.Named != nil {
		now := p.namedTypes()
		nowFields := p.structFields()
		for oldName, rec := range af.Named {
			if _, ok := now[oldName]; ok {
				continue
			}
			pkgOf := func(n string) string { return n[:strings.LastIndex(n, ".")] }
			best, bestScore, second := "", 0.0, 0.0
			for newName, nr := range now {
				if _, known := af.Named[newName]; known || pkgOf(newName) != pkgOf(oldName) {
					continue
				}
				kindOK := nr.Under == rec.Under || (rec.Under != "struct" && rec.Under != "interface" && strings.ReplaceAll(nr.Under, newName, oldName) == rec.Under)
				if !kindOK {
					continue
				}
				score := 0.0
				if rec.Under == "struct" {
					rf, nf := af.Types[oldName], nowFields[newName]
					same := 0
					for _, a := range rf {
						for _, b := range nf {
							if a[0] == b[0] && strings.ReplaceAll(b[1], newName, oldName) == a[1] {
								same++
							}
						}
					}
					if n := max(len(rf), len(nf)); n > 0 {
						score = float64(same) / float64(n)
					} else {
						score = 0.5
					}
				} else {
					score = 0.5
				}
				inter := 0
				have := map[string]bool{}
				for _, m := range nr.Methods {
					have[m] = true
				}
				for _, m := range rec.Methods {
					if have[m] {
						inter++
					}
				}
				if n := max(len(rec.Methods), len(nr.Methods)); n > 0 {
					score += float64(inter) / float64(n)
				} else {
					score += 0.5
				}
				if score > bestScore {
					second = bestScore
					best, bestScore = newName, score
				} else if score > second {
					second = score
				}
			}
			if best != "" && bestScore >= 1.0 && second < bestScore {
				typeAlias[best] = oldName
				p.Renames = append(p.Renames, fmt.Sprintf("type %s is now %s", oldName, best))
			}
		}
		if len(typeAlias) > 0 {
			// names that contain the renamed types were computed before the aliases were known
			byName := map[string]*ssa.Function{}
			for _, fn := range p.byName {
				byName[FuncName(fn)] = fn
			}
			p.byName = byName
			sort.Slice(p.Funcs, func(i, j int) bool { return FuncName(p.Funcs[i]) < FuncName(p.Funcs[j]) })
		}
	}
	table := af.Funcs
	recordedParams = map[string][]string{}
	for n, r := range table {
		recordedParams[n] = r.Params
	}
	p.recorded = map[string]bool{}
	for n := range table {
		p.recorded[n] = true
	}
	// renamed struct fields: a recorded field that is gone, and a field new to the record with the same type
	// (at the same position if there are several)
	for typ, now := range p.structFields() {
		rec, ok := af.Types[typ]
		if !ok {
			continue
		}
		recNames, nowNames := map[string]bool{}, map[string]bool{}
		for _, f := range rec {
			recNames[f[0]] = true
		}
		for _, f := range now {
			nowNames[f[0]] = true
		}
		for i, f := range rec {
			if nowNames[f[0]] {
				continue
			}
			var cands []string
			for j, g := range now {
				if recNames[g[0]] || g[1] != f[1] {
					continue
				}
				if j == i {
					cands = []string{g[0]}
					break
				}
				cands = append(cands, g[0])
			}
			if len(cands) == 1 {
				fieldAlias[[2]string{typ, cands[0]}] = f[0]
				p.Renames = append(p.Renames, fmt.Sprintf("field %s.%s is now %s", typ, f[0], cands[0]))
			}
		}
	}
	var missing []string
	for name := range table {
		if _, ok := p.byName[name]; !ok {
			missing = append(missing, name)
		}
	}
	if len(missing) == 0 {
		return
	}
	sort.Strings(missing)
	var fresh []*ssa.Function
	for _, fn := range p.Funcs {
		if fn.Parent() != nil || fn.Synthetic != "" {
			continue
		}
		if _, ok := table[FuncName(fn)]; !ok {
			fresh = append(fresh, fn)
		}
	}
	used := map[*ssa.Function]bool{}
	for _, name := range missing {
		rec := table[name]
		type cand struct {
			fn    *ssa.Function
			score float64
		}
		var cands []cand
		for _, fn := range fresh {
			if used[fn] {
				continue
			}
			fp := p.fingerprint(fn)
			if fp.Pkg != rec.Pkg || fp.Recv != rec.Recv || fp.Sig != rec.Sig {
				continue
			}
			score := 0.0
			if fp.File == rec.File {
				score += 0.5
			}
			inter, union := 0, map[string]bool{}
			have := map[string]bool{}
			for _, c := range fp.Callees {
				have[c] = true
				union[c] = true
			}
			for _, c := range rec.Callees {
				union[c] = true
				if have[c] {
					inter++
				}
			}
			if len(union) > 0 {
				score += float64(inter) / float64(len(union))
			} else {
				score += 0.5 // both call nothing
			}
			cands = append(cands, cand{fn, score})
		}
		sort.Slice(cands, func(i, j int) bool { return cands[i].score > cands[j].score })
		if len(cands) == 0 || cands[0].score < 0.5 {
			continue
		}
		if len(cands) > 1 && cands[1].score >= cands[0].score {
			continue // ambiguous
		}
		fn := cands[0].fn
		used[fn] = true
		p.Renames = append(p.Renames, fmt.Sprintf("%s is now %s", name, fn.String()))
		delete(p.byName, FuncName(fn))
		renamed[fn] = name
		p.byName[name] = fn
		for _, cl := range fn.AnonFuncs {
			p.reindexClosure(cl)
		}
	}
	if len(p.Renames) > 0 {
		// names of closures and the sort order depend on the aliases
		byName := map[string]*ssa.Function{}
		for _, fn := range p.byName {
			byName[FuncName(fn)] = fn
		}
		p.byName = byName
		sort.Slice(p.Funcs, func(i, j int) bool { return FuncName(p.Funcs[i]) < FuncName(p.Funcs[j]) })
	}
}

func (p *Prog) reindexClosure(fn *ssa.Function) {
	for _, cl := range fn.AnonFuncs {
		p.reindexClosure(cl)
	}
}

// RecordedFunc reports whether the anchor table of the unchanged tree knows a function of this name
// (true for every name when there is no table).
func (p *Prog) RecordedFunc(name string) bool {
	if p.recorded == nil {
		return true
	}
	return p.recorded[name]
}

// recordedParams: parameter names of the unchanged tree, per function.
var recordedParams map[string][]string

// ParamName is the name the rules know a parameter by: the recorded name at
// the same position when the function is in the anchor table with the same
// number of parameters (a renamed parameter keeps its role), else its own name.
func ParamName(prm *ssa.Parameter) string {
	if prm == nil {
		return ""
	}
	fn := prm.Parent()
	if recordedParams != nil && fn != nil && fn.Parent() == nil {
		if rec, ok := recordedParams[FuncName(fn)]; ok && len(rec) == len(fn.Params) {
			for i, q := range fn.Params {
				if q == prm {
					return rec[i]
				}
			}
		}
	}
	return prm.Name()
}

// CurrentTypeName gives the name a recorded named type has in the program under analysis
// ("fracmanager.proxyFrac" -> "fracmanager.fractionProxy" after a rename, else the name itself).
func CurrentTypeName(recorded string) string {
	for now, old := range typeAlias {
		if old == recorded {
			return now
		}
	}
	return recorded
}
