package props

import (
	"fmt"
	"go/token"
	"os"
	"strings"

	"golang.org/x/tools/go/ssa"

	. "seqverif/internal/kit"
)

func init() {
	register(&PropInfo{
		ID:          "C09",
		Title:       "A bulk is acknowledged only when a full replica set holds it in every tier",
		Explanation: "Decides, in proxy/bulk/seqdb_client.go, on every path: a replica's written-bit is set only under the nil error of the send to that same replica and with that replica's index; a shard's status slice is the one of the shard that is called; shard.Bulk returns the combination of all replica errors after waiting for all sends, through a circuit breaker that returns the callback's error; by path-sensitive simulation (PATHSIM: phi resolution, nil-ness and integer-interval facts) no success return of sendBulkToStores / storeDocs / StoreDocuments is reachable after a failed last attempt, including the fall-through of the bounded retry loop; cold tier first and coldWritten only after the cold write succeeded; ProcessDocuments reports success only under StoreDocuments' nil. NOT decided: that replicas received that payload (gRPC), time-outs inside the circuit library, the random shard order.",
		Assumptions: []string{
			"cep21/circuit Execute returns the callback's error or its own error (never nil when the callback failed)",
			"multierr.Combine returns nil only when every element is nil",
			"PATHSIM explores each loop up to 3 visits per block per path; interval facts are derived only from comparisons with constants and len()",
		},
		Obs: c09,
	})
}

func c09() []*Ob {
	const bulkFn = "(*proxy/bulk.shard).Bulk"
	return []*Ob{
		{Prop: "C09", ID: "C09.9", Engine: "TYPESTATE(use after put)", Floor: 3,
			Desc:  "what a replica is sent is what the proxy compressed for this bulk: an object handed back to a pool (sync.Pool.Put directly, or through a repo function that puts its argument: PutDocMetasCompressor, bytespool.Release, ...) is not used again by the same function after a hand-back that is not deferred — the docs/metas compressor put back before StoreDocuments has finished is picked up by a concurrent bulk, which overwrites the buffers the first bulk's request still points at: replicas contacted later receive the other bulk's bytes and the first bulk is acknowledged all the same",
			Check: func(c *Ctx) { noUseAfterPut(c) }},
		{Prop: "C09", ID: "C09.1", Engine: "DOM+PROV", Floor: 1,
			Desc: "written-bit only on success and for the right replica: every store of true into writtenReplicas[i] is dominated by the nil error of sendBulkToHost in the same goroutine, and i and the replica sent to come from the same loop iteration; in sendBulkToStores the status slice passed to shard.Bulk is getShard(k) for the same k that selected the shard",
			Check: func(c *Ctx) {
				fn := c.Fn(bulkFn)
				if fn == nil {
					return
				}
				send := Callee("proxy/bulk.sendBulkToHost")
				n := 0
				for _, f := range WithClosures(fn) {
					for _, in := range InstrsIn(f, func(in ssa.Instruction) bool {
						st, ok := in.(*ssa.Store)
						if !ok {
							return false
						}
						ia, ok := st.Addr.(*ssa.IndexAddr)
						if !ok {
							return false
						}
						b, isB := ConstBool(st.Val)
						return isB && b && TypeStr(ia.X.Type()) == "[]bool"
					}) {
						n++
						st := in.(*ssa.Store)
						ia := st.Addr.(*ssa.IndexAddr)
						if !GuardedByNilErr(st, send) {
							c.Violation("dom:shard.Bulk:written-needs-send-ok", st.Pos(), "a replica is marked as written on a path where the send to it did not return nil")
							continue
						}
						// same iteration: the replica sent to is slice[k] (or the range step) for a k the stored index derives from
						okIdx, okRep := true, false
						for _, s := range CallsIn(f, send) {
							if !Dominates(s.(ssa.Instruction), st) {
								continue
							}
							if DerivesFrom(Arg(s, 1), func(v ssa.Value) bool {
								switch e := v.(type) {
								case *ssa.IndexAddr:
									return DerivesFrom(ia.Index, func(w ssa.Value) bool { return w == e.Index })
								case *ssa.Next:
									return DerivesFrom(ia.Index, func(w ssa.Value) bool { return w == ssa.Value(e) })
								}
								return false
							}) {
								okRep = true
							}
						}
						if okIdx && okRep {
							c.Site(st.Pos(), "written bit set under sendBulkToHost err==nil, index and replica from the same iteration")
						} else {
							c.Violation("prov:shard.Bulk:written-index", st.Pos(), "the written-bit index and the replica that was sent to do not come from the same loop iteration")
						}
					}
				}
				if n == 0 {
					c.Undecided("shard.Bulk:no-written-store", fn.Pos(), "no store into the written-status slice found in shard.Bulk")
				}
				if sb := c.Fn("(*proxy/bulk.SeqDBClient).sendBulkToStores"); sb != nil {
					for _, call := range CallsIn(sb, Callee("(*proxy/bulk.shard).Bulk")) {
						// receiver: &shards[k] copy ; arg 2: getShard(k')
						var shardIdx ssa.Value
						DerivesFrom(Receiver(call), func(v ssa.Value) bool {
							if ia, ok := v.(*ssa.IndexAddr); ok && shardIdx == nil {
								if p, isP := ia.X.(*ssa.Parameter); isP && ParamName(p) == "shards" {
									shardIdx = ia.Index
									return true
								}
							}
							return false
						})
						var wsIdx ssa.Value
						DerivesFrom(Arg(call, 2), func(v ssa.Value) bool {
							if cl, ok := v.(ssa.CallInstruction); ok && CallName(cl) == "(*proxy/bulk.storesWriteStatus).getShard" {
								wsIdx = Arg(cl, 0)
								return true
							}
							return false
						})
						if shardIdx != nil && wsIdx != nil && SameValue(shardIdx, wsIdx) {
							c.Site(call.Pos(), "shard.Bulk gets the write status of the shard it is called on")
						} else {
							c.Violation("prov:sendBulkToStores:status-of-shard", call.Pos(), "the written-status slice handed to shard.Bulk is not getShard(k) for the k that selected the shard: status bits would follow the try position, not the shard")
						}
					}
				}
				if gs := c.Fn("(*proxy/bulk.storesWriteStatus).getShard"); gs != nil {
					// slice [idx*replicasCnt : idx*replicasCnt+replicasCnt]
					ok := false
					for _, in := range InstrsIn(gs, func(in ssa.Instruction) bool { _, ok := in.(*ssa.Slice); return ok }) {
						sl := in.(*ssa.Slice)
						isMul := func(v ssa.Value) bool {
							bo, ok := v.(*ssa.BinOp)
							return ok && bo.Op == token.MUL
						}
						if sl.Low != nil && sl.High != nil && DerivesFrom(sl.Low, isMul) && DerivesFrom(sl.High, func(v ssa.Value) bool { return v == sl.Low }) {
							ok = true
							c.Site(sl.Pos(), "getShard returns the window [idx*replicasCnt, idx*replicasCnt+replicasCnt)")
						}
					}
					if !ok {
						c.Violation("prov:getShard:window", gs.Pos(), "getShard no longer returns a window that starts at idx*replicasCnt and ends replicasCnt later")
					}
				}
			}},
		{Prop: "C09", ID: "C09.2", Engine: "ERRFLOW+ORDER", Floor: 5,
			Desc: "shard success = no replica failed: every send error is stored in hostErrors, the callback returns multierr.Combine(hostErrors) after wg.Wait(), shard.Bulk returns the breaker's result, CircuitBreaker.Execute returns the callback's error",
			Check: func(c *Ctx) {
				fn := c.Fn("(*proxy/bulk.shard).Bulk")
				if fn == nil {
					return
				}
				fns := WithClosures(fn)
				ErrFlowCheck(c, fns, nil)
				ErrPathCheck(c, fns, nil)
				var hostErrs ssa.Value
				for _, f := range fns {
					for _, cb := range CallsIn(f, Callee("go.uber.org/multierr.Combine")) {
						MustPrecede(c, f, Callee("(*sync.WaitGroup).Wait"), "wg.Wait()", Callee("go.uber.org/multierr.Combine"), "multierr.Combine(hostErrors...)")
						hostErrs = cb.Common().Args[0]
						// returned
						ret := false
						for _, rp := range ReturnPaths(f, ErrorResultIndex(f)) {
							if SameValue(rp.Val, cb.Value()) {
								ret = true
							}
						}
						if ret {
							c.Site(cb.Pos(), "the shard callback returns the combination of all replica errors")
						} else {
							c.Violation("ack:shard.Bulk:returns-combined", cb.Pos(), "the combined replica errors are not what the shard callback returns")
						}
					}
				}
				if hostErrs == nil {
					c.Violation("ack:shard.Bulk:no-combine", fn.Pos(), "shard.Bulk no longer combines the per-replica errors")
					return
				}
				// each goroutine stores a failed send's error into that slice
				for _, f := range fns {
					for _, s := range CallsIn(f, Callee("proxy/bulk.sendBulkToHost")) {
						ev := ErrorResult(s)
						stored := false
						if ev != nil {
							for _, r := range *ev.Referrers() {
								if st, ok := r.(*ssa.Store); ok && st.Val == ev {
									if ia, ok := st.Addr.(*ssa.IndexAddr); ok && IsErrorType(st.Val.Type()) {
										_ = ia
										stored = true
									}
								}
							}
						}
						if stored {
							c.Site(s.Pos(), "a failed send is recorded in the per-replica error slice")
						} else {
							c.Violation("errflow:shard.Bulk:send-error-recorded", s.Pos(), "the error of sendBulkToHost is not stored into the per-replica error slice")
						}
					}
				}
				// wg.Add before go, Done in goroutine after the store: counted pairs
				for _, f := range fns {
					for _, g := range InstrsIn(f, func(in ssa.Instruction) bool { _, ok := in.(*ssa.Go); return ok }) {
						ok := false
						for _, a := range CallsIn(f, Callee("(*sync.WaitGroup).Add")) {
							if Dominates(a.(ssa.Instruction), g) {
								ok = true
							}
						}
						if ok {
							c.Site(g.Pos(), "wg.Add precedes the go statement")
						} else {
							c.Violation("order:shard.Bulk:add-before-go", g.Pos(), "a replica goroutine is started without wg.Add before it: Wait may return before the send finished")
						}
					}
				}
				AckCheck(c, fn, []Must{{Name: "breaker.Execute", M: Callee("(*network/circuitbreaker.CircuitBreaker).Execute")}}, nil)
				if ex := c.Fn("(*network/circuitbreaker.CircuitBreaker).Execute"); ex != nil {
					AckCheck(c, ex, []Must{{Name: "Circuit.Execute", M: Callee("(*github.com/cep21/circuit/v3.Circuit).Execute")}}, nil)
					for _, cl := range ex.AnonFuncs {
						// the wrapper returns the callback's error
						for _, rp := range ReturnPaths(cl, ErrorResultIndex(cl)) {
							if cc, ok := rp.Val.(ssa.CallInstruction); ok && CallName(cc) == "dynamic:callback" {
								c.Site(rp.Ret.Pos(), "the breaker wrapper returns the callback's error")
							} else {
								c.Violation("ack:CircuitBreaker.Execute:wrapper", rp.Ret.Pos(), "the breaker wrapper does not return the callback's error")
							}
						}
					}
				}
				if sh := c.Fn("proxy/bulk.sendBulkToHost"); sh != nil {
					AckCheck(c, sh, []Must{{Name: "client.Bulk", M: Callee("(pkg/storeapi.StoreApiClient).Bulk")}}, nil)
				}
			}},
		{Prop: "C09", ID: "C09.3", Engine: "PATHSIM(ACK)", Floor: 3,
			Desc: "tier success and no fall-through: in sendBulkToStores, storeDocs and StoreDocuments no success return is reachable on a path whose last attempt failed or on which no attempt was made (except: no shards configured / cold tier already written); this includes the exit edge of the bounded retry loop after a failed last try",
			Check: func(c *Ctx) {
				type inst struct {
					fn    string
					must  Matcher
					name  string
					allow func(st SimState) string
				}
				lenZero := func(st SimState) string {
					v, found := st.CondFact(func(x ssa.Value) bool {
						bo, ok := x.(*ssa.BinOp)
						if !ok || bo.Op != token.EQL {
							return false
						}
						k, isK := ConstInt(bo.Y)
						cl, isC := bo.X.(*ssa.Call)
						return isK && k == 0 && isC && CallName(cl) == "builtin.len"
					})
					if found && v {
						return "no shards configured"
					}
					return ""
				}
				for _, it := range []inst{
					{"(*proxy/bulk.SeqDBClient).sendBulkToStores", Callee("(*proxy/bulk.shard).Bulk"), "shard.Bulk", lenZero},
					{"(*proxy/bulk.SeqDBClient).StoreDocuments", Callee("(*proxy/bulk.SeqDBClient).storeDocs"), "storeDocs", nil},
				} {
					fn := c.Fn(it.fn)
					if fn == nil {
						continue
					}
					viol, oks, res := SimAck(fn, it.must, it.allow)
					c.Count("paths_simulated", res.Paths)
					if res.Truncated {
						c.Undecided("pathsim:budget:"+it.fn, fn.Pos(), "path budget exceeded while simulating %s", it.fn)
					}
					for _, v := range viol {
						c.Violation("simack:"+it.fn+":"+it.name, v.Ret.Pos(), "%s can report success although %s: %s", it.fn, "the last "+it.name+" did not succeed", v.Why)
					}
					if len(viol) == 0 {
						for r := range oks {
							c.Site(r.Pos(), "%s: every simulated path to this success return ends with a successful %s (%d paths)", it.fn, it.name, res.Paths)
						}
					}
				}
				// storeDocs: two tiers
				if fn := c.Fn("(*proxy/bulk.SeqDBClient).storeDocs"); fn != nil {
					sendM := Callee("(*proxy/bulk.SeqDBClient).sendBulkToStores")
					isTier := func(field string) Matcher {
						return func(cl ssa.CallInstruction) bool {
							return sendM(cl) && DerivesFrom(Arg(cl, 2), func(v ssa.Value) bool {
								return ValueIsField(v, "proxy/bulk.SeqDBClient", field)
							})
						}
					}
					cold, hot := isTier("writeStores"), isTier("hotStores")
					if !Current.HasCall(fn, cold) || !Current.HasCall(fn, hot) {
						c.Undecided("storeDocs:tiers", fn.Pos(), "storeDocs no longer sends to both writeStores and hotStores through sendBulkToStores")
						return
					}
					// hot success is required for success
					AckCheck(c, fn, []Must{{Name: "sendBulkToStores(hot)", M: hot}}, nil)
					// coldWritten = true only under cold err == nil
					for _, in := range InstrsIn(fn, FieldStore("proxy/bulk.bulkWriteStatus", "coldWritten")) {
						st := in.(*ssa.Store)
						if b, ok := ConstBool(st.Val); ok && b {
							if GuardedByNilErr(st, cold) {
								c.Site(st.Pos(), "coldWritten is set only after the cold tier accepted the bulk")
							} else {
								c.Violation("dom:storeDocs:coldWritten-needs-cold-ok", st.Pos(), "coldWritten can be set although the cold tier did not accept the bulk")
							}
						}
					}
					// the hot call is reached only if the cold call succeeded or coldWritten was already set
					for _, h := range CallsIn(fn, hot) {
						facts := FactsAtInstr(h.(ssa.Instruction))
						_ = facts
						okAll := true
						// every path: simulate from entry, at the hot call require cold ok or coldWritten==true fact
						Simulate(fn.Blocks[0].Instrs[0], false, nil, func(st SimState, in ssa.Instruction) bool {
							cl, ok := in.(ssa.CallInstruction)
							if !ok {
								return true
							}
							if cold(cl) {
								st.Tag("cold-called")
								return true
							}
							if hot(cl) && cl == h {
								written, found := st.CondFact(func(x ssa.Value) bool {
									u, ok := x.(*ssa.UnOp)
									return ok && u.Op == token.MUL && IsFieldAddr(u.X, "proxy/bulk.bulkWriteStatus", "coldWritten")
								})
								if found && written {
									return false
								}
								if st.HasTag("cold-called") {
									for _, cc := range CallsIn(fn, cold) {
										if ev := ErrorResult(cc); ev != nil && st.Nilness(ev) == 1 {
											return false
										}
									}
								}
								okAll = false
								return false
							}
							return true
						})
						if okAll {
							c.Site(h.Pos(), "the hot tier is written only after the cold tier accepted the bulk (now or in an earlier attempt)")
						} else {
							c.Violation("order:storeDocs:cold-before-hot", h.Pos(), "the hot tier can be written on a path where the cold tier neither accepted the bulk now nor was marked written before")
						}
					}
				}
			}},
		{Prop: "C09", ID: "C09.8", Engine: "ACK(recover)", Floor: 2,
			Desc:  "a call that panicked is a failed call: every repo function with an error result that recovers from a panic in a deferred closure (and does not panic again) reports it — its error result is a named result and the closure assigns it on the recovered branch; with unnamed results the function returns the zero values after the recovery, i.e. (nil, nil): a store-side panic during Bulk would be taken for an accepted bulk by sendBulkToHost and the replica counted as written",
			Check: func(c *Ctx) { recoveredIsReported(c) }},
		{Prop: "C09", ID: "C09.7", Engine: "PROV", Floor: 1,
			Desc: "the written-bits of one bulk never leak into another: the write status that StoreDocuments hands to storeDocs is created by newBulkWriteStatus inside that call (or, if it comes from somewhere else, is reset on every path before its first use), so a replica or tier that accepted an earlier payload is never skipped for this one",
			Check: func(c *Ctx) {
				fn := c.Fn("(*proxy/bulk.SeqDBClient).StoreDocuments")
				if fn == nil {
					return
				}
				fresh := func(v ssa.Value) bool {
					cl, ok := v.(ssa.CallInstruction)
					return ok && CallName(cl) == "proxy/bulk.newBulkWriteStatus"
				}
				n := 0
				for _, call := range CallsIn(fn, Callee("(*proxy/bulk.SeqDBClient).storeDocs")) {
					for _, a := range call.Common().Args {
						if !strings.HasSuffix(TypeStr(a.Type()), "bulkWriteStatus") {
							continue
						}
						n++
						if c.P.DerivesFromIP(a, fresh) && !DerivesFrom(a, func(v ssa.Value) bool {
							cl, ok := v.(ssa.CallInstruction)
							return ok && (CallName(cl) == "(*sync.Pool).Get" || strings.HasPrefix(CallName(cl), "dynamic"))
						}) {
							c.Site(call.Pos(), "the write status is created for this bulk")
							continue
						}
						// reused object: a reset must precede every use
						resets := CallsIn(fn, func(cl ssa.CallInstruction) bool {
							return strings.Contains(CallName(cl), "bulkWriteStatus).reset") || strings.Contains(CallName(cl), "bulkWriteStatus).Reset")
						})
						okReset := false
						for _, r := range resets {
							if Dominates(r.(ssa.Instruction), call.(ssa.Instruction)) {
								okReset = true
							}
						}
						if !okReset {
							// ... or where it is taken out of the pool: every origin of the value is either created
							// fresh or has reset called on it before the producer returns it
							isReset := func(cl ssa.CallInstruction) bool {
								return strings.Contains(CallName(cl), "bulkWriteStatus).reset") || strings.Contains(CallName(cl), "bulkWriteStatus).Reset")
							}
							all, any := true, false
							for _, o := range c.P.Origins(a, nil, 3, nil) {
								any = true
								if os.Getenv("SEQVERIF_DEBUG") != "" {
									fmt.Fprintf(os.Stderr, "C09.7 origin: %s\n", o.Val.String()) // SEQVERIF_DEBUG=1
								}
								fromPool := DerivesFrom(o.Val, func(v ssa.Value) bool {
									cl, ok := v.(ssa.CallInstruction)
									return ok && (CallName(cl) == "(*sync.Pool).Get" || strings.HasPrefix(CallName(cl), "dynamic"))
								})
								if !fromPool && DerivesFrom(o.Val, fresh) {
									continue
								}
								if al, isAlloc := o.Val.(*ssa.Alloc); isAlloc && al.Heap {
									continue // a new object
								}
								in, isIn := o.Val.(ssa.Instruction)
								if !isIn || in.Parent() == nil {
									all = false
									continue
								}
								host := in.Parent()
								if host == fn {
									// taken from the pool in StoreDocuments itself: only a reset in front of the use counts (checked above)
									all = false
									continue
								}
								okHere := false
								for _, r := range CallsIn(host, isReset) {
									if len(r.Common().Args) == 0 || !SameValue(r.Common().Args[0], o.Val) {
										continue
									}
									dominatesReturns, returned := true, false
									for _, b := range host.Blocks {
										ret, isRet := b.Instrs[len(b.Instrs)-1].(*ssa.Return)
										if !isRet {
											continue
										}
										for _, res := range ret.Results {
											if SameValue(res, o.Val) {
												returned = true
												if !Dominates(r.(ssa.Instruction), ret) {
													dominatesReturns = false
												}
											}
										}
									}
									if dominatesReturns && returned {
										okHere = true
									}
								}
								if !okHere {
									c.Note("write status origin %s in %s is not reset before it is returned", Short(o.Val.String()), FuncName(host))
									all = false
								}
							}
							okReset = any && all
						}
						if okReset {
							c.Site(call.Pos(), "the reused write status is reset before its first use")
						} else {
							c.Violation("prov:StoreDocuments:stale-write-status", call.Pos(), "the write status passed to storeDocs is not created for this bulk and is not reset before use: bits left by an earlier bulk (a failed one returns early) make replicas or the cold tier count as written for this payload")
						}
					}
				}
				if n == 0 {
					c.Undecided("prov:StoreDocuments:no-status", fn.Pos(), "StoreDocuments no longer passes a write status to storeDocs")
				}
			}},
		{Prop: "C09", ID: "C09.6", Engine: "ACK", Floor: 1,
			Desc: "bulk.Ingestor.ProcessDocuments returns success with a non-zero count only under StoreDocuments' err == nil",
			Check: func(c *Ctx) {
				fn := c.Fn("(*proxy/bulk.Ingestor).ProcessDocuments")
				if fn == nil {
					return
				}
				store := Callee("(proxy/bulk.StorageClient).StoreDocuments", "(*proxy/bulk.SeqDBClient).StoreDocuments")
				for _, rp := range ReturnPaths(fn, ErrorResultIndex(fn)) {
					if DefinitelyNonNil(rp.Val, rp.Facts) {
						continue
					}
					cnt := RetOperand(rp.Ret, 0)
					if k, ok := ConstInt(cnt); ok && k == 0 {
						c.Site(rp.Ret.Pos(), "success with count 0 (empty request): nothing is claimed to be stored")
						continue
					}
					// the call itself, or a private helper that succeeds only when the call did (storeBulk)
					if AckOne(rp, CallsIn(fn, c.P.AckCall(store))) {
						c.Site(rp.Ret.Pos(), "non-zero created count is returned only after StoreDocuments returned nil")
					} else {
						c.Violation("ack:ProcessDocuments:StoreDocuments", rp.Ret.Pos(), "ProcessDocuments can report documents as created without a successful StoreDocuments")
					}
				}
			}},
	}
}

// recoveredIsReported: rule body of C09.8.
func recoveredIsReported(c *Ctx) {
	isRecover := func(cl ssa.CallInstruction) bool { return CallName(cl) == "builtin.recover" }
	n := 0
	for _, fn := range c.P.Funcs {
		if !c.P.InRepo(fn) || fn.Blocks == nil {
			continue
		}
		ei := ErrorResultIndex(fn)
		if ei < 0 {
			continue
		}
		for _, d := range InstrsIn(fn, func(in ssa.Instruction) bool { _, ok := in.(*ssa.Defer); return ok }) {
			df := d.(*ssa.Defer)
			mc, ok := df.Call.Value.(*ssa.MakeClosure)
			if !ok {
				continue
			}
			clo, _ := mc.Fn.(*ssa.Function)
			if clo == nil || len(CallsIn(clo, isRecover)) == 0 {
				continue
			}
			repanics := false
			for _, b := range clo.Blocks {
				if _, isPanic := b.Instrs[len(b.Instrs)-1].(*ssa.Panic); isPanic {
					repanics = true
				}
			}
			if repanics {
				continue
			}
			n++
			// the error operand of the return that follows a recovered panic
			var named *ssa.Alloc
			if fn.Recover != nil {
				if ret, ok := fn.Recover.Instrs[len(fn.Recover.Instrs)-1].(*ssa.Return); ok && ei < len(ret.Results) {
					if ld, ok := ret.Results[ei].(*ssa.UnOp); ok {
						named, _ = ld.X.(*ssa.Alloc)
					}
				}
			}
			if named == nil {
				c.Violation("ack:recover:unnamed-result:"+FuncName(fn), df.Pos(), "%s recovers from a panic but its error result is not a named result: after the recovery it returns the zero values (a nil error), whatever the deferred closure assigns to its own variable", FuncName(fn))
				continue
			}
			// the closure assigns that result (a captured variable) a non-nil error
			assigned := false
			for i, fv := range clo.FreeVars {
				if i >= len(mc.Bindings) || mc.Bindings[i] != ssa.Value(named) {
					continue
				}
				for _, r := range *fv.Referrers() {
					if st, ok := r.(*ssa.Store); ok && st.Addr == ssa.Value(fv) && !IsNilConst(st.Val) {
						assigned = true
					}
				}
			}
			if assigned {
				c.Site(df.Pos(), "%s: the recovered panic is returned through the named error result", FuncName(fn))
			} else {
				c.Violation("ack:recover:not-assigned:"+FuncName(fn), df.Pos(), "%s recovers from a panic but the deferred closure does not assign the function's error result: the caller sees success", FuncName(fn))
			}
		}
	}
	if n == 0 {
		c.Undecided("ack:recover:none", 0, "no recovering function with an error result found (fracSearch, fracFetch and the gRPC interceptors used to be)")
	}
}

// noUseAfterPut: rule body of C09.9 (repository-wide).
func noUseAfterPut(c *Ctx) {
	poolPut := Callee("(*sync.Pool).Put")
	// release functions: repo functions that hand one of their parameters to a pool (directly or one level down)
	type rel struct{ param int }
	releases := map[*ssa.Function]rel{}
	for pass := 0; pass < 2; pass++ {
		for _, fn := range c.P.Funcs {
			if !c.P.InRepo(fn) || fn.Blocks == nil || fn.Parent() != nil {
				continue
			}
			if _, done := releases[fn]; done {
				continue
			}
			for _, call := range CallsIn(fn, nil) {
				if _, isDefer := call.(*ssa.Defer); isDefer {
					continue
				}
				var handed ssa.Value
				if poolPut(call) {
					handed = Arg(call, 0)
				} else if h := StaticCallee(call); h != nil {
					if r, ok := releases[h]; ok && r.param < len(call.Common().Args) {
						handed = call.Common().Args[r.param]
					}
				}
				if handed == nil {
					continue
				}
				if mi, ok := handed.(*ssa.MakeInterface); ok {
					handed = mi.X
				}
				for pi, prm := range fn.Params {
					if handed == ssa.Value(prm) {
						releases[fn] = rel{pi}
					}
				}
			}
		}
	}
	n := 0
	for _, fn := range c.P.Funcs {
		if !c.P.InRepo(fn) || fn.Blocks == nil {
			continue
		}
		if _, isRel := releases[fn]; isRel {
			continue
		}
		for _, call := range CallsIn(fn, nil) {
			if _, isDefer := call.(*ssa.Defer); isDefer {
				continue
			}
			var handed ssa.Value
			if poolPut(call) {
				handed = Arg(call, 0)
			} else if h := StaticCallee(call); h != nil {
				if r, ok := releases[h]; ok && r.param < len(call.Common().Args) {
					handed = call.Common().Args[r.param]
				}
			}
			if handed == nil {
				continue
			}
			if mi, ok := handed.(*ssa.MakeInterface); ok {
				handed = mi.X
			}
			if handed.Referrers() == nil {
				continue
			}
			n++
			var later ssa.Instruction
			for _, r := range *handed.Referrers() {
				if r == call.(ssa.Instruction) || r.Parent() != fn {
					continue
				}
				if _, isDbg := r.(*ssa.DebugRef); isDbg {
					continue
				}
				if followsWithoutRedefinition(call.(ssa.Instruction), r, handed) {
					// handing the same object back again on another iteration of a loop is the same event, not a use
					if cl, ok := r.(ssa.CallInstruction); ok && (poolPut(cl) || func() bool { _, isR := releases[StaticCallee(cl)]; return isR }()) {
						continue
					}
					later = r
				}
			}
			if later == nil {
				c.Site(call.Pos(), "%s: nothing uses the object after it went back to its pool", FuncName(fn))
			} else {
				c.Violation("typestate:use-after-put:"+FuncName(fn)+":"+CallName(call), later.Pos(), "%s uses an object after handing it back to its pool with %s (the hand-back is not deferred): whoever takes it from the pool meanwhile shares it", FuncName(fn), CallName(call))
			}
		}
	}
	if n == 0 {
		c.Undecided("typestate:use-after-put:none", 0, "no non-deferred hand-back to a pool found")
	}
}

// followsWithoutRedefinition: instruction to can run after from on a path that does not pass the definition of v
// again (a value defined inside a loop body is a new object on every iteration).
func followsWithoutRedefinition(from, to ssa.Instruction, v ssa.Value) bool {
	var defBlock *ssa.BasicBlock
	if in, ok := v.(ssa.Instruction); ok {
		defBlock = in.Block()
	}
	pos := func(in ssa.Instruction) int {
		for i, x := range in.Block().Instrs {
			if x == in {
				return i
			}
		}
		return -1
	}
	if from.Block() == to.Block() && pos(to) > pos(from) {
		return true
	}
	seen := map[*ssa.BasicBlock]bool{}
	work := append([]*ssa.BasicBlock{}, from.Block().Succs...)
	for len(work) > 0 {
		b := work[len(work)-1]
		work = work[:len(work)-1]
		if seen[b] || b == defBlock {
			continue
		}
		seen[b] = true
		if b == to.Block() {
			return true
		}
		work = append(work, b.Succs...)
	}
	return false
}
