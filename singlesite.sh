#!/bin/bash
# usage: singlesite.sh seed...  — applies each single-site half of a two-site seed to /repo and runs all properties: must be silent
cd /repo
for s in "$@"; do
  for k in 1 2; do
    p=/tmp/mut/hunks_$s.h$k.diff
    [ -f $p ] || continue
    git apply $p 2>/dev/null || { echo "$s h$k: no apply"; continue; }
    out=$(cd /verif && VERIF_NOWRITE=1 bin/seqverif -n -property all -repo /repo -verif /verif 2>&1)
    git checkout -q -- . ; git clean -fdq
    if ! echo "$out" | grep -q "^C20: obligations="; then echo "$s h$k: ANALYSIS DID NOT RUN: $(echo "$out" | tail -1 | cut -c1-150)"; continue; fi
    echo "$s h$k: $(echo "$out" | grep -E '^\s+(VIOLATED|UNDECIDED)' | grep -oE 'C[0-9]+\.[0-9a-z]+\|[^ ]+' | sort -u | tr '\n' ' ')"
  done
done
